import SFV.Model.HwCompile

/-!
# X-series template (C12): facts about the mesh lists that hold for every size.  Core Lean only.
-/
namespace SFV.Hw

theorem compiledMZ_adjacent {N p : Nat} (h : p ∈ compiledMZ N) : p + 1 < N := by
  simp only [compiledMZ, tilist, tlist, colSweep, rowSweep, List.mem_append, List.mem_reverse,
    List.mem_flatMap, List.mem_range] at h
  rcases h with ⟨k, hk, hp⟩ | ⟨k, hk, hp⟩
  · by_cases he : k % 2 = 0
    · simp only [he, if_true, List.mem_map, List.mem_range] at hp
      obtain ⟨l, _, rfl⟩ := hp
      omega
    · simp [he] at hp
  · by_cases he : k % 2 = 1
    · simp only [he, if_true, List.mem_map, List.mem_range] at hp
      obtain ⟨l, _, rfl⟩ := hp
      omega
    · simp [he] at hp

theorem layoutMZ_adjacent {N p : Nat} (h : p ∈ layoutMZ N) : p + 1 < N := by
  simp only [layoutMZ, layer, List.mem_flatMap, List.mem_range, List.mem_filter] at h
  obtain ⟨_, _, hp, _⟩ := h
  omega

/-- every layer position `(l, p)` of the rectangular mesh — `l < N`, `p + 1 < N`, `p ≡ l (mod 2)` — is hit by the
symmetric decomposition: by the column sweep `k = l + p` when `l + p ≤ N - 2`, else by the row sweep
`k = 2N - 3 - l - p` -/
theorem compiledMZ_covers {N l p : Nat} (hl : l < N) (hp : p + 1 < N) (hpar : p % 2 = l % 2) :
    (∃ k, k < N - 1 ∧ k % 2 = 0 ∧ p ∈ colSweep k ∧ k = l + p) ∨
    (∃ k, k < N - 1 ∧ k % 2 = 1 ∧ p ∈ rowSweep N k ∧ k + l + p + 3 = 2 * N) := by
  by_cases h : l + p + 2 ≤ N
  · refine Or.inl ⟨l + p, by omega, by omega, ?_, rfl⟩
    simp only [colSweep, List.mem_map, List.mem_range]
    exact ⟨l, by omega, by omega⟩
  · refine Or.inr ⟨2 * N - 3 - l - p, by omega, by omega, ?_, by omega⟩
    simp only [rowSweep, List.mem_map, List.mem_range]
    exact ⟨N - 1 - l, by omega, by omega⟩

theorem xCompiled_parts (N : Nat) (o : List Nat) :
    xCompiled N o = o.map (s2Sk N) ++ ((compiledMZ N).map (mzSk 0) ++ (List.range N).map (fun i => rSk (i + 0)))
      ++ ((compiledMZ N).map (mzSk N) ++ (List.range N).map (fun i => rSk (i + N))) ++ [measSk (2 * N)] := rfl

/-! ## the full conformance proof: layer tags, per-wire sortedness, equal membership -/

/-- two lists sorted by an irreflexive, asymmetric relation with the same members are equal -/
theorem sorted_ext {α : Type} {R : α → α → Prop} (irr : ∀ a, ¬ R a a) (asy : ∀ a b, R a b → ¬ R b a) :
    ∀ (l1 l2 : List α), l1.Pairwise R → l2.Pairwise R → (∀ a, a ∈ l1 ↔ a ∈ l2) → l1 = l2 := by
  intro l1
  induction l1 with
  | nil =>
    intro l2 _ _ h
    cases l2 with
    | nil => rfl
    | cons b bs => exact absurd ((h b).2 List.mem_cons_self) (by simp)
  | cons a as ih =>
    intro l2 h1 h2 h
    cases l2 with
    | nil => exact absurd ((h a).1 List.mem_cons_self) (by simp)
    | cons b bs =>
      rw [List.pairwise_cons] at h1 h2
      have hab : a = b := by
        rcases List.mem_cons.1 ((h a).1 List.mem_cons_self) with e | ha
        · exact e
        · rcases List.mem_cons.1 ((h b).2 List.mem_cons_self) with e | hb
          · exact e.symm
          · exact absurd (h1.1 b hb) (asy _ _ (h2.1 a ha))
      subst hab
      congr 1
      apply ih bs h1.2 h2.2
      intro x
      constructor
      · intro hx
        rcases List.mem_cons.1 ((h x).1 (List.mem_cons_of_mem _ hx)) with e | hx'
        · subst e; exact absurd (h1.1 x hx) (irr x)
        · exact hx'
      · intro hx
        rcases List.mem_cons.1 ((h x).2 (List.mem_cons_of_mem _ hx)) with e | hx'
        · subst e; exact absurd (h2.1 x hx) (irr x)
        · exact hx'

/-- layout mesh with layer tags `(layer, first mode)` -/
def layoutT (N : Nat) : List (Nat × Nat) :=
  (List.range N).flatMap fun l => (layer N l).map fun p => (l, p)

/-- column sweeps: the gate `k - l` of the sweep of the even diagonal `k` sits in layer `l` -/
def tiT (N : Nat) : List (Nat × Nat) :=
  (List.range (N - 1)).flatMap fun k => if k % 2 = 0 then (List.range (k + 1)).map (fun l => (l, k - l)) else []

/-- reversed row sweeps: odd diagonals from the last to the first, each from its last gate to its first;
the gate `N-2-i` sits in layer `N-1-k+i` -/
def trT (N : Nat) : List (Nat × Nat) :=
  (List.range (N - 1)).reverse.flatMap fun k =>
    if k % 2 = 1 then (List.range (k + 1)).map (fun i => (N - 1 - k + i, N - 2 - i)) else []

def compiledT (N : Nat) : List (Nat × Nat) := tiT N ++ trT N

theorem layoutT_snd (N : Nat) : (layoutT N).map Prod.snd = layoutMZ N := by
  simp [layoutT, layoutMZ, List.map_flatMap, Function.comp_def]

theorem tiT_snd (N : Nat) : (tiT N).map Prod.snd = tilist N := by
  simp only [tiT, tilist, List.map_flatMap, colSweep]
  congr 1
  funext k
  split <;> simp [Function.comp_def]

theorem range_reverse_map (n : Nat) (f : Nat → Nat) :
    ((List.range n).map f).reverse = (List.range n).map fun i => f (n - 1 - i) := by
  apply List.ext_getElem
  · simp
  · intro i h1 h2
    simp only [List.length_reverse, List.length_map, List.length_range] at h1
    simp [List.getElem_reverse]

theorem flatMap_congr' {α β : Type} {l : List α} {f g : α → List β} (h : ∀ a ∈ l, f a = g a) :
    l.flatMap f = l.flatMap g := by
  induction l with
  | nil => rfl
  | cons a as ih =>
    simp only [List.flatMap_cons]
    rw [h a List.mem_cons_self, ih fun b hb => h b (List.mem_cons_of_mem _ hb)]

theorem trT_snd (N : Nat) : (trT N).map Prod.snd = (tlist N).reverse := by
  simp only [trT, tlist, List.map_flatMap, List.reverse_flatMap]
  apply flatMap_congr'
  intro k hk
  simp only [List.mem_reverse, List.mem_range] at hk
  simp only [Function.comp_apply]
  split
  · simp only [rowSweep, range_reverse_map, List.map_map]
    apply List.map_congr_left
    intro i hi
    simp only [List.mem_range] at hi
    simp only [Function.comp_apply]
    omega
  · simp

theorem compiledT_snd (N : Nat) : (compiledT N).map Prod.snd = compiledMZ N := by
  simp [compiledT, compiledMZ, tiT_snd, trT_snd]

/-! ### membership -/

theorem mem_layoutT {N l p : Nat} : (l, p) ∈ layoutT N ↔ l < N ∧ p + 1 < N ∧ p % 2 = l % 2 := by
  simp only [layoutT, layer, List.mem_flatMap, List.mem_range, List.mem_map, List.mem_filter,
    decide_eq_true_eq, Prod.mk.injEq]
  constructor
  · rintro ⟨l', hl', p', ⟨hp', hpar⟩, rfl, rfl⟩
    exact ⟨hl', by omega, hpar⟩
  · rintro ⟨hl, hp, hpar⟩
    exact ⟨l, hl, p, ⟨by omega, hpar⟩, rfl, rfl⟩

theorem mem_tiT {N l p : Nat} : (l, p) ∈ tiT N ↔ ∃ k, k < N - 1 ∧ k % 2 = 0 ∧ l ≤ k ∧ p = k - l := by
  simp only [tiT, List.mem_flatMap, List.mem_range]
  constructor
  · rintro ⟨k, hk, hx⟩
    by_cases he : k % 2 = 0
    · simp only [he, if_true, List.mem_map, List.mem_range, Prod.mk.injEq] at hx
      obtain ⟨l', hl', rfl, rfl⟩ := hx
      exact ⟨k, hk, he, by omega, rfl⟩
    · simp [he] at hx
  · rintro ⟨k, hk, he, hl, rfl⟩
    refine ⟨k, hk, ?_⟩
    simp only [he, if_true, List.mem_map, List.mem_range, Prod.mk.injEq]
    exact ⟨l, by omega, rfl, rfl⟩

theorem mem_trT {N l p : Nat} :
    (l, p) ∈ trT N ↔ ∃ k, k < N - 1 ∧ k % 2 = 1 ∧ ∃ i, i ≤ k ∧ l = N - 1 - k + i ∧ p = N - 2 - i := by
  simp only [trT, List.mem_flatMap, List.mem_reverse, List.mem_range]
  constructor
  · rintro ⟨k, hk, hx⟩
    by_cases he : k % 2 = 1
    · simp only [he, if_true, List.mem_map, List.mem_range, Prod.mk.injEq] at hx
      obtain ⟨i, hi, rfl, rfl⟩ := hx
      exact ⟨k, hk, he, i, by omega, rfl, rfl⟩
    · simp [he] at hx
  · rintro ⟨k, hk, he, i, hi, rfl, rfl⟩
    refine ⟨k, hk, ?_⟩
    simp only [he, if_true, List.mem_map, List.mem_range, Prod.mk.injEq]
    exact ⟨i, by omega, rfl, rfl⟩

/-- the symmetric decomposition emits exactly the gates of the layered mesh (as tagged positions) -/
theorem mem_compiledT_iff (N : Nat) (x : Nat × Nat) : x ∈ compiledT N ↔ x ∈ layoutT N := by
  obtain ⟨l, p⟩ := x
  rw [compiledT, List.mem_append, mem_tiT, mem_trT, mem_layoutT]
  constructor
  · rintro (⟨k, hk, he, hl, rfl⟩ | ⟨k, hk, he, i, hi, rfl, rfl⟩)
    · exact ⟨by omega, by omega, by omega⟩
    · exact ⟨by omega, by omega, by omega⟩
  · rintro ⟨hl, hp, hpar⟩
    by_cases h : l + p + 2 ≤ N
    · exact Or.inl ⟨l + p, by omega, by omega, by omega, by omega⟩
    · exact Or.inr ⟨2 * N - 3 - l - p, by omega, by omega, N - 2 - p, by omega, by omega, by omega⟩

/-! ### per-wire order -/

/-- the gate `(p, p+1)` touches wire `w` -/
def touch (w : Nat) (x : Nat × Nat) : Bool := decide (x.2 = w ∨ x.2 + 1 = w)

/-- on one wire, earlier means strictly lower layer -/
def WOrd (w : Nat) (x y : Nat × Nat) : Prop := touch w x = true → touch w y = true → x.1 < y.1

theorem layoutT_wire_sorted (N w : Nat) : (layoutT N).Pairwise (WOrd w) := by
  rw [layoutT, List.pairwise_flatMap]
  constructor
  · intro l _
    rw [List.pairwise_map]
    apply List.Pairwise.imp _ (List.Pairwise.and_mem.1 (List.Pairwise.filter _ List.pairwise_lt_range))
    intro p1 p2 ⟨h1, h2, hlt⟩
    -- same layer, different gates: they cannot both touch the wire (parity)
    simp only [layer, List.mem_filter, decide_eq_true_eq] at h1 h2
    intro t1 t2
    simp only [touch, decide_eq_true_eq] at t1 t2
    omega
  · apply List.Pairwise.imp _ List.pairwise_lt_range
    intro l1 l2 hlt x hx y hy
    simp only [List.mem_map] at hx hy
    obtain ⟨p1, _, rfl⟩ := hx
    obtain ⟨p2, _, rfl⟩ := hy
    intro _ _
    exact hlt

theorem tiT_wire_sorted (N w : Nat) : (tiT N).Pairwise (WOrd w) := by
  rw [tiT, List.pairwise_flatMap]
  constructor
  · intro k _
    split
    · rw [List.pairwise_map]
      apply List.Pairwise.imp _ List.pairwise_lt_range
      intro l1 l2 hlt _ _
      exact hlt
    · exact List.Pairwise.nil
  · apply List.Pairwise.imp _ List.pairwise_lt_range
    intro k1 k2 hlt x hx y hy
    by_cases h1 : k1 % 2 = 0
    · by_cases h2 : k2 % 2 = 0
      · simp only [h1, h2, if_true, List.mem_map, List.mem_range] at hx hy
        obtain ⟨l1, hl1, rfl⟩ := hx
        obtain ⟨l2, hl2, rfl⟩ := hy
        intro t1 t2
        simp only [touch, decide_eq_true_eq] at t1 t2
        show l1 < l2
        omega
      · simp [h2] at hy
    · simp [h1] at hx

theorem trT_wire_sorted (N w : Nat) : (trT N).Pairwise (WOrd w) := by
  rw [trT, List.pairwise_flatMap]
  constructor
  · intro k _
    split
    · rw [List.pairwise_map]
      apply List.Pairwise.imp _ List.pairwise_lt_range
      intro i1 i2 hlt _ _
      show N - 1 - k + i1 < N - 1 - k + i2
      omega
    · exact List.Pairwise.nil
  · rw [List.pairwise_reverse]
    apply List.Pairwise.imp _ (List.Pairwise.and_mem.1 List.pairwise_lt_range)
    intro k2 k1 ⟨hm2, hm1, hlt⟩ x hx y hy
    simp only [List.mem_range] at hm1 hm2
    by_cases h1 : k1 % 2 = 1
    · by_cases h2 : k2 % 2 = 1
      · simp only [h1, h2, if_true, List.mem_map, List.mem_range] at hx hy
        obtain ⟨i1, hi1, rfl⟩ := hx
        obtain ⟨i2, hi2, rfl⟩ := hy
        intro t1 t2
        simp only [touch, decide_eq_true_eq] at t1 t2
        show N - 1 - k1 + i1 < N - 1 - k2 + i2
        omega
      · simp [h2] at hy
    · simp [h1] at hx

theorem compiledT_wire_sorted (N w : Nat) : (compiledT N).Pairwise (WOrd w) := by
  rw [compiledT, List.pairwise_append]
  refine ⟨tiT_wire_sorted N w, trT_wire_sorted N w, ?_⟩
  rintro ⟨l1, p1⟩ hx ⟨l2, p2⟩ hy t1 t2
  obtain ⟨k1, hk1, he1, hl1, rfl⟩ := mem_tiT.1 hx
  obtain ⟨k2, hk2, he2, i, hi, rfl, rfl⟩ := mem_trT.1 hy
  simp only [touch, decide_eq_true_eq] at t1 t2
  show l1 < N - 1 - k2 + i
  omega

/-- **the combinatorial core**: on every wire the tagged gate sequences agree -/
theorem tagged_wire_eq (N w : Nat) : (compiledT N).filter (touch w) = (layoutT N).filter (touch w) := by
  apply sorted_ext (R := fun x y : Nat × Nat => x.1 < y.1) (fun a => Nat.lt_irrefl _)
    (fun a b h => Nat.lt_asymm h)
  · exact List.pairwise_filter.2 (compiledT_wire_sorted N w)
  · exact List.pairwise_filter.2 (layoutT_wire_sorted N w)
  · intro a
    simp only [List.mem_filter, mem_compiledT_iff]

/-- first modes of the gates touching wire `w` -/
def touchP (w p : Nat) : Bool := decide (p = w ∨ p + 1 = w)

theorem mesh_wire_eq (N w : Nat) : (compiledMZ N).filter (touchP w) = (layoutMZ N).filter (touchP w) := by
  rw [← compiledT_snd, ← layoutT_snd, List.filter_map, List.filter_map]
  have : (touchP w ∘ Prod.snd) = touch w := by
    funext x
    rfl
  rw [this, tagged_wire_eq]

/-! ### lifting to the command skeleton -/

theorem filter_unique {l : List Nat} (hn : l.Nodup) {q : Nat → Bool} {a : Nat} (ha : a ∈ l) (hq : q a = true)
    (hu : ∀ j ∈ l, q j = true → j = a) : l.filter q = [a] := by
  induction l with
  | nil => simp at ha
  | cons x xs ih =>
    rw [List.nodup_cons] at hn
    by_cases hx : x = a
    · subst hx
      have : xs.filter q = [] := by
        apply List.filter_eq_nil_iff.2
        intro j hj hqj
        have := hu j (List.mem_cons_of_mem _ hj) hqj
        exact hn.1 (this ▸ hj)
      simp [List.filter_cons, hq, this]
    · have hax : a ∈ xs := by
        rcases List.mem_cons.1 ha with e | h
        · exact absurd e.symm hx
        · exact h
      have hqx : q x = false := by
        cases hqx : q x with
        | false => rfl
        | true => exact absurd (hu x List.mem_cons_self hqx) hx
      simp only [List.filter_cons, hqx, Bool.false_eq_true, if_false]
      exact ih hn.2 hax fun j hj => hu j (List.mem_cons_of_mem _ hj)

/-- the command acts on wire `w` -/
def cw (w : Nat) (c : Sk) : Bool := c.modes.contains w

theorem s2_wire (N w : Nat) (o : List Nat) (hn : o.Nodup) (hm : ∀ i, i ∈ o ↔ i < N) :
    (o.map (s2Sk N)).filter (cw w) =
      if w < N then [s2Sk N w] else if w < 2 * N then [s2Sk N (w - N)] else [] := by
  rw [List.filter_map]
  have hq : ∀ i, (cw w ∘ s2Sk N) i = decide (i = w ∨ i + N = w) := by
    intro i
    simp only [Function.comp_apply, cw, s2Sk, List.contains_cons, List.contains_nil, Bool.or_false]
    rw [Bool.eq_iff_iff]
    simp only [Bool.or_eq_true, beq_iff_eq, decide_eq_true_eq]
    omega
  rw [List.filter_congr (fun i _ => hq i)]
  by_cases h1 : w < N
  · rw [if_pos h1, filter_unique hn ((hm w).2 h1) (by simp)]
    · rfl
    · intro j hj hqj
      have := (hm j).1 hj
      simp only [decide_eq_true_eq] at hqj
      omega
  · rw [if_neg h1]
    by_cases h2 : w < 2 * N
    · rw [if_pos h2, filter_unique hn ((hm (w - N)).2 (by omega)) (by simp; omega)]
      · rfl
      · intro j hj hqj
        have := (hm j).1 hj
        simp only [decide_eq_true_eq] at hqj
        omega
    · rw [if_neg h2]
      have : o.filter (fun i => decide (i = w ∨ i + N = w)) = [] := by
        apply List.filter_eq_nil_iff.2
        intro j hj
        have := (hm j).1 hj
        simp only [decide_eq_true_eq]
        omega
      rw [this]
      rfl

theorem mz_wire (w off : Nat) (M : List Nat) :
    (M.map (mzSk off)).filter (cw w) =
      if off ≤ w then (M.filter (touchP (w - off))).map (mzSk off) else [] := by
  rw [List.filter_map]
  have hq : ∀ p, (cw w ∘ mzSk off) p = decide (p + off = w ∨ p + 1 + off = w) := by
    intro p
    simp only [Function.comp_apply, cw, mzSk, List.contains_cons, List.contains_nil, Bool.or_false]
    rw [Bool.eq_iff_iff]
    simp only [Bool.or_eq_true, beq_iff_eq, decide_eq_true_eq]
    omega
  rw [List.filter_congr (fun p _ => hq p)]
  by_cases h : off ≤ w
  · rw [if_pos h]
    congr 1
    apply List.filter_congr
    intro p _
    simp only [touchP]
    rw [Bool.eq_iff_iff]
    simp only [decide_eq_true_eq]
    omega
  · rw [if_neg h]
    have : M.filter (fun p => decide (p + off = w ∨ p + 1 + off = w)) = [] := by
      apply List.filter_eq_nil_iff.2
      intro p _
      simp only [decide_eq_true_eq]
      omega
    rw [this]
    rfl

theorem touchP_out_of_range {N w : Nat} {M : List Nat} (hadj : ∀ p ∈ M, p + 1 < N) (hw : N ≤ w) :
    M.filter (touchP w) = [] := by
  apply List.filter_eq_nil_iff.2
  intro p hp
  have := hadj p hp
  simp only [touchP, decide_eq_true_eq]
  omega

theorem r_wire (n w off : Nat) :
    ((List.range n).map (fun i => rSk (i + off))).filter (cw w) =
      if off ≤ w ∧ w < off + n then [rSk w] else [] := by
  rw [List.filter_map]
  have hq : ∀ i, (cw w ∘ fun i => rSk (i + off)) i = decide (i + off = w) := by
    intro i
    simp only [Function.comp_apply, cw, rSk, List.contains_cons, List.contains_nil, Bool.or_false]
    rw [Bool.eq_iff_iff]
    simp only [beq_iff_eq, decide_eq_true_eq]
    omega
  rw [List.filter_congr (fun i _ => hq i)]
  by_cases h : off ≤ w ∧ w < off + n
  · rw [if_pos h, filter_unique List.nodup_range (a := w - off) (by simp; omega) (by simp; omega)]
    · simp only [List.map_cons, List.map_nil]
      congr 2
      omega
    · intro j _ hqj
      simp only [decide_eq_true_eq] at hqj
      omega
  · rw [if_neg h]
    have : (List.range n).filter (fun i => decide (i + off = w)) = [] := by
      apply List.filter_eq_nil_iff.2
      intro j hj
      simp only [List.mem_range] at hj
      simp only [decide_eq_true_eq]
      omega
    rw [this]
    rfl

theorem meas_wire (n w : Nat) : [measSk n].filter (cw w) = if w < n then [measSk n] else [] := by
  by_cases h : w < n
  · simp [cw, measSk, h]
  · simp [cw, measSk, h]

theorem onWire_eq_filter (w : Nat) (l : List Sk) : onWire w l = l.filter (cw w) := rfl

/-- **template conformance**: on every wire the emitted circuit carries the same commands on the same modes
in the same order as the device layout -/
theorem xCompiled_wire_eq (N w : Nat) (o : List Nat) (hn : o.Nodup) (hm : ∀ i, i ∈ o ↔ i < N) :
    onWire w (xCompiled N o) = onWire w (xLayout N) := by
  have hr : (List.range (2 * N)).map rSk = (List.range (2 * N)).map (fun i => rSk (i + 0)) := by simp
  have hmem : ∀ i, i ∈ List.range N ↔ i < N := fun i => List.mem_range
  simp only [onWire_eq_filter, xCompiled_parts, xLayout, hr, List.filter_append, s2_wire N w o hn hm,
    s2_wire N w (List.range N) List.nodup_range hmem, mz_wire, r_wire, meas_wire, mesh_wire_eq]
  by_cases h1 : w < N
  · have h2 : ¬ N ≤ w := by omega
    have h3 : w < 2 * N := by omega
    have h4 : w < 0 + N := by omega
    have h5 : w < 0 + 2 * N := by omega
    have h6 : ¬ (N ≤ w ∧ w < N + N) := by omega
    simp [h1, h2, h3, h4, h5, h6]
  · have h2 : N ≤ w := by omega
    have e1 : (layoutMZ N).filter (touchP w) = [] := touchP_out_of_range (fun p hp => layoutMZ_adjacent hp) h2
    by_cases h3 : w < 2 * N
    · have h4 : ¬ w < 0 + N := by omega
      have h5 : w < 0 + 2 * N := by omega
      have h6 : N ≤ w ∧ w < N + N := ⟨h2, by omega⟩
      simp [h1, h2, h3, h4, h5, h6, e1]
    · have h4 : ¬ w < 0 + N := by omega
      have h5 : ¬ w < 0 + 2 * N := by omega
      have h6 : ¬ (N ≤ w ∧ w < N + N) := by omega
      have e2 : (layoutMZ N).filter (touchP (w - N)) = [] :=
        touchP_out_of_range (fun p hp => layoutMZ_adjacent hp) (by omega)
      simp [h1, h2, h3, h4, h5, h6, e1, e2]
      omega

end SFV.Hw
