import SFV.Proofs.AppsClique
import Mathlib.Data.List.Perm.Subperm
/-! `clique.search`: the model's recursion is a run of documented rounds (grow, then swap, both with the
SAME selection rule), so the per-call theorems `grow_spec` / `swap_spec` / `growCands_spec` /
`swapCands_spec` apply to every round. -/
namespace SFV.Apps

theorem shiftPick_lawful {pick : Pick} (hp : Lawful pick) (k : Nat) : Lawful (shiftPick pick k) :=
  fun s n hn => hp (s + k) n hn

/-- one documented round: `grow` then `swap`, both under the selection rule `sel`, for some lawful
sequences of random choices -/
def SearchRound (g : Graph) (sel : Sel) (C G S : List Nat) : Prop :=
  ∃ p1 p2 : Pick, Lawful p1 ∧ Lawful p2 ∧ grow g C sel p1 = .ok G ∧ swap g G sel p2 = .ok S

/-- a documented run with a budget of `it` rounds: stop as soon as a round changes nothing or the
budget is used up, otherwise continue from the swapped clique — with the same `sel` in every round -/
inductive SearchRun (g : Graph) (sel : Sel) : Nat → List Nat → List Nat → Prop
  | stop {it : Nat} {C G S : List Nat} : SearchRound g sel C G S → (setEq G S = true ∨ it = 0) →
      SearchRun g sel (it + 1) C S
  | next {it : Nat} {C G S R : List Nat} : SearchRound g sel C G S → setEq G S = false → it ≠ 0 →
      SearchRun g sel it S R → SearchRun g sel (it + 1) C R

theorem cliqueSearchLoop_succ (g : Graph) (sel : Sel) (pick : Pick) (it step : Nat) (C : List Nat) :
    cliqueSearchLoop g sel pick (it + 1) step C =
      match grow g C sel (shiftPick pick step) with
      | .error e => .error e
      | .ok grown =>
        match swap g grown sel (shiftPick pick (step + (grown.length - (distinct C).length))) with
        | .error e => .error e
        | .ok swapped =>
          if setEq grown swapped || it == 0 then .ok swapped
          else cliqueSearchLoop g sel pick it
            (step + (grown.length - (distinct C).length) +
              (if (c1 g (distinct grown)).isEmpty then 0 else 1)) swapped := rfl

theorem cliqueSearchLoop_run {g : Graph} {sel : Sel} {pick : Pick} (hp : Lawful pick) :
    ∀ (it step : Nat) (C r : List Nat),
      cliqueSearchLoop g sel pick (it + 1) step C = .ok r → SearchRun g sel (it + 1) C r := by
  intro it
  induction it with
  | zero =>
    intro step C r h
    rw [cliqueSearchLoop_succ] at h
    cases hg : grow g C sel (shiftPick pick step) with
    | error e => rw [hg] at h; exact absurd h (by simp)
    | ok grown =>
      rw [hg] at h
      dsimp only at h
      cases hsw : swap g grown sel (shiftPick pick (step + (grown.length - (distinct C).length))) with
      | error e => rw [hsw] at h; exact absurd h (by simp)
      | ok swapped =>
        rw [hsw] at h
        simp only [BEq.rfl, Bool.or_true, if_true, Except.ok.injEq] at h
        subst h
        exact .stop ⟨_, _, shiftPick_lawful hp _, shiftPick_lawful hp _, hg, hsw⟩ (Or.inr rfl)
  | succ it ih =>
    intro step C r h
    rw [cliqueSearchLoop_succ] at h
    cases hg : grow g C sel (shiftPick pick step) with
    | error e => rw [hg] at h; exact absurd h (by simp)
    | ok grown =>
      rw [hg] at h
      dsimp only at h
      cases hsw : swap g grown sel (shiftPick pick (step + (grown.length - (distinct C).length))) with
      | error e => rw [hsw] at h; exact absurd h (by simp)
      | ok swapped =>
        rw [hsw] at h
        dsimp only at h
        have hround : SearchRound g sel C grown swapped :=
          ⟨_, _, shiftPick_lawful hp _, shiftPick_lawful hp _, hg, hsw⟩
        by_cases hse : setEq grown swapped = true
        · simp only [hse, Bool.true_or, if_true, Except.ok.injEq] at h
          subst h
          exact .stop hround (Or.inl hse)
        · have hse' : setEq grown swapped = false := by simpa using hse
          have hne : (it + 1 == 0) = false := by simp
          simp only [hse', hne, Bool.or_self, Bool.false_eq_true, if_false] at h
          exact .next hround hse' (by omega) (ih _ _ _ h)

/-- **refinement**: a successful `clique.search` is a documented run with the caller's `sel` in every round -/
theorem cliqueSearch_run {g : Graph} {sel : Sel} {pick : Pick} (hp : Lawful pick) {clique r : List Nat}
    {it : Nat} (h : cliqueSearch g clique it sel pick = .ok r) : 1 ≤ it ∧ SearchRun g sel it clique r := by
  unfold cliqueSearch at h
  split at h
  · exact absurd h (by simp)
  · rename_i hit
    obtain ⟨k, rfl⟩ : ∃ k, it = k + 1 := ⟨it - 1, by omega⟩
    exact ⟨by omega, cliqueSearchLoop_run hp k 0 clique r h⟩

theorem cliqueSearch_zero (g : Graph) (clique : List Nat) (sel : Sel) (pick : Pick) :
    cliqueSearch g clique 0 sel pick = .error .iterations := by
  simp [cliqueSearch]

private theorem length_le_of_subset_nodup {a b : List Nat} (ha : a.Nodup) (h : ∀ v ∈ a, v ∈ b) :
    a.length ≤ b.length :=
  (List.subperm_of_subset ha h).length_le

/-- what one round guarantees -/
theorem searchRound_spec {g : Graph} (hs : Simple g) {sel : Sel} {C G S : List Nat}
    (h : SearchRound g sel C G S) :
    IsClique g G ∧ (∀ v ∈ C, v ∈ G) ∧ c0 g G = [] ∧
    IsClique g S ∧ (∀ v ∈ S, v ∈ g.nodes) ∧ S.Nodup ∧ S.length = G.length ∧
    (distinct C).length ≤ S.length ∧
    ((c1 g G = [] ∧ S = sortAsc G) ∨ (∃ p ∈ swapCands g sel (c1 g G), S.Perm (p.2 :: G.erase p.1))) := by
  obtain ⟨p1, p2, hp1, hp2, hg, hsw⟩ := h
  obtain ⟨g1, g2, _, g4, _, g6⟩ := grow_spec hs hp1 hg
  obtain ⟨s1, s2, s3, s4, s5⟩ := swap_spec hs hp2 hsw
  rw [clq_distinct_of_nodup g4] at s4 s5
  refine ⟨g1, g2, g6, s1, s2, s3, s4, ?_, s5⟩
  rw [s4]
  exact length_le_of_subset_nodup (clq_nodup_distinct C) (fun v hv => g2 v ((clq_mem_distinct v C).1 hv))

/-- a run ends in a clique of the graph that is at least as large as the input -/
theorem searchRun_spec {g : Graph} (hs : Simple g) {sel : Sel} {it : Nat} {C r : List Nat}
    (h : SearchRun g sel it C r) :
    IsClique g r ∧ (∀ v ∈ r, v ∈ g.nodes) ∧ r.Nodup ∧ (distinct C).length ≤ r.length := by
  induction h with
  | stop hr _ =>
    obtain ⟨_, _, _, s1, s2, s3, _, s5, _⟩ := searchRound_spec hs hr
    exact ⟨s1, s2, s3, s5⟩
  | next hr _ _ _ ih =>
    obtain ⟨_, _, _, _, _, s3, _, s5, _⟩ := searchRound_spec hs hr
    obtain ⟨i1, i2, i3, i4⟩ := ih
    rw [clq_distinct_of_nodup s3] at i4
    exact ⟨i1, i2, i3, by omega⟩

private theorem grow_ok_of_valid {g : Graph} (hs : Simple g) (pick : Pick) {C : List Nat} {sel : Sel}
    (hv : (∀ v ∈ C, v ∈ g.nodes) ∧ IsClique g C ∧ selOk g sel = true) : ∃ G, grow g C sel pick = .ok G := by
  cases h : grow g C sel pick with
  | ok G => exact ⟨G, rfl⟩
  | error e => exact absurd hv ((grow_error_iff hs pick C sel).1 ⟨e, h⟩)

private theorem swap_ok_of_valid {g : Graph} (hs : Simple g) (pick : Pick) {C : List Nat} {sel : Sel}
    (hv : (∀ v ∈ C, v ∈ g.nodes) ∧ IsClique g C ∧ selOk g sel = true) : ∃ S, swap g C sel pick = .ok S := by
  unfold swap
  rw [(clq_checkClique_ok hs C sel).2 hv]
  dsimp only
  split <;> exact ⟨_, rfl⟩

private theorem cliqueSearchLoop_ok {g : Graph} (hs : Simple g) {sel : Sel} {pick : Pick} (hp : Lawful pick) :
    ∀ (it step : Nat) (C : List Nat), ((∀ v ∈ C, v ∈ g.nodes) ∧ IsClique g C ∧ selOk g sel = true) →
      ∃ r, cliqueSearchLoop g sel pick (it + 1) step C = .ok r := by
  intro it
  induction it with
  | zero =>
    intro step C hv
    rw [cliqueSearchLoop_succ]
    obtain ⟨G, hg⟩ := grow_ok_of_valid hs (shiftPick pick step) hv
    rw [hg]
    dsimp only
    obtain ⟨g1, _, g3, _⟩ := grow_spec hs (shiftPick_lawful hp _) hg
    obtain ⟨S, hsw⟩ := swap_ok_of_valid hs (shiftPick pick (step + (G.length - (distinct C).length)))
      (C := G) ⟨g3, g1, hv.2.2⟩
    rw [hsw]
    simp
  | succ it ih =>
    intro step C hv
    rw [cliqueSearchLoop_succ]
    obtain ⟨G, hg⟩ := grow_ok_of_valid hs (shiftPick pick step) hv
    rw [hg]
    dsimp only
    obtain ⟨g1, _, g3, _⟩ := grow_spec hs (shiftPick_lawful hp _) hg
    obtain ⟨S, hsw⟩ := swap_ok_of_valid hs (shiftPick pick (step + (G.length - (distinct C).length)))
      (C := G) ⟨g3, g1, hv.2.2⟩
    rw [hsw]
    dsimp only
    obtain ⟨s1, s2, _⟩ := swap_spec hs (shiftPick_lawful hp _) hsw
    split
    · exact ⟨_, rfl⟩
    · exact ih _ S ⟨s2, s1, hv.2.2⟩

/-- `clique.search` succeeds exactly on a positive iteration budget and a clique of the graph (with a
weight vector of the right length) — no later round can raise -/
theorem cliqueSearch_ok_iff {g : Graph} (hs : Simple g) {pick : Pick} (hp : Lawful pick) (clique : List Nat)
    (it : Nat) (sel : Sel) :
    (∃ r, cliqueSearch g clique it sel pick = .ok r) ↔
      (1 ≤ it ∧ (∀ v ∈ clique, v ∈ g.nodes) ∧ IsClique g clique ∧ selOk g sel = true) := by
  constructor
  · rintro ⟨r, h⟩
    obtain ⟨h1, hrun⟩ := cliqueSearch_run hp h
    refine ⟨h1, ?_⟩
    have hgrow : ∃ p G, grow g clique sel p = .ok G := by
      cases hrun with
      | stop hr _ => obtain ⟨p1, _, _, _, hg, _⟩ := hr; exact ⟨p1, _, hg⟩
      | next hr _ _ _ => obtain ⟨p1, _, _, _, hg, _⟩ := hr; exact ⟨p1, _, hg⟩
    obtain ⟨p, G, hg⟩ := hgrow
    by_contra hc
    obtain ⟨e, he⟩ := (grow_error_iff hs p clique sel).2 hc
    rw [hg] at he
    exact absurd he (by simp)
  · rintro ⟨h1, hv⟩
    obtain ⟨k, rfl⟩ : ∃ k, it = k + 1 := ⟨it - 1, by omega⟩
    unfold cliqueSearch
    rw [if_neg (by omega)]
    exact cliqueSearchLoop_ok hs hp k 0 clique hv

end SFV.Apps
