import SFV.Model.Register
/-! Lemmas for the K2 register model: program-side index stability and rejection, the `ModeMap` numbering
invariant, refinement of the phase-space simulators to the abstract rows, labels of the Fock state,
index stability along histories, `can_follow`.  Core Lean only. -/
set_option linter.unusedSectionVars false
namespace SFV.Reg

/-- keys of `reg_refs` are positions -/
def ProgInv (p : Prog) : Prop := ∀ (i : Nat) (r : RegRef), p.regRefs[i]? = some r → r.ind = i

theorem addSubsystems_spec {p p' : Prog} {n : Nat} {inds : List Nat}
    (h : p.addSubsystems n = .ok (p', inds)) :
    p'.regRefs = p.regRefs ++ (List.range' p.regRefs.length n).map (fun i => ⟨i, true⟩) ∧
    inds = List.range' p.regRefs.length n ∧ 1 ≤ n ∧ p.locked = false ∧ p'.locked = false ∧
    p'.circuit = p.circuit ∧ p'.initRegRefs = p.initRegRefs ∧ p'.initNum = p.initNum := by
  unfold Prog.addSubsystems at h
  split at h
  · cases h
  · split at h
    · cases h
    · cases h
      simp_all
      omega

theorem testLoop_all {p : Prog} : ∀ (reg : List Ref) (temp out : List RegRef),
    p.testLoop reg temp = .ok out →
    ∀ rr ∈ reg, ∃ r, p.resolve rr = .ok r ∧ r.active = true := by
  intro reg
  induction reg with
  | nil => intro _ _ _ rr hrr; cases hrr
  | cons a rest ih =>
    intro temp out h rr hrr
    unfold Prog.testLoop at h
    split at h
    · cases h
    · rename_i r hr
      split at h
      · cases h
      · split at h
        · cases h
        · rcases List.mem_cons.1 hrr with rfl | hmem
          · exact ⟨r, hr, by simp_all⟩
          · exact ih _ _ h rr hmem

theorem append_spec {p p' : Prog} {op : Op} {reg deps : List Ref} {rs : List RegRef}
    (h : p.append op reg deps = .ok (p', rs)) :
    p'.regRefs = p.regRefs ∧ p.locked = false ∧ p'.locked = false ∧ p.testRegrefs reg = .ok rs ∧
    (∃ ds, p.testRegrefs deps = .ok ds) ∧
    p'.circuit = p.circuit ++ [⟨op, rs.map (·.ind)⟩] ∧ p'.initRegRefs = p.initRegRefs ∧ p'.initNum = p.initNum := by
  unfold Prog.append at h
  split at h
  · cases h
  · split at h
    · cases h
    · split at h
      · cases h
      · cases h
        simp_all

/-- how one register list evolves into another during the life of a register: append-only, indices
kept, a deleted mode never comes back -/
def Extends (old new : List RegRef) : Prop :=
  old.length ≤ new.length ∧
  ∀ (i : Nat) (r : RegRef), old[i]? = some r → ∃ r', new[i]? = some r' ∧ r'.ind = r.ind ∧ (r'.active = true → r.active = true)

theorem Extends.refl (l : List RegRef) : Extends l l := ⟨Nat.le_refl _, fun _ r h => ⟨r, h, rfl, id⟩⟩

theorem Extends.trans {a b c : List RegRef} (h1 : Extends a b) (h2 : Extends b c) : Extends a c := by
  refine ⟨Nat.le_trans h1.1 h2.1, ?_⟩
  intro i r hr
  obtain ⟨r1, h1r, h1i, h1a⟩ := h1.2 i r hr
  obtain ⟨r2, h2r, h2i, h2a⟩ := h2.2 i r1 h1r
  exact ⟨r2, h2r, h2i.trans h1i, fun h => h1a (h2a h)⟩

theorem extends_append (l extra : List RegRef) : Extends l (l ++ extra) := by
  refine ⟨by simp, ?_⟩
  intro i r hr
  refine ⟨r, ?_, rfl, id⟩
  obtain ⟨this, _⟩ := List.getElem?_eq_some_iff.1 hr
  simp [List.getElem?_append_left this, hr]

theorem extends_deactivate (inds : List Nat) (l : List RegRef) : Extends l (Prog.deactivate inds l) := by
  refine ⟨by simp [Prog.deactivate], ?_⟩
  intro i r hr
  simp only [Prog.deactivate, List.getElem?_map, hr, Option.map_some]
  refine ⟨if inds.contains r.ind = true then { r with active := false } else r, rfl, ?_, ?_⟩ <;> split <;> simp_all

theorem progInv_append_new (l : List RegRef) (n : Nat) (h : ∀ (i : Nat) (r : RegRef), l[i]? = some r → r.ind = i) :
    ∀ (i : Nat) (r : RegRef), (l ++ (List.range' l.length n).map (fun i => (⟨i, true⟩ : RegRef)))[i]? = some r → r.ind = i := by
  intro i r hr
  by_cases hi : i < l.length
  · rw [List.getElem?_append_left hi] at hr
    exact h i r hr
  · rw [List.getElem?_append_right (Nat.le_of_not_lt hi)] at hr
    simp only [List.getElem?_map, Option.map_eq_some_iff] at hr
    obtain ⟨a, ha, rfl⟩ := hr
    have := List.getElem?_range' (s := l.length) (n := n) (step := 1) (i := i - l.length)
    grind

theorem progInv_deactivate (inds : List Nat) (l : List RegRef) (h : ∀ (i : Nat) (r : RegRef), l[i]? = some r → r.ind = i) :
    ∀ (i : Nat) (r : RegRef), (Prog.deactivate inds l)[i]? = some r → r.ind = i := by
  intro i r hr
  simp only [Prog.deactivate, List.getElem?_map, Option.map_eq_some_iff] at hr
  obtain ⟨a, ha, rfl⟩ := hr
  have := h i a ha
  split <;> simp_all

theorem opOr_spec {p p' : Prog} {op : Op} {ns : Option Nat} {reg deps : List Ref} {rs : List RegRef}
    (h : p.opOr op ns reg deps = .ok (p', rs)) : p.append op reg deps = .ok (p', rs) ∧ reg ≠ [] := by
  unfold Prog.opOr at h
  by_cases hc : (reg.isEmpty || Prog.nsBad ns reg.length) = true
  · rw [if_pos hc] at h; cases h
  · rw [if_neg hc] at h
    refine ⟨h, ?_⟩
    intro he
    simp [he] at hc

theorem newOp_stable {p p' : Prog} {n : Nat} {inds : List Nat} (h : p.newOp n = .ok (p', inds))
    (hi : ProgInv p) :
    ProgInv p' ∧ Extends p.regRefs p'.regRefs ∧ inds = List.range' p.regRefs.length n ∧
    p'.regRefs.length = p.regRefs.length + n := by
  unfold Prog.newOp at h
  split at h
  · cases h
  · rename_i p1 inds1 h1
    split at h
    · cases h
    · rename_i p2 rs h2
      cases h
      obtain ⟨hr, hinds, _⟩ := addSubsystems_spec h1
      obtain ⟨hr2, _⟩ := append_spec h2
      refine ⟨?_, ?_, hinds, ?_⟩
      · intro i r hget
        rw [hr2, hr] at hget
        exact progInv_append_new _ _ hi i r hget
      · rw [hr2, hr]; exact extends_append _ _
      · rw [hr2, hr]; simp

theorem delOp_stable {p p' : Prog} {reg : List Ref} (h : p.delOp reg = .ok p') (hi : ProgInv p) :
    ProgInv p' ∧ Extends p.regRefs p'.regRefs ∧ p'.regRefs.length = p.regRefs.length := by
  unfold Prog.delOp at h
  split at h
  · cases h
  · rename_i p1 rs h1
    cases h
    obtain ⟨hr, _⟩ := append_spec (opOr_spec h1).1
    refine ⟨?_, ?_, ?_⟩
    · intro i r hget
      simp only at hget
      rw [hr] at hget
      exact progInv_deactivate _ _ hi i r hget
    · simp only; rw [hr]; exact extends_deactivate _ _
    · simp [Prog.deactivate, hr]

theorem useOp_regRefs {p p' : Prog} {reg deps : List Ref} {k : Int} (h : p.useOp reg k deps = .ok p') :
    p'.regRefs = p.regRefs := by
  unfold Prog.useOp at h
  simp only at h
  cases h1 : p.opOr (.gate k) (some (if (reg.length == 1) = true then 1 else 2)) reg deps with
  | error e => rw [h1] at h; cases h
  | ok v =>
    obtain ⟨p1, rs⟩ := v
    rw [h1] at h
    cases h
    exact (append_spec (opOr_spec h1).1).1

theorem measOp_regRefs {p p' : Prog} {reg : List Ref} (h : p.measOp reg = .ok p') :
    p'.regRefs = p.regRefs := by
  unfold Prog.measOp at h
  split at h
  · cases h
  · rename_i p1 rs h1
    cases h
    exact (append_spec (opOr_spec h1).1).1

/-- a selection naming a reference that does not resolve to an active RegRef of the program is rejected
with `RegRefError` -/
theorem testLoop_error_class {p : Prog} : ∀ (reg : List Ref) (temp : List RegRef) (e : Err),
    p.testLoop reg temp = .error e → e = .regRef := by
  intro reg
  induction reg with
  | nil => intro _ _ h; cases h
  | cons a rest ih =>
    intro temp e h
    unfold Prog.testLoop at h
    split at h
    · rename_i e' hr
      cases h
      cases a <;> simp [Prog.resolve] at hr <;> (repeat' split at hr) <;> simp_all
    · split at h
      · cases h; rfl
      · split at h
        · cases h; rfl
        · exact ih _ _ h

theorem testRegrefs_rejects {p : Prog} {reg : List Ref} {rr : Ref} (hm : rr ∈ reg)
    (hbad : ∀ r, p.resolve rr = .ok r → r.active = false) : p.testRegrefs reg = .error .regRef := by
  cases h : p.testRegrefs reg with
  | error e => rw [testLoop_error_class reg [] e h]
  | ok out =>
    obtain ⟨r, hr, ha⟩ := testLoop_all reg [] out h rr hm
    have := hbad r hr
    simp_all

/-! ### ModeMap: the non-`None` entries are exactly `c, c+1, …` in increasing order -/

def Numbered : Nat → List (Option Nat) → Prop
  | _, [] => True
  | c, none :: ms => Numbered c ms
  | c, some x :: ms => x = c ∧ Numbered (c + 1) ms

def countSome (l : List (Option Nat)) : Nat := (l.filter (·.isSome)).length

theorem deleteLoop_numbered (modes : List Nat) : ∀ (l : List (Option Nat)) (m ctr : Nat),
    Numbered ctr (deleteLoop modes m ctr l) := by
  intro l
  induction l with
  | nil => intro _ _; trivial
  | cons x xs ih =>
    intro m ctr
    unfold deleteLoop
    split
    · exact ih _ _
    · exact ⟨rfl, ih _ _⟩

theorem numbered_range (c n : Nat) : Numbered c ((List.range' c n).map some) := by
  induction n generalizing c with
  | zero => trivial
  | succ n ih => simp only [List.range'_succ, List.map_cons]; exact ⟨rfl, ih _⟩

theorem numbered_append : ∀ (l : List (Option Nat)) (c n : Nat), Numbered c l →
    Numbered c (l ++ (List.range' (c + countSome l) n).map some) := by
  intro l
  induction l with
  | nil => intro c n _; simpa [countSome] using numbered_range c n
  | cons x xs ih =>
    intro c n h
    cases x with
    | none =>
      have := ih c n h
      simpa [Numbered, countSome] using this
    | some a =>
      obtain ⟨rfl, h2⟩ := h
      have := ih (a + 1) n h2
      refine ⟨rfl, ?_⟩
      have e : a + countSome (some a :: xs) = a + 1 + countSome xs := by simp [countSome]; omega
      rw [e]; exact this

theorem numbered_new (n : Nat) : Numbered 0 (ModeMap.new n).map := by
  simpa [ModeMap.new, List.range_eq_range'] using numbered_range 0 n

theorem modemap_add_numbered (m : ModeMap) (n : Nat) (h : Numbered 0 m.map) : Numbered 0 (m.add n).map := by
  have := numbered_append m.map 0 n h
  simpa [ModeMap.add, countSome] using this

theorem modemap_delete_numbered {m m' : ModeMap} {ms : List Nat} (h : m.delete ms = .ok m') :
    Numbered 0 m'.map := by
  unfold ModeMap.delete at h
  split at h
  · cases h; exact deleteLoop_numbered _ _ _ _
  · cases h

theorem modemap_reset_numbered (m : ModeMap) : Numbered 0 m.reset.map := by
  simpa [ModeMap.reset, List.range_eq_range'] using numbered_range 0 m.init

/-- calls of the `ModeMap` API -/
inductive MMCall
  | add (n : Nat)
  | delete (ms : List Nat)
  | reset

def mmStep (m : ModeMap) : MMCall → ModeMap
  | .add n => m.add n
  | .delete ms => match m.delete ms with
    | .ok m' => m'
    | .error _ => m          -- raises, map untouched
  | .reset => m.reset

theorem mmStep_numbered (m : ModeMap) (c : MMCall) (h : Numbered 0 m.map) : Numbered 0 (mmStep m c).map := by
  cases c with
  | add n => exact modemap_add_numbered m n h
  | delete ms =>
    simp only [mmStep]
    split
    · rename_i m' hm; exact modemap_delete_numbered hm
    · exact h
  | reset => exact modemap_reset_numbered m

theorem mm_history_numbered (n : Nat) (cs : List MMCall) : Numbered 0 (cs.foldl mmStep (ModeMap.new n)).map := by
  suffices ∀ m : ModeMap, Numbered 0 m.map → Numbered 0 (cs.foldl mmStep m).map from this _ (numbered_new n)
  induction cs with
  | nil => intro m h; exact h
  | cons c cs ih => intro m h; exact ih _ (mmStep_numbered m c h)

/-- `Numbered` spelled out: the j-th non-None entry is `c + j` -/
theorem numbered_filterMap : ∀ (l : List (Option Nat)) (c : Nat), Numbered c l →
    l.filterMap id = List.range' c (countSome l) := by
  intro l
  induction l with
  | nil => intro c _; simp [countSome]
  | cons x xs ih =>
    intro c h
    cases x with
    | none => simpa [countSome] using ih c h
    | some a =>
      obtain ⟨rfl, h2⟩ := h
      have := ih (a + 1) h2
      simp [countSome, List.range'_succ] at this ⊢
      exact this

/-! ### phase-space back ends refine the abstract rows -/
section PSref
variable {D : Type} [DataSem D]

def PS.abs (s : PS D) : Rows D := List.zipWith (fun (a : Option Nat) (d : D) => a.map (fun _ => d)) s.active s.rows

structure PSInv (s : PS D) : Prop where
  la : s.active.length = s.nlen
  lr : s.rows.length = s.nlen
  own : ∀ (i j : Nat), s.active[i]? = some (some j) → j = i

theorem zipWith_set_set {α β γ : Type} (f : α → β → γ) (l1 : List α) (l2 : List β) (m : Nat) (a : α) (b : β) :
    List.zipWith f (l1.set m a) (l2.set m b) = (List.zipWith f l1 l2).set m (f a b) := by
  apply List.ext_getElem?
  intro i
  simp only [List.getElem?_zipWith, List.getElem?_set]
  by_cases h : m = i
  · subst h
    by_cases h1 : m < l1.length <;> by_cases h2 : m < l2.length <;> simp [h1, h2, List.length_zipWith] <;> grind
  · simp [h]

theorem zipWith_set_right {α β γ : Type} (f : α → β → γ) (l1 : List α) (l2 : List β) (m : Nat) (b : β) (a : α)
    (h : l1[m]? = some a) :
    List.zipWith f l1 (l2.set m b) = (List.zipWith f l1 l2).set m (f a b) := by
  have : l1 = l1.set m a := by
    apply List.ext_getElem?; intro i; simp only [List.getElem?_set]; grind
  conv => lhs; rw [this]
  exact zipWith_set_set f l1 l2 m a b

theorem PS.abs_length (s : PS D) (h : PSInv s) : s.abs.length = s.nlen := by
  simp [PS.abs, h.la, h.lr]

theorem PS.abs_get (s : PS D) (i : Nat) :
    s.abs[i]? = match s.active[i]?, s.rows[i]? with
      | some a, some d => some (a.map fun _ => d)
      | _, _ => none := by
  simp only [PS.abs, List.getElem?_zipWith]
  cases s.active[i]? <;> cases s.rows[i]? <;> rfl

theorem PS.begin_inv (n : Nat) : PSInv (PS.begin n : PS D) := by
  refine ⟨by simp [PS.begin], by simp [PS.begin], ?_⟩
  intro i j h
  simp only [PS.begin, List.getElem?_map, Option.map_eq_some_iff] at h
  obtain ⟨a, ha, hj⟩ := h
  have := List.getElem?_range (n := n) (i := i)
  grind

theorem zipWith_range_replicate (c n : Nat) (v : D) :
    List.zipWith (fun (a : Option Nat) (d : D) => a.map (fun _ => d)) ((List.range' c n).map some) (List.replicate n v)
      = List.replicate n (some v) := by
  induction n generalizing c with
  | zero => rfl
  | succ n ih => simp [List.range'_succ, List.replicate_succ, ih]

theorem PS.begin_abs (n : Nat) : (PS.begin n : PS D).abs = List.replicate n (some DataSem.vac) := by
  simp only [PS.abs, PS.begin, List.range_eq_range']
  exact zipWith_range_replicate 0 n _

theorem PS.addMode_inv (s : PS D) (n : Nat) (h : PSInv s) : PSInv (s.addMode n) := by
  refine ⟨by simp [PS.addMode, h.la], by simp [PS.addMode, h.lr], ?_⟩
  intro i j hij
  simp only [PS.addMode] at hij
  by_cases hi : i < s.active.length
  · rw [List.getElem?_append_left hi] at hij; exact h.own i j hij
  · rw [List.getElem?_append_right (Nat.le_of_not_lt hi)] at hij
    simp only [List.getElem?_map, Option.map_eq_some_iff] at hij
    obtain ⟨a, ha, hj⟩ := hij
    have := List.getElem?_range' (s := s.nlen) (n := n) (step := 1) (i := i - s.active.length)
    have := h.la
    grind

theorem PS.addMode_abs (s : PS D) (n : Nat) (h : PSInv s) :
    (s.addMode n).abs = s.abs ++ List.replicate n (some DataSem.vac) := by
  simp only [PS.abs, PS.addMode]
  rw [List.zipWith_append (by rw [h.la, h.lr])]
  rw [zipWith_range_replicate]

theorem PS.check_iff (s : PS D) (h : PSInv s) (m : Nat) : s.check m = .ok () ↔ Rows.liveAt s.abs m = true := by
  unfold PS.check Rows.liveAt
  rw [PS.abs_get]
  have hl : s.active.length = s.rows.length := by rw [h.la, h.lr]
  cases ha : s.active[m]? with
  | none => simp
  | some a =>
    have : m < s.rows.length := by
      have := (List.getElem?_eq_some_iff.1 ha).1; omega
    have hr : s.rows[m]? = some s.rows[m] := List.getElem?_eq_getElem this
    cases a <;> simp [hr]
end PSref

section PSref2
variable {D : Type} [DataSem D]

theorem PS.del1_inv (s : PS D) (m : Nat) (h : PSInv s) :
    PSInv { s with active := s.active.set m none, rows := s.rows.set m DataSem.vac } := by
  refine ⟨by simp [h.la], by simp [h.lr], ?_⟩
  intro i j hij
  simp only [List.getElem?_set] at hij
  split at hij
  · split at hij <;> simp at hij
  · exact h.own i j hij

theorem PS.del1_abs (s : PS D) (m : Nat) :
    PS.abs { s with active := s.active.set m none, rows := s.rows.set m DataSem.vac } = s.abs.set m none := by
  simp only [PS.abs]
  rw [zipWith_set_set]; rfl

theorem liveAt_set_none_ne (r : Rows D) (m m' : Nat) (h : m' ≠ m) :
    Rows.liveAt (r.set m none) m' = Rows.liveAt r m' := by
  unfold Rows.liveAt
  rw [List.getElem?_set_ne (Ne.symm h)]

theorem liveAt_set (r : Rows D) (m m' : Nat) (v : Option D) :
    Rows.liveAt (r.set m v) m' = if m = m' ∧ m < r.length then v.isSome else Rows.liveAt r m' := by
  unfold Rows.liveAt
  rw [List.getElem?_set]
  by_cases h1 : m = m'
  · by_cases h2 : m < r.length
    · cases v <;> simp [h1, h2] <;> grind
    · subst h1
      simp [h2, List.getElem?_eq_none (Nat.le_of_not_lt h2)]
  · simp [h1]

theorem liveAt_set_none_le (r : Rows D) (m m' : Nat) (h : Rows.liveAt r m' = false) :
    Rows.liveAt (r.set m none) m' = false := by
  rw [liveAt_set]
  split
  · rfl
  · exact h

theorem PS.delMode_ok : ∀ (ms : List Nat) (s : PS D), PSInv s → ms.all (Rows.liveAt s.abs) = true →
    hasDup ms = false → ∃ s', s.delMode ms = .ok s' ∧ PSInv s' ∧ s'.abs = Rows.clear ms s.abs := by
  intro ms
  induction ms with
  | nil => intro s h _ _; exact ⟨s, rfl, h, rfl⟩
  | cons m ms ih =>
    intro s h hl hd
    simp only [List.all_cons, Bool.and_eq_true] at hl
    simp only [hasDup, Bool.or_eq_false_iff] at hd
    have hc := (PS.check_iff s h m).2 hl.1
    unfold PS.delMode
    rw [hc]
    have hl' : ms.all (Rows.liveAt (PS.abs { s with active := s.active.set m none, rows := s.rows.set m DataSem.vac })) = true := by
      rw [PS.del1_abs, List.all_eq_true]
      intro m' hm'
      have hne : m' ≠ m := by
        intro he; subst he
        have := hd.1
        simp_all
      rw [liveAt_set_none_ne _ _ _ hne]
      exact (List.all_eq_true.1 hl.2) m' hm'
    obtain ⟨s', h1, h2, h3⟩ := ih _ (PS.del1_inv s m h) hl' hd.2
    exact ⟨s', h1, h2, by rw [h3, PS.del1_abs]; rfl⟩

theorem PS.delMode_rejects : ∀ (ms : List Nat) (s : PS D), PSInv s →
    (∃ m ∈ ms, Rows.liveAt s.abs m = false) → ∃ e, s.delMode ms = .error e := by
  intro ms
  induction ms with
  | nil => intro s _ ⟨m, hm, _⟩; cases hm
  | cons m ms ih =>
    intro s h ⟨m', hm', hdead⟩
    unfold PS.delMode
    cases hc : s.check m with
    | error e => exact ⟨e, rfl⟩
    | ok u =>
      simp only
      have hlive := (PS.check_iff s h m).1 hc
      rcases List.mem_cons.1 hm' with rfl | hin
      · rw [hlive] at hdead; cases hdead
      · apply ih _ (PS.del1_inv s m h)
        refine ⟨m', hin, ?_⟩
        rw [PS.del1_abs]
        exact liveAt_set_none_le _ _ _ hdead

theorem PS.checkAll_ok (s : PS D) (h : PSInv s) : ∀ (ms : List Nat), ms.all (Rows.liveAt s.abs) = true →
    s.checkAll ms = .ok () := by
  intro ms
  induction ms with
  | nil => intro _; rfl
  | cons m ms ih =>
    intro hl
    simp only [List.all_cons, Bool.and_eq_true] at hl
    unfold PS.checkAll
    rw [(PS.check_iff s h m).2 hl.1]
    exact ih hl.2

theorem PS.checkAll_rejects (s : PS D) (h : PSInv s) : ∀ (ms : List Nat),
    (∃ m ∈ ms, Rows.liveAt s.abs m = false) → ∃ e, s.checkAll ms = .error e := by
  intro ms
  induction ms with
  | nil => intro ⟨m, hm, _⟩; cases hm
  | cons m ms ih =>
    intro ⟨m', hm', hdead⟩
    unfold PS.checkAll
    cases hc : s.check m with
    | error e => exact ⟨e, rfl⟩
    | ok u =>
      simp only
      have hlive := (PS.check_iff s h m).1 hc
      rcases List.mem_cons.1 hm' with rfl | hin
      · rw [hlive] at hdead; cases hdead
      · exact ih ⟨m', hin, hdead⟩

theorem writeBack_length {α : Type} : ∀ (ps : List Nat) (vs : List α) (l : List α), (writeBack ps vs l).length = l.length := by
  intro ps
  induction ps with
  | nil => intro vs l; simp [writeBack]
  | cons p ps ih =>
    intro vs l
    cases vs with
    | nil => simp [writeBack]
    | cons v vs => simp [writeBack, ih]

theorem liveAt_active (s : PS D) (h : PSInv s) (m : Nat) (hl : Rows.liveAt s.abs m = true) :
    s.active[m]? = some (some m) ∧ ∃ d, s.rows[m]? = some d ∧ s.abs[m]? = some (some d) := by
  unfold Rows.liveAt at hl
  rw [PS.abs_get] at hl ⊢
  cases ha : s.active[m]? with
  | none => simp [ha] at hl
  | some a =>
    cases hr : s.rows[m]? with
    | none => simp [ha, hr] at hl
    | some d =>
      cases a with
      | none => simp [ha, hr] at hl
      | some j =>
        have := h.own m j ha
        subst this
        exact ⟨rfl, d, rfl, by simp⟩

/-- writing to rows of live modes commutes with the abstraction -/
theorem PS.writeBack_abs : ∀ (ms : List Nat) (vs : List D) (s : PS D), PSInv s →
    ms.all (Rows.liveAt s.abs) = true →
    PS.abs { s with rows := writeBack ms vs s.rows } = writeBack ms (vs.map some) s.abs ∧
    PSInv { s with rows := writeBack ms vs s.rows } := by
  intro ms
  induction ms with
  | nil => intro vs s h _; exact ⟨by simp [writeBack], h⟩
  | cons m ms ih =>
    intro vs s h hl
    cases vs with
    | nil => exact ⟨by simp [writeBack], h⟩
    | cons v vs =>
      simp only [List.all_cons, Bool.and_eq_true] at hl
      obtain ⟨ha, _⟩ := liveAt_active s h m hl.1
      have hs1 : PSInv { s with rows := s.rows.set m v } := ⟨h.la, by simp [h.lr], h.own⟩
      have habs1 : PS.abs { s with rows := s.rows.set m v } = s.abs.set m (some v) := by
        simp only [PS.abs]
        rw [zipWith_set_right _ _ _ _ _ _ ha]; rfl
      have hl1 : ms.all (Rows.liveAt (PS.abs { s with rows := s.rows.set m v })) = true := by
        rw [habs1, List.all_eq_true]
        intro m' hm'
        have := (List.all_eq_true.1 hl.2) m' hm'
        rw [liveAt_set]
        split
        · rfl
        · exact this
      have := ih vs _ hs1 hl1
      simp only [writeBack, List.map_cons]
      rw [← habs1]
      exact this

theorem readAll_abs (s : PS D) (h : PSInv s) : ∀ (ms : List Nat), ms.all (Rows.liveAt s.abs) = true →
    (readAll s.abs ms).filterMap id = readAll s.rows ms := by
  intro ms
  induction ms with
  | nil => intro _; rfl
  | cons m ms ih =>
    intro hl
    simp only [List.all_cons, Bool.and_eq_true] at hl
    obtain ⟨_, d, hr, hab⟩ := liveAt_active s h m hl.1
    have := ih hl.2
    simp only [readAll, List.filterMap_cons, hab, hr] at this ⊢
    simp [this]

theorem PS.applyOn_ok (s : PS D) (h : PSInv s) (f : List D → List D) (ms : List Nat)
    (hl : ms.all (Rows.liveAt s.abs) = true) :
    PS.abs { s with rows := applyOn f ms s.rows } = Rows.upd f ms s.abs ∧
    PSInv { s with rows := applyOn f ms s.rows } := by
  unfold applyOn Rows.upd
  rw [readAll_abs s h ms hl]
  exact PS.writeBack_abs ms _ s h hl

theorem PS.gate_ok (s : PS D) (h : PSInv s) (k : Int) (ms : List Nat)
    (hl : ms.all (Rows.liveAt s.abs) = true) (hd : hasDup ms = false) :
    ∃ s', s.gate k ms = .ok s' ∧ PSInv s' ∧ s'.abs = Rows.upd (DataSem.gate k) ms s.abs := by
  unfold PS.gate
  rw [PS.checkAll_ok s h ms hl]
  simp only [hd]
  have := PS.applyOn_ok s h (DataSem.gate k) ms hl
  exact ⟨_, rfl, this.2, this.1⟩

theorem PS.measure_ok (s : PS D) (h : PSInv s) (ms : List Nat)
    (hl : ms.all (Rows.liveAt s.abs) = true) :
    ∃ s', s.measure ms = .ok s' ∧ PSInv s' ∧
      s'.abs = Rows.upd (fun l => l.map fun _ => DataSem.vac) ms s.abs := by
  unfold PS.measure
  rw [PS.checkAll_ok s h ms hl]
  have := PS.applyOn_ok s h (fun l => l.map fun _ => DataSem.vac) ms hl
  exact ⟨_, rfl, this.2, this.1⟩

theorem PS.gate_rejects (s : PS D) (h : PSInv s) (k : Int) (ms : List Nat)
    (hb : ∃ m ∈ ms, Rows.liveAt s.abs m = false) : ∃ e, s.gate k ms = .error e := by
  obtain ⟨e, he⟩ := PS.checkAll_rejects s h ms hb
  exact ⟨e, by simp [PS.gate, he]⟩

theorem PS.measure_rejects (s : PS D) (h : PSInv s) (ms : List Nat)
    (hb : ∃ m ∈ ms, Rows.liveAt s.abs m = false) : ∃ e, s.measure ms = .error e := by
  obtain ⟨e, he⟩ := PS.checkAll_rejects s h ms hb
  exact ⟨e, by simp [PS.measure, he]⟩
end PSref2

section PSstate
variable {D : Type} [DataSem D]

/-- data of the live rows in order -/
def pick : List (Option Nat) → List D → List D
  | none :: as, _ :: ds => pick as ds
  | some _ :: as, d :: ds => d :: pick as ds
  | _, _ => []

theorem getAll_live_suffix : ∀ (act : List (Option Nat)) (rws pre : List D),
    act.length = rws.length →
    getAll (pre ++ rws) (liveFrom pre.length act) = .ok (pick act rws) ∧
    (liveFrom pre.length act).zip (pick act rws) =
      Rows.state pre.length (List.zipWith (fun (a : Option Nat) (d : D) => a.map (fun _ => d)) act rws) := by
  intro act
  induction act with
  | nil => intro rws pre _; cases rws <;> simp [liveFrom, getAll, pick, Rows.state]
  | cons a as ih =>
    intro rws pre hl
    cases rws with
    | nil => simp at hl
    | cons d ds =>
      have hl' : as.length = ds.length := by simpa using hl
      have := ih ds (pre ++ [d]) hl'
      simp only [List.length_append, List.length_cons, List.length_nil, List.append_assoc,
        List.cons_append, List.nil_append, Nat.zero_add] at this
      cases a with
      | none =>
        simp only [liveFrom, pick, List.zipWith_cons_cons, Option.map_none, Rows.state]
        exact this
      | some j =>
        simp only [liveFrom, pick, List.zipWith_cons_cons, Option.map_some, Rows.state, getAll]
        have hget : (pre ++ d :: ds)[pre.length]? = some d := by simp
        rw [hget]
        simp only [this.1, List.zip_cons_cons, this.2, and_self]

theorem getModes_liveFrom : ∀ (act : List (Option Nat)) (c : Nat),
    (∀ (i j : Nat), act[i]? = some (some j) → j = c + i) → act.filterMap id = liveFrom c act := by
  intro act
  induction act with
  | nil => intro _ _; rfl
  | cons a as ih =>
    intro c h
    have h' : ∀ (i j : Nat), as[i]? = some (some j) → j = (c + 1) + i := by
      intro i j hij
      have := h (i + 1) j (by simpa using hij)
      omega
    cases a with
    | none => simpa [liveFrom] using ih (c + 1) h'
    | some j =>
      have hj := h 0 j (by simp)
      have e := ih (c + 1) h'
      simp [liveFrom, e, hj]

theorem liveFrom_zipWith : ∀ (act : List (Option Nat)) (rws : List D) (c : Nat), act.length = rws.length →
    liveFrom c (List.zipWith (fun (a : Option Nat) (d : D) => a.map (fun _ => d)) act rws) = liveFrom c act := by
  intro act
  induction act with
  | nil => intro rws c _; cases rws <;> rfl
  | cons a as ih =>
    intro rws c hl
    cases rws with
    | nil => simp at hl
    | cons d ds =>
      have hl' : as.length = ds.length := by simpa using hl
      cases a <;> simp [liveFrom, ih ds (c + 1) hl']

/-- `get_modes()` of a phase-space simulator is the live set of the abstraction -/
theorem PS.getModes_live (s : PS D) (h : PSInv s) : s.getModes = Rows.live s.abs := by
  unfold PS.getModes Rows.live PS.abs
  rw [liveFrom_zipWith _ _ _ (by rw [h.la, h.lr])]
  exact getModes_liveFrom s.active 0 (fun i j hij => by have := h.own i j hij; omega)

/-- **state(modes=None)** of the (repaired) Gaussian and of the bosonic back end: exactly the live indices in
ascending order, each with the data of its own row -/
theorem PS.stateNone_exact (s : PS D) (h : PSInv s) : s.stateNone = .ok (Rows.state 0 s.abs) := by
  have hg : s.getModes = liveFrom 0 s.active :=
    getModes_liveFrom s.active 0 (fun i j hij => by have := h.own i j hij; omega)
  have := getAll_live_suffix s.active s.rows [] (by rw [h.la, h.lr])
  simp only [List.length_nil, List.nil_append] at this
  unfold PS.stateNone
  rw [hg, this.1]
  simp only [this.2, PS.abs]

theorem Rows.state_labels : ∀ (r : Rows D) (c : Nat), (Rows.state c r).map (·.1) = liveFrom c r := by
  intro r
  induction r with
  | nil => intro _; rfl
  | cons a as ih => intro c; cases a <;> simp [Rows.state, liveFrom, ih]

/-! per-command and per-circuit refinement (Gaussian back end) -/
theorem PS.applyCmd_refines (s : PS D) (h : PSInv s) (c : Cmd) (r' : Rows D)
    (ha : Rows.cmd s.abs c = some r') : ∃ s', s.applyCmd c = .ok s' ∧ PSInv s' ∧ s'.abs = r' := by
  unfold Rows.cmd at ha
  unfold PS.applyCmd
  cases hop : c.op with
  | newModes n =>
    simp only [hop] at ha ⊢
    cases ha
    exact ⟨_, rfl, PS.addMode_inv s _ h, PS.addMode_abs s _ h⟩
  | delete =>
    simp only [hop] at ha ⊢
    split at ha
    · rename_i hs
      cases ha
      simp only [Rows.okSel, Bool.and_eq_true, Bool.not_eq_true'] at hs
      exact PS.delMode_ok c.reg s h hs.1.2 hs.2
    · cases ha
  | gate k =>
    simp only [hop] at ha ⊢
    split at ha
    · rename_i hs
      cases ha
      simp only [Rows.okSel, Bool.and_eq_true, Bool.not_eq_true'] at hs
      exact PS.gate_ok s h k c.reg hs.1.2 hs.2
    · cases ha
  | measure =>
    simp only [hop] at ha ⊢
    split at ha
    · rename_i hs
      cases ha
      simp only [Rows.okSel, Bool.and_eq_true, Bool.not_eq_true'] at hs
      exact PS.measure_ok s h c.reg hs.1.2
    · cases ha

theorem PS.runCircuit_refines : ∀ (cs : List Cmd) (s : PS D), PSInv s → ∀ (r' : Rows D),
    Rows.run cs s.abs = some r' → ∃ s', PS.runCircuit cs s = .ok s' ∧ PSInv s' ∧ s'.abs = r' := by
  intro cs
  induction cs with
  | nil => intro s h r' hr; cases hr; exact ⟨s, rfl, h, rfl⟩
  | cons c cs ih =>
    intro s h r' hr
    unfold Rows.run at hr
    split at hr
    · cases hr
    · rename_i r1 h1
      obtain ⟨s1, e1, i1, a1⟩ := PS.applyCmd_refines s h c r1 h1
      unfold PS.runCircuit
      rw [e1]
      exact ih s1 i1 r' (by rw [a1]; exact hr)
end PSstate

/-! ### Fock back end: labels of the returned state -/
section FockLabels
variable {D : Type} [DataSem D]

theorem getAll_range_suffix {α : Type} : ∀ (l pre : List α),
    getAll (pre ++ l) (List.range' pre.length l.length) = .ok l := by
  intro l
  induction l with
  | nil => intro pre; rfl
  | cons x xs ih =>
    intro pre
    have := ih (pre ++ [x])
    simp only [List.length_append, List.length_cons, List.length_nil, List.append_assoc,
      List.cons_append, List.nil_append, Nat.zero_add] at this
    simp only [List.length_cons, List.range'_succ, getAll]
    have hget : (pre ++ x :: xs)[pre.length]? = some x := by simp
    rw [hget, this]

theorem liveFrom_length : ∀ (l : List (Option Nat)) (c : Nat), (liveFrom c l).length = countSome l := by
  intro l
  induction l with
  | nil => intro _; rfl
  | cons a as ih => intro c; cases a <;> simp [liveFrom, countSome, ih] <;> rfl

/-- when the number of tensor axes equals the number of non-`None` map entries, `state(modes=None)` of the
Fock back end labels axis `j` with the `j`-th live index (ascending), and returns every axis -/
theorem Fock.stateNone_labels (s : Fock D) (h : s.axes.length = countSome s.mm.map) :
    s.stateNone = .ok (s.getModes.zip s.axes) := by
  unfold Fock.stateNone
  have hl : s.axes.length = s.getModes.length := by rw [h, Fock.getModes, liveFrom_length]
  have := getAll_range_suffix s.getModes []
  simp only [List.nil_append, List.length_nil] at this
  rw [hl, List.range_eq_range', this]
end FockLabels

/-! ### index stability along histories (any back end) -/
section Hist
variable {D B : Type}

theorem engineRun_regRefs (o : BackendOps D B) (s s' : Sys B) (h : engineRun o s = .ok s') :
    s'.prog.regRefs = s.prog.regRefs ∧ s'.prev = some s.prog.regRefs ∧ s'.prog.circuit = [] ∧
    s'.prog.initRegRefs = s.prog.regRefs := by
  unfold engineRun at h
  simp only at h
  split at h
  · cases h
  · split at h
    · cases h
    · cases h
      simp [Prog.child, Prog.lock]

def Ev.isReset : Ev → Bool
  | .reset _ => true
  | _ => false

/-- one accepted event (other than an engine reset, which starts a new register): keys stay positions, the
register only grows, every index keeps its meaning and a deleted index stays deleted -/
theorem step_index_stable (o : BackendOps D B) (s s' : Sys B) (ev : Ev) (hr : ev.isReset = false)
    (h : step o s ev = .ok s') (hi : ProgInv s.prog) :
    ProgInv s'.prog ∧ Extends s.prog.regRefs s'.prog.regRefs := by
  cases ev with
  | new n =>
    simp only [step] at h
    split at h
    · cases h
    · rename_i p inds hp; cases h
      have := newOp_stable hp hi
      exact ⟨this.1, this.2.1⟩
  | del ms =>
    simp only [step] at h
    split at h
    · cases h
    · rename_i p hp; cases h
      have := delOp_stable hp hi
      exact ⟨this.1, this.2.1⟩
  | use ms k deps =>
    simp only [step] at h
    split at h
    · cases h
    · rename_i p hp; cases h
      have e := useOp_regRefs hp
      exact ⟨fun i r hg => hi i r (by simpa [e] using hg), by simp only [e]; exact Extends.refl _⟩
  | meas ms =>
    simp only [step] at h
    split at h
    · cases h
    · rename_i p hp; cases h
      have e := measOp_regRefs hp
      exact ⟨fun i r hg => hi i r (by simpa [e] using hg), by simp only [e]; exact Extends.refl _⟩
  | endProg =>
    simp only [step] at h
    have e := (engineRun_regRefs o s s' h).1
    exact ⟨fun i r hg => hi i r (by simpa [e] using hg), by rw [e]; exact Extends.refl _⟩
  | reset n => cases hr

theorem runHist_index_stable (o : BackendOps D B) : ∀ (es : List Ev) (s : Sys B),
    es.all (fun e => !e.isReset) = true → ProgInv s.prog →
    ProgInv (runHist o s es).prog ∧ Extends s.prog.regRefs (runHist o s es).prog.regRefs := by
  intro es
  induction es with
  | nil => intro s _ hi; exact ⟨hi, Extends.refl _⟩
  | cons e es ih =>
    intro s hall hi
    simp only [List.all_cons, Bool.and_eq_true, Bool.not_eq_true'] at hall
    unfold runHist
    split
    · exact ih s (by simpa using hall.2) hi
    · rename_i s1 h1
      obtain ⟨i1, e1⟩ := step_index_stable o s s1 e hall.1 h1 hi
      obtain ⟨i2, e2⟩ := ih s1 (by simpa using hall.2) i1
      exact ⟨i2, e1.trans e2⟩

theorem map_flags_range (c n : Nat) :
    (List.range' c n).map ((fun x : RegRef => x.active) ∘ fun i => (⟨i, true⟩ : RegRef)) = List.replicate n true := by
  induction n generalizing c with
  | zero => rfl
  | succ n ih => simp [List.range'_succ, List.replicate_succ, ih]

theorem fresh_progInv {n : Nat} {p : Prog} (h : Prog.fresh n = .ok p) : ProgInv p ∧ p.regRefs.length = n ∧
    p.flags = List.replicate n true := by
  unfold Prog.fresh at h
  simp only at h
  split at h
  · cases h
  · rename_i p1 inds h1
    cases h
    obtain ⟨hr, _⟩ := addSubsystems_spec h1
    simp only [List.length_nil, List.nil_append] at hr
    refine ⟨?_, by simp [hr], ?_⟩
    · intro i r hg
      simp only [hr] at hg
      exact progInv_append_new [] n (by intro i r h; simp at h) i r (by simpa using hg)
    · simp only [Prog.flags, hr, List.map_map]; exact map_flags_range 0 n

/-- a rejected event leaves program, engine and back end untouched (the history goes on from the same state) -/
theorem runHist_reject (o : BackendOps D B) (s : Sys B) (e : Ev) (es : List Ev) (err : Err)
    (h : step o s e = .error err) : runHist o s (e :: es) = runHist o s es := by
  simp [runHist, h]

/-- the hand-over check: `Program(prev)` can always follow; a fresh `Program(n)` can follow exactly when no index
was ever deleted and `n` indices were created -/
theorem canFollow_child (p : Prog) : p.child.canFollow p.regRefs = true := by
  simp [Prog.child, Prog.canFollow]

theorem canFollow_fresh {n : Nat} {q : Prog} (prev : Prog) (hq : Prog.fresh n = .ok q) (hp : ProgInv prev) :
    q.canFollow prev.regRefs = true ↔ (prev.regRefs.length = n ∧ prev.flags = List.replicate n true) := by
  unfold Prog.fresh at hq
  simp only at hq
  split at hq
  · cases hq
  · rename_i p1 inds h1
    cases hq
    obtain ⟨hr, _⟩ := addSubsystems_spec h1
    simp only [List.length_nil, List.nil_append] at hr
    simp only [Prog.canFollow, hr, beq_iff_eq]
    constructor
    · intro he
      have hf : prev.flags = List.replicate n true := by
        simp only [Prog.flags, ← he, List.map_map]; exact map_flags_range 0 n
      exact ⟨by rw [← he]; simp, hf⟩
    · intro ⟨hl, hf⟩
      apply List.ext_getElem?
      intro i
      by_cases hi : i < n
      · have h1 : i < prev.regRefs.length := by omega
        have hg : prev.regRefs[i]? = some prev.regRefs[i] := List.getElem?_eq_getElem h1
        have hind := hp i _ hg
        have hact : prev.regRefs[i].active = true := by
          have : (prev.flags)[i]? = some true := by rw [hf]; simp [hi]
          simp only [Prog.flags, List.getElem?_map, hg, Option.map_some, Option.some.injEq] at this
          exact this
        simp only [List.getElem?_map, List.getElem?_range' , hg]
        have : (List.range' 0 n)[i]? = some i := by simp [hi]
        rw [this]
        simp only [Option.map_some, Option.some.injEq]
        cases hx : prev.regRefs[i] with
        | mk ind act => simp [hx] at hind hact; simp [hind, hact]
      · have h1 : prev.regRefs.length ≤ i := by omega
        simp [List.getElem?_eq_none h1, hi]
end Hist
end SFV.Reg
