import SFV.Model.Register
namespace SFV.Reg
end SFV.Reg
