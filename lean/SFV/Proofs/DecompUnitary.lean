import Mathlib.LinearAlgebra.Matrix.NonsingularInverse
import Mathlib.Algebra.Star.Basic
import Mathlib.Algebra.Order.Ring.Defs
import Mathlib.Algebra.Order.BigOperators.Group.Finset
import SFV.Proofs.Decomp
/-! Unitarity along an elimination run, and "a triangular unitary matrix is diagonal".

`Cx K` is made a commutative star ring, the function matrices of the model are read as Mathlib matrices on
`Fin n` (`toM`), the index-level mixes are shown to be products with the embedded block, unitarity is
carried along a run whose blocks are unitary, and over an ordered scalar ring the row/column-norm argument
(induction on the row index) shows that a unitary matrix with a zero lower triangle is diagonal. -/
namespace SFV.Decomp
set_option linter.unusedSimpArgs false
set_option linter.unusedSectionVars false
open Cx

/-! ### `Cx K` as a commutative star ring -/
section inst
variable {K : Type} [CommRing K]

instance instCommRingCx : CommRing (Cx K) where
  add := (· + ·)
  add_assoc := by intros; apply Cx.ext' <;> simp [add_assoc]
  zero := 0
  zero_add := by intros; apply Cx.ext' <;> simp
  add_zero := by intros; apply Cx.ext' <;> simp
  nsmul := nsmulRec
  neg := Neg.neg
  sub := Sub.sub
  sub_eq_add_neg := by intros; apply Cx.ext' <;> simp [sub_eq_add_neg]
  zsmul := zsmulRec
  neg_add_cancel := by intros; apply Cx.ext' <;> simp
  add_comm := by intros; apply Cx.ext' <;> simp [add_comm]
  mul := (· * ·)
  left_distrib := by intros; apply Cx.ext' <;> simp <;> ring
  right_distrib := by intros; apply Cx.ext' <;> simp <;> ring
  zero_mul := by intros; apply Cx.ext' <;> simp
  mul_zero := by intros; apply Cx.ext' <;> simp
  mul_assoc := by intros; apply Cx.ext' <;> simp <;> ring
  one := 1
  one_mul := by intros; apply Cx.ext' <;> simp
  mul_one := by intros; apply Cx.ext' <;> simp
  mul_comm := by intros; apply Cx.ext' <;> simp <;> ring

instance instStarRingCx : StarRing (Cx K) where
  star := conj
  star_involutive := by intro a; apply Cx.ext' <;> simp
  star_mul := by intro a b; apply Cx.ext' <;> simp <;> ring
  star_add := by intro a b; apply Cx.ext' <;> simp [add_comm]

@[simp] theorem star_eq_conj (a : Cx K) : star a = conj a := rfl

/-- squared modulus -/
def normSq (z : Cx K) : K := z.re * z.re + z.im * z.im

theorem mul_conj_re (z : Cx K) : (z * conj z).re = normSq z := by simp [normSq]

/-- real part as an additive map (to take it through finite sums) -/
def reHom : Cx K →+ K where
  toFun := Cx.re
  map_zero' := rfl
  map_add' := fun _ _ => rfl

end inst

/-! ### function matrices as Mathlib matrices; mixes as products -/
section mat
variable {K : Type} [CommRing K] {n : Nat}

def toM (n : Nat) (U : CMat K) : Matrix (Fin n) (Fin n) (Cx K) := fun i j => U i.val j.val

/-- `M Mᴴ = 1` and `Mᴴ M = 1` -/
def IsU (M : Matrix (Fin n) (Fin n) (Cx K)) : Prop := M * M.conjTranspose = 1 ∧ M.conjTranspose * M = 1

theorem isU_of_mul_conjTranspose (M : Matrix (Fin n) (Fin n) (Cx K)) (h : M * M.conjTranspose = 1) : IsU M :=
  ⟨h, mul_eq_one_comm.mp h⟩

theorem IsU.mul {A B : Matrix (Fin n) (Fin n) (Cx K)} (hA : IsU A) (hB : IsU B) : IsU (A * B) := by
  constructor
  · rw [Matrix.conjTranspose_mul, Matrix.mul_assoc, ← Matrix.mul_assoc B, hB.1, Matrix.one_mul, hA.1]
  · rw [Matrix.conjTranspose_mul, Matrix.mul_assoc, ← Matrix.mul_assoc A.conjTranspose, hA.2, Matrix.one_mul, hB.2]

/-- a unitary 2×2 block -/
structure Blk.IsUnitary (b : Blk K) : Prop where
  r11 : b.a * conj b.a + b.b * conj b.b = 1
  r22 : b.c * conj b.c + b.d * conj b.d = 1
  r12 : b.a * conj b.c + b.b * conj b.d = 0

/-- `E ⋅ M` for the embedded block: rows `p`, `q` of `M` are mixed -/
theorem embed_mul (b : Blk K) (p q : Fin n) (hpq : p ≠ q) (M : Matrix (Fin n) (Fin n) (Cx K)) (i j : Fin n) :
    (toM n (embed b p.val q.val) * M) i j =
      if i = p then b.a * M p j + b.b * M q j else if i = q then b.c * M p j + b.d * M q j else M i j := by
  have hv : p.val ≠ q.val := fun h => hpq (Fin.ext h)
  rw [Matrix.mul_apply]
  by_cases hip : i = p
  · subst hip
    rw [if_pos rfl, Finset.sum_eq_add i q hpq]
    · simp [toM, embed, hv, Ne.symm hv]
    · intro c _ hc
      have h1 : c.val ≠ i.val := fun h => hc.1 (Fin.ext h)
      have h2 : c.val ≠ q.val := fun h => hc.2 (Fin.ext h)
      simp [toM, embed, h1, h2, hv, Ne.symm h1]
    · intro h; exact absurd (Finset.mem_univ _) h
    · intro h; exact absurd (Finset.mem_univ _) h
  · rw [if_neg hip]
    have hip' : i.val ≠ p.val := fun h => hip (Fin.ext h)
    by_cases hiq : i = q
    · subst hiq
      rw [if_pos rfl, Finset.sum_eq_add p i hpq]
      · simp [toM, embed, hv, Ne.symm hv]
      · intro c _ hc
        have h1 : c.val ≠ p.val := fun h => hc.1 (Fin.ext h)
        have h2 : c.val ≠ i.val := fun h => hc.2 (Fin.ext h)
        simp [toM, embed, h1, h2, hv, Ne.symm hv, Ne.symm h2]
      · intro h; exact absurd (Finset.mem_univ _) h
      · intro h; exact absurd (Finset.mem_univ _) h
    · rw [if_neg hiq]
      have hiq' : i.val ≠ q.val := fun h => hiq (Fin.ext h)
      rw [Finset.sum_eq_single i]
      · simp [toM, embed, hip', hiq']
      · intro c _ hc
        have h1 : i.val ≠ c.val := fun h => hc (Fin.ext h.symm)
        simp [toM, embed, hip', hiq', h1]
      · intro h; exact absurd (Finset.mem_univ _) h

/-- `M ⋅ E`: columns `p`, `q` of `M` are mixed -/
theorem mul_embed (b : Blk K) (p q : Fin n) (hpq : p ≠ q) (M : Matrix (Fin n) (Fin n) (Cx K)) (i j : Fin n) :
    (M * toM n (embed b p.val q.val)) i j =
      if j = p then M i p * b.a + M i q * b.c else if j = q then M i p * b.b + M i q * b.d else M i j := by
  have hv : p.val ≠ q.val := fun h => hpq (Fin.ext h)
  rw [Matrix.mul_apply]
  by_cases hjp : j = p
  · subst hjp
    rw [if_pos rfl, Finset.sum_eq_add j q hpq]
    · simp [toM, embed, hv, Ne.symm hv]
    · intro c _ hc
      have h1 : c.val ≠ j.val := fun h => hc.1 (Fin.ext h)
      have h2 : c.val ≠ q.val := fun h => hc.2 (Fin.ext h)
      simp [toM, embed, h1, h2, hv]
    · intro h; exact absurd (Finset.mem_univ _) h
    · intro h; exact absurd (Finset.mem_univ _) h
  · rw [if_neg hjp]
    have hjp' : j.val ≠ p.val := fun h => hjp (Fin.ext h)
    by_cases hjq : j = q
    · subst hjq
      rw [if_pos rfl, Finset.sum_eq_add p j hpq]
      · simp [toM, embed, hv, Ne.symm hv]
      · intro c _ hc
        have h1 : c.val ≠ p.val := fun h => hc.1 (Fin.ext h)
        have h2 : c.val ≠ j.val := fun h => hc.2 (Fin.ext h)
        simp [toM, embed, h1, h2, hv, Ne.symm hv]
      · intro h; exact absurd (Finset.mem_univ _) h
      · intro h; exact absurd (Finset.mem_univ _) h
    · rw [if_neg hjq]
      have hjq' : j.val ≠ q.val := fun h => hjq (Fin.ext h)
      rw [Finset.sum_eq_single j]
      · simp [toM, embed, hjp', hjq']
      · intro c _ hc
        have h1 : c.val ≠ j.val := fun h => hc (Fin.ext h)
        simp [toM, embed, hjp', hjq', h1, Ne.symm hjp', Ne.symm hjq']
      · intro h; exact absurd (Finset.mem_univ _) h

/-- the index-level row mix is the product with the embedded block -/
theorem toM_leftMix (b : Blk K) (p q : Nat) (hp : p < n) (hq : q < n) (hpq : p ≠ q) (U : CMat K) :
    toM n (leftMix b p q U) = toM n (embed b p q) * toM n U := by
  ext i j
  have := embed_mul b ⟨p, hp⟩ ⟨q, hq⟩ (fun h => hpq (by simpa using congrArg Fin.val h)) (toM n U) i j
  simp only at this
  rw [this]
  simp only [toM, leftMix, Fin.ext_iff]

theorem toM_rightMix (b : Blk K) (p q : Nat) (hp : p < n) (hq : q < n) (hpq : p ≠ q) (U : CMat K) :
    toM n (rightMix U b p q) = toM n U * toM n (embed b p q) := by
  ext i j
  have := mul_embed b ⟨p, hp⟩ ⟨q, hq⟩ (fun h => hpq (by simpa using congrArg Fin.val h)) (toM n U) i j
  simp only at this
  rw [this]
  simp only [toM, rightMix, Fin.ext_iff]

end mat

/-! ### unitarity of the embedded block and of the phase shifters; unitarity along a run -/
section unitary
variable {K : Type} [CommRing K] {n : Nat}

/-- conjugate transpose of a block -/
def Blk.adj (b : Blk K) : Blk K := ⟨conj b.a, conj b.c, conj b.b, conj b.d⟩

theorem conj_one' : conj (1 : Cx K) = 1 := by apply Cx.ext' <;> simp
theorem conj_zero' : conj (0 : Cx K) = 0 := by apply Cx.ext' <;> simp

theorem embed_conjTranspose (b : Blk K) (p q : Nat) (hpq : p ≠ q) :
    (toM n (embed b p q)).conjTranspose = toM n (embed b.adj p q) := by
  ext i j
  simp only [Matrix.conjTranspose_apply, toM, embed, Blk.adj, star_eq_conj]
  by_cases h1 : i.val = p
  · subst h1
    by_cases h3 : j.val = i.val
    · simp [h3]
    · have h6 : ¬ i.val = j.val := fun h => h3 h.symm
      by_cases h4 : j.val = q
      · simp [h4, hpq, Ne.symm hpq]
      · simp [h3, h4, h6, hpq, Ne.symm hpq, conj_zero']
  · by_cases h2 : i.val = q
    · subst h2
      by_cases h4 : j.val = i.val
      · simp [h4, hpq, Ne.symm hpq]
      · have h6 : ¬ i.val = j.val := fun h => h4 h.symm
        by_cases h3 : j.val = p
        · simp [h3, hpq, Ne.symm hpq]
        · simp [h1, h3, h4, h6, hpq, Ne.symm hpq, conj_zero']
    · by_cases h5 : j.val = i.val
      · have h3 : ¬ j.val = p := fun h => h1 (h5.symm.trans h)
        have h4 : ¬ j.val = q := fun h => h2 (h5.symm.trans h)
        simp [h1, h2, h3, h4, h5, conj_one']
      · have h6 : ¬ i.val = j.val := fun h => h5 h.symm
        simp [h1, h2, h5, h6, conj_zero']

theorem Blk.IsUnitary.r21 {b : Blk K} (h : b.IsUnitary) : b.c * conj b.a + b.d * conj b.b = 0 := by
  have h1 := congrArg Cx.re h.r12
  have h2 := congrArg Cx.im h.r12
  simp at h1 h2
  apply Cx.ext' <;> simp
  · linear_combination h1
  · linear_combination -h2

theorem embed_mul_adj (b : Blk K) (hb : b.IsUnitary) (p q : Nat) (hp : p < n) (hq : q < n) (hpq : p ≠ q) :
    toM n (embed b p q) * (toM n (embed b p q)).conjTranspose = 1 := by
  rw [embed_conjTranspose b p q hpq]
  ext i j
  have hpq' : (⟨p, hp⟩ : Fin n) ≠ ⟨q, hq⟩ := fun h => hpq (by simpa using congrArg Fin.val h)
  have := embed_mul b ⟨p, hp⟩ ⟨q, hq⟩ hpq' (toM n (embed b.adj p q)) i j
  simp only at this
  rw [this, Matrix.one_apply]
  have r11 := hb.r11; have r22 := hb.r22; have r12 := hb.r12; have r21 := hb.r21
  simp only [toM, embed, Blk.adj, Fin.ext_iff]
  by_cases h1 : i.val = p
  · by_cases h3 : j.val = p
    · simp [h1, h3, hpq, Ne.symm hpq, r11]
    · by_cases h4 : j.val = q
      · simp [h1, h4, hpq, Ne.symm hpq, r12]
      · have : p ≠ j.val := fun h => h3 h.symm
        have : q ≠ j.val := fun h => h4 h.symm
        simp [h1, h3, h4, hpq, Ne.symm hpq, *]
  · by_cases h2 : i.val = q
    · by_cases h3 : j.val = p
      · simp [h2, h3, hpq, Ne.symm hpq, r21]
      · by_cases h4 : j.val = q
        · simp [h2, h4, hpq, Ne.symm hpq, r22]
        · have : p ≠ j.val := fun h => h3 h.symm
          have : q ≠ j.val := fun h => h4 h.symm
          simp [h2, h3, h4, hpq, Ne.symm hpq, *]
    · by_cases h5 : i.val = j.val
      · have h3 : j.val ≠ p := fun h => h1 (h5.trans h)
        have h4 : j.val ≠ q := fun h => h2 (h5.trans h)
        simp [h1, h2, h3, h4, h5]
      · simp [h1, h2, h5, Ne.symm h5]

theorem isU_embed (b : Blk K) (hb : b.IsUnitary) (p q : Nat) (hp : p < n) (hq : q < n) (hpq : p ≠ q) :
    IsU (toM n (embed b p q)) :=
  isU_of_mul_conjTranspose _ (embed_mul_adj b hb p q hp hq hpq)

/-- phase shifter as a diagonal matrix -/
def phaseVec (n : Nat) (e : Cx K) (p : Nat) : Fin n → Cx K := fun i => if i.val = p then e else 1

theorem toM_leftPhase (e : Cx K) (p : Nat) (U : CMat K) :
    toM n (leftPhase e p U) = Matrix.diagonal (phaseVec n e p) * toM n U := by
  ext i j
  rw [Matrix.diagonal_mul]
  by_cases h : i.val = p <;> simp [toM, leftPhase, phaseVec, h]

theorem toM_rightPhase (e : Cx K) (p : Nat) (U : CMat K) :
    toM n (rightPhase U e p) = toM n U * Matrix.diagonal (phaseVec n e p) := by
  ext i j
  rw [Matrix.mul_diagonal]
  by_cases h : j.val = p <;> simp [toM, rightPhase, phaseVec, h]

theorem isU_phase (e : Cx K) (he : e * conj e = 1) (p : Nat) :
    IsU (Matrix.diagonal (phaseVec n e p) : Matrix (Fin n) (Fin n) (Cx K)) := by
  apply isU_of_mul_conjTranspose
  rw [Matrix.diagonal_conjTranspose, Matrix.diagonal_mul_diagonal, ← Matrix.diagonal_one]
  congr 1
  funext i
  by_cases h : i.val = p <;> simp [phaseVec, h, he]

/-- a run that follows a schedule inside an `n × n` matrix with *unitary* blocks and unit phases -/
inductive UFollows (n : Nat) : CMat K → List Step → CMat K → Prop
  | nil (U : CMat K) : UFollows n U [] U
  | row (U : CMat K) (b : Blk K) (p tr tc : Nat) (l : List Step) (U' : CMat K) :
      p + 1 < n → b.IsUnitary → leftMix b p (p + 1) U tr tc = 0 → UFollows n (leftMix b p (p + 1) U) l U' →
      UFollows n U (⟨true, p, tr, tc⟩ :: l) U'
  | col (U : CMat K) (b : Blk K) (p tr tc : Nat) (l : List Step) (U' : CMat K) :
      p + 1 < n → b.IsUnitary → rightMix U b p (p + 1) tr tc = 0 → UFollows n (rightMix U b p (p + 1)) l U' →
      UFollows n U (⟨false, p, tr, tc⟩ :: l) U'
  | lphase (U : CMat K) (e : Cx K) (p : Nat) (l : List Step) (U' : CMat K) :
      e * conj e = 1 → UFollows n (leftPhase e p U) l U' → UFollows n U l U'
  | rphase (U : CMat K) (e : Cx K) (p : Nat) (l : List Step) (U' : CMat K) :
      e * conj e = 1 → UFollows n (rightPhase U e p) l U' → UFollows n U l U'

theorem UFollows.follows {U U' : CMat K} {l : List Step} (h : UFollows n U l U') : Follows U l U' := by
  induction h with
  | nil U => exact Follows.nil U
  | row U b p tr tc l U' _ _ ht _ ih => exact Follows.row U b p tr tc l U' ht ih
  | col U b p tr tc l U' _ _ ht _ ih => exact Follows.col U b p tr tc l U' ht ih
  | lphase U e p l U' _ _ ih => exact Follows.lphase U e p l U' ih
  | rphase U e p l U' _ _ ih => exact Follows.rphase U e p l U' ih

/-- unitarity is carried along the run -/
theorem UFollows.isU {U U' : CMat K} {l : List Step} (h : UFollows n U l U') :
    IsU (toM n U) → IsU (toM n U') := by
  induction h with
  | nil U => exact id
  | row U b p tr tc l U' hp hb _ _ ih =>
    intro hu; apply ih
    rw [toM_leftMix b p (p + 1) (by omega) hp (by omega)]
    exact (isU_embed b hb p (p + 1) (by omega) hp (by omega)).mul hu
  | col U b p tr tc l U' hp hb _ _ ih =>
    intro hu; apply ih
    rw [toM_rightMix b p (p + 1) (by omega) hp (by omega)]
    exact hu.mul (isU_embed b hb p (p + 1) (by omega) hp (by omega))
  | lphase U e p l U' he _ ih =>
    intro hu; apply ih
    rw [toM_leftPhase]; exact (isU_phase e he p).mul hu
  | rphase U e p l U' he _ ih =>
    intro hu; apply ih
    rw [toM_rightPhase]; exact hu.mul (isU_phase e he p)

end unitary

/-! ### a unitary matrix with a zero lower triangle is diagonal (ordered scalars) -/
section triangular
variable {K : Type} [CommRing K] [LinearOrder K] [IsStrictOrderedRing K] {n : Nat}

theorem normSq_nonneg (z : Cx K) : 0 ≤ normSq z := add_nonneg (mul_self_nonneg _) (mul_self_nonneg _)

theorem normSq_eq_zero {z : Cx K} (h : normSq z = 0) : z = 0 := by
  have := mul_self_add_mul_self_eq_zero.mp h
  exact Cx.ext' this.1 this.2

theorem row_norm {M : Matrix (Fin n) (Fin n) (Cx K)} (h : M * M.conjTranspose = 1) (i : Fin n) :
    ∑ k, normSq (M i k) = 1 := by
  have h1 := congrFun (congrFun h i) i
  rw [Matrix.mul_apply, Matrix.one_apply_eq] at h1
  have h2 := congrArg reHom h1
  rw [map_sum] at h2
  simpa [reHom, Matrix.conjTranspose_apply, normSq] using h2

theorem col_norm {M : Matrix (Fin n) (Fin n) (Cx K)} (h : M.conjTranspose * M = 1) (j : Fin n) :
    ∑ k, normSq (M k j) = 1 := by
  have h1 := congrFun (congrFun h j) j
  rw [Matrix.mul_apply, Matrix.one_apply_eq] at h1
  have h2 := congrArg reHom h1
  rw [map_sum] at h2
  simpa [reHom, Matrix.conjTranspose_apply, normSq] using h2

/-- the row/column-norm argument, by strong induction on the row index -/
theorem upper_of_lower_unitary (M : Matrix (Fin n) (Fin n) (Cx K)) (hu : IsU M)
    (hlow : ∀ i j : Fin n, j < i → M i j = 0) : ∀ i j : Fin n, i < j → M i j = 0 := by
  have key : ∀ m : Nat, ∀ i : Fin n, i.val = m → ∀ j : Fin n, j ≠ i → M i j = 0 := by
    intro m
    induction m using Nat.strong_induction_on with
    | _ m ih =>
      intro i him
      -- column i has a single non-zero entry
      have hcol := col_norm hu.2 i
      rw [Finset.sum_eq_single i] at hcol
      · -- so the rest of row i has norm zero
        have hrow := row_norm hu.1 i
        rw [← Finset.add_sum_erase _ _ (Finset.mem_univ i), hcol] at hrow
        have hz : ∑ k ∈ Finset.univ.erase i, normSq (M i k) = 0 := by linarith
        have := (Finset.sum_eq_zero_iff_of_nonneg (fun k _ => normSq_nonneg (M i k))).mp hz
        intro j hj
        exact normSq_eq_zero (this j (Finset.mem_erase.mpr ⟨hj, Finset.mem_univ j⟩))
      · intro k _ hk
        rcases lt_or_gt_of_ne hk with h | h
        · -- k < i : row k is already done
          rw [ih k.val (by rw [← him]; exact h) k rfl i (Ne.symm hk)]; simp [normSq]
        · rw [hlow k i h]; simp [normSq]
      · intro h; exact absurd (Finset.mem_univ _) h
  intro i j hij
  exact key i.val i rfl j (ne_of_gt hij)

/-- for the function matrices of the model -/
theorem diagonal_of_lower_unitary (U : CMat K) (hu : toM n U * (toM n U).conjTranspose = 1)
    (hlow : ∀ i k, k < i → i < n → U i k = 0) : ∀ i k, i < n → k < n → i ≠ k → U i k = 0 := by
  intro i k hi hk hik
  rcases lt_or_gt_of_ne hik with h | h
  · exact upper_of_lower_unitary (toM n U) (isU_of_mul_conjTranspose _ hu)
      (fun a b hab => hlow a.val b.val hab a.isLt) ⟨i, hi⟩ ⟨k, hk⟩ h
  · exact hlow i k h hi

/-- and its diagonal entries have modulus one -/
theorem diag_normSq_of_lower_unitary (U : CMat K) (hu : toM n U * (toM n U).conjTranspose = 1)
    (hlow : ∀ i k, k < i → i < n → U i k = 0) : ∀ i, i < n → normSq (U i i) = 1 := by
  intro i hi
  have hrow := row_norm hu ⟨i, hi⟩
  rw [Finset.sum_eq_single ⟨i, hi⟩] at hrow
  · simpa [toM] using hrow
  · intro k _ hk
    have : U i k.val = 0 := diagonal_of_lower_unitary U hu hlow i k.val hi k.isLt
      (fun h => hk (Fin.ext h.symm))
    simp [toM, this, normSq]
  · intro h; exact absurd (Finset.mem_univ _) h

end triangular

/-! ### the blocks of the model are unitary -/
section blocks
variable {K : Type} [CommRing K]

theorem blkT_isUnitary (c s : K) (e : Cx K) (hcs : c * c + s * s = 1) (he : e.re * e.re + e.im * e.im = 1) :
    (blkT c s e).IsUnitary := by
  constructor <;> apply Cx.ext' <;> simp [blkT] <;>
    first
    | ring1
    | linear_combination (c * c) * he + hcs
    | linear_combination (s * s) * he + hcs
    | linear_combination (c * s) * he

theorem blkTi_isUnitary (c s : K) (e : Cx K) (hcs : c * c + s * s = 1) (he : e.re * e.re + e.im * e.im = 1) :
    (blkTi c s e).IsUnitary := by
  constructor <;> apply Cx.ext' <;> simp [blkTi] <;>
    first
    | ring1
    | linear_combination hcs
    | linear_combination (-1 : K) * hcs
    | linear_combination (c * c + s * s) * he + hcs

theorem blkM_isUnitary (c s : K) (e : Cx K) (hcs : c * c + s * s = 1) (he : e.re * e.re + e.im * e.im = 1) :
    (blkM c s e).IsUnitary := by
  constructor <;> apply Cx.ext' <;> simp [blkM] <;>
    first
    | ring1
    | linear_combination (c * c + s * s) * he + hcs

theorem blkMZ_isUnitary (c s : K) (e : Cx K) (hcs : c * c + s * s = 1) (he : e.re * e.re + e.im * e.im = 1) :
    (blkMZ c s e).IsUnitary := by
  constructor <;> apply Cx.ext' <;> simp [blkMZ] <;>
    first
    | ring1
    | linear_combination ((c * c + s * s) * (s * s)) * he + (c * c + s * s + 1) * hcs
    | linear_combination ((c * c + s * s) * (c * c)) * he + (c * c + s * s + 1) * hcs
    | linear_combination ((c * c + s * s) * (c * s)) * he

theorem blkMZi_isUnitary (c s : K) (e : Cx K) (hcs : c * c + s * s = 1) (he : e.re * e.re + e.im * e.im = 1) :
    (blkMZi c s e).IsUnitary := by
  constructor <;> apply Cx.ext' <;> simp [blkMZi, blkMZ] <;>
    first
    | ring1
    | linear_combination ((c * c + s * s) * (c * c + s * s)) * he + (c * c + s * s + 1) * hcs
    | linear_combination (c * c + s * s + 1) * hcs

end blocks

end SFV.Decomp
