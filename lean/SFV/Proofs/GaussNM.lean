import SFV.Model.PhaseSpace
import Mathlib.Tactic.Ring
import Mathlib.Algebra.BigOperators.Group.Finset.Basic
import Mathlib.Algebra.BigOperators.Group.Finset.Piecewise
import Mathlib.Algebra.BigOperators.Ring.Finset
import Mathlib.Algebra.Ring.Defs

/-! Lemmas for K3: every entrywise update of the Gaussian simulator refines the congruence
`V ↦ X V Xᵀ + Y`, `μ ↦ X μ + d` with the documented block embedded at the target mode(s);
it preserves the representation invariant; it leaves non-target rows and columns alone. -/
namespace SFV.Gauss
open Cx

variable {K : Type} [CommRing K]

@[simp] theorem Cx.add_re (a b : Cx K) : (a + b).re = a.re + b.re := rfl
@[simp] theorem Cx.add_im (a b : Cx K) : (a + b).im = a.im + b.im := rfl
@[simp] theorem Cx.sub_re (a b : Cx K) : (a - b).re = a.re - b.re := rfl
@[simp] theorem Cx.sub_im (a b : Cx K) : (a - b).im = a.im - b.im := rfl
@[simp] theorem Cx.neg_re (a : Cx K) : (-a).re = -a.re := rfl
@[simp] theorem Cx.neg_im (a : Cx K) : (-a).im = -a.im := rfl
@[simp] theorem Cx.mul_re (a b : Cx K) : (a * b).re = a.re * b.re - a.im * b.im := rfl
@[simp] theorem Cx.mul_im (a b : Cx K) : (a * b).im = a.re * b.im + a.im * b.re := rfl
@[simp] theorem Cx.conj_re (a : Cx K) : (conj a).re = a.re := rfl
@[simp] theorem Cx.conj_im (a : Cx K) : (conj a).im = -a.im := rfl
@[simp] theorem Cx.ofK_re (x : K) : (ofK x : Cx K).re = x := rfl
@[simp] theorem Cx.ofK_im (x : K) : (ofK x : Cx K).im = 0 := rfl
@[simp] theorem Cx.smul_re (x : K) (a : Cx K) : (smul x a).re = x * a.re := rfl
@[simp] theorem Cx.smul_im (x : K) (a : Cx K) : (smul x a).im = x * a.im := rfl
@[simp] theorem Cx.zero_re : (0 : Cx K).re = 0 := rfl
@[simp] theorem Cx.zero_im : (0 : Cx K).im = 0 := rfl
@[simp] theorem Cx.mk_re (a b : K) : (Cx.mk a b).re = a := rfl
@[simp] theorem Cx.mk_im (a b : K) : (Cx.mk a b).im = b := rfl

theorem Cx.ext' {a b : Cx K} (h1 : a.re = b.re) (h2 : a.im = b.im) : a = b := by
  cases a; cases b; simp_all

/-- representation invariant of `GaussianModes`: `N` Hermitian with real diagonal, `M` symmetric -/
def NMInv (st : GS K) : Prop :=
  (∀ i j, st.N j i = conj (st.N i j)) ∧ (∀ i j, st.M j i = st.M i j) ∧ (∀ i, (st.N i i).im = 0)

/-- equality of xp data -/
def XP.Eq (V W : XP K) : Prop :=
  (∀ i j, V.xx i j = W.xx i j) ∧ (∀ i j, V.xp i j = W.xp i j) ∧ (∀ i j, V.pp i j = W.pp i j) ∧
  (∀ i, V.mx i = W.mx i) ∧ (∀ i, V.mp i = W.mp i)

section facts
variable (st : GS K) (hI : NMInv st)
include hI

theorem NMInv.re_symm (a b : Nat) : (st.N a b).re = (st.N b a).re := by rw [hI.1 b a]; simp
theorem NMInv.im_anti (a b : Nat) : (st.N a b).im = -(st.N b a).im := by rw [hI.1 b a]; simp
theorem NMInv.m_symm (a b : Nat) : st.M a b = st.M b a := hI.2.1 b a

end facts

/-! ### vacuum -/

theorem vacuum_inv (n : Nat) : NMInv (vacuum n : GS K) := by
  refine ⟨fun i j => ?_, fun i j => rfl, fun i => rfl⟩
  apply Cx.ext' <;> simp [vacuum]

/-! ### squeeze -/

theorem squeeze_inv (st : GS K) (hI : NMInv st) (c s ch sh : K) (k : Nat) :
    NMInv (squeeze st c s ch sh k) := by
  have hNre := NMInv.re_symm st hI
  have hNim := NMInv.im_anti st hI
  have hMs := NMInv.m_symm st hI
  have hD := hI.2.2
  refine ⟨fun i j => ?_, fun i j => ?_, fun i => ?_⟩
  · by_cases hi : i = k <;> by_cases hj : j = k <;> apply Cx.ext' <;>
      simp [squeeze, writeRowCol, hi, hj] <;> grind
  · by_cases hi : i = k <;> by_cases hj : j = k <;> apply Cx.ext' <;>
      simp [squeeze, writeRowCol, hi, hj] <;> grind
  · by_cases hi : i = k <;> simp [squeeze, writeRowCol, hi] <;> grind

theorem squeeze_refines (st : GS K) (hI : NMInv st) (c s ch sh : K) (k : Nat)
    (hcs : c * c + s * s = 1) (hh : ch * ch - sh * sh = 1) :
    XP.Eq (toXP (squeeze st c s ch sh k)) (linMap (squeezeRows k c s ch sh) (toXP st)) := by
  have hNre := NMInv.re_symm st hI
  have hNim := NMInv.im_anti st hI
  have hMs := NMInv.m_symm st hI
  have hD := hI.2.2
  refine ⟨fun i j => ?_, fun i j => ?_, fun i j => ?_, fun i => ?_, fun i => ?_⟩
  · by_cases hi : i = k <;> by_cases hj : j = k <;>
      simp [toXP, linMap, lsum, XP.cov, squeezeRows, rows1, idRow, Vxx, Vxp, Vpp,
        squeeze, writeRowCol, hi, hj] <;> grind
  · by_cases hi : i = k <;> by_cases hj : j = k <;>
      simp [toXP, linMap, lsum, XP.cov, squeezeRows, rows1, idRow, Vxx, Vxp, Vpp,
        squeeze, writeRowCol, hi, hj] <;> grind
  · by_cases hi : i = k <;> by_cases hj : j = k <;>
      simp [toXP, linMap, lsum, XP.cov, squeezeRows, rows1, idRow, Vxx, Vxp, Vpp,
        squeeze, writeRowCol, hi, hj] <;> grind
  · by_cases hi : i = k <;>
      simp [toXP, linMap, lsum, XP.mean, squeezeRows, rows1, idRow, meanX, meanP,
        squeeze, writeRowCol, hi] <;> grind
  · by_cases hi : i = k <;>
      simp [toXP, linMap, lsum, XP.mean, squeezeRows, rows1, idRow, meanX, meanP,
        squeeze, writeRowCol, hi] <;> grind

/-! ### tactic shorthands: case split on the target index, unfold, close the polynomial goal -/

set_option hygiene false in
macro "nm_entry2" "[" ls:Lean.Parser.Tactic.simpLemma,* "]" : tactic =>
  `(tactic| (by_cases hi : i = k <;> by_cases hj : j = k <;>
      simp [toXP, linMap, lsum, XP.cov, XP.mean, rows1, idRow, Vxx, Vxp, Vpp, meanX, meanP, addNoise, shift,
        writeRowCol, hi, hj, $ls,*] <;> grind))

set_option hygiene false in
macro "nm_entry1" "[" ls:Lean.Parser.Tactic.simpLemma,* "]" : tactic =>
  `(tactic| (by_cases hi : i = k <;>
      simp [toXP, linMap, lsum, XP.cov, XP.mean, rows1, idRow, Vxx, Vxp, Vpp, meanX, meanP, addNoise, shift,
        writeRowCol, hi, $ls,*] <;> grind))

set_option hygiene false in
macro "nm_inv" "[" ls:Lean.Parser.Tactic.simpLemma,* "]" : tactic =>
  `(tactic| (refine ⟨fun i j => ?_, fun i j => ?_, fun i => ?_⟩
             · by_cases hi : i = k <;> by_cases hj : j = k <;> apply Cx.ext' <;>
                 simp [writeRowCol, hi, hj, $ls,*] <;> grind
             · by_cases hi : i = k <;> by_cases hj : j = k <;> apply Cx.ext' <;>
                 simp [writeRowCol, hi, hj, $ls,*] <;> grind
             · by_cases hi : i = k <;> simp [writeRowCol, hi, $ls,*] <;> grind))

/-! ### phase shift -/

theorem phaseShift_inv (st : GS K) (hI : NMInv st) (c s : K) (k : Nat) :
    NMInv (phaseShift st c s k) := by
  have hNre := NMInv.re_symm st hI
  have hNim := NMInv.im_anti st hI
  have hMs := NMInv.m_symm st hI
  have hD := hI.2.2
  nm_inv [phaseShift]

theorem phaseShift_refines (st : GS K) (hI : NMInv st) (c s : K) (k : Nat) (hcs : c * c + s * s = 1) :
    XP.Eq (toXP (phaseShift st c s k)) (linMap (rotRows k c s) (toXP st)) := by
  have hNre := NMInv.re_symm st hI
  have hNim := NMInv.im_anti st hI
  have hMs := NMInv.m_symm st hI
  have hD := hI.2.2
  refine ⟨fun i j => ?_, fun i j => ?_, fun i j => ?_, fun i => ?_, fun i => ?_⟩
  · nm_entry2 [phaseShift, rotRows]
  · nm_entry2 [phaseShift, rotRows]
  · nm_entry2 [phaseShift, rotRows]
  · nm_entry1 [phaseShift, rotRows]
  · nm_entry1 [phaseShift, rotRows]

/-! ### loss, thermal loss, thermal state preparation -/

theorem loss_inv (st : GS K) (hI : NMInv st) (q : K) (k : Nat) : NMInv (loss st q k) := by
  have hNre := NMInv.re_symm st hI
  have hNim := NMInv.im_anti st hI
  have hMs := NMInv.m_symm st hI
  have hD := hI.2.2
  nm_inv [loss]

/-- `loss(T, k)` is `V ↦ X V Xᵀ + (1 − T)·1₂` on mode `k` with `X = √T · 1₂` -/
theorem loss_refines (st : GS K) (hI : NMInv st) (q : K) (k : Nat) :
    XP.Eq (toXP (loss st q k)) (addNoise (linMap (lossRows k q) (toXP st)) k (1 - q * q)) := by
  have hNre := NMInv.re_symm st hI
  have hNim := NMInv.im_anti st hI
  have hMs := NMInv.m_symm st hI
  have hD := hI.2.2
  refine ⟨fun i j => ?_, fun i j => ?_, fun i j => ?_, fun i => ?_, fun i => ?_⟩
  · nm_entry2 [loss, lossRows]
  · nm_entry2 [loss, lossRows]
  · nm_entry2 [loss, lossRows]
  · nm_entry1 [loss, lossRows]
  · nm_entry1 [loss, lossRows]

theorem thermalLoss_inv (st : GS K) (hI : NMInv st) (q add : K) (k : Nat) :
    NMInv (thermalLoss st q add k) := by
  have hNre := NMInv.re_symm st hI
  have hNim := NMInv.im_anti st hI
  have hMs := NMInv.m_symm st hI
  have hD := hI.2.2
  nm_inv [thermalLoss, loss]

/-- thermal loss adds `2·(1 − T)·n̄` of noise on the target mode only -/
theorem thermalLoss_refines (st : GS K) (hI : NMInv st) (q add : K) (k : Nat) :
    XP.Eq (toXP (thermalLoss st q add k))
      (addNoise (linMap (lossRows k q) (toXP st)) k (1 - q * q + (add + add))) := by
  have hNre := NMInv.re_symm st hI
  have hNim := NMInv.im_anti st hI
  have hMs := NMInv.m_symm st hI
  have hD := hI.2.2
  refine ⟨fun i j => ?_, fun i j => ?_, fun i j => ?_, fun i => ?_, fun i => ?_⟩
  · nm_entry2 [thermalLoss, loss, lossRows]
  · nm_entry2 [thermalLoss, loss, lossRows]
  · nm_entry2 [thermalLoss, loss, lossRows]
  · nm_entry1 [thermalLoss, loss, lossRows]
  · nm_entry1 [thermalLoss, loss, lossRows]

theorem initThermal_inv (st : GS K) (hI : NMInv st) (pop : K) (k : Nat) :
    NMInv (initThermal st pop k) := by
  have hNre := NMInv.re_symm st hI
  have hNim := NMInv.im_anti st hI
  have hMs := NMInv.m_symm st hI
  have hD := hI.2.2
  nm_inv [initThermal, loss]

/-- `init_thermal` leaves mode `k` in the thermal state `(2n̄+1)·1₂`, uncorrelated with the rest -/
theorem initThermal_refines (st : GS K) (hI : NMInv st) (pop : K) (k : Nat) :
    XP.Eq (toXP (initThermal st pop k))
      (addNoise (linMap (lossRows k 0) (toXP st)) k (1 + (pop + pop))) := by
  have hNre := NMInv.re_symm st hI
  have hNim := NMInv.im_anti st hI
  have hMs := NMInv.m_symm st hI
  have hD := hI.2.2
  refine ⟨fun i j => ?_, fun i j => ?_, fun i j => ?_, fun i => ?_, fun i => ?_⟩
  · nm_entry2 [initThermal, loss, lossRows]
  · nm_entry2 [initThermal, loss, lossRows]
  · nm_entry2 [initThermal, loss, lossRows]
  · nm_entry1 [initThermal, loss, lossRows]
  · nm_entry1 [initThermal, loss, lossRows]

/-! ### displacement -/

theorem displace_inv (st : GS K) (hI : NMInv st) (β : Cx K) (k : Nat) : NMInv (displace st β k) := hI

theorem displace_refines (st : GS K) (β : Cx K) (k : Nat) :
    XP.Eq (toXP (displace st β k)) (shift (toXP st) k (β.re + β.re) (β.im + β.im)) := by
  refine ⟨fun i j => rfl, fun i j => rfl, fun i j => rfl, fun i => ?_, fun i => ?_⟩
  · by_cases hi : i = k <;> simp [toXP, shift, meanX, displace, hi] <;> ring
  · by_cases hi : i = k <;> simp [toXP, shift, meanP, displace, hi] <;> ring

/-! ### beamsplitter -/

set_option hygiene false in
macro "bs_entry2" : tactic =>
  `(tactic| (by_cases hik : i = k <;> by_cases hil : i = l <;> by_cases hjk : j = k <;> by_cases hjl : j = l <;>
      (try (exfalso; omega)) <;>
      simp [toXP, linMap, lsum, XP.cov, XP.mean, bsRows, idRow, Vxx, Vxp, Vpp, meanX, meanP,
        beamsplitter, bsRowNl', bsRowMl', bsRowNk, bsRowNl, bsRowMk, bsRowMl, bsNkk, bsNkl, bsNll, bsMkk, bsMkl, bsMll, hik, hil, hjk, hjl, hkl, Ne.symm hkl] <;> grind))

set_option hygiene false in
macro "bs_entry1" : tactic =>
  `(tactic| (by_cases hik : i = k <;> by_cases hil : i = l <;>
      (try (exfalso; omega)) <;>
      simp [toXP, linMap, lsum, XP.mean, bsRows, idRow, meanX, meanP,
        beamsplitter, hik, hil, hkl, Ne.symm hkl] <;> grind))

theorem beamsplitter_inv (st : GS K) (hI : NMInv st) (c s ct sn : K) (k l : Nat) (hkl : k ≠ l) :
    NMInv (beamsplitter st c s ct sn k l) := by
  have hNre := NMInv.re_symm st hI
  have hNim := NMInv.im_anti st hI
  have hMs := NMInv.m_symm st hI
  have hD := hI.2.2
  refine ⟨fun i j => ?_, fun i j => ?_, fun i => ?_⟩
  · by_cases hik : i = k <;> by_cases hil : i = l <;> by_cases hjk : j = k <;> by_cases hjl : j = l <;>
      (try (exfalso; omega)) <;> apply Cx.ext' <;>
      simp [beamsplitter, bsRowNl', bsRowMl', bsRowNk, bsRowNl, bsRowMk, bsRowMl, bsNkk, bsNkl, bsNll, bsMkk, bsMkl, bsMll, hik, hil, hjk, hjl, hkl, Ne.symm hkl] <;> grind
  · by_cases hik : i = k <;> by_cases hil : i = l <;> by_cases hjk : j = k <;> by_cases hjl : j = l <;>
      (try (exfalso; omega)) <;> apply Cx.ext' <;>
      simp [beamsplitter, bsRowNl', bsRowMl', bsRowNk, bsRowNl, bsRowMk, bsRowMl, bsNkk, bsNkl, bsNll, bsMkk, bsMkl, bsMll, hik, hil, hjk, hjl, hkl, Ne.symm hkl] <;> grind
  · by_cases hik : i = k <;> by_cases hil : i = l <;> (try (exfalso; omega)) <;>
      simp [beamsplitter, bsRowNl', bsRowMl', bsRowNk, bsRowNl, bsRowMk, bsRowMl, bsNkk, bsNkl, bsNll, bsMkk, bsMkl, bsMll, hik, hil, hkl, Ne.symm hkl] <;> grind

theorem beamsplitter_refines (st : GS K) (hI : NMInv st) (c s ct sn : K) (k l : Nat) (hkl : k ≠ l)
    (hcs : c * c + s * s = 1) (hts : ct * ct + sn * sn = 1) :
    XP.Eq (toXP (beamsplitter st c s ct sn k l)) (linMap (bsRows k l c s ct sn) (toXP st)) := by
  have hNre := NMInv.re_symm st hI
  have hNim := NMInv.im_anti st hI
  have hMs := NMInv.m_symm st hI
  have hD := hI.2.2
  refine ⟨fun i j => ?_, fun i j => ?_, fun i j => ?_, fun i => ?_, fun i => ?_⟩
  · bs_entry2
  · bs_entry2
  · bs_entry2
  · bs_entry1
  · bs_entry1

/-! ### locality: rows and columns of non-target modes are untouched (C05) -/

/-- two states agree outside the modes in `T` -/
def AgreeOff (T : List Nat) (a b : GS K) : Prop :=
  (∀ i j, i ∉ T → j ∉ T → a.N i j = b.N i j ∧ a.M i j = b.M i j) ∧ (∀ i, i ∉ T → a.mean i = b.mean i)

theorem squeeze_local (st : GS K) (c s ch sh : K) (k : Nat) : AgreeOff [k] (squeeze st c s ch sh k) st := by
  refine ⟨fun i j hi hj => ?_, fun i hi => ?_⟩ <;> simp at * <;> simp [squeeze, writeRowCol, *]

theorem phaseShift_local (st : GS K) (c s : K) (k : Nat) : AgreeOff [k] (phaseShift st c s k) st := by
  refine ⟨fun i j hi hj => ?_, fun i hi => ?_⟩ <;> simp at * <;> simp [phaseShift, writeRowCol, *]

theorem loss_local (st : GS K) (q : K) (k : Nat) : AgreeOff [k] (loss st q k) st := by
  refine ⟨fun i j hi hj => ?_, fun i hi => ?_⟩ <;> simp at * <;> simp [loss, writeRowCol, *]

theorem thermalLoss_local (st : GS K) (q add : K) (k : Nat) : AgreeOff [k] (thermalLoss st q add k) st := by
  refine ⟨fun i j hi hj => ?_, fun i hi => ?_⟩ <;> simp at * <;> simp [thermalLoss, loss, writeRowCol, *]

theorem initThermal_local (st : GS K) (pop : K) (k : Nat) : AgreeOff [k] (initThermal st pop k) st := by
  refine ⟨fun i j hi hj => ?_, fun i hi => ?_⟩ <;> simp at * <;> simp [initThermal, loss, writeRowCol, *]

theorem displace_local (st : GS K) (β : Cx K) (k : Nat) : AgreeOff [k] (displace st β k) st := by
  refine ⟨fun i j hi hj => ⟨rfl, rfl⟩, fun i hi => ?_⟩
  simp at hi; simp [displace, hi]

theorem beamsplitter_local (st : GS K) (c s ct sn : K) (k l : Nat) :
    AgreeOff [k, l] (beamsplitter st c s ct sn k l) st := by
  refine ⟨fun i j hi hj => ?_, fun i hi => ?_⟩ <;> simp at * <;> simp [beamsplitter, *]

/-- the unfixed `thermal_loss` is not local: it changes a spectator entry -/
theorem thermalLossOld_not_local :
    ¬ AgreeOff [0] (thermalLossOld (vacuum 2 : GS Int) 1 1 0) (vacuum 2) := by
  intro h
  have := (h.1 1 1 (by simp) (by simp)).1
  simp [thermalLossOld, loss, writeRowCol, vacuum] at this
  have h2 := congrArg Cx.re this
  simp at h2

/-! ### photon number bookkeeping (C07) -/

/-- a beamsplitter conserves `N_kk + N_ll` (total mean photon number of the pair, up to means) -/
theorem beamsplitter_photon (st : GS K) (hI : NMInv st) (c s ct sn : K) (k l : Nat) (hkl : k ≠ l)
    (hcs : c * c + s * s = 1) (hts : ct * ct + sn * sn = 1) :
    ((beamsplitter st c s ct sn k l).N k k).re + ((beamsplitter st c s ct sn k l).N l l).re
      = (st.N k k).re + (st.N l l).re := by
  have hNre := NMInv.re_symm st hI
  have hNim := NMInv.im_anti st hI
  have hD := hI.2.2
  simp [beamsplitter, bsRowNl', bsRowNk, bsRowNl, bsNkk, bsNkl, bsNll, hkl, Ne.symm hkl]
  grind

/-- … and the squared amplitudes `|α_k|² + |α_l|²` -/
theorem beamsplitter_amplitude (st : GS K) (c s ct sn : K) (k l : Nat) (hkl : k ≠ l)
    (hcs : c * c + s * s = 1) (hts : ct * ct + sn * sn = 1) :
    let st' := beamsplitter st c s ct sn k l
    (st'.mean k).re * (st'.mean k).re + (st'.mean k).im * (st'.mean k).im
      + ((st'.mean l).re * (st'.mean l).re + (st'.mean l).im * (st'.mean l).im)
      = (st.mean k).re * (st.mean k).re + (st.mean k).im * (st.mean k).im
        + ((st.mean l).re * (st.mean l).re + (st.mean l).im * (st.mean l).im) := by
  simp [beamsplitter, hkl, Ne.symm hkl]
  grind

theorem phaseShift_photon (st : GS K) (c s : K) (k i : Nat) :
    (phaseShift st c s k).N i i = (if i = k then conj (st.N k k) else st.N i i) := by
  by_cases hi : i = k <;> simp [phaseShift, writeRowCol, hi]

/-- loss scales the photon number of the target by `T = q²` and nothing else on the diagonal -/
theorem loss_photon (st : GS K) (q : K) (k i : Nat) :
    ((loss st q k).N i i).re = (if i = k then q * (q * (st.N k k).re) else (st.N i i).re) := by
  by_cases hi : i = k <;> simp [loss, writeRowCol, hi]

/-! ### the documented blocks are symplectic (C07): `X Ω Xᵀ = Ω` row by row -/

/-- symplectic form on quadrature labels -/
def sympOmega : Q → Q → K
  | (i, false), (j, true) => if i = j then 1 else 0
  | (i, true), (j, false) => if i = j then -1 else 0
  | _, _ => 0

/-- `(X Ω Xᵀ)[a, b]` for a sparse `X` -/
def sympForm (R : Q → List (Q × K)) (a b : Q) : K := lsum (R a) fun u => lsum (R b) fun v => sympOmega u v

theorem rows1_symplectic (k : Nat) (a b c d : K) (hdet : a * d - b * c = 1) (u v : Q) :
    sympForm (rows1 k a b c d) u v = sympOmega u v := by
  obtain ⟨i, qi⟩ := u
  obtain ⟨j, qj⟩ := v
  by_cases hi : i = k <;> by_cases hj : j = k <;> cases qi <;> cases qj <;>
    simp [sympForm, lsum, rows1, idRow, sympOmega, hi, hj] <;> grind

theorem squeezeRows_symplectic (k : Nat) (c s ch sh : K) (hcs : c * c + s * s = 1)
    (hh : ch * ch - sh * sh = 1) (u v : Q) :
    sympForm (squeezeRows k c s ch sh) u v = sympOmega u v :=
  rows1_symplectic k _ _ _ _ (by grind) u v

theorem rotRows_symplectic (k : Nat) (c s : K) (hcs : c * c + s * s = 1) (u v : Q) :
    sympForm (rotRows k c s) u v = sympOmega u v :=
  rows1_symplectic k _ _ _ _ (by grind) u v

theorem bsRows_symplectic (k l : Nat) (hkl : k ≠ l) (c s ct sn : K) (hcs : c * c + s * s = 1)
    (hts : ct * ct + sn * sn = 1) (u v : Q) :
    sympForm (bsRows k l c s ct sn) u v = sympOmega u v := by
  obtain ⟨i, qi⟩ := u
  obtain ⟨j, qj⟩ := v
  by_cases hik : i = k <;> by_cases hil : i = l <;> by_cases hjk : j = k <;> by_cases hjl : j = l <;>
    (try (exfalso; omega)) <;> cases qi <;> cases qj <;>
    simp [sympForm, lsum, bsRows, idRow, sympOmega, hik, hil, hjk, hjl, hkl, Ne.symm hkl] <;> grind

/-! ### whole programs: the Gaussian simulator refines the phase-space calculation (C01) -/

theorem XP.eq_of_Eq {V W : XP K} (h : XP.Eq V W) : V = W := by
  obtain ⟨h1, h2, h3, h4, h5⟩ := h
  cases V; cases W
  simp only [XP.mk.injEq]
  exact ⟨funext fun i => funext (h1 i), funext fun i => funext (h2 i), funext fun i => funext (h3 i),
    funext h4, funext h5⟩

/-- the deterministic Gaussian operations shared by the phase-space back ends, on atoms -/
inductive GOp (K : Type)
  | squeeze (c s ch sh : K) (k : Nat)
  | phase (c s : K) (k : Nat)
  | bs (c s ct sn : K) (k l : Nat)
  | displace (β : Cx K) (k : Nat)
  | loss (q : K) (k : Nat)
  | thermalLoss (q add : K) (k : Nat)
  | initThermal (pop : K) (k : Nat)

/-- the atoms satisfy their trigonometric / hyperbolic constraints; targets are distinct -/
def GOp.ok : GOp K → Prop
  | .squeeze c s ch sh _ => c * c + s * s = 1 ∧ ch * ch - sh * sh = 1
  | .phase c s _ => c * c + s * s = 1
  | .bs c s ct sn k l => c * c + s * s = 1 ∧ ct * ct + sn * sn = 1 ∧ k ≠ l
  | _ => True

/-- what `GaussianModes` does -/
def applyNM (st : GS K) : GOp K → GS K
  | .squeeze c s ch sh k => squeeze st c s ch sh k
  | .phase c s k => phaseShift st c s k
  | .bs c s ct sn k l => beamsplitter st c s ct sn k l
  | .displace β k => displace st β k
  | .loss q k => loss st q k
  | .thermalLoss q add k => thermalLoss st q add k
  | .initThermal pop k => initThermal st pop k

/-- the independent phase-space calculation `(μ, V) ↦ (Xμ + d, X V Xᵀ + Y)` -/
def applyXP (V : XP K) : GOp K → XP K
  | .squeeze c s ch sh k => linMap (squeezeRows k c s ch sh) V
  | .phase c s k => linMap (rotRows k c s) V
  | .bs c s ct sn k l => linMap (bsRows k l c s ct sn) V
  | .displace β k => shift V k (β.re + β.re) (β.im + β.im)
  | .loss q k => addNoise (linMap (lossRows k q) V) k (1 - q * q)
  | .thermalLoss q add k => addNoise (linMap (lossRows k q) V) k (1 - q * q + (add + add))
  | .initThermal pop k => addNoise (linMap (lossRows k 0) V) k (1 + (pop + pop))

theorem applyNM_step (st : GS K) (hI : NMInv st) (op : GOp K) (hok : op.ok) :
    toXP (applyNM st op) = applyXP (toXP st) op ∧ NMInv (applyNM st op) := by
  cases op with
  | squeeze c s ch sh k => exact ⟨XP.eq_of_Eq (squeeze_refines st hI c s ch sh k hok.1 hok.2), squeeze_inv st hI ..⟩
  | phase c s k => exact ⟨XP.eq_of_Eq (phaseShift_refines st hI c s k hok), phaseShift_inv st hI ..⟩
  | bs c s ct sn k l =>
    exact ⟨XP.eq_of_Eq (beamsplitter_refines st hI c s ct sn k l hok.2.2 hok.1 hok.2.1),
      beamsplitter_inv st hI c s ct sn k l hok.2.2⟩
  | displace β k => exact ⟨XP.eq_of_Eq (displace_refines st β k), displace_inv st hI β k⟩
  | loss q k => exact ⟨XP.eq_of_Eq (loss_refines st hI q k), loss_inv st hI q k⟩
  | thermalLoss q add k => exact ⟨XP.eq_of_Eq (thermalLoss_refines st hI q add k), thermalLoss_inv st hI q add k⟩
  | initThermal pop k => exact ⟨XP.eq_of_Eq (initThermal_refines st hI pop k), initThermal_inv st hI pop k⟩

theorem applyNM_program (ops : List (GOp K)) (st : GS K) (hI : NMInv st) (hok : ∀ op ∈ ops, op.ok) :
    toXP (ops.foldl applyNM st) = ops.foldl applyXP (toXP st) ∧ NMInv (ops.foldl applyNM st) := by
  induction ops generalizing st with
  | nil => exact ⟨rfl, hI⟩
  | cons op ops ih =>
    obtain ⟨h1, h2⟩ := applyNM_step st hI op (hok op (by simp))
    have := ih (applyNM st op) h2 (fun o ho => hok o (by simp [ho]))
    simp only [List.foldl_cons]
    rw [← h1]
    exact this

/-! ### locality for whole programs, post-state of resets (C05) -/

theorem AgreeOff.refl (T : List Nat) (a : GS K) : AgreeOff T a a := ⟨fun _ _ _ _ => ⟨rfl, rfl⟩, fun _ _ => rfl⟩

theorem AgreeOff.trans {T : List Nat} {a b c : GS K} (h1 : AgreeOff T a b) (h2 : AgreeOff T b c) :
    AgreeOff T a c :=
  ⟨fun i j hi hj => ⟨((h1.1 i j hi hj).1).trans ((h2.1 i j hi hj).1), ((h1.1 i j hi hj).2).trans ((h2.1 i j hi hj).2)⟩,
   fun i hi => (h1.2 i hi).trans (h2.2 i hi)⟩

theorem AgreeOff.mono {S T : List Nat} {a b : GS K} (hST : ∀ x ∈ S, x ∈ T) (h : AgreeOff S a b) : AgreeOff T a b :=
  ⟨fun i j hi hj => h.1 i j (fun hx => hi (hST i hx)) (fun hx => hj (hST j hx)),
   fun i hi => h.2 i (fun hx => hi (hST i hx))⟩

/-- target modes of an operation -/
def GOp.targets : GOp K → List Nat
  | .squeeze _ _ _ _ k => [k] | .phase _ _ k => [k] | .bs _ _ _ _ k l => [k, l] | .displace _ k => [k]
  | .loss _ k => [k] | .thermalLoss _ _ k => [k] | .initThermal _ k => [k]

theorem applyNM_local (st : GS K) (op : GOp K) : AgreeOff op.targets (applyNM st op) st := by
  cases op with
  | squeeze c s ch sh k => exact squeeze_local st c s ch sh k
  | phase c s k => exact phaseShift_local st c s k
  | bs c s ct sn k l => exact beamsplitter_local st c s ct sn k l
  | displace β k => exact displace_local st β k
  | loss q k => exact loss_local st q k
  | thermalLoss q add k => exact thermalLoss_local st q add k
  | initThermal pop k => exact initThermal_local st pop k

/-- any program whose operations all target modes in `T` leaves every `N`, `M`, `mean` entry of the
other modes unchanged -/
theorem program_local (T : List Nat) (ops : List (GOp K)) (st : GS K)
    (h : ∀ op ∈ ops, ∀ x ∈ op.targets, x ∈ T) : AgreeOff T (ops.foldl applyNM st) st := by
  induction ops generalizing st with
  | nil => exact AgreeOff.refl T st
  | cons op ops ih =>
    simp only [List.foldl_cons]
    exact (ih (applyNM st op) (fun o ho => h o (by simp [ho]))).trans
      ((applyNM_local st op).mono (h op (by simp)))

/-- `loss(0, k)` (vacuum preparation, mode deletion, measurement reset): mode `k` ends in vacuum,
uncorrelated with everything -/
theorem loss_zero_resets (st : GS K) (k j : Nat) :
    (loss st 0 k).N k j = 0 ∧ (loss st 0 k).N j k = 0 ∧ (loss st 0 k).M k j = 0 ∧ (loss st 0 k).M j k = 0 ∧
    (loss st 0 k).mean k = 0 := by
  refine ⟨?_, ?_, ?_, ?_, ?_⟩ <;> by_cases hj : j = k <;> apply Cx.ext' <;> simp [loss, writeRowCol, hj]

/-! ### natively applied multi-mode operations: `fromscovmat`/`fromsmean`, `apply_u` -/

theorem loss_zero_N (st : GS K) (k i j : Nat) :
    (loss st 0 k).N i j = if i = k ∨ j = k then 0 else st.N i j := by
  by_cases hi : i = k <;> by_cases hj : j = k <;> apply Cx.ext' <;> simp [loss, writeRowCol, hi, hj]

theorem loss_zero_M (st : GS K) (k i j : Nat) :
    (loss st 0 k).M i j = if i = k ∨ j = k then 0 else st.M i j := by
  by_cases hi : i = k <;> by_cases hj : j = k <;> apply Cx.ext' <;> simp [loss, writeRowCol, hi, hj]

theorem loss_zero_mean (st : GS K) (k i : Nat) :
    (loss st 0 k).mean i = if i = k then 0 else st.mean i := by
  by_cases hi : i = k <;> apply Cx.ext' <;> simp [loss, writeRowCol, hi]

theorem foldl_loss_N (modes : List Nat) (st : GS K) (i j : Nat) :
    (modes.foldl (fun s m => loss s 0 m) st).N i j = if i ∈ modes ∨ j ∈ modes then 0 else st.N i j := by
  induction modes generalizing st with
  | nil => simp
  | cons m ms ih =>
    simp only [List.foldl_cons, ih, loss_zero_N, List.mem_cons]
    by_cases h1 : i ∈ ms ∨ j ∈ ms
    · have : (i = m ∨ i ∈ ms) ∨ (j = m ∨ j ∈ ms) := by rcases h1 with h | h <;> simp [h]
      simp [h1, this]
    · simp only [h1, if_false]
      by_cases h2 : i = m ∨ j = m
      · have : (i = m ∨ i ∈ ms) ∨ (j = m ∨ j ∈ ms) := by rcases h2 with h | h <;> simp [h]
        simp [h2, this]
      · have : ¬ ((i = m ∨ i ∈ ms) ∨ (j = m ∨ j ∈ ms)) := by
          simp only [not_or] at h1 h2 ⊢; exact ⟨⟨h2.1, h1.1⟩, ⟨h2.2, h1.2⟩⟩
        simp [h2, this]

theorem foldl_loss_M (modes : List Nat) (st : GS K) (i j : Nat) :
    (modes.foldl (fun s m => loss s 0 m) st).M i j = if i ∈ modes ∨ j ∈ modes then 0 else st.M i j := by
  induction modes generalizing st with
  | nil => simp
  | cons m ms ih =>
    simp only [List.foldl_cons, ih, loss_zero_M, List.mem_cons]
    by_cases h1 : i ∈ ms ∨ j ∈ ms
    · have : (i = m ∨ i ∈ ms) ∨ (j = m ∨ j ∈ ms) := by rcases h1 with h | h <;> simp [h]
      simp [h1, this]
    · simp only [h1, if_false]
      by_cases h2 : i = m ∨ j = m
      · have : (i = m ∨ i ∈ ms) ∨ (j = m ∨ j ∈ ms) := by rcases h2 with h | h <;> simp [h]
        simp [h2, this]
      · have : ¬ ((i = m ∨ i ∈ ms) ∨ (j = m ∨ j ∈ ms)) := by
          simp only [not_or] at h1 h2 ⊢; exact ⟨⟨h2.1, h1.1⟩, ⟨h2.2, h1.2⟩⟩
        simp [h2, this]

theorem foldl_loss_mean (modes : List Nat) (st : GS K) (i : Nat) :
    (modes.foldl (fun s m => loss s 0 m) st).mean i = if i ∈ modes then 0 else st.mean i := by
  induction modes generalizing st with
  | nil => simp
  | cons m ms ih =>
    simp only [List.foldl_cons, ih, loss_zero_mean, List.mem_cons]
    by_cases h1 : i ∈ ms <;> by_cases h2 : i = m <;> simp [h1, h2]

theorem posIn_some {modes : List Nat} {i a : Nat} (h : posIn modes i = some a) :
    i ∈ modes ∧ a = modes.idxOf i := by
  unfold posIn at h
  split at h
  · rename_i hc; exact ⟨by simpa using hc, by cases h; rfl⟩
  · cases h

theorem posIn_none {modes : List Nat} {i : Nat} (h : ¬ i ∈ modes) : posIn modes i = none := by
  simp [posIn, h]

theorem posIn_getElem {modes : List Nat} (hnd : modes.Nodup) {a : Nat} (ha : a < modes.length) :
    posIn modes modes[a] = some a := by
  simp [posIn, List.getElem_mem ha, hnd.idxOf_getElem a ha]

/-- **`prepare_gaussian_state` post-state**: on the listed modes, in the listed order, the quadrature
covariance and means are exactly the given `(V, r)` (for symmetric `V_xx`, `V_pp`) -/
theorem fromCov_poststate (st : GS K) (quarter half : K) (hq : quarter * (1 + 1 + 1 + 1) = 1)
    (hh : half * (1 + 1) = 1) (modes : List Nat) (hnd : modes.Nodup)
    (A B C : Nat → Nat → K) (rx rp : Nat → K) (hA : ∀ a b, A a b = A b a) (hC : ∀ a b, C a b = C b a)
    {a b : Nat} (ha : a < modes.length) (hb : b < modes.length) :
    let st' := fromCov st quarter half modes A B C rx rp
    Vxx st' modes[a] modes[b] = A a b ∧ Vxp st' modes[a] modes[b] = B a b ∧
    Vpp st' modes[a] modes[b] = C a b ∧ meanX st' modes[a] = rx a ∧ meanP st' modes[a] = rp a := by
  intro st'
  have pa := posIn_getElem hnd ha
  have pb := posIn_getElem hnd hb
  have hab : modes[a] = modes[b] ↔ a = b := List.getElem_inj hnd
  refine ⟨?_, ?_, ?_, ?_, ?_⟩
  · simp only [st', Vxx, fromCov, pa, pb, hab]
    by_cases h : a = b
    · subst h; simp; grind
    · simp [h, Ne.symm h]; have := hA a b; have := hC a b; grind
  · simp only [st', Vxp, fromCov, pa, pb]
    simp; grind
  · simp only [st', Vpp, fromCov, pa, pb, hab]
    by_cases h : a = b
    · subst h; simp; grind
    · simp [h, Ne.symm h]; have := hA a b; have := hC a b; grind
  · simp only [st', meanX, fromCov, pa]; grind
  · simp only [st', meanP, fromCov, pa]; grind

/-- … the prepared modes are uncorrelated with every other mode … -/
theorem fromCov_uncorrelated (st : GS K) (quarter half : K) (modes : List Nat)
    (A B C : Nat → Nat → K) (rx rp : Nat → K) {i j : Nat} (hi : i ∈ modes) (hj : ¬ j ∈ modes) :
    let st' := fromCov st quarter half modes A B C rx rp
    st'.N i j = 0 ∧ st'.N j i = 0 ∧ st'.M i j = 0 ∧ st'.M j i = 0 := by
  intro st'
  have pj := posIn_none hj
  refine ⟨?_, ?_, ?_, ?_⟩ <;> simp only [st', fromCov, pj]
  · cases posIn modes i <;> simp [foldl_loss_N, hi]
  · simp [foldl_loss_N, hi]
  · cases posIn modes i <;> simp [foldl_loss_M, hi]
  · simp [foldl_loss_M, hi]

/-- … and all other modes keep their data -/
theorem fromCov_local (st : GS K) (quarter half : K) (modes : List Nat)
    (A B C : Nat → Nat → K) (rx rp : Nat → K) :
    AgreeOff modes (fromCov st quarter half modes A B C rx rp) st := by
  refine ⟨fun i j hi hj => ?_, fun i hi => ?_⟩
  · simp [fromCov, posIn_none hi, foldl_loss_N, foldl_loss_M, hi, hj]
  · simp [fromCov, posIn_none hi, foldl_loss_mean, hi]

/-! ### `apply_u` / `GaussianBackend.passive` -/

theorem csum_re (n : Nat) (f : Nat → Cx K) : (csum n f).re = ∑ k ∈ Finset.range n, (f k).re := by
  induction n with
  | zero => simp [csum]
  | succ m ih => simp [csum, ih, Finset.sum_range_succ]

theorem csum_im (n : Nat) (f : Nat → Cx K) : (csum n f).im = ∑ k ∈ Finset.range n, (f k).im := by
  induction n with
  | zero => simp [csum]
  | succ m ih => simp [csum, ih, Finset.sum_range_succ]

theorem csum_congr {n : Nat} {f g : Nat → Cx K} (h : ∀ k, k < n → f k = g k) : csum n f = csum n g := by
  apply Cx.ext'
  · rw [csum_re, csum_re]; exact Finset.sum_congr rfl fun k hk => by rw [h k (Finset.mem_range.mp hk)]
  · rw [csum_im, csum_im]; exact Finset.sum_congr rfl fun k hk => by rw [h k (Finset.mem_range.mp hk)]

theorem csum_single {n : Nat} (f : Nat → Cx K) {i : Nat} (hi : i < n) (h : ∀ k, k < n → k ≠ i → f k = 0) :
    csum n f = f i := by
  apply Cx.ext'
  · rw [csum_re, Finset.sum_eq_single_of_mem i (Finset.mem_range.mpr hi)]
    intro k hk hne; rw [h k (Finset.mem_range.mp hk) hne]; rfl
  · rw [csum_im, Finset.sum_eq_single_of_mem i (Finset.mem_range.mpr hi)]
    intro k hk hne; rw [h k (Finset.mem_range.mp hk) hne]; rfl

theorem csum_zero {n : Nat} (f : Nat → Cx K) (h : ∀ k, k < n → f k = 0) : csum n f = 0 := by
  apply Cx.ext'
  · rw [csum_re]; exact Finset.sum_eq_zero fun k hk => by rw [h k (Finset.mem_range.mp hk)]; rfl
  · rw [csum_im]; exact Finset.sum_eq_zero fun k hk => by rw [h k (Finset.mem_range.mp hk)]; rfl

/-- a row of `T_expand` belonging to a mode outside the list is a unit row -/
theorem expandT_spectator (modes : List Nat) (T : Nat → Nat → Cx K) {i : Nat} (hi : ¬ i ∈ modes) (k : Nat) :
    expandT modes T i k = if i = k then ofK 1 else 0 := by
  unfold expandT
  rw [posIn_none hi]
  cases hk : posIn modes k with
  | none => rfl
  | some b =>
    have := (posIn_some hk).1
    have : i ≠ k := fun h => hi (h ▸ this)
    simp [this]

theorem Cx.one_mul' (z : Cx K) : (ofK 1 : Cx K) * z = z := by apply Cx.ext' <;> simp
theorem Cx.mul_one' (z : Cx K) : z * (ofK 1 : Cx K) = z := by apply Cx.ext' <;> simp
theorem Cx.zero_mul' (z : Cx K) : (0 : Cx K) * z = 0 := by apply Cx.ext' <;> simp
theorem Cx.mul_zero' (z : Cx K) : z * (0 : Cx K) = 0 := by apply Cx.ext' <;> simp
theorem Cx.conj_one : conj (ofK 1 : Cx K) = ofK 1 := by apply Cx.ext' <;> simp
theorem Cx.conj_zero : conj (0 : Cx K) = 0 := by apply Cx.ext' <;> simp

/-- **`passive(T, modes)` is local**: whatever `T` is placed on the listed modes (any order), every
`nmat`, `mmat`, `mean` entry of the other modes is unchanged -/
theorem applyU_local (st : GS K) (modes : List Nat) (T : Nat → Nat → Cx K) :
    ∀ i j, i < st.n → j < st.n → ¬ i ∈ modes → ¬ j ∈ modes →
      (applyU st (expandT modes T)).N i j = st.N i j ∧ (applyU st (expandT modes T)).M i j = st.M i j ∧
      (applyU st (expandT modes T)).mean i = st.mean i := by
  intro i j hi hj hi' hj'
  refine ⟨?_, ?_, ?_⟩
  · simp only [applyU]
    rw [csum_single _ hi]
    · rw [csum_single _ hj]
      · rw [expandT_spectator modes T hi', expandT_spectator modes T hj']
        simp [Cx.conj_one, Cx.one_mul', Cx.mul_one']
      · intro l _ hne
        rw [expandT_spectator modes T hj' l]; simp [Ne.symm hne, Cx.mul_zero']
    · intro k _ hne
      apply csum_zero
      intro l _
      rw [expandT_spectator modes T hi' k]; simp [Ne.symm hne, Cx.conj_zero, Cx.zero_mul']
  · simp only [applyU]
    rw [csum_single _ hi]
    · rw [csum_single _ hj]
      · rw [expandT_spectator modes T hi', expandT_spectator modes T hj']
        simp [Cx.one_mul', Cx.mul_one']
      · intro l _ hne
        rw [expandT_spectator modes T hj' l]; simp [Ne.symm hne, Cx.mul_zero']
    · intro k _ hne
      apply csum_zero
      intro l _
      rw [expandT_spectator modes T hi' k]; simp [Ne.symm hne, Cx.zero_mul']
  · simp only [applyU]
    rw [csum_single _ hi]
    · rw [expandT_spectator modes T hi']; simp [Cx.one_mul']
    · intro k _ hne
      rw [expandT_spectator modes T hi' k]; simp [Ne.symm hne, Cx.zero_mul']

end SFV.Gauss
