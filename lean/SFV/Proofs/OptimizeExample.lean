import SFV.Proofs.Optimize

/-! A concrete, non-commutative lawful interpretation (used for the non-vacuity examples of C03):
the state is one rational "amplitude" per subsystem; a gate of an additive family translates the
amplitude of its first target by its (signed) first parameter, a channel scales it, a preparation
overwrites it, the Fourier gate flips its sign; everything else is the identity. -/
namespace SFV.Toy
open SFV

/-- state transformers, composed left to right -/
structure Tr where
  run : (Nat → Rat) → (Nat → Rat)

@[ext] theorem Tr.ext' {a b : Tr} (h : ∀ s v, a.run s v = b.run s v) : a = b := by
  cases a; cases b; congr; funext s v; exact h s v

instance : Monoid Tr where
  mul a b := ⟨fun s => b.run (a.run s)⟩
  one := ⟨id⟩
  mul_assoc := by intros; rfl
  one_mul := by intros; rfl
  mul_one := by intros; rfl

theorem mul_run (a b : Tr) (s : Nat → Rat) : (a * b).run s = b.run (a.run s) := rfl
theorem one_run (s : Nat → Rat) : (1 : Tr).run s = s := rfl

/-- apply `g` to the amplitude of subsystem `w` -/
def actOn (w : Nat) (g : Rat → Rat) : Tr := ⟨fun s v => if v = w then g (s w) else s v⟩

theorem actOn_mul (w : Nat) (g h : Rat → Rat) : actOn w g * actOn w h = actOn w (fun x => h (g x)) := by
  apply Tr.ext'
  intro s v
  simp only [mul_run, actOn]
  by_cases hv : v = w <;> simp [hv]

theorem actOn_id (w : Nat) : actOn w (fun x => x) = 1 := by
  apply Tr.ext'
  intro s v
  simp only [one_run, actOn]
  by_cases hv : v = w <;> simp [hv]

theorem actOn_comm {w w' : Nat} (h : w ≠ w') (g g' : Rat → Rat) :
    actOn w g * actOn w' g' = actOn w' g' * actOn w g := by
  apply Tr.ext'
  intro s v
  simp only [mul_run, actOn]
  by_cases hv : v = w <;> by_cases hv' : v = w'
  · exact absurd (hv.symm.trans hv') h
  · simp [hv, h]
  · simp [hv', Ne.symm h]
  · simp [hv, hv']

/-- on the first target, or nowhere -/
def onHead (regs : List Nat) (g : Rat → Rat) : Tr :=
  match regs with
  | [] => 1
  | w :: _ => actOn w g

def θ : Nat → Rat := fun m => 1 / (m + 2)

/-- what the command does to the amplitude of its first target -/
def loc (c : Cmd) : Rat → Rat :=
  match ruleOf c.cls with
  | .gate => match c.pars with
    | p :: _ => fun x => x + sg c.dagger * p.val θ
    | [] => fun x => x
  | .channel => match c.pars with
    | .num t :: _ => fun x => t * x
    | _ => fun x => x
  | .prep => match c.pars with
    | p :: _ => fun _ => p.val θ
    | [] => fun _ => 0
  | .fourier => fun x => -x
  | _ => fun x => x

def f (c : Cmd) : Tr := onHead c.regs (loc c)

theorem onHead_mul (r : List Nat) (g h : Rat → Rat) :
    onHead r g * onHead r h = onHead r (fun x => h (g x)) := by
  cases r with
  | nil => rfl
  | cons w _ => exact actOn_mul w g h

theorem onHead_id (r : List Nat) : onHead r (fun x => x) = 1 := by
  cases r with
  | nil => rfl
  | cons w _ => exact actOn_id w

theorem f_comm (a b : Cmd) (h : ¬ dep a b) : f a * f b = f b * f a := by
  unfold f
  cases ha : a.regs with
  | nil => simp [onHead]
  | cons w _ =>
    cases hb : b.regs with
    | nil => simp [onHead]
    | cons w' _ =>
      simp only [onHead]
      refine actOn_comm ?_ _ _
      intro hw
      apply h
      exact ⟨w, by simp [Cmd.wires, ha], by simp [Cmd.wires, hb, hw]⟩

def lawful : Lawful (fun _ => True) f where
  θ := θ
  G := fun _ r _ x => onHead r (fun y => y + x)
  C := fun _ r _ t => onHead r (fun y => t * y)
  D := fun _ _ _ => 1
  f_id := fun c i => rfl
  gate_f := by
    intro c p t _ hr _ hp
    simp [f, loc, hr, hp]
  gate_add := by
    intro k r t x y _
    rw [onHead_mul]
    congr 1
    funext z
    ring
  gate_zero := by
    intro k r t _
    simpa using onHead_id r
  chan_f := by
    intro c x t _ hr hp
    simp [f, loc, hr, hp]
  chan_mul := by
    intro k r t x y _
    rw [onHead_mul]
    congr 1
    funext z
    ring
  chan_one := by
    intro k r t _
    simpa using onHead_id r
  mat_f := by
    intro c A _ hr _
    simp [f, loc, hr, onHead_id]
  mat_mul := by intros; simp
  mat_one := by intros; rfl
  prep_absorb := by
    intro a b _ ha hb hr _ _
    unfold f
    rw [hr, onHead_mul]
    congr 1
    funext z
    simp only [loc, hb]
    cases b.pars <;> rfl
  fourier_inv := by
    intro a b _ ha hcls hr _
    unfold f
    have hb : ruleOf b.cls = .fourier := hcls ▸ ha
    rw [hr, onHead_mul]
    simp only [loc, ha, hb, neg_neg]
    exact onHead_id _

end SFV.Toy
