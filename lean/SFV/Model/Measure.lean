import SFV.Model.GaussNM
import SFV.Model.FockTensor
/-
C06 — measurements.  Executable model of the logic core of

* `backends/gaussianbackend/ops.py`: `chop_in_blocks`, `chop_in_blocks_vector`, `reassemble`,
  `reassemble_vector`; `gaussiancircuit.py`: `scovmat`, `smean`, `fromscovmat`, `fromsmean`,
  `measure_dyne`, `homodyne`, `post_select_homodyne`, `post_select_heterodyne`;
  `gaussianbackend/backend.py`: `measure_homodyne`, `measure_heterodyne` (scalings);
* `backends/bosonicbackend/ops.py`: `chop_in_blocks_multi`, `chop_in_blocks_vector_multi`,
  `reassemble_multi`, `reassemble_vector_multi`; `bosoniccircuit.py`: `post_select_generaldyne`
  (per component + re-weighting), `post_select_homodyne`, `post_select_heterodyne`,
  `measure_threshold` (weights); `bosonicbackend/backend.py`: `measure_homodyne`,
  `measure_heterodyne` (scalings);
* `backends/fockbackend/circuit.py`: `measure_fock` outcome re-ordering (`unIndex`, `argsort`);
* `ops.py`: `MeasureHomodyne._apply` (hbar scaling of `select` and of the returned value),
  `Measurement.apply` (value stored per RegRef);
* `engine.py`: `LocalEngine._run_program` sample bookkeeping and `_combine_and_sort_samples`.

Matrices are total functions `Nat → Nat → K` (only indices below the stated size matter).  The
inverse `(C + σ)⁻¹` that the code obtains from LAPACK is an *input* `W`; `det`/`exp` enter only
through an opaque re-weighting function.  Core Lean only; executed over `Rat`.
-/
namespace SFV.Meas
open SFV.Gauss SFV.Fock

abbrev Mat (K : Type) := Nat → Nat → K
abbrev Vec (K : Type) := Nat → K

variable {K : Type}

/-! ### which rows/columns go where -/

/-- `ind` / `idtokeep`: `sorted(set(range(tot)) - set(idtodelete))` -/
def keep (tot : Nat) (del : List Nat) : List Nat := (List.range tot).filter fun i => !del.contains i

/-- number of kept indices below `r` (the place of `r` in the chopped object) -/
def pos (del : List Nat) (r : Nat) : Nat := ((List.range r).filter fun i => !del.contains i).length

/-- `chop_in_blocks(m, idtodelete)`: `A` = rows and columns not deleted (`np.delete` twice) -/
def chopA (m : Mat K) (tot : Nat) (del : List Nat) : Mat K :=
  fun i j => m ((keep tot del).getD i 0) ((keep tot del).getD j 0)

/-- `B = np.delete(m[:, idtodelete], idtodelete, axis=0)`: kept rows, deleted columns in the given order -/
def chopB (m : Mat K) (tot : Nat) (del : List Nat) : Mat K :=
  fun i a => m ((keep tot del).getD i 0) (del.getD a 0)

/-- `C[l, l1] = m[idtodelete[l], idtodelete[l1]]` -/
def chopC (m : Mat K) (del : List Nat) : Mat K := fun a b => m (del.getD a 0) (del.getD b 0)

/-- `chop_in_blocks_vector`: `va = v[idtokeep]`, `vb = v[idtodelete]` -/
def chopVecA (v : Vec K) (tot : Nat) (del : List Nat) : Vec K := fun i => v ((keep tot del).getD i 0)
def chopVecB (v : Vec K) (del : List Nat) : Vec K := fun a => v (del.getD a 0)

/-- Gaussian `reassemble(A, idtodelete)` with `ntot = len(A) + len(idtodelete)`:
zeros; `newmat[ind[i], ind[j]] = A[i, j]`; finally `newmat[d, d] = 1` for the deleted indices -/
def reassemble [Zero K] [One K] (A : Mat K) (ntot : Nat) (del : List Nat) : Mat K :=
  let ind := keep ntot del
  fun r c =>
    if del.contains r && r == c then 1
    else if ind.contains r && ind.contains c then A (ind.idxOf r) (ind.idxOf c)
    else 0

/-- Gaussian `reassemble_vector(va, idtodelete)`: zeros, `newv[ind[j]] = va[j]` -/
def reassembleVec [Zero K] (va : Vec K) (ntot : Nat) (del : List Nat) : Vec K :=
  let ind := keep ntot del
  fun r => if ind.contains r then va (ind.idxOf r) else 0

/-- bosonic `reassemble_multi` (one component): identity, then `new_mat[ix_(ind, ind)] = A` -/
def reassembleB [Zero K] [One K] (A : Mat K) (ntot : Nat) (del : List Nat) : Mat K :=
  let ind := keep ntot del
  fun r c =>
    if ind.contains r && ind.contains c then A (ind.idxOf r) (ind.idxOf c)
    else if r == c then 1 else 0

/-- bosonic `reassemble_vector_multi` (one component): zeros, `new_vec[:, ind] = va` -/
def reassembleVecB [Zero K] (va : Vec K) (ntot : Nat) (del : List Nat) : Vec K :=
  let ind := keep ntot del
  fun r => if ind.contains r then va (ind.idxOf r) else 0

/-! ### the conditional (Schur-complement) update -/

section schur
variable [Zero K] [Add K] [Sub K] [Mul K]

/-- `(B W)[i, b] = Σ_a B[i, a] W[a, b]` (`np.dot(B, inv)`), `k = len(idtodelete)` -/
def BW (B W : Mat K) (k : Nat) : Mat K := fun i b => sumTo k fun a => B i a * W a b

/-- `A - dot(dot(B, W), B.T)` -/
def schur (A B W : Mat K) (k : Nat) : Mat K :=
  fun i j => A i j - sumTo k fun b => BW B W k i b * B j b

/-- `va + dot(dot(B, W), vm - vc)` -/
def condMean (va : Vec K) (B W : Mat K) (vm vc : Vec K) (k : Nat) : Vec K :=
  fun i => va i + sumTo k fun b => BW B W k i b * (vm b - vc b)

/-- `C + covmat` -/
def addM (C σ : Mat K) : Mat K := fun a b => C a b + σ a b

/-- `(vals - vc) W (vals - vc)`: argument of the exponential in the bosonic re-weighting -/
def quadForm (W : Mat K) (d : Vec K) (k : Nat) : K :=
  sumTo k fun a => sumTo k fun b => d a * W a b * d b

end schur

/-- explicit inverse of a 2×2 matrix (one measured mode) -/
def inv2 [Sub K] [Mul K] [Neg K] [Div K] (m : Mat K) : Mat K :=
  let det := m 0 0 * m 1 1 - m 0 1 * m 1 0
  fun a b =>
    match a, b with
    | 0, 0 => m 1 1 / det
    | 0, _ => -(m 0 1) / det
    | _, 0 => -(m 1 0) / det
    | _, _ => m 0 0 / det

/-- `np.diag([eps**2, 1/eps**2])`: measurement covariance of `homodyne` / `post_select_homodyne`
(the bosonic circuit multiplies by `hbar/2 = 1`) -/
def homodyneCov [Zero K] [One K] [Mul K] [Div K] (eps : K) : Mat K :=
  fun a b => if a = b then (if a = 0 then eps * eps else 1 / (eps * eps)) else 0

/-- `np.identity(2)`: measurement covariance of the heterodyne measurement -/
def heterodyneCov [Zero K] [One K] : Mat K := fun a b => if a = b then 1 else 0

/-- data in the quadrature picture: covariance matrix and mean vector (xpxp ordering, hbar = 2) -/
structure PS (K : Type) where
  cov : Mat K
  mean : Vec K

section dyne
variable [Zero K] [One K] [Add K] [Sub K] [Mul K]

/-- the core shared by `measure_dyne` / `post_select_homodyne` / `post_select_heterodyne` of the
Gaussian back end between `scovmat()`/`smean()` and `fromscovmat`/`fromsmean`:
`tot = 2·nlen`, `del = expind`, `σ = covmat`, `W = inv(C + covmat)`, `vm` = the outcome. -/
def gaussDyneXP (tot : Nat) (del : List Nat) (V : Mat K) (r : Vec K) (W : Mat K) (vm : Vec K) : PS K :=
  let k := del.length
  let A := chopA V tot del
  let B := chopB V tot del
  let V1 := reassemble (schur A B W k) ((tot - k) + k) del
  let va := chopVecA r tot del
  let vc := chopVecB r del
  { cov := V1, mean := reassembleVec (condMean va B W vm vc k) ((tot - k) + k) del }

/-- one component of bosonic `post_select_generaldyne` (`covs`, `means` update) -/
def bosonicDyneComp (tot : Nat) (del : List Nat) (V : Mat K) (r : Vec K) (W : Mat K) (vm : Vec K) : PS K :=
  let k := del.length
  let A := chopA V tot del
  let B := chopB V tot del
  let va := chopVecA r tot del
  let vc := chopVecB r del
  { cov := reassembleB (schur A B W k) ((tot - k) + k) del
    mean := reassembleVecB (condMean va B W vm vc k) ((tot - k) + k) del }

/-- bosonic `post_select_generaldyne` (after the `fix:` commit): `len(modes) == len(self.active)` — every stored
mode is measured: the modes are reset by `loss(0, i)`, nothing is conditioned, the weights stay as they are -/
def bosonicAllMeasured (tot : Nat) (modes : List Nat) : Bool := 2 * modes.length == tot

/-- the quadratic form `(vals − vc)ᵀ W (vals − vc)` of one component (exponent of its re-weighting) -/
def bosonicQuad (del : List Nat) (r : Vec K) (W : Mat K) (vm : Vec K) : K :=
  quadForm W (fun a => vm a - chopVecB r del a) del.length

/-- arguments handed to `np.random.multivariate_normal` by `measure_dyne`: `(vc, C + covmat)` -/
def dyneRngArgs (del : List Nat) (V : Mat K) (r : Vec K) (σ : Mat K) : PS K :=
  { cov := addM (chopC V del) σ, mean := chopVecB r del }

end dyne

/-! ### Gaussian back end: `(nmat, mmat, mean)` ↔ quadrature picture -/

section gauss
variable [Zero K] [One K] [Add K] [Sub K] [Neg K] [Mul K]

/-- `scovmat()` = `xxpp_to_xpxp(scovmatxp())`: entry `(2i+a, 2j+b)` is block `(a, b)` at modes `(i, j)` -/
def scov (st : GS K) : Mat K := fun r c =>
  if r % 2 = 0 then (if c % 2 = 0 then Vxx st (r / 2) (c / 2) else Vxp st (r / 2) (c / 2))
  else (if c % 2 = 0 then Vxp st (c / 2) (r / 2) else Vpp st (r / 2) (c / 2))

/-- `smean()`: `r[2i] = 2 Re mean[i]`, `r[2i+1] = 2 Im mean[i]` -/
def smean (st : GS K) : Vec K := fun r => if r % 2 = 0 then meanX st (r / 2) else meanP st (r / 2)

/-- `fromscovmat(V)` with `modes=None` (all modes; no reset branch).  `h` stands for `1/2`
(`0.25 = h·h`); `A, B, C` are the xx, xp, pp blocks of `xpxp_to_xxpp(V)`. -/
def fromScov (h : K) (st : GS K) (V : Mat K) : GS K :=
  let A : Mat K := fun i j => V (2 * i) (2 * j)
  let B : Mat K := fun i j => V (2 * i) (2 * j + 1)
  let C : Mat K := fun i j => V (2 * i + 1) (2 * j + 1)
  let q := h * h
  let two : K := 1 + 1
  { st with
    N := fun i j => ⟨q * (A i j + C i j - (if i = j then two else 0)), q * (B i j - B j i)⟩
    M := fun i j => ⟨q * (A i j - C i j), q * (B i j + B j i)⟩ }

/-- `fromsmean(r)` with `modes=None`: `mean[i] = 0.5 (r[2i] + 1j r[2i+1])` -/
def fromSmean (h : K) (st : GS K) (r : Vec K) : GS K :=
  { st with mean := fun i => ⟨h * r (2 * i), h * r (2 * i + 1)⟩ }

/-- `expind = concatenate((2*indices, 2*indices + 1))` for `indices = [n]` -/
def expind1 (n : Nat) : List Nat := [2 * n, 2 * n + 1]

/-- general: `indices` any list of modes -/
def expind (modes : List Nat) : List Nat := modes.map (2 * ·) ++ modes.map (2 * · + 1)

/-- state update of `measure_dyne(covmat, [n])` / `post_select_homodyne(n, ·)` /
`post_select_heterodyne(n, ·)` for the outcome `vm` (sampled or post-selected), `W = inv(C+covmat)` -/
def gaussPostSelect (h : K) (st : GS K) (modes : List Nat) (W : Mat K) (vm : Vec K) : GS K :=
  let tot := 2 * st.n
  let del := expind modes
  let out := gaussDyneXP tot del (scov st) (smean st) W vm
  -- `fromscovmat` leaves `mean` alone, so `smean()` afterwards is `smean()` before
  fromSmean h (fromScov h st out.cov) out.mean

/-- what `measure_dyne` hands to the random generator -/
def gaussRngArgs (st : GS K) (modes : List Nat) (σ : Mat K) : PS K :=
  dyneRngArgs (expind modes) (scov st) (smean st) σ

end gauss

/-! ### outcome scalings -/

section scal
variable [Mul K] [Div K] [Add K] [One K]

/-- Gaussian `post_select_heterodyne`: `vm = 2.0 * [Re α, Im α]` -/
def gaussHetVm (re im : K) : K × K := ((1 + 1) * re, (1 + 1) * im)

/-- Gaussian `measure_heterodyne(select=None)`: `res = 0.5 * measure_dyne(...)`, value `res0 + i res1`;
`h` stands for 0.5 -/
def gaussHetReturned (h : K) (x p : K) : K × K := (h * x, h * p)

/-- bosonic circuit `post_select_heterodyne(mode, alpha_val)`: `vals = [alpha.real, alpha.imag]` -/
def bosonicCircuitHetVals (re im : K) : K × K := (re, im)

/-- bosonic `measure_heterodyne(select=α)` after the `fix:` commit: the circuit is called with `2 α` -/
def bosonicHetVm (re im : K) : K × K := bosonicCircuitHetVals ((1 + 1) * re) ((1 + 1) * im)

/-- the unrepaired behaviour: `post_select_heterodyne(mode, select)` -/
def bosonicHetVmOld (re im : K) : K × K := bosonicCircuitHetVals re im

/-- bosonic `measure_heterodyne(select=None)`: `res = 0.5 * heterodyne(...)` -/
def bosonicHetReturned (h : K) (x p : K) : K × K := (h * x, h * p)

/-- `MeasureHomodyne._apply`: `select / s` goes to the back end (`s = sqrt(hbar/2)`), then both
phase-space back ends compute `val = select * 2 / sqrt(2 * circuit.hbar)`; `t` stands for
`sqrt(2 * circuit.hbar) / 2` (`= 1`, the circuits fix `hbar = 2`) -/
def homodyneSelectToCircuit (s t : K) (select : K) : K := (select / s) / t

/-- value reported for a circuit-level outcome `qs`: back end `qs * sqrt(2 hbar)/2`, front end `s * ·` -/
def homodyneReturned (s t : K) (qs : K) : K := s * (qs * t)

end scal

/-! ### which branch a measurement takes -/

/-- `if select is None: <sample> else: <post-select>` (all back ends, homodyne and heterodyne): the branch depends on the
*presence* of a value, not on the value — `select = 0` is a post-selection -/
def postSelects {α : Type} (select : Option α) : Bool := select.isSome

/-- the truthiness variant `if select: <post-select> else: <sample>` (seeded change C06-c2) -/
def postSelectsTruthy {α : Type} [Zero α] [DecidableEq α] (select : Option α) : Bool :=
  match select with
  | none => false
  | some v => decide (v ≠ 0)

/-! ### bosonic weights -/

section weights
variable [Zero K] [Add K] [Mul K] [Div K] [Sub K] [One K]

/-- `weights *= reweights; weights /= sum(weights)` (before the zero-weight components are dropped) -/
def reweight (w rw : List K) : List K :=
  let w1 := List.zipWith (· * ·) w rw
  let s := w1.foldl (· + ·) 0
  w1.map (· / s)

/-- click branch of `measure_threshold`: `weights/(1-p0)` followed by
`weights * (reweights * c / (p0 - 1))` with `c = 2π hbar` -/
def thresholdClickWeights (w rw : List K) (c p0 : K) : List K :=
  w.map (· / (1 - p0)) ++ List.zipWith (fun wi ri => wi * (ri * c / (p0 - 1))) w rw

end weights

/-! ### Fock `measure_fock`: from the sampled flat index to the outcome list -/

/-- `ops.unIndex(i, n, trunc)` -/
def unIndex (i n D : Nat) : List Nat := (List.range n).map fun m => i / D ^ (n - 1 - m) % D

/-- C-order flat index of a multi-index (what `np.ravel` of the diagonal tensor does) -/
def flatIndex (D : Nat) (p : List Nat) : Nat := p.foldl (fun acc v => acc * D + v) 0

/-- `np.argsort(measure)` for distinct entries: positions in `measure` of the sorted values -/
def argsort (l : List Nat) : List Nat := (l.mergeSort (fun a b => decide (a ≤ b))).map fun v => l.idxOf v

/-- `outcome = [0]*k; for i in range(k): outcome[permutation[i]] = permuted_outcome[i]` -/
def scatter (perm p : List Nat) : List Nat :=
  (List.range p.length).foldl (fun out i => out.set (perm.getD i 0) (p.getD i 0)) (List.replicate p.length 0)

/-- outcome list reported (and projected on) for the sampled flat index `i` -/
def fockOutcome (measure : List Nat) (i D : Nat) : List Nat :=
  scatter (argsort measure) (unIndex i measure.length D)

/-- number of measured modes with a smaller index: the axis of `m` in the reduced density matrix -/
def rank (l : List Nat) (m : Nat) : Nat := (l.filter (· < m)).length

/-- `unmeasured = [i for i in range(n) if i not in measure]` -/
def unmeasured (n : Nat) (measure : List Nat) : List Nat := (List.range n).filter fun i => !measure.contains i

/-! ### engine: sample bookkeeping -/

section engine
variable {α : Type}

/-- `samples_dict`: association list in insertion order, mode ↦ list of per-shot arrays -/
abbrev SDict (α : Type) := List (Nat × List (List α))

/-- `val[:, i]` of a `(shots, len(reg))` array -/
def column [Inhabited α] (val : List (List α)) (i : Nat) : List α := val.map fun row => row.getD i default

/-- `if r.ind not in samples_dict: samples_dict[r.ind] = []` / `.append(col)` -/
def sdAppend (d : SDict α) (k : Nat) (col : List α) : SDict α :=
  if d.any (fun e => e.1 == k) then d.map fun e => if e.1 == k then (e.1, e.2 ++ [col]) else e
  else d ++ [(k, [col])]

/-- the inner loop of `_run_program` for one measurement command with result `val` -/
def recordCmd [Inhabited α] (d : SDict α) (regs : List Nat) (val : List (List α)) : SDict α :=
  (List.range regs.length).foldl (fun d i => sdAppend d (regs.getD i 0) (column val i)) d

/-- all measurement commands of a program, in order -/
def runSamples [Inhabited α] (evs : List (List Nat × List (List α))) : SDict α :=
  evs.foldl (fun d e => recordCmd d e.1 e.2) []

/-- insertion into a key-sorted association list (`sorted(single_sample_dict.items())`) -/
def insertKey (e : Nat × List α) : List (Nat × List α) → List (Nat × List α)
  | [] => [e]
  | x :: xs => if e.1 ≤ x.1 then e :: x :: xs else x :: insertKey e xs

def sortByKey (l : List (Nat × List α)) : List (Nat × List α) := l.foldr insertKey []

/-- `np.transpose` of a list of equally long columns -/
def transposeCols [Inhabited α] (cols : List (List α)) : List (List α) :=
  match cols with
  | [] => []
  | c :: _ => (List.range c.length).map fun s => cols.map fun col => col.getD s default

/-- `_combine_and_sort_samples`: last array of every mode, sorted by mode, transposed to
`(shots, modes)`; the empty dictionary gives the empty array -/
def combineAndSort [Inhabited α] (d : SDict α) : List (List α) :=
  transposeCols ((sortByKey (d.map fun e => (e.1, e.2.getLastD []))).map (·.2))

/-- `Measurement.apply`: `for v, r in zip(np.transpose(values), reg): r.val = v` -/
def regVals [Inhabited α] (regs : List Nat) (val : List (List α)) : List (Nat × List α) :=
  (List.range regs.length).map fun i => (regs.getD i 0, column val i)

end engine

end SFV.Meas
