import SFV.Model.GaussNM

/-! Model of the bosonic back end's state representation (K3, property C07): a state is a weighted sum of Gaussians
`Σ_k w_k G(μ_k, Σ_k)` with complex weights, complex means and (complex) covariances.  Modelled here:

* `catComplex` — `BosonicBackend.prepare_cat(a, θ, p, 'complex', …)`: weights `[1, 1, c, c̄]` divided by their sum, means
  `±√(2ħ)(Re α, Im α)` and `±i√(2ħ)(Im α, −Re α)`, covariances `ħ/2 · 1` (the irrational inputs `√(2ħ)`, `c = e^{−2|α|² − iφ}`,
  `Re α`, `Im α` are parameters);
* `affine` — `apply_channel(X, Y)` / displacements on every component (`update_means`, `update_covs` with real `X`, `Y`, `d`).
-/
namespace SFV.BosSt
open SFV.Gauss SFV.Gauss.Cx

/-- one Gaussian term over `2n` quadratures -/
structure Comp (K : Type) where
  w : Cx K
  mu : Nat → Cx K
  cov : Nat → Nat → Cx K

def Comp.conj {K : Type} [Neg K] (c : Comp K) : Comp K :=
  { w := Cx.conj c.w, mu := fun i => Cx.conj (c.mu i), cov := fun i j => Cx.conj (c.cov i j) }

/-- a state: `N` components, addressed by index -/
structure BState (K : Type) where
  N : Nat
  comp : Nat → Comp K

variable {K : Type}

/-- complex division by a complex number (as NumPy does it for `weights /= np.sum(weights)`) -/
def cdiv [Add K] [Sub K] [Mul K] [Div K] (a b : Cx K) : Cx K :=
  let d := b.re * b.re + b.im * b.im
  ⟨(a.re * b.re + a.im * b.im) / d, (a.im * b.re - a.re * b.im) / d⟩

/-- `prepare_cat`, complex representation, `a ≠ 0`; `s = √(2ħ)`, `hb2 = ħ/2`, `(ar, ai) = (Re α, Im α)`, `c = cplx_coef`.
The common factor `norm` cancels in `weights /= np.sum(weights)` and is left out. -/
def catComplex [Zero K] [One K] [Add K] [Sub K] [Neg K] [Mul K] [Div K] (hb2 s ar ai : K) (c : Cx K) : BState K :=
  let raw : Nat → Cx K := fun k => if k = 0 ∨ k = 1 then ⟨1, 0⟩ else if k = 2 then c else if k = 3 then Cx.conj c else 0
  let tot : Cx K := raw 0 + raw 1 + raw 2 + raw 3
  let rplus : Nat → Cx K := fun i => if i = 0 then ⟨s * ar, 0⟩ else if i = 1 then ⟨s * ai, 0⟩ else 0
  let rcomplex : Nat → Cx K := fun i => if i = 0 then ⟨0, s * ai⟩ else if i = 1 then ⟨0, -(s * ar)⟩ else 0
  { N := 4
    comp := fun k =>
      { w := cdiv (raw k) tot
        mu := fun i => if k = 0 then rplus i else if k = 1 then -(rplus i) else if k = 2 then rcomplex i
                       else Cx.conj (rcomplex i)
        cov := fun i j => if i = j ∧ i < 2 then ⟨hb2, 0⟩ else 0 } }

/-- `μ ↦ Xμ + d`, `Σ ↦ XΣXᵀ + Y` on one component (`X`, `Y`, `d` real, `m = 2n` quadratures) -/
def Comp.affine [Zero K] [Add K] [Mul K] (m : Nat) (X Y : Nat → Nat → K) (d : Nat → K) (c : Comp K) : Comp K :=
  { w := c.w
    mu := fun i => csum m (fun j => smul (X i j) (c.mu j)) + ofK (d i)
    cov := fun i j => csum m (fun a => csum m (fun b => smul (X i a * X j b) (c.cov a b))) + ofK (Y i j) }

/-- the same map on every component -/
def BState.map (F : Comp K → Comp K) (st : BState K) : BState K := { N := st.N, comp := fun k => F (st.comp k) }

/-- `Σ_k w_k · g(μ_k, Σ_k)`: the value of any quantity that is linear in the state (Wigner function at a point, a quadrature
density, a Fock matrix element, …) -/
def BState.linear [Zero K] [Add K] [Sub K] [Mul K] (g : (Nat → Cx K) → (Nat → Nat → Cx K) → Cx K) (st : BState K) : Cx K :=
  csum st.N fun k => (st.comp k).w * g (st.comp k).mu (st.comp k).cov

end SFV.BosSt
