import SFV.Model.Circuit
import SFV.Model.GaussNM
/-
K3 — the net-transformation accumulators of the Gaussian-merging compilers.

Transcription of
* `compilers/gaussian_unitary.py`: `_apply_symp_one_mode_gate`, `_apply_symp_two_mode_gate`,
  `GaussianUnitary.compile` (bookkeeping `used_modes` / `dict_indices` / `ord_reg`, the accumulation loop
  over the command list, the emission of `GaussianTransform` + `Dgate`s with their registers),
* `compilers/passive.py`: `_apply_one_mode_gate`, `_apply_two_mode_gate`, `Passive.compile`,
* the witness checker for `compilers/gaussian_merge.py` (`checkMerge`).

What is *not* computed here: the 2×2 / 4×4 / k×k blocks themselves (`thewalrus.symplectic.rotation`,
`squeezing`, `beam_splitter`, `two_mode_squeezing`, `interferometer`, `np.linalg.inv`, the MZ matrices).
They enter a command as data (`g` = block of the gate, `gi` = block of its inverse); the harness computes
them exactly at rational circle / hyperbola points and the comparison with the float64 result of the
real compiler validates them.  `thewalrus.symplectic.expand` is modelled by `embedRows` on the row list
`xpRows` (and compared with the real function by the harness).

Core Lean only; scalars are an arbitrary type with ring operations (executed over `Rat` and `Cx Rat`).
-/
namespace SFV.GC

abbrev Mat (K : Type) := Nat → Nat → K

section algebra
variable {K : Type} [Zero K] [One K] [Add K] [Mul K]

/-- `Σ_{k<m} f k * g k` -/
def dot : Nat → (Nat → K) → (Nat → K) → K
  | 0, _, _ => 0
  | m + 1, f, g => dot m f g + f m * g m

def ident : Mat K := fun i j => if i = j then 1 else 0

/-- position of `x` in `l` -/
def find? (x : Nat) : List Nat → Option Nat
  | [] => none
  | y :: ys => if x = y then some 0 else (find? x ys).map (· + 1)

/-- the block `g` placed at the rows/columns `rows` of an identity matrix
(`U_expand = eye; U_expand[np.ix_(rows, rows)] = g`) -/
def embedRows (rows : List Nat) (g : Mat K) : Mat K := fun i j =>
  match find? i rows, find? j rows with
  | some a, some b => g a b
  | _, _ => ident i j

/-- rows of the x- and p-quadratures of the modes `w` in the xxpp ordering of `N` modes;
`embedRows (xpRows w N) g` is `thewalrus.symplectic.expand(g, w, N)` -/
def xpRows (w : List Nat) (N : Nat) : List Nat := w ++ w.map (· + N)

/-- matrix product `E @ X` on `m` rows; `X` is a family of rows with columns in `β`
(`β = Nat` for a matrix, `β = Unit` for a vector) -/
def mulE {β : Type} (m : Nat) (E : Mat K) (X : Nat → β → K) : Nat → β → K :=
  fun k b => dot m (E k) (fun k' => X k' b)

/-- `T[i] *= G` -/
def mix1 {β : Type} (g : K) (i : Nat) (X : Nat → β → K) : Nat → β → K :=
  fun k b => if k = i then X i b * g else X k b

/-- `(X[i], X[i']) = (g00 X[i] + g01 X[i'], g10 X[i] + g11 X[i'])` -/
def mix2 {β : Type} (g : Mat K) (i i' : Nat) (X : Nat → β → K) : Nat → β → K :=
  fun k b =>
    if k = i then g 0 0 * X i b + g 0 1 * X i' b
    else if k = i' then g 1 0 * X i b + g 1 1 * X i' b
    else X k b

/-- the four-row tuple assignment of `_apply_symp_two_mode_gate` on rows `(i, j, i', j')` -/
def mix4 {β : Type} (g : Mat K) (i j i' j' : Nat) (X : Nat → β → K) : Nat → β → K :=
  fun k b =>
    if k = i then g 0 0 * X i b + g 0 1 * X j b + g 0 2 * X i' b + g 0 3 * X j' b
    else if k = j then g 1 0 * X i b + g 1 1 * X j b + g 1 2 * X i' b + g 1 3 * X j' b
    else if k = i' then g 2 0 * X i b + g 2 1 * X j b + g 2 2 * X i' b + g 2 3 * X j' b
    else if k = j' then g 3 0 * X i b + g 3 1 * X j b + g 3 2 * X i' b + g 3 3 * X j' b
    else X k b

/-- evaluation strategy of the driver: tabulate the `m × m` corner of a matrix and read it back
(`ofTable (tabulate m X) X = X`, `ofTable_tabulate`), so that the nested closures of a long fold are not
re-evaluated per entry -/
def tabulate {K : Type} (m : Nat) (X : Mat K) : Array (Array K) :=
  Array.ofFn (n := m) fun p => Array.ofFn (n := m) fun q => X p.1 q.1

def ofTable {K : Type} (arr : Array (Array K)) (X : Mat K) : Mat K :=
  fun i j => if h : i < arr.size then (if h' : j < arr[i].size then arr[i][j] else X i j) else X i j

def tabulateV {K : Type} (m : Nat) (r : Nat → K) : Array K := Array.ofFn (n := m) fun p => r p.1

def ofTableV {K : Type} (arr : Array K) (r : Nat → K) : Nat → K :=
  fun i => if h : i < arr.size then arr[i] else r i

def asCol (r : Nat → K) : Nat → Unit → K := fun k _ => r k
def ofCol (X : Nat → Unit → K) : Nat → K := fun k => X k ()

end algebra

/-! ### gaussian_unitary -/

/-- what the loop of `GaussianUnitary.compile` does with a command, after parameter evaluation -/
inductive GOp (K : Type) where
  /-- `Dgate`: `(2 Re α, 2 Im α)` of the gate as written (without the dagger flag) -/
  | disp (dx dp : K)
  /-- one-mode block through `_apply_symp_one_mode_gate` (`Rgate`, `Sgate`, 1×1 `Interferometer`,
  2×2 `GaussianTransform`): the 2×2 block of the gate and of its inverse -/
  | blk1 (g gi : Mat K)
  /-- two-mode block through `_apply_symp_two_mode_gate` (`S2gate`, `BSgate`, `MZgate`, `sMZgate`,
  2×2 `Interferometer`, 4×4 `GaussianTransform`) -/
  | blk2 (g gi : Mat K)
  /-- `expand(S_G, modes, nmodes) @ Snet` (larger `Interferometer` / `GaussianTransform`) -/
  | blkN (g : Mat K)
  /-- a class name none of the branches matches: contributes its modes to `used_modes` only -/
  | skip

structure GCmd (K : Type) where
  regs : List Nat
  dagger : Bool := false
  op : GOp K

/-- `used_modes`: the modes of all commands, ascending (after the `fix:` commit; `list(set(..))` before) -/
def usedModes {K : Type} (cmds : List (GCmd K)) : List Nat := sortDedup (cmds.flatMap (·.regs))

/-- `dict_indices[m]` -/
def dictIdx (used : List Nat) (m : Nat) : Nat := used.idxOf m

/-- `ord_reg`: the registers whose index is used, sorted by index -/
def ordReg (registers used : List Nat) : List Nat := sortDedup (registers.filter fun r => used.contains r)

structure Net (K : Type) where
  S : Mat K
  r : Nat → K

section gu
variable {K : Type} [Zero K] [One K] [Add K] [Mul K] [Neg K]

/-- `_apply_symp_one_mode_gate(S_G, S, r, i)`, `M = S.shape[0] // 2` -/
def applyOne (g : Mat K) (a : Net K) (M i : Nat) : Net K :=
  { S := mix2 g i (i + M) a.S, r := ofCol (mix2 g i (i + M) (asCol a.r)) }

/-- `_apply_symp_two_mode_gate(S_G, S, r, i, j)` -/
def applyTwo (g : Mat K) (a : Net K) (M i j : Nat) : Net K :=
  { S := mix4 g i j (i + M) (j + M) a.S, r := ofCol (mix4 g i j (i + M) (j + M) (asCol a.r)) }

/-- the block a gate contributes: its inverse when the dagger flag is set (after the `fix:` commit) -/
def eff (dagger : Bool) (g gi : Mat K) : Mat K := if dagger then gi else g

/-- one iteration of the accumulation loop; `idx` is `dict_indices`, `n` is `nmodes` -/
def stepGU (idx : Nat → Nat) (n : Nat) (a : Net K) (c : GCmd K) : Net K :=
  let m0 := idx (c.regs.getD 0 0)
  let m1 := idx (c.regs.getD 1 0)
  match c.op with
  | .disp dx dp =>
    let dx' := if c.dagger then -dx else dx
    let dp' := if c.dagger then -dp else dp
    { a with r := fun k => if k = m0 then a.r k + dx' else if k = m0 + n then a.r k + dp' else a.r k }
  | .blk1 g gi => applyOne (eff c.dagger g gi) a n m0
  | .blk2 g gi => applyTwo (eff c.dagger g gi) a n m0 m1
  | .blkN g =>
    let E := embedRows (xpRows (c.regs.map idx) n) g
    { S := mulE (2 * n) E a.S, r := ofCol (mulE (2 * n) E (asCol a.r)) }
  | .skip => a

/-- result of `GaussianUnitary.compile` -/
structure GUOut (K : Type) where
  /-- `nmodes` -/
  n : Nat
  /-- `ord_reg`: the register list of the emitted `GaussianTransform` -/
  regs : List Nat
  S : Mat K
  r : Nat → K
  /-- a `GaussianTransform` is emitted (`Snet` is not the identity) -/
  hasGT : Bool
  /-- emitted `Dgate`s: `(register, 2 Re α, 2 Im α)`, `α = (r[i] + i r[i+n]) / 2` on `ord_reg[i]` -/
  dgates : List (Nat × K × K)

def isIdent [DecidableEq K] (m : Nat) (S : Mat K) : Bool :=
  (List.range m).all fun i => (List.range m).all fun j => S i j = ident i j

/-- `GaussianUnitary.compile(seq, registers)` with the list `used` that `used_modes` evaluates to;
`norm` is applied to the accumulator after every iteration (identity in `compileGU`, tabulation in
`compileGUFast`), `see` is how the loop sees a command (identity; the pre-fix loop did not see the dagger flag) -/
def compileGUCore [DecidableEq K] (norm : Nat → Net K → Net K) (see : GCmd K → GCmd K) (used : List Nat)
    (registers : List Nat) (cmds : List (GCmd K)) : GUOut K :=
  let n := used.length
  let net : Net K := cmds.foldl (fun a c => norm n (stepGU (dictIdx used) n a (see c)))
    ({ S := ident, r := fun _ => 0 } : Net K)
  let regs := ordReg registers used
  { n := n, regs := regs, S := net.S, r := net.r,
    hasGT := !isIdent (2 * n) net.S,
    dgates := (List.range regs.length).filterMap fun i =>
      if net.r i = 0 ∧ net.r (i + n) = 0 then none else some (regs.getD i 0, net.r i, net.r (i + n)) }

def compileGUWith [DecidableEq K] (norm : Nat → Net K → Net K) (registers : List Nat)
    (cmds : List (GCmd K)) : GUOut K :=
  compileGUCore norm (fun c => c) (usedModes cmds) registers cmds

/-- the code before the `fix:` commits 98a3457 and 126f5ec: `used_modes = list(set(..))` iterates in hash
order — `ord` is whatever enumeration of the used modes that gives, e.g. `[8, 1]` — and `cmd.op.dagger`
was never consulted -/
def compileGUOld [DecidableEq K] (ord : List Nat) (registers : List Nat) (cmds : List (GCmd K)) : GUOut K :=
  compileGUCore (fun _ a => a) (fun c => { c with dagger := false }) ord registers cmds

def compileGU [DecidableEq K] (registers : List Nat) (cmds : List (GCmd K)) : GUOut K :=
  compileGUWith (fun _ a => a) registers cmds

/-- what the driver runs (`compileGUFast = compileGU`, proved) -/
def freezeNet (n : Nat) (a : Net K) : Net K :=
  let tS := tabulate (2 * n) a.S
  let tr := tabulateV (2 * n) a.r
  { S := ofTable tS a.S, r := ofTableV tr a.r }

def compileGUFast [DecidableEq K] (registers : List Nat) (cmds : List (GCmd K)) : GUOut K :=
  compileGUWith freezeNet registers cmds

end gu

/-! ### passive -/

inductive POp (K : Type) where
  /-- `_apply_one_mode_gate(G, T, i)`: `Rgate` (`G = e^{iθ}`), `LossChannel` (`√T`), 1×1 matrices -/
  | one (g gi : K)
  /-- `_apply_two_mode_gate(G, T, i, j)`: `BSgate`, `MZgate`, `sMZgate`, 2×2 matrices -/
  | two (g gi : Mat K)
  /-- `U_expand = eye; U_expand[np.ix_(modes, modes)] = U; T = U_expand @ T` -/
  | many (g : Mat K)
  | skip

structure PCmd (K : Type) where
  regs : List Nat
  dagger : Bool := false
  op : POp K

def usedModesP {K : Type} (cmds : List (PCmd K)) : List Nat := sortDedup (cmds.flatMap (·.regs))

section passive
variable {K : Type} [Zero K] [One K] [Add K] [Mul K]

def stepP (idx : Nat → Nat) (n : Nat) (T : Mat K) (c : PCmd K) : Mat K :=
  let m0 := idx (c.regs.getD 0 0)
  let m1 := idx (c.regs.getD 1 0)
  match c.op with
  | .one g gi => mix1 (if c.dagger then gi else g) m0 T
  | .two g gi => mix2 (eff c.dagger g gi) m0 m1 T
  | .many g => mulE n (embedRows (c.regs.map idx) g) T
  | .skip => T

structure POut (K : Type) where
  n : Nat
  regs : List Nat
  T : Mat K

/-- the accumulator of `Passive.compile` -/
structure PNet (K : Type) where
  T : Mat K

/-- `Passive.compile(seq, registers)`: one `PassiveChannel(T)` on `ord_reg` -/
def compilePWith (norm : Nat → PNet K → PNet K) (registers : List Nat) (cmds : List (PCmd K)) : POut K :=
  let used := usedModesP cmds
  let n := used.length
  { n := n, regs := ordReg registers used,
    T := (cmds.foldl (fun a c => norm n ⟨stepP (dictIdx used) n a.T c⟩) (⟨ident⟩ : PNet K)).T }

def compileP (registers : List Nat) (cmds : List (PCmd K)) : POut K :=
  compilePWith (fun _ a => a) registers cmds

def freezeP (n : Nat) (a : PNet K) : PNet K :=
  let t := tabulate n a.T
  { T := ofTable t a.T }

def compilePFast (registers : List Nat) (cmds : List (PCmd K)) : POut K :=
  compilePWith freezeP registers cmds

end passive

/-! ### specification: ordered product of embedded blocks -/

section spec
variable {K : Type} [Zero K] [One K] [Add K] [Mul K] [Neg K]

/-- the documented action of one command on `(S, r)`: the block of the gate (of its inverse when
daggered) embedded at the positions `pos m` of its modes among `n` modes, multiplied from the left;
a displacement adds to `r`. -/
def specStepGU (pos : Nat → Nat) (n : Nat) (a : Net K) (c : GCmd K) : Net K :=
  let w := c.regs.map pos
  let app := fun (g : Mat K) (w : List Nat) =>
    let E := embedRows (xpRows w n) g
    ({ S := mulE (2 * n) E a.S, r := ofCol (mulE (2 * n) E (asCol a.r)) } : Net K)
  match c.op with
  | .disp dx dp =>
    let s : K → K := fun x => if c.dagger then -x else x
    { a with r := fun k => if k = pos (c.regs.getD 0 0) then a.r k + s dx
                           else if k = pos (c.regs.getD 0 0) + n then a.r k + s dp else a.r k }
  | .blk1 g gi => app (if c.dagger then gi else g) (w.take 1)
  | .blk2 g gi => app (if c.dagger then gi else g) (w.take 2)
  | .blkN g => app g w
  | .skip => a

/-- `(S, r)` of the ordered product of the embedded blocks of a command list -/
def netSpecGU (pos : Nat → Nat) (n : Nat) (cmds : List (GCmd K)) : Net K :=
  cmds.foldl (specStepGU pos n) ({ S := ident, r := fun _ => 0 } : Net K)

def specStepP (pos : Nat → Nat) (n : Nat) (T : Mat K) (c : PCmd K) : Mat K :=
  let w := c.regs.map pos
  match c.op with
  | .one g gi => mulE n (embedRows (w.take 1) (fun _ _ => if c.dagger then gi else g)) T
  | .two g gi => mulE n (embedRows (w.take 2) (if c.dagger then gi else g)) T
  | .many g => mulE n (embedRows w g) T
  | .skip => T

def netSpecP (pos : Nat → Nat) (n : Nat) (cmds : List (PCmd K)) : Mat K :=
  cmds.foldl (specStepP pos n) ident

end spec

/-! ### well-formedness of commands (what `Operation.__or__` guarantees: arity and distinct modes) -/

def GCmd.wf {K : Type} (c : GCmd K) : Prop :=
  match c.op with
  | .disp _ _ => c.regs.length = 1
  | .blk1 _ _ => c.regs.length = 1
  | .blk2 _ _ => c.regs.length = 2 ∧ c.regs.Nodup
  | _ => True

def PCmd.wf {K : Type} (c : PCmd K) : Prop :=
  match c.op with
  | .one _ _ => c.regs.length = 1
  | .two _ _ => c.regs.length = 2 ∧ c.regs.Nodup
  | _ => True

/-! ### gaussian_merge: witness checker

`src` is the source circuit, `out` the compiled circuit (commands of the K1 model; a command kept by
the compiler has the same `id` in both).  The witness lists the merged blocks: `(members, emitted)`
= ids of the source commands that went into the block (in source order) and ids of the emitted
`GaussianTransform` / `Dgate` commands (in output order).  -/

structure MergeBlock where
  members : List Nat
  emitted : List Nat
deriving DecidableEq, Repr

def lookup (l : List Cmd) (i : Nat) : Option Cmd := l.find? fun c => c.id == i

def lookupAll (l : List Cmd) (ids : List Nat) : Option (List Cmd) := ids.mapM (lookup l)

/-- the intermediate circuits of a witness: `srcMid` is `src` with every block's members made
contiguous (a sequence of segments: kept command or block), `outMid` the same sequence with every
block replaced by its emitted commands -/
inductive Seg where
  | keep (id : Nat)
  | block (k : Nat)
deriving DecidableEq, Repr

def segSrc (src : List Cmd) (blocks : List MergeBlock) : Seg → Option (List Cmd)
  | .keep i => (lookup src i).map ([·])
  | .block k => match blocks[k]? with
    | some b => lookupAll src b.members
    | none => none

def segOut (out : List Cmd) (blocks : List MergeBlock) : Seg → Option (List Cmd)
  | .keep i => (lookup out i).map ([·])
  | .block k => match blocks[k]? with
    | some b => lookupAll out b.emitted
    | none => none

/-- the wires of an emitted command are among the wires of the block's members, and a kept command is
literally the same command -/
def segOk (src out : List Cmd) (blocks : List MergeBlock) : Seg → Bool
  | .keep i => match lookup src i, lookup out i with
    | some a, some b => a == b
    | _, _ => false
  | .block k => match blocks[k]? with
    | some b => match lookupAll src b.members, lookupAll out b.emitted with
      | some ms, some es => es.all fun e => e.wires.all fun w => ms.any fun m => m.wires.contains w
      | _, _ => false
    | none => false

/-- certificate check: (1) making the members of every block contiguous is a legal reordering of the
source, (2) the output is a legal reordering of the circuit in which every block is replaced by its
emitted commands, (3) kept commands are unchanged. -/
def checkMerge (src out : List Cmd) (blocks : List MergeBlock) (segs : List Seg) : Bool :=
  match segs.mapM (segSrc src blocks), segs.mapM (segOut out blocks) with
  | some ss, some os =>
    isLegal src ss.flatten && isLegal os.flatten out && segs.all (segOk src out blocks)
  | _, _ => false

/-! ### gaussian_merge: the graph surgery of `merge_a_gaussian_op` (after the `fix:` commit dc8edea)

`l` is the current circuit, `ms` the commands that are merged, `g :: ds` what replaces them (the first emitted
command — the `GaussianTransform`, or the first `Dgate` when the matrix is the identity — and the remaining
`Dgate`s).  `new_DAG` keeps the edges between commands that stay, connects every predecessor of a merged
command to `g`, `g` to every `Dgate`, and every successor of a merged command to `g` and to the `Dgate`s acting
on one of its modes. -/

def sharesReg (d b : Cmd) : Bool := d.regs.any fun q => b.regs.contains q

def surgeryEdges (l ms : List Cmd) (g : Cmd) (ds : List Cmd) : List (Cmd × Cmd) :=
  ((dagEdges l).flatMap fun e =>
    if ms.contains e.1 then
      (if ms.contains e.2 then []
       else (g, e.2) :: (ds.filter fun d => sharesReg d e.2).map fun d => (d, e.2))
    else (if ms.contains e.2 then [(e.1, g)] else [e])) ++ ds.map fun d => (g, d)

/-- the merged commands cancel (nothing is emitted): predecessors are connected to successors -/
def surgeryEdgesNil (l ms : List Cmd) : List (Cmd × Cmd) :=
  let es := dagEdges l
  (es.filter fun e => !ms.contains e.1 && !ms.contains e.2) ++
  ((es.filter fun e => !ms.contains e.1 && ms.contains e.2).flatMap fun p =>
    (es.filter fun e => ms.contains e.1 && !ms.contains e.2).map fun q => (p.1, q.2))

/-- every edge points forward in `out` (what any topological sort of `new_DAG` guarantees) -/
def forward (edges : List (Cmd × Cmd)) (out : List Cmd) : Bool :=
  edges.all fun e => out.idxOf e.1 < out.idxOf e.2

end SFV.GC
