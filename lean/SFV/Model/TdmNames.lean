import SFV.Model.Tdm
import SFV.Model.IoIR
/-!
K7 — loop variables are resolved by *name*.  `TDMProgram.context` creates the free parameters
`p0, p1, …, p10, p11, …` (`f"p{i}"`), `TDMProgram.parameters` is `dict(zip(names, tdm_params))` and
`apply_op` looks a symbolic argument up by the name of its symbol.  Decimal printing of the index is the
`printIndex`/`pName` of the K8 model (`SFV.Io`), so names that are prefixes of one another (`p1`, `p10`)
are covered.
-/
namespace SFV.Tdm
open SFV.Io (pName)

/-- `TDMProgram.parameters` as an association list in insertion order (names are pairwise different, so
the "last key wins" rule of `dict(zip(...))` never applies) -/
def parametersDict (cfg : Cfg) : List (String × List Int) :=
  cfg.params.zipIdx.map fun x => (pName x.2, x.1)

/-- `d[name]` (`none` = `KeyError`) -/
def lookupName (d : List (String × List Int)) (name : String) : Option (List Int) :=
  (d.find? fun kv => kv.1 == name).map (·.2)

/-- `self.parameters[name][t % self.timebins]` -/
def resolveNamed (cfg : Cfg) (t : Nat) (name : String) : Option Int :=
  (lookupName (parametersDict cfg) name).map fun a => a.getD (t % cfg.timebins) 0

end SFV.Tdm
