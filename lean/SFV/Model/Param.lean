/-
K5 — parameter expressions.  Executable model of the logic core of
`strawberryfields/parameters.py` (`par_evaluate`, `par_regref_deps`, `par_is_symbolic`,
`MeasuredParameter._eval_evalf`, `FreeParameter._eval_evalf`), of `Program.params` /
`Program.bind_params`, of the decomposition templates of `ops.py` whose parameters are built from
the parameters of the decomposed gate (`Xgate`, `Zgate`, `Pgate`, `CXgate`, `CZgate`, `S2gate`,
`MZgate`, `sMZgate`, `Fouriergate`, `DisplacedSqueezed`; `Gate.decompose`, `Gate.merge`), and of the
measured-value bookkeeping of `Measurement.apply` and `BaseEngine._run` (hand-over of the latest
measured values between program segments, after the `fix:` commits recorded in notes/C10.md).

Core Lean only (no Mathlib).  The value type `V` is abstract (`ValOps`): the theorems hold for every
interpretation of the arithmetic and of the elementary functions; the driver instantiates it with
closed terms that the harness folds numerically.
-/
namespace SFV.Param

/-- what `ParameterError` was raised for -/
inductive PErr
  | unbound (name : String)      -- FreeParameter with neither value nor default
  | unmeasured (mode : Nat)      -- MeasuredParameter whose RegRef holds no value
  | unknown (name : String)      -- bind_params with a name the Program does not own
  | locked (name : String)       -- params() creating a parameter in a locked Program (CircuitError)
deriving DecidableEq, Repr, Inhabited

instance {ε α : Type} [DecidableEq ε] [DecidableEq α] : DecidableEq (Except ε α)
  | .ok a, .ok b => if h : a = b then isTrue (by rw [h]) else isFalse (by intro h'; cases h'; exact h rfl)
  | .error a, .error b => if h : a = b then isTrue (by rw [h]) else isFalse (by intro h'; cases h'; exact h rfl)
  | .ok _, .error _ => isFalse (by intro h; cases h)
  | .error _, .ok _ => isFalse (by intro h; cases h)

/-- a scalar parameter expression (a sympy tree; n-ary `Add`/`Mul` are nested to the right) -/
inductive Expr
  | num (q : Rat)
  | free (name : String)
  | meas (mode : Nat)
  | add (a b : Expr)
  | mul (a b : Expr)
  | neg (a : Expr)
  | pow (a b : Expr)
  | fn1 (f : String) (a : Expr)
  | fn2 (f : String) (a b : Expr)
deriving DecidableEq, Repr, Inhabited

/-- the arithmetic the expressions are evaluated in (NumPy floats, TensorFlow tensors, exact
rationals, closed terms …) -/
class ValOps (V : Type) where
  ofRat : Rat → V
  add : V → V → V
  mul : V → V → V
  neg : V → V
  pow : V → V → V
  fn1 : String → V → V
  fn2 : String → V → V → V

/-- the values the atoms currently have: `free n` is what `FreeParameter._eval_evalf` returns
(value, else default, else nothing), `meas m` is `RegRef.val` of subsystem `m` -/
structure Env (V : Type) where
  free : String → Option V
  meas : Nat → Option V

variable {V : Type}

/-- `par_evaluate` on a symbolic scalar: atoms are looked up, the rest is evaluated -/
def eval [ValOps V] (env : Env V) : Expr → Except PErr V
  | .num q => .ok (ValOps.ofRat q)
  | .free n => match env.free n with
    | some v => .ok v
    | none => .error (.unbound n)
  | .meas m => match env.meas m with
    | some v => .ok v
    | none => .error (.unmeasured m)
  | .add a b => do let x ← eval env a; let y ← eval env b; pure (ValOps.add x y)
  | .mul a b => do let x ← eval env a; let y ← eval env b; pure (ValOps.mul x y)
  | .neg a => do let x ← eval env a; pure (ValOps.neg x)
  | .pow a b => do let x ← eval env a; let y ← eval env b; pure (ValOps.pow x y)
  | .fn1 f a => do let x ← eval env a; pure (ValOps.fn1 f x)
  | .fn2 f a b => do let x ← eval env a; let y ← eval env b; pure (ValOps.fn2 f x y)

/-- subsystem indices of the measured atoms (`p.atoms(MeasuredParameter)`), with repetitions -/
def measAtoms : Expr → List Nat
  | .num _ => []
  | .free _ => []
  | .meas m => [m]
  | .add a b | .mul a b | .pow a b | .fn2 _ a b => measAtoms a ++ measAtoms b
  | .neg a | .fn1 _ a => measAtoms a

/-- names of the free atoms -/
def freeAtoms : Expr → List String
  | .num _ => []
  | .free n => [n]
  | .meas _ => []
  | .add a b | .mul a b | .pow a b | .fn2 _ a b => freeAtoms a ++ freeAtoms b
  | .neg a | .fn1 _ a => freeAtoms a

/-- substitution of expressions for atoms -/
structure Subst where
  free : String → Option Expr
  meas : Nat → Option Expr

def subst (σ : Subst) : Expr → Expr
  | .num q => .num q
  | .free n => (σ.free n).getD (.free n)
  | .meas m => (σ.meas m).getD (.meas m)
  | .add a b => .add (subst σ a) (subst σ b)
  | .mul a b => .mul (subst σ a) (subst σ b)
  | .neg a => .neg (subst σ a)
  | .pow a b => .pow (subst σ a) (subst σ b)
  | .fn1 f a => .fn1 f (subst σ a)
  | .fn2 f a b => .fn2 f (subst σ a) (subst σ b)

/-- numeric substitution: the "substituted program" -/
def numSubst (bf : String → Option Rat) (bm : Nat → Option Rat) : Subst where
  free := fun n => (bf n).map .num
  meas := fun m => (bm m).map .num

/-- the environment in which the substituted atoms have the substituted values -/
def Env.override [ValOps V] (env : Env V) (bf : String → Option Rat) (bm : Nat → Option Rat) : Env V where
  free := fun n => match bf n with
    | some q => some (ValOps.ofRat q)
    | none => env.free n
  meas := fun m => match bm m with
    | some q => some (ValOps.ofRat q)
    | none => env.meas m

/-! ### operation parameters: plain numbers, symbolic scalars, arrays -/

inductive Scalar
  | lit (q : Rat)        -- a Python / NumPy number: not symbolic, returned as is
  | sym (e : Expr)       -- anything descending from `sympy.Basic`
deriving DecidableEq, Repr, Inhabited

inductive Param
  | one (s : Scalar)
  | arr (xs : List Scalar)   -- NumPy array (an object array iff some element is symbolic)
  | arr2 (xss : List (List Scalar))   -- two-dimensional array (rows are evaluated recursively)
deriving DecidableEq, Repr, Inhabited

inductive PVal (V : Type)
  | one (v : V)
  | arr (vs : List V)
  | arr2 (vss : List (List V))
deriving Repr

def Scalar.isSymbolic : Scalar → Bool
  | .lit _ => false
  | .sym _ => true

/-- `par_is_symbolic` -/
def Param.isSymbolic : Param → Bool
  | .one s => s.isSymbolic
  | .arr xs => xs.any Scalar.isSymbolic
  | .arr2 xss => xss.any fun xs => xs.any Scalar.isSymbolic

def Scalar.eval [ValOps V] (env : Env V) : Scalar → Except PErr V
  | .lit q => .ok (ValOps.ofRat q)
  | .sym e => SFV.Param.eval env e

/-- `par_evaluate` on one parameter (`do_evaluate`) -/
def Param.eval [ValOps V] (env : Env V) : Param → Except PErr (PVal V)
  | .one s => do let v ← s.eval env; pure (.one v)
  | .arr xs => do let vs ← xs.mapM (Scalar.eval env); pure (.arr vs)
  | .arr2 xss => do let vss ← xss.mapM (fun xs => xs.mapM (Scalar.eval env)); pure (.arr2 vss)

def Scalar.deps : Scalar → List Nat
  | .lit _ => []
  | .sym e => measAtoms e

/-- `par_regref_deps` (as a list of subsystem indices; the driver sorts and de-duplicates) -/
def Param.deps : Param → List Nat
  | .one s => s.deps
  | .arr xs => xs.flatMap Scalar.deps
  | .arr2 xss => xss.flatMap fun xs => xs.flatMap Scalar.deps

def Scalar.subst (σ : Subst) : Scalar → Scalar
  | .lit q => .lit q
  | .sym e => .sym (SFV.Param.subst σ e)

def Param.subst (σ : Subst) : Param → Param
  | .one s => .one (s.subst σ)
  | .arr xs => .arr (xs.map (Scalar.subst σ))
  | .arr2 xss => .arr2 (xss.map fun xs => xs.map (Scalar.subst σ))

/-! ### `par_evaluate(params, dtype)`: the values of the atoms are cast before evaluation -/

def Env.cast (cast : V → V) (env : Env V) : Env V where
  free := fun n => (env.free n).map cast
  meas := fun m => (env.meas m).map cast

/-- `par_evaluate(p, dtype)` -/
def Param.evalCast [ValOps V] (cast : V → V) (env : Env V) (p : Param) : Except PErr (PVal V) :=
  p.eval (env.cast cast)

/-! ### `par_convert`: Blackbird symbols to SF parameters

A Blackbird expression is an `Expr` whose atoms are all `free name`; a name starting with `q` is the
measured parameter of the subsystem whose index follows (`int(name[1:])`), every other name is a
free parameter of the Program. -/

/-- decimal digits to a number (`int()` on the rest of the name); `none` unless all are digits -/
def parseDigits : List Char → Option Nat
  | [] => none
  | cs => cs.foldl (fun acc c => acc.bind fun a =>
      if c.isDigit then some (a * 10 + (c.toNat - 48)) else none) (some 0)

inductive NameKind
  | meas (m : Nat)
  | free
  | bad
deriving DecidableEq, Repr

/-- `k.name[0] == "q"` ⇒ measured parameter of subsystem `int(k.name[1:])`, else free parameter -/
def classify : List Char → NameKind
  | 'q' :: rest => match parseDigits rest with
    | some m => .meas m
    | none => .bad
  | _ => .free

/-- `MeasuredParameter(prog.register[int(k.name[1:])])` / `prog.params(k.name)`; a name `q…` whose
rest is not a number makes `int()` raise (`none`) -/
def atomOfName (name : String) : Option Expr :=
  match classify name.toList with
  | .meas m => some (.meas m)
  | .free => some (.free name)
  | .bad => none

/-- `par_convert` on one symbolic argument: every atom replaced; `none` if some name is malformed -/
def convert : Expr → Option Expr
  | .num q => some (.num q)
  | .free n => atomOfName n
  | .meas m => some (.meas m)
  | .add a b => do let x ← convert a; let y ← convert b; pure (.add x y)
  | .mul a b => do let x ← convert a; let y ← convert b; pure (.mul x y)
  | .neg a => do let x ← convert a; pure (.neg x)
  | .pow a b => do let x ← convert a; let y ← convert b; pure (.pow x y)
  | .fn1 f a => do let x ← convert a; pure (.fn1 f x)
  | .fn2 f a b => do let x ← convert a; let y ← convert b; pure (.fn2 f x y)

/-- the environment a Blackbird expression is evaluated in, given the one of the converted
expression: the symbol `q<i>` has the value of subsystem `i`, other symbols that of the free
parameter of that name -/
def Env.blackbird (env : Env V) : Env V where
  free := fun n => match atomOfName n with
    | some (.meas m) => env.meas m
    | some (.free k) => env.free k
    | _ => none
  meas := env.meas

/-! ### free parameters: `Program.params`, `Program.bind_params`

SymPy caches `Symbol` instances per (class, name): all Programs of a process share ONE
`FreeParameter` object per name, and `FreeParameter.__init__` runs again (resetting value and
default) whenever a Program that does not own the name yet asks for it.  The model therefore has one
global table. -/

structure FreeSt (V : Type) where
  val : Option V := none
  default : Option V := none
deriving Repr

/-- the shared `FreeParameter` objects, by name -/
abbrev FreeTab (V : Type) := String → Option (FreeSt V)

def FreeTab.empty : FreeTab V := fun _ => none

def FreeTab.get (t : FreeTab V) (n : String) : Option (FreeSt V) := t n

def FreeTab.set (t : FreeTab V) (n : String) (s : FreeSt V) : FreeTab V :=
  fun k => if k = n then some s else t k

/-- `FreeParameter._eval_evalf`: value, else default, else unbound -/
def FreeTab.lookup (t : FreeTab V) (n : String) : Option V :=
  match t.get n with
  | some s => match s.val with
    | some v => some v
    | none => s.default
  | none => none

/-- the part of a Program that matters here: the names it owns and whether it is locked -/
structure ProgFree where
  owned : List String := []
  locked : Bool := false
deriving Repr, DecidableEq

/-- `Program.params(name)` -/
def params (t : FreeTab V) (p : ProgFree) (n : String) : Except PErr (FreeTab V × ProgFree) :=
  if p.owned.contains n then .ok (t, p)
  else if p.locked then .error (.locked n)
  else .ok (t.set n {}, { p with owned := p.owned ++ [n] })

/-- `Program.bind_params(binding)`: bindings are applied in order; the first unknown name raises and
leaves the earlier ones bound -/
def bindParams (t : FreeTab V) (p : ProgFree) : List (String × V) → FreeTab V × Option PErr
  | [] => (t, none)
  | (n, v) :: rest =>
    if p.owned.contains n then
      let s := (t.get n).getD {}
      bindParams (t.set n { s with val := some v }) p rest
    else (t, some (.unknown n))

/-! ### decomposition templates and merging

A template command carries parameter expressions over *holes* (`free "#0"`, `free "#1"` … for the
parameters of the decomposed gate, `free "#pi"`, `free "#hbar"` for `np.pi`, `sf.hbar`), the
positions in `reg` it acts on, and its inverse flag.  The table of templates itself is generated
from `ops.py` on every build (`harness/gen/gen_templates.py` → `SFV/Gen/Templates.lean`);
`decompose` is in `SFV/Model/ParamDecomp.lean`. -/

structure TCmd where
  cls : String
  pars : List Expr
  regs : List Nat
  dagger : Bool := false
deriving DecidableEq, Repr, Inhabited

def hole (i : Nat) : Expr := .free s!"#{i}"
def cst (n : String) : Expr := .free s!"#{n}"

/-- the `i`-th, `i+1`-th … hole names looked up in a list -/
def holeLookupFrom {α : Type} (i : Nat) : List α → String → Option α
  | [], _ => none
  | x :: xs, n => if n == s!"#{i}" then some x else holeLookupFrom (i + 1) xs n

/-- the substitution that fills the holes `#0 …` with the gate's parameters (constants stay) -/
def holeSubst (ps : List Expr) : Subst where
  free := holeLookupFrom 0 ps
  meas := fun _ => none

def TCmd.inst (σ : Subst) (c : TCmd) : TCmd := { c with pars := c.pars.map (subst σ) }

/-- an inverted gate flips every inverse flag of its decomposition and reverses the sequence -/
def orient (seq : List TCmd) (dagger : Bool) : List TCmd :=
  if dagger then (seq.map fun c => { c with dagger := !c.dagger }).reverse else seq

/-- `Gate.decompose`: instantiate the template, then apply the inverse flag -/
def decomposeWith (t : List TCmd) (ps : List Expr) (dagger : Bool) : List TCmd :=
  orient (t.map (TCmd.inst (holeSubst ps))) dagger

/-- the environment in which hole `#i` has the value `vs[i]` -/
def holeEnv (env : Env V) (vs : List V) : Env V where
  free := fun n => match holeLookupFrom 0 vs n with
    | some v => some v
    | none => env.free n
  meas := env.meas

/-- a table of templates: class name ↦ template (generated from `ops.py`, see `SFV/Gen/Templates.lean`) -/
def lookupT (tbl : List (String × List TCmd)) (cls : String) : Option (List TCmd) :=
  (tbl.find? (·.1 == cls)).map (·.2)

/-! ### `Compiler.decompose`: recursive decomposition of a whole circuit -/

/-- a command of a circuit: like `TCmd`, but `regs` are the subsystems it acts on -/
structure PCmd where
  cls : String
  pars : List Expr
  regs : List Nat
  dagger : Bool := false
deriving DecidableEq, Repr, Inhabited

/-- the template command on the subsystems of the decomposed command (`reg`, `reg[i]`) -/
def placeCmd (regs : List Nat) (c : TCmd) : PCmd :=
  ⟨c.cls, c.pars, c.regs.map (fun i => regs.getD i 0), c.dagger⟩

/-- `cmd.op.decompose(cmd.reg)` -/
def stepCmd (tbl : List (String × List TCmd)) (c : PCmd) : Option (List PCmd) :=
  (lookupT tbl c.cls).map fun t => (decomposeWith t c.pars c.dagger).map (placeCmd c.regs)

/-- `Compiler.decompose(seq)`: every command whose class the compiler lists under `decompositions`
(`dec`) is replaced by its decomposition, recursively (`fuel` bounds the depth; the deepest chain of
`ops.py`, CZgate → CXgate → primitives, has depth 2); everything else is kept -/
def expand (tbl : List (String × List TCmd)) (dec : String → Bool) : Nat → List PCmd → List PCmd
  | 0, cs => cs
  | fuel + 1, cs => cs.flatMap fun c =>
      if dec c.cls then
        match stepCmd tbl c with
        | some l => expand tbl dec fuel l
        | none => [c]
      else [c]

def PCmd.subst (σ : Subst) (c : PCmd) : PCmd := { c with pars := c.pars.map (SFV.Param.subst σ) }

/-- what the backend sees of a command -/
def PCmd.sem [ValOps V] (env : Env V) (c : PCmd) : String × List Nat × Bool × Except PErr (List V) :=
  (c.cls, c.regs, c.dagger, c.pars.mapM (eval env))

/-- no template mentions a measured parameter -/
def closedTable (tbl : List (String × List TCmd)) : Bool :=
  tbl.all fun p => p.2.all fun c => c.pars.all fun e => (measAtoms e).isEmpty

/-- the names of the holes and constants the templates use -/
def tableAtoms (tbl : List (String × List TCmd)) : List String :=
  tbl.flatMap fun p => p.2.flatMap fun c => c.pars.flatMap freeAtoms

/-- evaluated parameters of a command (what `_apply` hands to the backend) -/
def TCmd.evalPars [ValOps V] (env : Env V) (c : TCmd) : Except PErr (List V) := c.pars.mapM (eval env)

/-- what the backend sees of a command: class, positions, inverse flag, evaluated parameters -/
def TCmd.sem [ValOps V] (env : Env V) (c : TCmd) : String × List Nat × Bool × Except PErr (List V) :=
  (c.cls, c.regs, c.dagger, c.evalPars env)

/-- first parameter of `Gate.merge`: `self.p[0] + other.p[0]`, the second negated when the inverse
flags differ -/
def mergeP0 (a b : Expr) (da db : Bool) : Expr := .add a (if da == db then b else .neg b)

/-! ### measured values: `Measurement.apply`, `BaseEngine._run`

A program segment is a list of commands; the register of the segment's Program is `Nat → Option V`
(`RegRef.val`).  The engine keeps the latest value of every subsystem and hands it to the next
segment. -/

inductive Cmd (V : Type)
  | measure (modes : List Nat) (outcomes : List V)   -- a Measurement with scripted outcomes
  | prepare (mode : Nat)                              -- (re-)preparation: does not touch RegRef.val
  | use (e : Expr)                                    -- an operation with parameter `e` is applied
  | useArr (es : List Expr)                           -- … with an array-valued parameter (object array of expressions)
deriving Repr

abbrev Regs (V : Type) := Nat → Option V

def Regs.empty : Regs V := fun _ => none

/-- `for v, r in zip(np.transpose(values), reg): r.val = v` -/
def Regs.store (r : Regs V) : List Nat → List V → Regs V
  | m :: ms, v :: vs => Regs.store (fun k => if k = m then some v else r k) ms vs
  | _, _ => r

/-- result of running commands: the values the `use` commands were applied with, and — unless a
`ParameterError` aborted the run — the final register -/
structure Out (V : Type) where
  trace : List V
  fin : Except PErr (Regs V)

/-- the error that aborted the run, if any -/
def Out.err (o : Out V) : Option PErr :=
  match o.fin with
  | .ok _ => none
  | .error e => some e

/-- `_run_program`: apply the commands in order; the first parameter error aborts -/
def runCmds [ValOps V] (free : String → Option V) (r : Regs V) : List (Cmd V) → Out V
  | [] => ⟨[], .ok r⟩
  | .measure ms vs :: rest => runCmds free (r.store ms vs) rest
  | .prepare _ :: rest => runCmds free r rest
  | .use e :: rest =>
    match eval ⟨free, r⟩ e with
    | .ok v => let o := runCmds free r rest; ⟨v :: o.trace, o.fin⟩
    | .error err => ⟨[], .error err⟩
  | .useArr es :: rest =>
    -- `par_evaluate` evaluates every element before the operation is applied: all or nothing
    match es.mapM (eval ⟨free, r⟩) with
    | .ok vs => let o := runCmds free r rest; ⟨vs ++ o.trace, o.fin⟩
    | .error err => ⟨[], .error err⟩

/-- engine state: `started` = a program has been run since construction / `reset` (`run_progs`
non-empty); `vals` = `_measured_vals` -/
structure Eng (V : Type) where
  started : Bool := false
  vals : Regs V := Regs.empty

/-- one iteration of the loop in `BaseEngine._run` for a segment whose Program currently holds
`own` in its RegRefs (stale values of earlier runs, deep-copied values of a parent, values set by
hand …): the first segment of a computation runs with what its Program holds, in a later segment
every RegRef is overwritten with the engine's latest value; then the commands run; then the engine
records the RegRef values. -/
def runSeg [ValOps V] (free : String → Option V) (e : Eng V) (own : Regs V) (cmds : List (Cmd V)) :
    Out V × Eng V :=
  let r0 : Regs V := if e.started then e.vals else own
  let o := runCmds free r0 cmds
  match o.fin with
  | .ok r => (o, { started := true, vals := r })
  | .error _ => (o, e)

/-- a list of segments (`eng.run([p1, p2, …])` or successive `eng.run` calls); stops at the first
error -/
def runSegs [ValOps V] (free : String → Option V) (e : Eng V) : List (Regs V × List (Cmd V)) → Out V
  | [] => ⟨[], .ok e.vals⟩
  | (own, cmds) :: rest =>
    let (o, e') := runSeg free e own cmds
    match o.fin with
    | .ok _ => let o' := runSegs free e' rest; ⟨o.trace ++ o'.trace, o'.fin⟩
    | .error err => ⟨o.trace, .error err⟩

/-! ### several `eng.run` calls, failed calls, `eng.reset` -/

/-- one `eng.run([p1, p2, …])`: like `runSegs`, but also returns the engine afterwards — the
segments before a failing one have been recorded (`run_progs`, `_measured_vals`), the failing one
and everything behind it have not -/
def runCall [ValOps V] (free : String → Option V) (e : Eng V) : List (Regs V × List (Cmd V)) → Out V × Eng V
  | [] => (⟨[], .ok e.vals⟩, e)
  | (own, cmds) :: rest =>
    let (o, e') := runSeg free e own cmds
    match o.fin with
    | .ok _ => let (o', e'') := runCall free e' rest; (⟨o.trace ++ o'.trace, o'.fin⟩, e'')
    | .error err => (⟨o.trace, .error err⟩, e)

inductive Ev (V : Type)
  | run (segs : List (Regs V × List (Cmd V)))
  | reset

/-- a session: the trace and error of every `run` call (a caught `ParameterError` does not end the
session) -/
def runEvents [ValOps V] (free : String → Option V) (e : Eng V) : List (Ev V) → List (List V × Option PErr)
  | [] => []
  | .reset :: rest => runEvents free {} rest
  | .run segs :: rest =>
    let (o, e') := runCall free e segs
    (o.trace, o.err) :: runEvents free e' rest

/-- the specification: the most recent outcome of subsystem `m` in a history of commands -/
def lastOutcome (m : Nat) : List (Cmd V) → Option V
  | [] => none
  | c :: rest =>
    match lastOutcome m rest with
    | some v => some v
    | none => match c with
      | .measure ms vs => ((ms.zip vs).reverse.find? (fun p => p.1 == m)).map (·.2)
      | _ => none

/-! ### value domains used by the driver and by the examples -/

/-- closed terms: the driver evaluates into the free term algebra, the harness folds numerically -/
instance : ValOps Expr where
  ofRat := .num
  add := .add
  mul := .mul
  neg := .neg
  pow := .pow
  fn1 := .fn1
  fn2 := .fn2

/-- exact rationals with the exactly computable functions (others are junk 0); used in examples -/
instance : ValOps Rat where
  ofRat := id
  add := (· + ·)
  mul := (· * ·)
  neg := (- ·)
  pow := fun x y => if y.den = 1 then (if y.num ≥ 0 then x ^ y.num.toNat else (1 / x) ^ y.num.natAbs) else 0
  fn1 := fun f x => match f with
    | "Abs" => if x < 0 then -x else x
    | "sign" => if x < 0 then -1 else if x = 0 then 0 else 1
    | _ => 0
  fn2 := fun f x y => match f with
    | "Max" => if x < y then y else x
    | "Min" => if x < y then x else y
    | _ => 0

/-- exact complex rationals `(re, im)`: heterodyne outcomes; `re`, `im`, `conjugate`, `I` and `|·|²`
are exact (`Abs`, `arg`, `exp` are not rational — junk 0 here, folded numerically by the harness) -/
instance : ValOps (Rat × Rat) where
  ofRat := fun q => (q, 0)
  add := fun x y => (x.1 + y.1, x.2 + y.2)
  mul := fun x y => (x.1 * y.1 - x.2 * y.2, x.1 * y.2 + x.2 * y.1)
  neg := fun x => (-x.1, -x.2)
  pow := fun x y => if y = (2, 0) then (x.1 * x.1 - x.2 * x.2, 2 * x.1 * x.2) else (0, 0)
  fn1 := fun f x => match f with
    | "re" => (x.1, 0)
    | "im" => (x.2, 0)
    | "conjugate" => (x.1, -x.2)
    | "I" => (-x.2, x.1)
    | "abs2" => (x.1 * x.1 + x.2 * x.2, 0)
    | _ => (0, 0)
  fn2 := fun _ _ _ => (0, 0)

end SFV.Param
