/-
K1 — circuit algebra.  Executable model of `strawberryfields/program_utils.py`
(`Command.get_dependencies`, `list_to_grid`, `grid_to_DAG`, `DAG_to_list` as a relation,
`group_operations`, and the measurement collection of `compilers/gbs.py`).

Core Lean only (no Mathlib) so that the driver starts fast.
-/
namespace SFV

/-- an operation parameter: a number, or `k * q[m].par` (measured parameter of mode `m`) -/
inductive Par
  | num (q : Rat)
  | meas (m : Nat) (k : Rat)
deriving DecidableEq, Repr, Inhabited

/-- A command of a circuit.  `id` is the identity of the Python `Command` object,
`regs` is `cmd.reg` (ordered), `deps` the indices in `cmd.op.measurement_deps`. -/
structure Cmd where
  id : Nat
  cls : String := ""
  regs : List Nat := []
  deps : List Nat := []
  marked : Bool := false
  pars : List Par := []
  dagger : Bool := false
  /-- post-selection / dark-count options of a measurement (encoded as rationals), `none` = absent -/
  sel : Option (List Rat) := none
deriving DecidableEq, Repr, Inhabited

/-- `Command.get_dependencies` as a list of subsystem indices (set semantics). -/
def Cmd.wires (c : Cmd) : List Nat := c.regs ++ c.deps

/-- two commands are dependent iff they share a wire -/
def dep (a b : Cmd) : Prop := ∃ w, w ∈ a.wires ∧ w ∈ b.wires

instance (a b : Cmd) : Decidable (dep a b) :=
  decidable_of_iff (a.wires.any fun w => b.wires.contains w) (by
    simp [dep, List.any_eq_true])

/-! ### list → grid → DAG edges -/

/-- the row of wire `w`: all commands touching `w`, in temporal order (`list_to_grid`) -/
def gridRow (l : List Cmd) (w : Nat) : List Cmd := l.filter fun c => c.wires.contains w

/-- insert into a sorted duplicate-free list -/
def insertSorted (x : Nat) : List Nat → List Nat
  | [] => [x]
  | y :: ys => if x < y then x :: y :: ys else if x = y then y :: ys else y :: insertSorted x ys

def sortDedup (l : List Nat) : List Nat := l.foldr insertSorted []

/-- all wires of the circuit, ascending -/
def allWires (l : List Cmd) : List Nat := sortDedup (l.flatMap Cmd.wires)

/-- `list_to_grid`, canonicalised: rows sorted by wire index -/
def listToGrid (l : List Cmd) : List (Nat × List Cmd) := (allWires l).map fun w => (w, gridRow l w)

/-- consecutive pairs of a row -/
def consecPairs : List Cmd → List (Cmd × Cmd)
  | a :: b :: rest => (a, b) :: consecPairs (b :: rest)
  | _ => []

/-- `grid_to_DAG`: edges between consecutive commands on every wire -/
def gridEdges (grid : List (Nat × List Cmd)) : List (Cmd × Cmd) := grid.flatMap fun r => consecPairs r.2

def dagEdges (l : List Cmd) : List (Cmd × Cmd) := gridEdges (listToGrid l)

/-! ### linear extensions and the executable legality checker -/

/-- `out` is a topological order of the DAG of `l` (what `DAG_to_list` may return):
same commands, every DAG edge goes forward. -/
def isLinExt (l out : List Cmd) : Bool :=
  (out.length == l.length) && l.all (fun c => out.contains c) &&
  (dagEdges l).all fun e => out.idxOf e.1 < out.idxOf e.2

/-- remove the first command `h` from `src` provided everything before it is independent of `h` -/
def pull (h : Cmd) : List Cmd → Option (List Cmd)
  | [] => none
  | x :: xs =>
    if x = h then some xs
    else if dep x h then none
    else (pull h xs).map (x :: ·)

/-- executable certificate checker: `out` is obtained from `src` by repeatedly pulling to the
front a command all of whose predecessors are independent of it. -/
def isLegal : List Cmd → List Cmd → Bool
  | src, [] => src.isEmpty
  | src, h :: out => match pull h src with
    | none => false
    | some src' => isLegal src' out

/-! ### group_operations -/

/-- index of the first marked command (`find_first_index`) -/
def firstMarked (l : List Cmd) : Nat := l.findIdx fun c => c.marked

/-- `group_operations`, given the two lexicographic topological sorts `c1` (of `seq`) and
`c2` (of `B₀ = c1.drop ind`) that NetworkX returned. -/
def groupSplit (c1 c2 : List Cmd) : List Cmd × List Cmd × List Cmd :=
  let ind := firstMarked c1
  let a := c1.take ind
  let ind2 := c2.length - firstMarked c2.reverse
  (a, c2.take ind2, c2.drop ind2)

/-- the part handed to the second sort -/
def groupRest (c1 : List Cmd) : List Cmd := c1.drop (firstMarked c1)

/-! ### compilers/gbs.py measurement collection -/

inductive GbsErr | following | noFock | notConsecutive | twice
deriving DecidableEq, Repr

/-- union of measured registers with duplicate detection -/
def collectMeasured : List Cmd → List Nat → Except GbsErr (List Nat)
  | [], acc => .ok acc
  | c :: cs, acc =>
    if !c.marked then .error .notConsecutive
    else if c.regs.any (fun r => acc.contains r) then .error .twice
    else collectMeasured cs (acc ++ c.regs.eraseDups)

/-- `GBS.compile` up to the call of the parent compiler; `newId` is the identity of the
freshly created `MeasureFock` command. -/
def gbsCollect (a b c : List Cmd) (newId : Nat) : Except GbsErr (List Cmd) :=
  if !c.isEmpty then .error .following
  else if b.isEmpty then .error .noFock
  else match collectMeasured b [] with
    | .error e => .error e
    | .ok ms => .ok (a ++ [{ id := newId, cls := "MeasureFock", regs := sortDedup ms, marked := true }])

end SFV
