import SFV.Model.GaussNM
/-
K3 — phase-space algebra, part 2: the *specification* side.  A Gaussian operation acts on
quadrature means and covariances as `μ ↦ Xμ + d`, `V ↦ X V Xᵀ + Y`; here `X` is given sparsely:
every output quadrature `(mode, isP)` is a short linear form in input quadratures.
This is the "independent phase-space calculation" of property C01, executable over `Rat`.
Core Lean only.
-/
namespace SFV.Gauss

/-- quadrature label: `(mode, false)` is `x`, `(mode, true)` is `p` -/
abbrev Q := Nat × Bool

/-- xp data (hbar = 2): blocks of the covariance matrix and the mean vector -/
structure XP (K : Type) where
  xx : Nat → Nat → K
  xp : Nat → Nat → K
  pp : Nat → Nat → K
  mx : Nat → K
  mp : Nat → K

variable {K : Type}

def toXP [Zero K] [One K] [Add K] [Sub K] [Neg K] [Mul K] (st : GS K) : XP K :=
  { xx := Vxx st, xp := Vxp st, pp := Vpp st, mx := meanX st, mp := meanP st }

/-- covariance of two quadratures (the `px` block is the transpose of `xp`) -/
def XP.cov (V : XP K) : Q → Q → K
  | (i, false), (j, false) => V.xx i j
  | (i, false), (j, true) => V.xp i j
  | (i, true), (j, false) => V.xp j i
  | (i, true), (j, true) => V.pp i j

def XP.mean (V : XP K) : Q → K
  | (i, false) => V.mx i
  | (i, true) => V.mp i

/-- `Σ_{(u, c) ∈ l} c · f u` -/
def lsum [Zero K] [Add K] [Mul K] (l : List (Q × K)) (f : Q → K) : K :=
  l.foldr (fun t acc => t.2 * f t.1 + acc) 0

/-- congruence `V ↦ X V Xᵀ`, `μ ↦ X μ` with the rows of `X` given as linear forms -/
def linMap [Zero K] [Add K] [Mul K] (R : Q → List (Q × K)) (V : XP K) : XP K :=
  { xx := fun i j => lsum (R (i, false)) fun u => lsum (R (j, false)) fun v => V.cov u v
    xp := fun i j => lsum (R (i, false)) fun u => lsum (R (j, true)) fun v => V.cov u v
    pp := fun i j => lsum (R (i, true)) fun u => lsum (R (j, true)) fun v => V.cov u v
    mx := fun i => lsum (R (i, false)) V.mean
    mp := fun i => lsum (R (i, true)) V.mean }

/-- additive noise `Y = y · 1₂` on mode `k` -/
def addNoise [Add K] (V : XP K) (k : Nat) (y : K) : XP K :=
  { V with xx := fun i j => if i = k ∧ j = k then V.xx i j + y else V.xx i j
           pp := fun i j => if i = k ∧ j = k then V.pp i j + y else V.pp i j }

/-- a register of `n` modes grows: the `n` old modes keep their data, every other mode is an uncorrelated vacuum
(`hbar = 2`: unit variances, zero means) -/
def addVacuum [Zero K] [One K] (V : XP K) (n : Nat) : XP K :=
  { xx := fun i j => if i < n ∧ j < n then V.xx i j else if i = j then 1 else 0
    xp := fun i j => if i < n ∧ j < n then V.xp i j else 0
    pp := fun i j => if i < n ∧ j < n then V.pp i j else if i = j then 1 else 0
    mx := fun i => if i < n then V.mx i else 0
    mp := fun i => if i < n then V.mp i else 0 }

/-- displacement of mode `k` by `(dx, dp)` -/
def shift [Add K] (V : XP K) (k : Nat) (dx dp : K) : XP K :=
  { V with mx := fun i => if i = k then V.mx i + dx else V.mx i
           mp := fun i => if i = k then V.mp i + dp else V.mp i }

section rows
variable [Zero K] [One K] [Add K] [Sub K] [Neg K] [Mul K]

/-- identity rows -/
def idRow (u : Q) : List (Q × K) := [(u, 1)]

/-- single-mode block `[[a, b], [c, d]]` on mode `k` -/
def rows1 (k : Nat) (a b c d : K) : Q → List (Q × K)
  | (i, false) => if i = k then [((k, false), a), ((k, true), b)] else idRow (i, false)
  | (i, true) => if i = k then [((k, false), c), ((k, true), d)] else idRow (i, true)

/-- documented squeezing block `S(r e^{iφ})`: `[[ch − c·sh, −s·sh], [−s·sh, ch + c·sh]]` -/
def squeezeRows (k : Nat) (c s ch sh : K) : Q → List (Q × K) :=
  rows1 k (ch - c * sh) (-(s * sh)) (-(s * sh)) (ch + c * sh)

/-- rotation block `R(φ)`: `[[c, −s], [s, c]]` -/
def rotRows (k : Nat) (c s : K) : Q → List (Q × K) := rows1 k c (-s) s c

/-- attenuation `q · 1₂` -/
def lossRows (k : Nat) (q : K) : Q → List (Q × K) := rows1 k q 0 0 q

/-- the two-mode passive map `a_k ↦ ct·a_k + sn·e^{iφ}·a_l`, `a_l ↦ ct·a_l − sn·e^{−iφ}·a_k`
(`GaussianModes.beamsplitter(θ, φ, k, l)`; the back end calls it with `(−θ, −φ)`) -/
def bsRows (k l : Nat) (c s ct sn : K) : Q → List (Q × K)
  | (i, false) =>
    if i = k then [((k, false), ct), ((l, false), sn * c), ((l, true), -(sn * s))]
    else if i = l then [((l, false), ct), ((k, false), -(sn * c)), ((k, true), -(sn * s))]
    else idRow (i, false)
  | (i, true) =>
    if i = k then [((k, true), ct), ((l, false), sn * s), ((l, true), sn * c)]
    else if i = l then [((l, true), ct), ((k, false), sn * s), ((k, true), -(sn * c))]
    else idRow (i, true)

end rows

end SFV.Gauss
