import SFV.Model.Circuit
/-! Model of `Program.__eq__` and `program_utils.program_equivalence` (K1, property C18). -/
namespace SFV

/-- everything `Program.__eq__` compares about a command -/
def Cmd.key (c : Cmd) : String × List Par × List Nat × Bool × Option (List Rat) :=
  (c.cls, c.pars, c.regs, c.dagger, c.sel)

def cmdEq (a b : Cmd) : Bool := a.key == b.key

/-- `Program.__eq__`: targets, registers (index, active), then all commands pairwise -/
def programEq (t1 t2 : String) (r1 r2 : List (Nat × Bool)) (l1 l2 : List Cmd) : Bool :=
  t1 == t2 && r1 == r2 && l1.length == l2.length && (l1.zip l2).all fun ab => cmdEq ab.1 ab.2

/-- classes whose action does not depend on the order of their two modes -/
def symmetricCls (c : Cmd) : Bool :=
  c.cls == "S2gate" || c.cls == "CZgate" || c.cls == "CKgate" || c.cls == "CXgate0" || c.cls == "BSgateSym"

/-- node attributes compared by `program_equivalence` (`name`, `p`, `w`); the harness renames a
`CXgate` with parameter 0 to `CXgate0` and a symmetric beamsplitter to `BSgateSym`. -/
def Cmd.nodeKey (c : Cmd) : String × List Par × List Nat × List Nat × Bool × Option (List Rat) :=
  (c.cls, c.pars, if symmetricCls c then sortDedup c.regs else c.regs, sortDedup c.deps, c.dagger, c.sel)

def insertAll (x : Cmd) : List Cmd → List (List Cmd)
  | [] => [[x]]
  | y :: ys => (x :: y :: ys) :: (insertAll x ys).map (y :: ·)

def perms : List Cmd → List (List Cmd)
  | [] => [[]]
  | x :: xs => (perms xs).flatMap (insertAll x)

def aligned (l1 m : List Cmd) : Bool :=
  l1.length == m.length && (l1.zip m).all fun ab => ab.1.nodeKey == ab.2.nodeKey

def subsetEdges (e1 e2 : List (Cmd × Cmd)) : Bool := e1.all fun e => e2.contains e

/-- `program_equivalence`: the attributed wire DAGs are isomorphic (brute-force search over the
node bijections, written as rearrangements `m` of `l2` aligned with `l1`). -/
def programEquiv (l1 l2 : List Cmd) : Bool :=
  (perms l2).any fun m => aligned l1 m && subsetEdges (dagEdges m) (dagEdges l2) &&
    subsetEdges (dagEdges l2) (dagEdges m)

end SFV
