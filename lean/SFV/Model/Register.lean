/-!
# K2 — register and mode bookkeeping (executable model, core Lean only)

Transcribed from (strawberryfields, branch wp-C08 = pinned tree + the `fix:` commits of C08):

* `program.py`  : `Program._add_subsystems`, `_delete_subsystems`, `_test_regrefs`, `_index_to_regref`,
                  `append`, `lock`, `can_follow`, `register`, `Program(parent)` hand-over;
                  `ops.py`: `Operation.__or__`, `New`, `_New_modes._apply`, `_Delete.__or__/_apply`,
                  `Operation.apply` (RegRef -> index);
* `engine.py`   : `BaseEngine._run` (begin_circuit on first program, `can_follow` afterwards, lock,
                  run, append to `run_progs`), `LocalEngine.reset`;
* `backends/base.py` : `ModeMap` (`_map`, `valid`, `remap`, `delete`, `add`, `reset`);
* `backends/fockbackend/backend.py` : `_remap_modes`, `begin_circuit`, `add_mode`, `del_mode`,
                  `get_modes`, `reset`, `state` (selection + labelling) and the axis bookkeeping of
                  `circuit.alloc / dealloc` (`ops.partial_trace` keeps the other axes in order);
* `backends/gaussianbackend/{backend,gaussiancircuit}.py` and
  `backends/bosonicbackend/{backend,bosoniccircuit}.py` : `active`, `add_mode`, `del_mode`,
                  `get_modes`, `reset`, per-operation activity checks, `state` (selection + labelling),
                  bosonic `run_prog`/`init_circuit` (every non-empty segment re-instantiates the circuit
                  and performs the segment's `New`s up front).

What a mode *carries* is abstract: a value of a type `D` with a vacuum value and a family of
"gates" acting on the tuple of target data (`DataSem`).  The model only decides **which stored
row / tensor axis** is read, written, dropped or returned under which label.
-/
namespace SFV.Reg

/-- exception classes that are observable at the interface -/
inductive Err
  | regRef    -- RegRefError (an IndexError subclass)
  | value     -- ValueError
  | index     -- IndexError
  | circuit   -- CircuitError
  | runtime   -- RuntimeError ("Register mismatch")
  deriving DecidableEq, Repr, Inhabited

abbrev R := Except Err

deriving instance DecidableEq for Except

/-- what modes carry -/
class DataSem (D : Type) where
  vac : D
  gate : Int → List D → List D

/-- the instance used by the driver: an integer number of displacement units per mode;
a one-mode gate `k` adds `k`, the two-mode gate is the swapping beamsplitter `(a, b) ↦ (-b, a)` -/
instance : DataSem Int where
  vac := 0
  gate k l := match l with
    | [a] => [a + k]
    | [a, b] => [-b, a]
    | l => l

/-! ## small list utilities (Python list semantics) -/

/-- `[l[m] for m in ms]`, IndexError when out of range -/
def getAll (l : List α) : List Nat → R (List α)
  | [] => .ok []
  | m :: ms =>
    match l[m]? with
    | none => .error .index
    | some x =>
      match getAll l ms with
      | .error e => .error e
      | .ok xs => .ok (x :: xs)

def readAll (l : List α) (ps : List Nat) : List α := ps.filterMap (l[·]?)

def writeBack : List Nat → List α → List α → List α
  | p :: ps, v :: vs, l => writeBack ps vs (l.set p v)
  | _, _, l => l

/-- read the entries at `ps`, transform the tuple, write it back -/
def applyOn (f : List α → List α) (ps : List Nat) (l : List α) : List α :=
  writeBack ps (f (readAll l ps)) l

def hasDup : List Nat → Bool
  | [] => false
  | m :: ms => ms.contains m || hasDup ms

/-- indices (counted from `i`) of the non-`None` entries -/
def liveFrom (i : Nat) : List (Option α) → List Nat
  | [] => []
  | none :: xs => liveFrom (i + 1) xs
  | some _ :: xs => i :: liveFrom (i + 1) xs

/-- keep the entries whose position (counted from `a`) is not in `bad` -/
def filterIdxFrom (a : Nat) (bad : List Nat) : List α → List α
  | [] => []
  | d :: ds => if bad.contains a then filterIdxFrom (a + 1) bad ds else d :: filterIdxFrom (a + 1) bad ds

/-! ## Program side -/

structure RegRef where
  ind : Nat
  active : Bool
  deriving DecidableEq, Repr

/-- what a user can put to the right of `|` -/
inductive Ref
  | int (i : Int)                        -- an integer subsystem index
  | own (i : Nat)                        -- the program's own RegRef object stored under key `i`
  | foreign (ind : Nat) (active : Bool)  -- a RegRef object that does not belong to the program
  deriving DecidableEq, Repr

inductive Op
  | newModes (n : Nat)
  | delete
  | gate (k : Int)
  | measure
  deriving DecidableEq, Repr

/-- `Command(op, reg)`; `reg` is kept as the list of `rr.ind` (what `Operation.apply` hands on) -/
structure Cmd where
  op : Op
  reg : List Nat
  deriving DecidableEq, Repr

structure Prog where
  regRefs : List RegRef       -- dict `reg_refs` in key order (key k is assigned `len(reg_refs)`)
  unused : List Nat           -- `unused_indices`
  locked : Bool
  initRegRefs : List RegRef
  initNum : Nat               -- `init_num_subsystems`
  circuit : List Cmd
  deriving Repr

namespace Prog

def register (p : Prog) : List Nat := (p.regRefs.filter (·.active)).map (·.ind)
def numSubsystems (p : Prog) : Nat := p.register.length
def flags (p : Prog) : List Bool := p.regRefs.map (·.active)

/-- `_add_subsystems` -/
def addSubsystems (p : Prog) (n : Nat) : R (Prog × List Nat) :=
  if p.locked then .error .circuit
  else if n < 1 then .error .value
  else
    let first := p.regRefs.length
    let inds := List.range' first n
    .ok ({ p with regRefs := p.regRefs ++ inds.map (fun i => ⟨i, true⟩),
                  unused := p.unused ++ inds.filter (fun i => !p.unused.contains i) }, inds)

/-- the per-item part of `_test_regrefs` up to the activity test: which of the program's RegRefs is meant -/
def resolve (p : Prog) : Ref → R RegRef
  | .int i =>
    if i < 0 then .error .regRef          -- `ind not in self.reg_refs`
    else match p.regRefs[i.toNat]? with
      | some r => .ok r
      | none => .error .regRef
  | .own i =>
    match p.regRefs[i]? with
    | some r => .ok r
    | none => .error .regRef              -- no such object in the program: "Unknown RegRef."
  | .foreign ind act =>
    if !p.regRefs.contains ⟨ind, act⟩ then .error .regRef   -- "Unknown RegRef."
    else .error .regRef                                       -- "RegRef state has become inconsistent."

/-- the loop of `_test_regrefs` -/
def testLoop (p : Prog) : List Ref → List RegRef → R (List RegRef)
  | [], temp => .ok temp
  | rr :: rest, temp =>
    match p.resolve rr with
    | .error e => .error e
    | .ok r =>
      if !r.active then .error .regRef
      else if temp.contains r then .error .regRef
      else testLoop p rest (temp ++ [r])

def testRegrefs (p : Prog) (reg : List Ref) : R (List RegRef) := p.testLoop reg []

/-- `Program.append` (with the measured-parameter dependencies `deps` of the operation) -/
def append (p : Prog) (op : Op) (reg deps : List Ref) : R (Prog × List RegRef) :=
  if p.locked then .error .circuit
  else match p.testRegrefs reg with
    | .error e => .error e
    | .ok rs =>
      match p.testRegrefs deps with
      | .error e => .error e
      | .ok _ =>
        let inds := rs.map (·.ind)
        .ok ({ p with unused := p.unused.filter (fun i => !inds.contains i),
                      circuit := p.circuit ++ [⟨op, inds⟩] }, rs)

/-- `self.ns is not None and self.ns != len(reg)` -/
def nsBad (ns : Option Nat) (len : Nat) : Bool :=
  match ns with
  | some k => k != len
  | none => false

/-- `Operation.__or__` for an operation acting on `ns` subsystems (`none`: any number) -/
def opOr (p : Prog) (op : Op) (ns : Option Nat) (reg deps : List Ref) : R (Prog × List RegRef) :=
  if reg.isEmpty || nsBad ns reg.length then .error .value
  else p.append op reg deps

/-- `ops.New(n)` -/
def newOp (p : Prog) (n : Nat) : R (Prog × List Nat) :=
  match p.addSubsystems n with
  | .error e => .error e
  | .ok (p1, inds) =>
    match p1.append (.newModes n) (inds.map .own) [] with
    | .error e => .error e
    | .ok (p2, _) => .ok (p2, inds)

/-- `_delete_subsystems` on the RegRefs with the given indices -/
def deactivate (inds : List Nat) (rs : List RegRef) : List RegRef :=
  rs.map (fun r => if inds.contains r.ind then { r with active := false } else r)

/-- `ops.Del | reg` -/
def delOp (p : Prog) (reg : List Ref) : R Prog :=
  match p.opOr .delete none reg [] with
  | .error e => .error e
  | .ok (p1, rs) => .ok { p1 with regRefs := deactivate (rs.map (·.ind)) p1.regRefs }

/-- a gate on `reg` (`Xgate` for one mode, `BSgate` for two; any other number of subsystems is the
`ValueError` of `Operation.__or__`) -/
def useOp (p : Prog) (reg : List Ref) (k : Int) (deps : List Ref) : R Prog :=
  let ns := if reg.length == 1 then 1 else 2
  match p.opOr (.gate k) (some ns) reg deps with
  | .error e => .error e
  | .ok (p1, _) => .ok p1

/-- a measurement on `reg` (`ns = None`) -/
def measOp (p : Prog) (reg : List Ref) : R Prog :=
  match p.opOr .measure none reg [] with
  | .error e => .error e
  | .ok (p1, _) => .ok p1

/-- `Program.append(op, [r])` as `All.__or__` calls it -/
def appendGate1 (p : Prog) (k : Int) (r : Ref) : R Prog :=
  match p.append (.gate k) [r] [] with
  | .error e => .error e
  | .ok (q, _) => .ok q

/-- `All(op) | reg` for a one-mode gate: the whole selection is tested first (`_test_regrefs`), then the gate is
appended to every item separately; an empty selection is accepted and does nothing -/
def allOp (p : Prog) (reg : List Ref) (k : Int) : R Prog :=
  match p.testRegrefs reg with
  | .error e => .error e
  | .ok _ => reg.foldlM (fun q r => q.appendGate1 k r) p

def lock (p : Prog) : Prog := { p with locked := true }

/-- `Program(parent)` (the parent gets locked as a side effect) -/
def child (parent : Prog) : Prog :=
  { regRefs := parent.regRefs, unused := parent.unused, locked := false,
    initRegRefs := parent.regRefs, initNum := parent.numSubsystems, circuit := [] }

/-- `Program(n)` -/
def fresh (n : Nat) : R Prog :=
  let p0 : Prog := { regRefs := [], unused := [], locked := false, initRegRefs := [], initNum := n, circuit := [] }
  match p0.addSubsystems n with
  | .error e => .error e
  | .ok (p1, _) => .ok { p1 with initRegRefs := p1.regRefs }

/-- `can_follow` (dict equality; keys are positions) -/
def canFollow (p : Prog) (prevRegRefs : List RegRef) : Bool := p.initRegRefs == prevRegRefs

end Prog

/-! ## `ModeMap` of backends/base.py -/

structure ModeMap where
  init : Nat
  map : List (Option Nat)
  deriving Repr, DecidableEq

/-- the loop of `ModeMap.delete` (`m`: current external index, `ctr`: next internal index) -/
def deleteLoop (modes : List Nat) : Nat → Nat → List (Option Nat) → List (Option Nat)
  | _, _, [] => []
  | m, ctr, x :: xs =>
    if modes.contains m || x.isNone then none :: deleteLoop modes (m + 1) ctr xs
    else some ctr :: deleteLoop modes (m + 1) (ctr + 1) xs

namespace ModeMap

def new (n : Nat) : ModeMap := ⟨n, (List.range n).map some⟩
def reset (m : ModeMap) : ModeMap := { m with map := (List.range m.init).map some }
def singleValid (m : ModeMap) (mode : Nat) : Bool := mode < m.map.length
def valid (m : ModeMap) (modes : List Nat) : Bool :=
  !(modes.length == 0 || modes.length > m.map.length) && modes.all m.singleValid
def remap (m : ModeMap) (modes : List Nat) : R (List (Option Nat)) := getAll m.map modes
def delete (m : ModeMap) (modes : List Nat) : R ModeMap :=
  if m.valid modes then .ok { m with map := deleteLoop modes 0 0 m.map } else .error .value
def add (m : ModeMap) (n : Nat) : ModeMap :=
  let k := (m.map.filter (·.isSome)).length
  { m with map := m.map ++ (List.range' k n).map some }

end ModeMap

/-! ## Fock back end -/

structure Fock (D : Type) where
  initModes : Nat
  mm : ModeMap
  axes : List D        -- what each tensor axis (pair) carries; `_num_modes = axes.length`
  deriving Repr, DecidableEq

namespace Fock
variable {D : Type} [DataSem D]

def begin (n : Nat) : Fock D := ⟨n, ModeMap.new n, List.replicate n DataSem.vac⟩
def reset (s : Fock D) : Fock D := { s with mm := s.mm.reset, axes := List.replicate s.initModes DataSem.vac }

/-- `_remap_modes` for a list -/
def remapModes (s : Fock D) (modes : List Nat) : R (List Nat) :=
  match getAll s.mm.map modes with
  | .error e => .error e
  | .ok submap =>
    if !s.mm.valid modes || submap.contains none then .error .value
    else .ok (submap.filterMap id)

/-- `_remap_modes` for a single int -/
def remap1 (s : Fock D) (m : Nat) : R Nat :=
  match s.remapModes [m] with
  | .error e => .error e
  | .ok [a] => .ok a
  | .ok _ => .error .index

/-- gates remap their modes one by one -/
def remapEach (s : Fock D) : List Nat → R (List Nat)
  | [] => .ok []
  | m :: ms =>
    match s.remap1 m with
    | .error e => .error e
    | .ok a => match remapEach s ms with
      | .error e => .error e
      | .ok as => .ok (a :: as)

def addMode (s : Fock D) (n : Nat) : Fock D :=
  { s with mm := s.mm.add n, axes := s.axes ++ List.replicate n DataSem.vac }

def delMode (s : Fock D) (modes : List Nat) : R (Fock D) :=
  match s.remapModes modes with
  | .error e => .error e
  | .ok rm =>
    match s.mm.delete modes with
    | .error e => .error e
    | .ok mm' => .ok { s with mm := mm', axes := filterIdxFrom 0 rm s.axes }

def gate (s : Fock D) (k : Int) (modes : List Nat) : R (Fock D) :=
  match s.remapEach modes with
  | .error e => .error e
  | .ok ps => .ok { s with axes := applyOn (DataSem.gate k) ps s.axes }

/-- `measure_fock` / `measure_homodyne`: the measured modes are left in vacuum -/
def measure (s : Fock D) (modes : List Nat) : R (Fock D) :=
  match s.remapModes modes with
  | .error e => .error e
  | .ok ps => .ok { s with axes := applyOn (fun l => l.map (fun _ => DataSem.vac)) ps s.axes }

def getModes (s : Fock D) : List Nat := liveFrom 0 s.mm.map

/-- `state(modes=None)`: all axes in order, labelled `get_modes()[range(num_axes)]` -/
def stateNone (s : Fock D) : R (List (Nat × D)) :=
  match getAll s.getModes (List.range s.axes.length) with
  | .error e => .error e
  | .ok labels => .ok (labels.zip s.axes)

/-- `state(modes)`: `modes` are subsystem indices (repeated ⇒ `ValueError`; remapped through `_remap_modes`:
`IndexError` beyond the map, `ValueError` for a deleted index or an empty list); data and labels of the remapped axes,
in the requested order -/
def stateModes (s : Fock D) (modes : List Nat) : R (List (Nat × D)) :=
  if hasDup modes then .error .value
  else match s.remapModes modes with
    | .error e => .error e
    | .ok ps =>
      if ps.length > s.axes.length then .error .value
      else match getAll s.axes ps with
        | .error _ => .error .value           -- malformed einsum string
        | .ok data =>
          match getAll s.getModes ps with
          | .error e => .error e
          | .ok labels => .ok (labels.zip data)

def applyCmd (s : Fock D) (c : Cmd) : R (Fock D) :=
  match c.op with
  | .newModes _ => .ok (s.addMode c.reg.length)
  | .delete => s.delMode c.reg
  | .gate k => s.gate k c.reg
  | .measure => s.measure c.reg

def runCircuit : List Cmd → Fock D → R (Fock D)
  | [], s => .ok s
  | c :: cs, s => match s.applyCmd c with
    | .error e => .error e
    | .ok s' => runCircuit cs s'

end Fock

/-! ## phase-space back ends (Gaussian and bosonic share the `active` bookkeeping) -/

structure PS (D : Type) where
  initModes : Nat
  nlen : Nat
  active : List (Option Nat)
  rows : List D        -- what stored mode `i` carries (row/column i of nmat, mmat, mean / means, covs)
  deriving Repr, DecidableEq

namespace PS
variable {D : Type} [DataSem D]

/-- `GaussianModes.reset(n)` / `BosonicModes.reset(n)` -/
def begin (n : Nat) : PS D := ⟨n, n, (List.range n).map some, List.replicate n DataSem.vac⟩
def reset (s : PS D) : PS D := begin s.initModes

/-- `add_mode(n)`: `newactive = arange(newnlen)` with the old entries copied over -/
def addMode (s : PS D) (n : Nat) : PS D :=
  { s with nlen := s.nlen + n,
           active := s.active ++ (List.range' s.nlen n).map some,
           rows := s.rows ++ List.replicate n DataSem.vac }

/-- `if self.active[m] is None: raise ValueError` (IndexError when out of range) -/
def check (s : PS D) (m : Nat) : R Unit :=
  match s.active[m]? with
  | none => .error .index
  | some none => .error .value
  | some (some _) => .ok ()

def checkAll (s : PS D) : List Nat → R Unit
  | [] => .ok ()
  | m :: ms => match s.check m with
    | .error e => .error e
    | .ok _ => checkAll s ms

/-- `del_mode`: mode by mode — check, `loss(0)`, `active[mode] = None` -/
def delMode (s : PS D) : List Nat → R (PS D)
  | [] => .ok s
  | m :: ms =>
    match s.check m with
    | .error e => .error e
    | .ok _ => delMode { s with active := s.active.set m none, rows := s.rows.set m DataSem.vac } ms

def gate (s : PS D) (k : Int) (modes : List Nat) : R (PS D) :=
  match s.checkAll modes with
  | .error e => .error e
  | .ok _ =>
    if hasDup modes then .error .value      -- "Cannot use the same mode for beamsplitter inputs"
    else .ok { s with rows := applyOn (DataSem.gate k) modes s.rows }

def measure (s : PS D) (modes : List Nat) : R (PS D) :=
  match s.checkAll modes with
  | .error e => .error e
  | .ok _ => .ok { s with rows := applyOn (fun l => l.map (fun _ => DataSem.vac)) modes s.rows }

def getModes (s : PS D) : List Nat := s.active.filterMap id

/-- `state(modes=None)` (Gaussian, after the C08 fix; bosonic): the stored rows of the active modes,
each labelled with its index -/
def stateNone (s : PS D) : R (List (Nat × D)) :=
  match getAll s.rows s.getModes with
  | .error e => .error e
  | .ok data => .ok (s.getModes.zip data)

/-- Gaussian `state(modes)`: subsystem indices; every one has to be active (`ValueError` otherwise); the rows of the
requested indices in the requested order, labelled with them -/
def stateModesG (s : PS D) (modes : List Nat) : R (List (Nat × D)) :=
  if modes.any (fun i => !s.getModes.contains i) then .error .value
  else match getAll s.rows modes with
    | .error e => .error e
    | .ok data => .ok (modes.zip data)

/-- insertion into an ascending list (`sorted(modes)`) -/
def insertAsc (m : Nat) : List Nat → List Nat
  | [] => [m]
  | x :: xs => if m ≤ x then m :: x :: xs else x :: insertAsc m xs

def sortAsc (l : List Nat) : List Nat := l.foldr insertAsc []

/-- bosonic `state(modes)`: subsystem indices, every one active (`ValueError` otherwise); data and labels in
ascending index order -/
def stateModesB (s : PS D) (modes : List Nat) : R (List (Nat × D)) :=
  if modes.any (fun i => !s.getModes.contains i) then .error .value
  else
    let ms := sortAsc modes
    match getAll s.rows ms with
    | .error e => .error e
    | .ok data => .ok (ms.zip data)

def applyCmd (s : PS D) (c : Cmd) : R (PS D) :=
  match c.op with
  | .newModes _ => .ok (s.addMode c.reg.length)
  | .delete => s.delMode c.reg
  | .gate k => s.gate k c.reg
  | .measure => s.measure c.reg

/-- Gaussian back end through `LocalEngine._run_program` -/
def runCircuit : List Cmd → PS D → R (PS D)
  | [], s => .ok s
  | c :: cs, s => match s.applyCmd c with
    | .error e => .error e
    | .ok s' => runCircuit cs s'

/-- bosonic `init_circuit`: a new circuit with `init_num_subsystems` modes, then every `New` of the
segment (wherever it occurs) -/
def bosInit (initNum : Nat) (circuit : List Cmd) : PS D :=
  circuit.foldl (fun s c => match c.op with | .newModes _ => s.addMode c.reg.length | _ => s) (begin initNum)

/-- bosonic main loop: `_New_modes` is skipped (already done by `init_circuit`) -/
def bosLoop : List Cmd → PS D → R (PS D)
  | [], s => .ok s
  | c :: cs, s =>
    match c.op with
    | .newModes _ => bosLoop cs s
    | _ => match s.applyCmd c with
      | .error e => .error e
      | .ok s' => bosLoop cs s'

/-- bosonic `run_prog(prog, continuation)`: the first non-empty program of a computation goes through `init_circuit`
(new simulator, the segment's `New`s up front, `_New_modes` skipped by the main loop); a continuation (`continuation =
any(p.circuit for p in run_progs)`, handed over by `BosonicEngine._run_program`) is executed command by command on
the simulator as it is; an empty program does nothing -/
def bosRun (initNum : Nat) (circuit : List Cmd) (s : PS D) (cont : Bool) : R (PS D × Bool) :=
  if circuit.isEmpty then .ok (s, cont)
  else if cont then
    match runCircuit circuit s with
    | .error e => .error e
    | .ok s' => .ok (s', true)
  else
    match bosLoop circuit (bosInit initNum circuit) with
    | .error e => .error e
    | .ok s' => .ok (s', true)

/-- `BosonicModes.mb_squeeze_single_shot(k, …)` (`MSgate(avg=False)`), mode bookkeeping: activity test of the target,
`add_mode()` for the ancilla (stored mode `nlen`), operations on target and ancilla, `del_mode(ancilla)`, the ancilla's
rows and columns are deleted from the arrays, `nlen -= 1`, `active = active[:ancilla]`.  (Data: for the squeezing
parameter 0 used by the histories the target row is written back unchanged.) -/
def msSingleShot (s : PS D) (k : Nat) : R (PS D) :=
  match s.check k with
  | .error e => .error e
  | .ok _ =>
    let s1 := s.addMode 1
    let anc := s1.nlen - 1
    match s1.delMode [anc] with
    | .error e => .error e
    | .ok s2 => .ok { s2 with nlen := s2.nlen - 1, active := s2.active.take anc, rows := s2.rows.take anc }

end PS

/-! ## engine + history semantics, generic in the back end -/

structure BackendOps (D B : Type) where
  begin : Nat → B
  reset : B → B
  runProg : Nat → List Cmd → B → R B     -- (init_num_subsystems, circuit)
  getModes : B → List Nat
  stateNone : B → R (List (Nat × D))

def fockOps (D : Type) [DataSem D] : BackendOps D (Fock D) :=
  ⟨Fock.begin, Fock.reset, fun _ cs s => Fock.runCircuit cs s, Fock.getModes, Fock.stateNone⟩
def gaussOps (D : Type) [DataSem D] : BackendOps D (PS D) :=
  ⟨PS.begin, PS.reset, fun _ cs s => PS.runCircuit cs s, PS.getModes, PS.stateNone⟩
/-- the bosonic back end together with the engine's knowledge whether a non-empty segment was run since the last
`begin_circuit` (`run_progs` is cleared by `eng.reset()`, which is followed by `begin_circuit` on the next run) -/
def bosOps (D : Type) [DataSem D] : BackendOps D (PS D × Bool) :=
  ⟨fun n => (PS.begin n, false), fun b => (PS.reset b.1, false), fun n cs b => PS.bosRun n cs b.1 b.2,
   fun b => PS.getModes b.1, fun b => PS.stateNone b.1⟩

/-- insertion of a dict key (ascending, no repetition) -/
def insertKey (m : Nat) : List Nat → List Nat
  | [] => [m]
  | x :: xs => if m < x then m :: x :: xs else if m = x then x :: xs else x :: insertKey m xs

/-- `_run_program` / `run_prog`: the keys of `samples_dict` (`Result.samples_dict`) after a segment — the indices
(`r.ind`, not the positions) of every subsystem a measurement of the segment acted on -/
def samplesStep (ks : List Nat) (c : Cmd) : List Nat :=
  match c.op with
  | .measure => c.reg.foldl (fun ks m => insertKey m ks) ks
  | _ => ks

/-- the keys after a whole segment -/
def samplesKeys (cs : List Cmd) : List Nat := cs.foldl samplesStep []

/-- history alphabet -/
inductive Ev
  | new (n : Nat)
  | del (ms : List Ref)
  | use (ms : List Ref) (k : Int) (deps : List Ref)
  | meas (ms : List Ref)
  | endProg          -- `eng.run(prog)`; the next segment is `Program(prog)`
  | reset (n : Nat)  -- `eng.reset()`; the next segment is a fresh `Program(n)`
  deriving Repr

/-- engine + program under construction -/
structure Sys (B : Type) where
  prog : Prog
  prev : Option (List RegRef)   -- `run_progs[-1].reg_refs`, `none` when `run_progs` is empty
  be : B

def Sys.init {D B : Type} (o : BackendOps D B) (n : Nat) : R (Sys B) :=
  match Prog.fresh n with
  | .error e => .error e
  | .ok p => .ok ⟨p, none, o.begin 0⟩

/-- `BaseEngine._run`: the simulator state the program is run on -/
def engineStart {D B : Type} (o : BackendOps D B) (s : Sys B) : R B :=
  match s.prev with
  | none =>
    -- no previous segment: the back end gets `init_num_subsystems` contiguous modes, so a register that
    -- starts with deleted subsystems is refused ("Register mismatch")
    if s.prog.initRegRefs.all (·.active) then .ok (o.begin s.prog.initNum) else .error .runtime
  | some pr => if s.prog.canFollow pr then .ok s.be else .error .runtime

/-- `BaseEngine._run` for one program -/
def engineRun {D B : Type} (o : BackendOps D B) (s : Sys B) : R (Sys B) :=
  match engineStart o s with
  | .error e => .error e
  | .ok b0 =>
    let p := s.prog.lock
    match o.runProg p.initNum p.circuit b0 with
    | .error e => .error e
    | .ok b1 => .ok ⟨p.child, some p.regRefs, b1⟩

def step {D B : Type} (o : BackendOps D B) (s : Sys B) : Ev → R (Sys B)
  | .new n => match s.prog.newOp n with
    | .error e => .error e
    | .ok (p, _) => .ok { s with prog := p }
  | .del ms => match s.prog.delOp ms with
    | .error e => .error e
    | .ok p => .ok { s with prog := p }
  | .use ms k deps => match s.prog.useOp ms k deps with
    | .error e => .error e
    | .ok p => .ok { s with prog := p }
  | .meas ms => match s.prog.measOp ms with
    | .error e => .error e
    | .ok p => .ok { s with prog := p }
  | .endProg => engineRun o s
  | .reset n => match Prog.fresh n with
    | .error e => .error e
    | .ok p => .ok ⟨p, none, o.reset s.be⟩

/-- a history: rejected events raise and leave everything as it was (the caller continues) -/
def runHist {D B : Type} (o : BackendOps D B) (s : Sys B) : List Ev → Sys B
  | [] => s
  | e :: es => match step o s e with
    | .error _ => runHist o s es
    | .ok s' => runHist o s' es

/-! ## abstract specification: one entry per index ever created, `none` once deleted -/

abbrev Rows (D : Type) := List (Option D)

namespace Rows
variable {D : Type} [DataSem D]

def liveAt (r : Rows D) (m : Nat) : Bool := match r[m]? with | some (some _) => true | _ => false
def live (r : Rows D) : List Nat := liveFrom 0 r
def created (r : Rows D) : Nat := r.length
def flags (r : Rows D) : List Bool := r.map Option.isSome
/-- a usable selection: non-empty, all live, no repetition -/
def okSel (r : Rows D) (ms : List Nat) : Bool := !ms.isEmpty && ms.all r.liveAt && !hasDup ms

def clear (ms : List Nat) (r : Rows D) : Rows D := ms.foldl (fun r m => r.set m none) r
def upd (f : List D → List D) (ms : List Nat) (r : Rows D) : Rows D :=
  writeBack ms ((f (readAll r ms |>.filterMap id)).map some) r

/-- the state for `modes=None`: the live indices in ascending order with their data -/
def state : Nat → Rows D → List (Nat × D)
  | _, [] => []
  | i, none :: r => state (i + 1) r
  | i, some d :: r => (i, d) :: state (i + 1) r

/-- abstract effect of a command -/
def cmd (r : Rows D) (c : Cmd) : Option (Rows D) :=
  match c.op with
  | .newModes _ => some (r ++ List.replicate c.reg.length (some DataSem.vac))
  | .delete => if r.okSel c.reg then some (clear c.reg r) else none
  | .gate k => if r.okSel c.reg then some (upd (DataSem.gate k) c.reg r) else none
  | .measure => if r.okSel c.reg then some (upd (fun l => l.map fun _ => DataSem.vac) c.reg r) else none

def run : List Cmd → Rows D → Option (Rows D)
  | [], r => some r
  | c :: cs, r => match cmd r c with
    | none => none
    | some r' => run cs r'

end Rows

/-- index meant by a reference (abstractly): foreign objects and negative integers mean nothing -/
def Ref.idx? : Ref → Option Nat
  | .int i => if i < 0 then none else some i.toNat
  | .own i => some i
  | .foreign _ _ => none

def idxAll : List Ref → Option (List Nat)
  | [] => some []
  | r :: rs => match r.idx?, idxAll rs with
    | some i, some is => some (i :: is)
    | _, _ => none

/-- abstract, *immediate* semantics of a history event on the rows -/
def aStep {D : Type} [DataSem D] (r : Rows D) : Ev → Option (Rows D)
  | .new n => if n < 1 then none else some (r ++ List.replicate n (some DataSem.vac))
  | .del ms => match idxAll ms with
    | some is => if r.okSel is then some (Rows.clear is r) else none
    | none => none
  | .use ms k deps => match idxAll ms, idxAll deps with
    | some is, some ds =>
      if (is.length == 1 || is.length == 2) && r.okSel is && (ds.isEmpty || r.okSel ds)
      then some (Rows.upd (DataSem.gate k) is r) else none
    | _, _ => none
  | .meas ms => match idxAll ms with
    | some is => if r.okSel is then some (Rows.upd (fun l => l.map fun _ => DataSem.vac) is r) else none
    | none => none
  | .endProg => some r
  | .reset n => if n < 1 then none else some (List.replicate n (some DataSem.vac))

/-- abstract run of a whole history: rejected events change nothing -/
def aRunHist {D : Type} [DataSem D] (r : Rows D) : List Ev → Rows D
  | [] => r
  | e :: es => match aStep r e with
    | some r' => aRunHist r' es
    | none => aRunHist r es

end SFV.Reg
