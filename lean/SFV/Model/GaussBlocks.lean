import SFV.Model.GaussCompile
import SFV.Model.PhaseSpace
/-
K3 — the documented blocks of the gates the Gaussian-merging compilers accept, as functions of the
parameter *atoms* (`c = cos φ`, `s = sin φ`, `ch = cosh r`, `sh = sinh r`, `h = 1/2`), and the translation of a
gate into the command the accumulation loops process (`Gate.cmd`, `PGate.cmd`).

With this file the block values are no longer data supplied by the harness: the driver receives the atoms,
the model builds the block of the gate and of its inverse from the formulas in the `ops.py` docstrings
(what `thewalrus.symplectic.rotation / squeezing / beam_splitter / two_mode_squeezing / interferometer`,
the MZ matrices of the compilers and `np.linalg.inv` / `.conj().T` compute), and the correspondence compares
the float64 result of the real compiler with it.  `Proofs/GaussBlocks.lean` proves that the inverse blocks
are inverses and that the rotation / squeezing / beamsplitter blocks, embedded in `n` modes, are the matrices
of the documented rows `rotRows / squeezeRows / bsRows` of `Model/PhaseSpace.lean`.
Core Lean only.
-/
namespace SFV.GC
open SFV.Gauss

/-- matrix given by its rows -/
def ofRows {K : Type} [Zero K] (rows : List (List K)) : Mat K := fun i j => (rows.getD i []).getD j 0

section blocks
variable {K : Type} [Zero K] [One K] [Add K] [Sub K] [Neg K] [Mul K]

/-- `R(φ)`: `[[c, −s], [s, c]]` -/
def rotBlock (c s : K) : Mat K := ofRows [[c, -s], [s, c]]

/-- `S(r e^{iφ})`: `[[ch − c·sh, −s·sh], [−s·sh, ch + c·sh]]` -/
def sqBlock (c s ch sh : K) : Mat K := ofRows [[ch - c * sh, -(s * sh)], [-(s * sh), ch + c * sh]]

/-- `interferometer(U)` for a 2×2 `U = X + iY`: `[[X, −Y], [Y, X]]` -/
def interf2 (u00 u01 u10 u11 : Cx K) : Mat K :=
  ofRows [[u00.re, u01.re, -u00.im, -u01.im], [u10.re, u11.re, -u10.im, -u11.im],
          [u00.im, u01.im, u00.re, u01.re], [u10.im, u11.im, u10.re, u11.re]]

/-- `BSgate(θ, φ)`: `U = [[ct, −e^{−iφ} st], [e^{iφ} st, ct]]` -/
def bsU (ct st c s : K) : List (Cx K) := [⟨ct, 0⟩, ⟨-(c * st), s * st⟩, ⟨c * st, s * st⟩, ⟨ct, 0⟩]

def ofU (l : List (Cx K)) : Mat K := interf2 (l.getD 0 0) (l.getD 1 0) (l.getD 2 0) (l.getD 3 0)

/-- adjoint of a 2×2 complex matrix given as `[u00, u01, u10, u11]` -/
def adjU (l : List (Cx K)) : List (Cx K) :=
  [Cx.conj (l.getD 0 0), Cx.conj (l.getD 2 0), Cx.conj (l.getD 1 0), Cx.conj (l.getD 3 0)]

def bsBlock (ct st c s : K) : Mat K := ofU (bsU ct st c s)

/-- `S2gate(r, φ)` -/
def s2Block (c s ch sh : K) : Mat K :=
  ofRows [[ch, c * sh, 0, s * sh], [c * sh, ch, s * sh, 0], [0, s * sh, ch, -(c * sh)], [s * sh, 0, -(c * sh), ch]]

/-- `MZgate(φ_in, φ_ex)`: `U = ½ [[u (v − 1), i (1 + v)], [i u (1 + v), 1 − v]]`, `v = e^{iφ_in}`, `u = e^{iφ_ex}`,
`h = ½` -/
def mzU (h : K) (v u : Cx K) : List (Cx K) :=
  let hh : Cx K := ⟨h, 0⟩
  let i : Cx K := ⟨0, 1⟩
  let one : Cx K := ⟨1, 0⟩
  [hh * (u * (v - one)), hh * (i * (one + v)), hh * (i * (u * (one + v))), hh * (one - v)]

/-- `sMZgate(φ_in, φ_ex)`: `U = e^{iσ} [[sin δ, cos δ], [cos δ, −sin δ]]`, `σ = (φ_in + φ_ex)/2`, `δ = (φ_in − φ_ex)/2` -/
def smzU (es : Cx K) (cd sd : K) : List (Cx K) :=
  [es * ⟨sd, 0⟩, es * ⟨cd, 0⟩, es * ⟨cd, 0⟩, es * ⟨-sd, 0⟩]

end blocks

/-- a gate of the `gaussian_unitary` primitive set with its parameters as atoms -/
inductive Gate (K : Type) where
  /-- `Dgate(r, φ)`: `α = r e^{iφ} = ar + i·ai` -/
  | D (ar ai : K)
  | R (c s : K)
  | S (c s ch sh : K)
  | BS (ct st c s : K)
  | S2 (c s ch sh : K)
  | MZ (h : K) (v u : Cx K)
  | sMZ (es : Cx K) (cd sd : K)

section cmd
variable {K : Type} [Zero K] [One K] [Add K] [Sub K] [Neg K] [Mul K]

/-- the documented block of a gate (`none` for the displacement) -/
def Gate.block : Gate K → Option (Mat K)
  | .D _ _ => none
  | .R c s => some (rotBlock c s)
  | .S c s ch sh => some (sqBlock c s ch sh)
  | .BS ct st c s => some (bsBlock ct st c s)
  | .S2 c s ch sh => some (s2Block c s ch sh)
  | .MZ h v u => some (ofU (mzU h v u))
  | .sMZ es cd sd => some (ofU (smzU es cd sd))

/-- the documented block of the inverse gate: negated first parameter where the gate family has that
law, the adjoint unitary for the Mach-Zehnder gates -/
def Gate.invBlock : Gate K → Option (Mat K)
  | .D _ _ => none
  | .R c s => some (rotBlock c (-s))
  | .S c s ch sh => some (sqBlock c s ch (-sh))
  | .BS ct st c s => some (bsBlock ct (-st) c s)
  | .S2 c s ch sh => some (s2Block c s ch (-sh))
  | .MZ h v u => some (ofU (adjU (mzU h v u)))
  | .sMZ es cd sd => some (ofU (adjU (smzU es cd sd)))

/-- the command the loop of `GaussianUnitary.compile` sees -/
def Gate.cmd (g : Gate K) (regs : List Nat) (dagger : Bool) : GCmd K :=
  { regs := regs, dagger := dagger,
    op := match g with
      | .D ar ai => .disp (ar + ar) (ai + ai)
      | .R c s => .blk1 (rotBlock c s) (rotBlock c (-s))
      | .S c s ch sh => .blk1 (sqBlock c s ch sh) (sqBlock c s ch (-sh))
      | .BS ct st c s => .blk2 (bsBlock ct st c s) (bsBlock ct (-st) c s)
      | .S2 c s ch sh => .blk2 (s2Block c s ch sh) (s2Block c s ch (-sh))
      | .MZ h v u => .blk2 (ofU (mzU h v u)) (ofU (adjU (mzU h v u)))
      | .sMZ es cd sd => .blk2 (ofU (smzU es cd sd)) (ofU (adjU (smzU es cd sd))) }

/-- passive gates: `Rgate` (`e^{iθ}`), `LossChannel` (`√T`), `BSgate`, `MZgate`, `sMZgate` -/
inductive PGate (K : Type) where
  | R (c s : K)
  | Loss (q : K)
  | BS (ct st c s : K)
  | MZ (h : K) (v u : Cx K)
  | sMZ (es : Cx K) (cd sd : K)

def cmat (l : List (Cx K)) : Mat (Cx K) := ofRows [[l.getD 0 0, l.getD 1 0], [l.getD 2 0, l.getD 3 0]]

/-- the command the loop of `Passive.compile` sees (complex scalars) -/
def PGate.cmd (g : PGate K) (regs : List Nat) (dagger : Bool) : PCmd (Cx K) :=
  { regs := regs, dagger := dagger,
    op := match g with
      | .R c s => .one ⟨c, s⟩ ⟨c, -s⟩
      | .Loss q => .one ⟨q, 0⟩ ⟨q, 0⟩
      | .BS ct st c s => .two (cmat (bsU ct st c s)) (cmat (adjU (bsU ct st c s)))
      | .MZ h v u => .two (cmat (mzU h v u)) (cmat (adjU (mzU h v u)))
      | .sMZ es cd sd => .two (cmat (smzU es cd sd)) (cmat (adjU (smzU es cd sd))) }

end cmd

/-! ### the documented rows of `Model/PhaseSpace.lean` as index-level matrices -/

/-- quadrature of row/column `i` in the xxpp ordering of `n` modes -/
def qOf (n i : Nat) : Q := if i < n then (i, false) else (i - n, true)

/-- coefficient of quadrature `w` in a linear form -/
def coefQ {K : Type} [Zero K] [Add K] (l : List (Q × K)) (w : Q) : K :=
  l.foldr (fun t acc => (if t.1 = w then t.2 else 0) + acc) 0

/-- the matrix (xxpp ordering, `n` modes) whose rows are the linear forms `R` -/
def rowsMat {K : Type} [Zero K] [Add K] (n : Nat) (R : Q → List (Q × K)) : Mat K :=
  fun i j => coefQ (R (qOf n i)) (qOf n j)

/-- a gate applied to registers, possibly daggered -/
structure Applied (K : Type) where
  g : Gate K
  regs : List Nat
  dagger : Bool := false

section applied
variable {K : Type} [Zero K] [One K] [Add K] [Sub K] [Neg K] [Mul K]

def Applied.cmd (a : Applied K) : GCmd K := a.g.cmd a.regs a.dagger

/-- negated for a daggered gate -/
def sgn (d : Bool) (x : K) : K := if d then -x else x

/-- the gate is one of those whose action `Model/PhaseSpace.lean` documents as rows (the operations of the
Gaussian simulator: rotation, squeezing, beamsplitter), applied to the right number of distinct modes -/
def Applied.hasRows (a : Applied K) : Prop :=
  match a.g, a.regs with
  | .R _ _, [_] => True
  | .S _ _ _ _, [_] => True
  | .BS _ _ _ _, [m, m'] => m ≠ m'
  | _, _ => False

/-- the documented rows of the applied gate with its modes at positions `pos`; a daggered gate is the gate with
the negated first parameter; `BSgate(θ, φ)` is `beamsplitter(−θ, −φ)` of the simulator -/
def Applied.rows (pos : Nat → Nat) (a : Applied K) : Q → List (Q × K) :=
  match a.g, a.regs with
  | .R c s, [m] => rotRows (pos m) c (sgn a.dagger s)
  | .S c s ch sh, [m] => squeezeRows (pos m) c s ch (sgn a.dagger sh)
  | .BS ct st c s, [m, m'] => bsRows (pos m) (pos m') c (-s) ct (-(sgn a.dagger st))
  | _, _ => idRow

end applied

end SFV.GC
