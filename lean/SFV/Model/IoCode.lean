import SFV.Model.IoIR
/-
K8 — code generation.  Executable model of `strawberryfields/io/utils.py`: `_factor_out_pi` on arbitrary
numbers (the `np.isclose(p % factor, [0, factor])` test and the rounded multiple, over exact rationals:
a float *is* a rational; the final rounding of `%` on negative numbers and of the quotient, < 1e-16, is
ignored) and `generate_code` without engine, as a printer to a small Python AST (`Code`).  `evalCode` is the
meaning of that AST: what executing the printed text builds.  Core Lean only.
-/
namespace SFV.Io

/-- `np.pi / 12` as the float it is -/
def piF : Rat := 4716158501352293 / 18014398509481984
/-- `np.pi` as the float it is -/
def piFloat : Rat := 884279719003555 / 281474976710656

def ratAbs (q : Rat) : Rat := if q < 0 then -q else q

/-- Python `q % f` for `f > 0` -/
def pyMod (q f : Rat) : Rat := q - ((q / f).floor : Rat) * f

/-- `np.isclose(a, b)`: `|a - b| ≤ atol + rtol·|b|` with the default `atol = 1e-8`, `rtol = 1e-5` -/
def isClose (a b : Rat) : Bool := decide (ratAbs (a - b) ≤ 1 / 100000000 + 1 / 100000 * ratAbs b)

/-- the multiple `m` of `π/12` that `_factor_out_pi` factors out of `q`, if any:
`np.isclose(p % factor, [0, factor]).any() and p != 0`, `m = int(round(p / factor))` -/
def piMultiple (q : Rat) : Option Int :=
  if q ≠ 0 ∧ (isClose (pyMod q piF) 0 = true ∨ isClose (pyMod q piF) piF = true) then
    some ((q / piF + 1 / 2).floor)
  else none

/-- a printed argument -/
inductive PyArg
  /-- `str(p)` of a number -/
  | lit (s : Sc)
  /-- `c*np.pi/d` (printed `np.pi`, `c*np.pi`, `np.pi/d` when `c = 1` / `d = 1`) -/
  | piMul (c : Int) (d : Nat)
  /-- `p[i]` -/
  | loopIdx (i : Nat)
  /-- `str(p)` of a string or a symbolic expression -/
  | text (s : String)
  /-- `str(p)` of an array or a list -/
  | other
deriving DecidableEq, Repr, Inhabited

def scRat : Sc → Option Rat
  | .int i => some i
  | .flt q => some q
  | .cpx _ _ => none

/-- `_factor_out_pi` on one number (`isinstance(p, (int, float))`, else `str(p)`) -/
def genNum (s : Sc) : PyArg :=
  match scRat s with
  | some q => match piMultiple q with
    | some m => .piMul (piTerm m).1 (piTerm m).2
    | none => .lit s
  | none => .lit s

/-- one operation parameter in the generated line (`.format(**format_dict)` turns `{p<i>}` into `p[i]`) -/
def genArg (tdm : Bool) : Val → PyArg
  | .sc s => genNum s
  | .sym e => match tdm, e.pos.loop with
    | true, some i => .loopIdx i
    | _, _ => .text e.pos.text
  | .str s => .text s
  | _ => .other

structure CodeLine where
  cls : String
  args : List PyArg
  select : Option Val
  dark : Option Val
  dagger : Bool
  modes : List Nat
deriving DecidableEq, Repr, Inhabited

structure Code where
  /-- `sf.TDMProgram(N=…)` -/
  tdmN : Option (List Nat)
  /-- `sf.Program(n)` -/
  n : Nat
  /-- the arguments of `prog.context(…)` -/
  ctx : List (List PyArg)
  lines : List CodeLine
deriving DecidableEq, Repr, Inhabited

/-- the line printed for one command -/
def genLine (tdm : Bool) (c : Cmd) : CodeLine :=
  { cls := c.cls, args := (ctorParams c).map (genArg tdm), select := c.select, dark := c.dark,
    dagger := c.dagger, modes := c.regs }

/-- the arrays printed into `prog.context(…)` -/
def genCtx (p : Prog) : List (List PyArg) :=
  match p.tdm with
  | some t => t.params.map fun row => row.map genNum
  | none => []

/-- `generate_code(prog)` -/
def genCode (p : Prog) : Code :=
  { tdmN := p.tdm.map (·.N), n := p.n, ctx := genCtx p, lines := p.cmds.map (genLine p.tdm.isSome) }

/-! ### meaning of the printed code -/

/-- the value of a printed number (`c*np.pi/d` with `np.pi` the float, evaluated exactly) -/
def denNum : PyArg → Option Sc
  | .lit s => some s
  | .piMul c d => some (.flt ((c : Rat) * piFloat / (d : Rat)))
  | _ => none

/-- the value of a printed argument inside `with prog.context(…) as (p, q)` with `k` arrays -/
def denArg (k : Nat) : PyArg → Except Err Val
  | .loopIdx i => if i < k then .ok (.sym (loopSym i)) else .error .indexError
  | .text _ => .error .nameError
  | .other => .error .typeError
  | a => match denNum a with
    | some s => .ok (.sc s)
    | none => .error .typeError

/-- executing one line `ops.Cls(args, select=…, dark_counts=…)[.H] | modes` -/
def evalLine (k : Nat) (l : CodeLine) : Except Err Cmd := do
  let args ← l.args.mapM (denArg k)
  build l.cls l.modes args (optKw "select" l.select ++ optKw "dark_counts" l.dark) l.dagger

/-- evaluating one printed array -/
def denRow (row : List PyArg) : Except Err (List Sc) :=
  row.mapM fun a => match denNum a with
    | some s => Except.ok s
    | none => .error .typeError

/-- executing the generated code -/
def evalCode (c : Code) : Except Err Prog := do
  let ctx ← c.ctx.mapM denRow
  let cmds ← c.lines.mapM (evalLine c.ctx.length)
  .ok { name := "", n := c.n, tdm := c.tdmN.map fun N => { N := N, params := ctx }, cmds := cmds }

end SFV.Io
