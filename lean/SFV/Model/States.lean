import SFV.Model.FockTensor
import SFV.Model.PhaseSpace
/-
State objects (`strawberryfields/backends/states.py`) and `state(modes)` of the three NumPy back ends:
the mode-subset / mode-order handling and the observables that are polynomial in the state data.

* Fock: `BaseFockState.reduced_dm` (the `for m in range(num_modes): if m in modes: …; ctr += 1` loop that
  builds the einsum string is modelled by the *role* it gives every axis pair: output slot `ctr` or traced),
  `FockBackend.state(modes)` (same reduction, then the `argsort` transposition), `dm`, `trace`,
  `all_fock_probs`, `fock_prob`, `mean_photon`, `diagonal_expectation` (→ `number_expectation`,
  `parity_expectation`), the reduction inside `fidelity`.
* Gaussian: `reduced_gaussian` (xxpp), `GaussianBackend.state(modes)` (xpxp simulator data → xxpp state
  data), `mean_photon`, `quad_expectation`, the arguments of the closed-form `parity_expectation`
  (after the `fix:` commit: computed on the reduced state), `fidelity_vacuum`.
* Bosonic: `reduced_bosonic`, `BosonicBackend.state(modes)`, the index selection of `parity_expectation`
  and `displacement`, the xpxp → xxpp conversion handed to thewalrus in `reduced_dm` / `fock_prob`.
* `utils/post_processing.py`: `samples_expectation`, `samples_variance`, `all_fock_probs_pnr`.

Core Lean only.  Tensors are `SFV.Fock.Tens` (functions of index assignments); vectors / matrices are total
functions of which only the indices below the stated size matter.
-/
namespace SFV.States
open SFV.Fock SFV.Gauss

/-- the exception classes the modelled code raises -/
inductive Err
  | valueError
  | indexError
deriving DecidableEq, Repr, Inhabited

/-- `modes == sorted(modes)` -/
def isSortedLe : List Nat → Bool
  | [] => true
  | [_] => true
  | a :: b :: t => decide (a ≤ b) && isSortedLe (b :: t)

/-- `len(modes) != len(set(modes))` is false -/
def noDup (l : List Nat) : Bool := decide l.Nodup

/-! ## Fock: which axis pair goes where -/

/-- the loop `for m in range(num_modes): if m in modes: ind.insert(m, keep[2ctr:2ctr+2]); ctr += 1`:
`some ctr` = axis pair `m` carries the `ctr`-th pair of output letters, `none` = it carries a doubled
(traced) letter -/
def roleLoop (modes : List Nat) : List Nat → Nat → List (Option Nat)
  | [], _ => []
  | m :: ms, ctr =>
    if modes.contains m then some ctr :: roleLoop modes ms (ctr + 1)
    else none :: roleLoop modes ms ctr

def roles (n : Nat) (modes : List Nat) : List (Option Nat) := roleLoop modes (List.range n) 0

def keptCount (r : List (Option Nat)) : Nat := (r.filter Option.isSome).length

/-- the traced modes (ascending) -/
def tracedOf (r : List (Option Nat)) : List Nat :=
  (List.range r.length).filter fun m => (r.getD m none).isNone

/-- how the einsum reads the source: axis `a` of mode `a / 2` -/
def readRole (r : List (Option Nat)) (idx : Idx) : Idx := fun a =>
  match r.getD (a / 2) none with
  | some c => idx (2 * c + a % 2)
  | none => 0

/-- `np.einsum(indStr, rho)` for the index string described by `r` -/
def einsumRoles {K : Type} [Zero K] [Add K] (D : Nat) (r : List (Option Nat)) (ρ : Tens K) : Tens K :=
  fun idx => traceOver D (tracedOf r) ρ (readRole r idx)

/-- specification: the reduced state of `modes` *in the order given*: output axes `2a, 2a+1` belong to
`modes[a]`, every other mode is summed over its diagonal -/
def reducedSpec {K : Type} [Zero K] [Add K] (D n : Nat) (modes : List Nat) (ρ : Tens K) : Tens K :=
  fun idx => traceOver D ((List.range n).filter fun m => !modes.contains m) ρ
    (fun a => if modes.contains (a / 2) then idx (2 * modes.idxOf (a / 2) + a % 2) else 0)

/-- `BaseFockState.reduced_dm(modes)` on the density matrix `ρ` of `n` modes (`self.dm()`); returns the
number of modes of the result and the tensor -/
def fockReducedDm {K : Type} [Zero K] [Add K] (D n : Nat) (modes : List Nat) (ρ : Tens K) :
    Except Err (Nat × Tens K) :=
  if modes = List.range n then .ok (n, ρ)
  else if !isSortedLe modes then .error .valueError
  else if modes.length > n then .error .valueError
  else
    let r := roles n modes
    -- einsum rejects the string when an output letter does not occur in the input
    if keptCount r ≠ modes.length then .error .valueError
    else .ok (modes.length, einsumRoles D r ρ)

/-- `np.argsort` (keys are distinct wherever the modelled code calls it) -/
def argsort (l : List Nat) : List Nat :=
  (List.range l.length).mergeSort fun a b => decide (l.getD a 0 ≤ l.getD b 0)

/-- `[2 * x + i for x in mode_permutation for i in (0, 1)]` -/
def indexPerm (σ : List Nat) : List Nat := σ.flatMap fun x => [2 * x, 2 * x + 1]

/-- `FockBackend.state(modes)`; `st` is the simulator tensor (`pure`: a ket).  Returns
`(pure flag of the state object, number of modes, data)`.  After the `fix:` commit the state object of a
mode selection is flagged mixed (its data *is* a density matrix). -/
def fockBackendState {K : Type} [Zero K] [Add K] [Mul K] (cj : K → K) (D n : Nat) (pure : Bool)
    (modes : Option (List Nat)) (st : Tens K) : Except Err (Bool × Nat × Tens K) :=
  match modes with
  | none => .ok (pure, n, st)
  | some modes =>
    let ρ := if pure then mix cj st else st
    if !noDup modes then .error .valueError
    else if modes.length > n then .error .valueError
    else
      let r := roles n modes
      if keptCount r ≠ modes.length then .error .valueError
      else
        let red := einsumRoles D r ρ
        let red := if !isSortedLe modes then trList (argsort (indexPerm (argsort modes))) red else red
        .ok (false, modes.length, red)

/-- the flag the code passed before the fix (`pure` unchanged) — kept for the counterexample -/
def fockBackendStateFlagOld (pure : Bool) (_modes : Option (List Nat)) : Bool := pure

/-! ## Fock: observables that are sums over the tensor -/

/-- `Σ` over the values of the axes in `axes` -/
def sumOver {K : Type} [Zero K] [Add K] (D : Nat) : List Nat → (Idx → K) → Idx → K
  | [], f, idx => f idx
  | m :: ms, f, idx => sumTo D fun v => sumOver D ms f (upd idx m v)

/-- `all_fock_probs`, pure: `|ψ[n]|²` (`nsq` = squared modulus) -/
def probsPure {K : Type} (nsq : K → K) (ψ : Tens K) : Tens K := fun idx => nsq (ψ idx)

/-- `all_fock_probs`, mixed: the diagonal `ρ[n₀,n₀,n₁,n₁,…]` (real part) after
`transpose(evens + odds).reshape(flat, flat)` -/
def probsMixed {K : Type} (re : K → K) (ρ : Tens K) : Tens K := fun idx => re (ρ (fun a => idx (a / 2)))

/-- `trace()`: pure `vdot(ket, ket).real`, mixed `einsum('aabb…', dm).real` -/
def fockTrace {K : Type} [Zero K] [Add K] (nsq re : K → K) (D n : Nat) (pure : Bool) (st : Tens K) : K :=
  if pure then sumOver D (List.range n) (probsPure nsq st) (fun _ => 0)
  else re (traceOver D (List.range n) st (fun _ => 0))

/-- `mean_photon(mode)`: `(Σ n p_n, Σ n² p_n − mean²)` with `p = diagonal(reduced_dm(mode))` (real parts);
`nat` embeds photon numbers -/
def fockMeanPhoton {K : Type} [Zero K] [Add K] [Sub K] [Mul K] (re : K → K) (nat : Nat → K) (D n mode : Nat)
    (ρ : Tens K) : Except Err (K × K) := do
  let (_, red) ← fockReducedDm D n [mode] ρ
  let p : Nat → K := fun v => red (fun _ => v)
  let mean := re (sumTo D fun v => nat v * p v)
  let m2 := re (sumTo D fun v => nat (v * v) * p v)
  pure (mean, m2 - mean * mean)

/-- `ps.sum(axis=axes)` of a rank-`n` tensor: the remaining axes keep their order -/
def sumAxes {K : Type} [Zero K] [Add K] (D n : Nat) (axes : List Nat) (ps : Tens K) : Tens K :=
  fun idx => sumOver D ((List.range n).filter fun a => axes.contains a) ps (fun a => idx (keptPos axes a))

/-- `np.tensordot(values, ps, axes=1)`: contract the first axis with `values` -/
def contract0 {K : Type} [Zero K] [Add K] [Mul K] (D : Nat) (values : Nat → K) (ps : Tens K) : Tens K :=
  fun idx => sumTo D fun v => values v * ps (fun a => if a = 0 then v else idx (a - 1))

/-- `np.tensordot(np.identity(cutoff), ps, axes=((0, 1), (2m, 2m+1)))`: trace the axis pair of mode `m` -/
def tracePair {K : Type} [Zero K] [Add K] (D m : Nat) (ps : Tens K) : Tens K :=
  fun idx => sumTo D fun v => ps (fun a => if a < 2 * m then idx a else if a < 2 * m + 2 then v else idx (a - 2))

/-- `np.tensordot(np.diag(values), ps, axes=((0, 1), (0, 1)))` -/
def contractDiag0 {K : Type} [Zero K] [Add K] [Mul K] (D : Nat) (values : Nat → K) (ps : Tens K) : Tens K :=
  fun idx => sumTo D fun v => values v * ps (fun a => if a < 2 then v else idx (a - 2))

def iter {α : Type} (f : α → α) : Nat → α → α
  | 0, x => x
  | k + 1, x => iter f k (f x)

/-- `traced_modes` of `diagonal_expectation` (ascending) -/
def tracedModes (n : Nat) (modes : List Nat) : List Nat := (List.range n).filter fun m => !modes.contains m

/-- `diagonal_expectation(modes, values)` -/
def diagonalExpectation {K : Type} [Zero K] [Add K] [Mul K] (nsq re : K → K) (D n : Nat) (pure : Bool)
    (modes : List Nat) (values : Nat → K) (st : Tens K) : Except Err K :=
  if !noDup modes then .error .valueError
  else if pure then
    let ps := sumAxes D n (tracedModes n modes) (probsPure nsq st)
    .ok (iter (contract0 D values) modes.length ps (fun _ => 0))
  else
    let ps : Tens K := fun idx => re (st idx)
    let ps := (tracedModes n modes).reverse.foldl (fun p m => tracePair D m p) ps
    .ok (iter (contractDiag0 D values) modes.length ps (fun _ => 0))

/-- specification: `Σ_n (Π_{m ∈ modes} values n_m) · p(n)` over all Fock indices of `n` modes -/
def diagonalSpec {K : Type} [Zero K] [One K] [Add K] [Mul K] (D n : Nat) (modes : List Nat) (values : Nat → K)
    (p : Tens K) : K :=
  sumOver D (List.range n) (fun idx => (modes.foldr (fun m acc => values (idx m) * acc) 1) * p idx) (fun _ => 0)

/-- `number_expectation(modes)`: `(mean, ⟨Π n²⟩ − mean²)` -/
def fockNumberExpectation {K : Type} [Zero K] [Add K] [Sub K] [Mul K] (nsq re : K → K) (nat : Nat → K)
    (D n : Nat) (pure : Bool) (modes : List Nat) (st : Tens K) : Except Err (K × K) := do
  let mean ← diagonalExpectation nsq re D n pure modes nat st
  let m2 ← diagonalExpectation nsq re D n pure modes (fun v => nat (v * v)) st
  return (mean, m2 - mean * mean)

/-- `(-1) ** np.arange(cutoff)` -/
def paritySign {K : Type} [One K] [Neg K] (v : Nat) : K := if v % 2 = 0 then 1 else -1

/-- `parity_expectation(modes)` -/
def fockParity {K : Type} [Zero K] [One K] [Neg K] [Add K] [Mul K] (nsq re : K → K) (D n : Nat) (pure : Bool)
    (modes : List Nat) (st : Tens K) : Except Err K :=
  diagonalExpectation nsq re D n pure modes paritySign st

/-- the reduction inside `fidelity(other_state, mode)`: doubled letters left and right of the pair of `mode` -/
def fidelityRoles (n mode : Nat) : List (Option Nat) :=
  (List.range n).map fun m => if m = mode then some 0 else none

/-! ## Gaussian state object (xxpp ordering: index `m` is `x_m`, index `m + n` is `p_m`) -/

structure GData (K : Type) where
  mu : Nat → K
  cov : Nat → Nat → K

/-- `np.concatenate([modes, modes + n])` -/
def gaussInd (n : Nat) (modes : List Nat) : List Nat := modes ++ modes.map (· + n)

def selectG {K : Type} (ind : List Nat) (g : GData K) : GData K :=
  { mu := fun a => g.mu (ind.getD a 0), cov := fun a b => g.cov (ind.getD a 0) (ind.getD b 0) }

/-- `reduced_gaussian(modes)`: number of modes of the result and its `(mu, cov)` -/
def reducedGaussian {K : Type} (n : Nat) (modes : List Nat) (g : GData K) : Except Err (Nat × GData K) :=
  if modes = List.range n then .ok (n, g)
  else if !isSortedLe modes then .error .valueError
  else if modes.length > n then .error .valueError
  else if (gaussInd n modes).any (fun i => decide (2 * n ≤ i)) then .error .indexError
  else .ok (modes.length, selectG (gaussInd n modes) g)

/-- `GaussianBackend.state(modes)`: `listmodes = concatenate((2 * modes, 2 * modes + 1))` applied to the
simulator's xpxp-ordered `smean()` / `scovmat()` of `nlen` modes (the hbar rescaling is a common factor) -/
def gaussBackendInd (modes : List Nat) : List Nat := modes.map (2 * ·) ++ modes.map (2 * · + 1)

def gaussBackendState {K : Type} (nlen : Nat) (modes : List Nat) (xpxp : GData K) : Except Err (Nat × GData K) :=
  if (gaussBackendInd modes).any (fun i => decide (2 * nlen ≤ i)) then .error .indexError
  else .ok (modes.length, selectG (gaussBackendInd modes) xpxp)

/-- `mean_photon(mode)` from the reduced one-mode `(mu, cov)`: `(mean, var)` with
`mean = (tr cov + μ·μ)/(2ħ) − 1/2`, `var = (tr cov² + 2 μᵀ cov μ)/(2ħ²) − 1/4` -/
def meanPhoton1 {K : Type} [Add K] [Sub K] [Mul K] [Div K] [OfNat K 2] [OfNat K 1] [OfNat K 4] (hbar : K) (g : GData K) : K × K :=
  let mx := g.mu 0
  let mp := g.mu 1
  let trc := g.cov 0 0 + g.cov 1 1
  let mean := (trc + (mx * mx + mp * mp)) / (2 * hbar) - 1 / 2
  let trc2 := (g.cov 0 0 * g.cov 0 0 + g.cov 0 1 * g.cov 1 0) + (g.cov 1 0 * g.cov 0 1 + g.cov 1 1 * g.cov 1 1)
  let mcm := mx * (g.cov 0 0 * mx + g.cov 0 1 * mp) + mp * (g.cov 1 0 * mx + g.cov 1 1 * mp)
  (mean, (trc2 + 2 * mcm) / (2 * (hbar * hbar)) - 1 / 4)

def gaussMeanPhoton {K : Type} [Add K] [Sub K] [Mul K] [Div K] [OfNat K 2] [OfNat K 1] [OfNat K 4] (hbar : K) (n mode : Nat)
    (g : GData K) : Except Err (K × K) := do
  let (_, r) ← reducedGaussian n [mode] g
  pure (meanPhoton1 hbar r)

/-- `quad_expectation(mode, phi)` with `c = cos φ`, `s = sin φ`: `rot = [[c, −s], [s, c]]`,
`(rotᵀ μ)[0]`, `(rotᵀ cov rot)[0, 0]` -/
def quad1 {K : Type} [Add K] [Mul K] (c s : K) (g : GData K) : K × K :=
  (c * g.mu 0 + s * g.mu 1,
   (c * g.cov 0 0 + s * g.cov 1 0) * c + (c * g.cov 0 1 + s * g.cov 1 1) * s)

def gaussQuadExpectation {K : Type} [Add K] [Mul K] (c s : K) (n mode : Nat) (g : GData K) : Except Err (K × K) := do
  let (_, r) ← reducedGaussian n [mode] g
  pure (quad1 c s r)

/-- what `parity_expectation(modes)` feeds into `exp` / `sqrt` / `det` / `inv` (after the `fix:` commit):
the reduced `(mu, cov)` of the ascending mode list, and the exponent of `hbar / 2` -/
def gaussParityArgs {K : Type} (n : Nat) (modes : List Nat) (g : GData K) : Except Err (Nat × Nat × GData K) :=
  if !noDup modes then .error .valueError
  else do
    let (k, r) ← reducedGaussian n (modes.mergeSort fun a b => decide (a ≤ b)) g
    pure (modes.length, k, r)

/-- the code before the fix: the full state whatever `modes` is -/
def gaussParityArgsOld {K : Type} (n : Nat) (modes : List Nat) (g : GData K) : Except Err (Nat × Nat × GData K) :=
  if !noDup modes then .error .valueError else .ok (modes.length, n, g)

/-- one-mode closed form: `(μᵀ adj(V) μ, det V)`; parity `= (ħ/2) · exp(−½ · first / second) / sqrt(second)` -/
def parity1 {K : Type} [Add K] [Sub K] [Mul K] (g : GData K) : K × K :=
  let mx := g.mu 0
  let mp := g.mu 1
  ((mx * (g.cov 1 1 * mx - g.cov 0 1 * mp)) + (mp * (g.cov 0 0 * mp - g.cov 1 0 * mx)),
   g.cov 0 0 * g.cov 1 1 - g.cov 0 1 * g.cov 1 0)

/-- `fidelity_coherent(alpha_list)`: the `(mu, cov, modes)` handed to `fidelity`; `sq` = `sqrt(2ħ)`, `h2` = `ħ/2` -/
def fidelityCoherentArgs {K : Type} [Zero K] [Mul K] (sq h2 : K) (n : Nat) (alphaRe alphaIm : Nat → K) :
    (Nat → K) × (Nat → Nat → K) × List Nat :=
  (fun a => if a < n then alphaRe a * sq else alphaIm (a - n) * sq,
   fun a b => if a = b then h2 else 0,
   List.range n)

/-- `fidelity_vacuum()`: `fidelity_coherent(np.zeros(n))` -/
def fidelityVacuumArgs {K : Type} [Zero K] [Mul K] (sq h2 : K) (n : Nat) : (Nat → K) × (Nat → Nat → K) × List Nat :=
  fidelityCoherentArgs sq h2 n (fun _ => 0) (fun _ => 0)

/-! ## Bosonic state object (xpxp ordering: index `2m` is `x_m`, index `2m + 1` is `p_m`) -/

/-- `np.sort(np.concatenate([2 * modes, 2 * modes + 1]))` -/
def bosonicInd (modes : List Nat) : List Nat :=
  (modes.map (2 * ·) ++ modes.map (2 * · + 1)).mergeSort fun a b => decide (a ≤ b)

/-- the interleaved selection `[2m₀, 2m₀+1, 2m₁, 2m₁+1, …]` -/
def interleaved (modes : List Nat) : List Nat := modes.flatMap fun m => [2 * m, 2 * m + 1]

/-- `displacement(modes)` (after the `fix:` commit): `(x, p)` of every requested mode in the order requested -/
def bosonicDisplacementInd (modes : List Nat) : List Nat := interleaved modes

/-- the code before the fix sorted the indices, i.e. answered in ascending mode order -/
def bosonicDisplacementIndOld (modes : List Nat) : List Nat := bosonicInd modes

/-- `reduced_bosonic(modes)`: the index list applied to every component's mean and covariance
(`none` = the state's own arrays are returned) -/
def reducedBosonic (n : Nat) (modes : List Nat) : Except Err (Nat × List Nat) :=
  if modes = List.range n then .ok (n, List.range (2 * n))
  else if !isSortedLe modes then .error .valueError
  else if modes.length > n then .error .valueError
  else if (bosonicInd modes).any (fun i => decide (2 * n ≤ i)) then .error .indexError
  else .ok (modes.length, bosonicInd modes)

/-- `BosonicBackend.state(modes)`: the rows selected from the simulator arrays (documented: ascending) -/
def bosonicBackendState (nlen : Nat) (modes : List Nat) : Except Err (Nat × List Nat) :=
  -- after the `fix:` commit: a subsystem that is not active (here: beyond the register) is rejected like on the other back ends
  if modes.any (fun i => decide (nlen ≤ i)) then .error .valueError
  else .ok (modes.length, bosonicInd modes)

/-- `xpxp_to_xxpp` of thewalrus on `2k` indices: new index `a` reads old index `2a` (`a < k`) resp. `2(a−k)+1` -/
def toXXPP (k : Nat) : Nat → Nat := fun a => if a < k then 2 * a else 2 * (a - k) + 1

/-! ## `utils/post_processing.py` -/

/-- `_product_for_modes(samples, modes)` -/
def productForModes (samples : List (List Int)) (modes : List Nat) : List Int :=
  samples.map fun row => modes.foldr (fun m acc => row.getD m 0 * acc) 1

def isum (l : List Int) : Int := l.foldr (· + ·) 0

/-- `samples_expectation`: numerator and denominator of the mean -/
def samplesExpectation (samples : List (List Int)) (modes : List Nat) : Int × Nat :=
  (isum (productForModes samples modes), samples.length)

/-- `samples_variance`: `mean(x²) − mean(x)²` as `(shots · Σx² − (Σx)², shots²)` -/
def samplesVariance (samples : List (List Int)) (modes : List Nat) : Int × Nat :=
  let p := productForModes samples modes
  ((samples.length : Int) * isum (p.map fun x => x * x) - isum p * isum p, samples.length * samples.length)

/-- `all_fock_probs_pnr`: count of the outcome `pat` (numerator over `shots`) -/
def pnrCount (samples : List (List Int)) (pat : List Int) : Nat := (samples.filter (· == pat)).length

/-! ## bridges to the K3 / K4 models -/

/-- a tensor that only reads the axes below `r` -/
def RankLe {K : Type} (r : Nat) (ψ : Tens K) : Prop :=
  ∀ i j : Idx, (∀ a, a < r → i a = j a) → ψ i = ψ j

/-- xxpp state data (`means()`, `cov()` at hbar = 2) of `n` modes from the quadrature blocks of K3 -/
def gdataOfXP {K : Type} (n : Nat) (V : XP K) : GData K :=
  { mu := fun a => if a < n then V.mx a else V.mp (a - n)
    cov := fun a b =>
      if a < n then (if b < n then V.xx a b else V.xp a (b - n))
      else (if b < n then V.xp b (a - n) else V.pp (a - n) (b - n)) }

/-! ## registers with holes: `state(modes)` reads `modes` as subsystem indices (fix `986d6a2` on main) -/

/-- `ModeMap._map`: entry `m` is the axis of subsystem `m`, `none` when it was deleted; `get_modes()` -/
def activeModes (map : List (Option Nat)) : List Nat :=
  (List.range map.length).filter fun m => (map.getD m none).isSome

/-- `FockBackend._remap_modes(modes)` for a list: `[map_[m] for m in modes]` (IndexError beyond the map), then
`not valid(modes) or None in submap` ⇒ ValueError -/
def remapModes (map : List (Option Nat)) (modes : List Nat) : Except Err (List Nat) :=
  if modes.any (fun m => decide (map.length ≤ m)) then .error .indexError
  else if modes.isEmpty || decide (modes.length > map.length) || modes.any (fun m => (map.getD m none).isNone) then
    .error .valueError
  else .ok (modes.map fun m => (map.getD m none).getD 0)

/-- `FockBackend.state(modes)` on a register whose mode map is `map` (`n` axes): duplicate check, remapping to axes,
reduction and transposition as before; the last component are the subsystem indices the mode names carry
(`get_modes()[axis]`) -/
def fockBackendStateR {K : Type} [Zero K] [Add K] [Mul K] (cj : K → K) (D n : Nat) (pure : Bool)
    (map : List (Option Nat)) (modes : Option (List Nat)) (st : Tens K) : Except Err (Bool × Nat × Tens K × List Nat) :=
  match modes with
  | none => .ok (pure, n, st, (List.range n).map fun a => (activeModes map).getD a 0)
  | some ms =>
    if !noDup ms then .error .valueError
    else
      match remapModes map ms with
      | .error e => .error e
      | .ok r =>
        match fockBackendState cj D n pure (some r) st with
        | .error e => .error e
        | .ok (p, k, T) => .ok (p, k, T, r.map fun a => (activeModes map).getD a 0)

/-- the invariant `ModeMap` keeps: the axis of an active subsystem is the number of active subsystems below it -/
def WellFormedMap (map : List (Option Nat)) : Prop :=
  ∀ m, m < map.length → map.getD m none = none ∨
    map.getD m none = some (((List.range m).filter fun x => (map.getD x none).isSome).length)

/-- axis of subsystem `m` under the invariant -/
def axisOf (map : List (Option Nat)) (m : Nat) : Nat :=
  ((List.range m).filter fun x => (map.getD x none).isSome).length

/-- `GaussianBackend.state(modes)`: `None` ⇒ all active subsystems; an index that is not active ⇒ ValueError; the rows of a
deleted mode stay in place, so subsystem `m` sits in rows `2m, 2m+1` of the xpxp data of `nlen` stored modes.  Last
component: the subsystem indices the mode names carry. -/
def gaussBackendStateA {K : Type} (nlen : Nat) (active : List Nat) (modes : Option (List Nat)) (xpxp : GData K) :
    Except Err (Nat × GData K × List Nat) :=
  let ms := modes.getD active
  if ms.any (fun i => !active.contains i) then .error .valueError
  else
    match gaussBackendState nlen ms xpxp with
    | .error e => .error e
    | .ok (k, r) => .ok (k, r, ms)

/-- `BosonicBackend.state(modes)`: `modes = sorted(modes)` labels the data (fix `d248f7a` on main) -/
def bosonicBackendLabels (modes : List Nat) : List Nat := modes.mergeSort fun a b => decide (a ≤ b)

/-! ## the einsum string of `reduced_dm` / `FockBackend.state`, letter by letter

Letters are numbers (`indices[j]` ↦ `j`).  `keep_indices = indices[:2k]`, `trace_indices = indices[2k : k + n]`,
`ind = [i * 2 for i in trace_indices]`, then `ind.insert(m, keep_indices[2ctr : 2ctr + 2])` for every kept `m` in
ascending order.  An entry of `ind` is the pair of letters of one axis pair. -/

/-- Python `list.insert(i, x)` -/
def pyInsert {α : Type} (l : List α) (i : Nat) (x : α) : List α := l.take i ++ x :: l.drop i

def indLoop (modes : List Nat) : List Nat → Nat → List (Nat × Nat) → List (Nat × Nat)
  | [], _, ind => ind
  | m :: ms, ctr, ind =>
    if modes.contains m then indLoop modes ms (ctr + 1) (pyInsert ind m (2 * ctr, 2 * ctr + 1))
    else indLoop modes ms ctr ind

/-- the list `ind` after the loop (`k = len(modes)`) -/
def indList (n : Nat) (modes : List Nat) : List (Nat × Nat) :=
  indLoop modes (List.range n) 0
    ((List.range (n - modes.length)).map fun t => (2 * modes.length + t, 2 * modes.length + t))

/-- letter of input axis `a` -/
def letterOf (ind : List (Nat × Nat)) (a : Nat) : Nat :=
  let p := ind.getD (a / 2) (0, 0)
  if a % 2 = 0 then p.1 else p.2

/-- `Σ` over the values of the letters in `ls` -/
def sumLetters {K : Type} [Zero K] [Add K] (D : Nat) : List Nat → ((Nat → Nat) → K) → (Nat → Nat) → K
  | [], f, val => f val
  | l :: ls, f, val => sumTo D fun v => sumLetters D ls f (fun x => if x = l then v else val x)

/-- `np.einsum("".join(ind) + "->" + keep_indices, rho)`: output position `j` carries letter `j` (`j < nout`), every other
letter of the input is summed -/
def einsumLetters {K : Type} [Zero K] [Add K] (D : Nat) (ind : List (Nat × Nat)) (nout : Nat) (ρ : Tens K) : Tens K :=
  fun idx =>
    let free := ((List.range (2 * ind.length)).map (letterOf ind)).filter (fun l => decide (nout ≤ l)) |>.eraseDups
    sumLetters D free
      (fun val => ρ (fun a => if a < 2 * ind.length then
          (if letterOf ind a < nout then idx (letterOf ind a) else val (letterOf ind a)) else 0))
      (fun _ => 0)

/-! ## the contract of `np.argsort` / `np.sort` (any implementation) -/

/-- `σ` is an argsort of `l`: a permutation of the positions along which `l` is non-decreasing -/
def IsArgsort (l σ : List Nat) : Prop :=
  σ.Perm (List.range l.length) ∧ (σ.map fun a => l.getD a 0).Pairwise (· ≤ ·)

/-- `s` is `l` sorted -/
def IsSorted (l s : List Nat) : Prop := s.Perm l ∧ s.Pairwise (· ≤ ·)

/-! ## Gaussian `poly_quad_expectation(A, d, k, phi)` -/

/-- `rot.T @ mu`, `rot.T @ cov @ rot` with `rot = xpxp_to_xxpp(block_diag(R(φ), …))`: `x' = c x + s p`, `p' = −s x + c p`
for every mode -/
def rotAll {K : Type} [Zero K] [Add K] [Neg K] [Mul K] (n : Nat) (c s : K) (g : GData K) : GData K :=
  let R : Nat → Nat → K := fun a b =>
    if a < n then (if b = a then c else if b = a + n then s else 0)
    else (if b = a - n then -s else if b = a then c else 0)
  { mu := fun a => sumTo (2 * n) fun b => R a b * g.mu b
    cov := fun a b => sumTo (2 * n) fun i => sumTo (2 * n) fun j => R a i * g.cov i j * R b j }

/-- modes with a non-zero row of `A` or a non-zero entry of `d` (`ex_modes`, ascending; the code's `set` order does not
matter: it is only summed over) -/
def exModes {K : Type} [Zero K] [DecidableEq K] (n : Nat) (A : Nat → Nat → K) (d : Nat → K) : List Nat :=
  (List.range n).filter fun m =>
    (List.range (2 * n)).any (fun b => A m b != 0 || A (m + n) b != 0) || d m != 0 || d (m + n) != 0

/-- `poly_quad_expectation(A, d, k, phi)` of a Gaussian state: `(mean, var)`; `rotate` is `phi != 0` -/
def gaussPolyQuad {K : Type} [Zero K] [Add K] [Sub K] [Neg K] [Mul K] [OfNat K 2] [DecidableEq K] (hbar : K) (n : Nat)
    (A : Nat → Nat → K) (d : Nat → K) (k : K) (rotate : Bool) (c s : K) (g : GData K) : K × K :=
  let ex := exModes n A d
  if ex.isEmpty then (k, 0)
  else
    let g' := if rotate then rotAll n c s g else g
    let N := 2 * n
    let mu := g'.mu
    let cov := g'.cov
    let d2 : Nat → K := fun a => 2 * (sumTo N fun b => A a b * mu b) + d a
    let k2 := (sumTo N fun a => sumTo N fun b => mu a * (A a b * mu b)) + (sumTo N fun a => mu a * d a) + k
    let mean := (sumTo N fun a => sumTo N fun b => A a b * cov b a) + k2
    let AC : Nat → Nat → K := fun a b => sumTo N fun i => A a i * cov i b
    let var := 2 * (sumTo N fun a => sumTo N fun b => AC a b * AC b a)
      + (sumTo N fun a => sumTo N fun b => d2 a * (cov a b * d2 b))
    let corr := isumL (ex.map fun i => isumL (ex.map fun j =>
      hbar * hbar * (A j i * A (j + n) (i + n) - A j (i + n) * A (j + n) i)))
    (mean, var - corr)
where
  isumL {K : Type} [Zero K] [Add K] (l : List K) : K := l.foldr (· + ·) 0

/-! ## bosonic weighted sums (one mode, components `(weight, reduced (mu, cov))`) -/

def wsum {K : Type} [Zero K] [Add K] (l : List K) : K := l.foldr (· + ·) 0

/-- bosonic `mean_photon(mode)` from the reduced components -/
def bosonicMeanPhoton {K : Type} [Zero K] [Add K] [Sub K] [Mul K] [Div K] [OfNat K 2] [OfNat K 1] [OfNat K 4] (hbar : K)
    (comps : List (K × GData K)) : K × K :=
  let tr (g : GData K) := g.cov 0 0 + g.cov 1 1
  let mm (g : GData K) := g.mu 0 * g.mu 0 + g.mu 1 * g.mu 1
  let tr2 (g : GData K) := (g.cov 0 0 * g.cov 0 0 + g.cov 0 1 * g.cov 1 0) + (g.cov 1 0 * g.cov 0 1 + g.cov 1 1 * g.cov 1 1)
  let mcm (g : GData K) := g.mu 0 * (g.cov 0 0 * g.mu 0 + g.cov 0 1 * g.mu 1) + g.mu 1 * (g.cov 1 0 * g.mu 0 + g.cov 1 1 * g.mu 1)
  let mean := wsum (comps.map fun p => p.1 * (tr p.2 + mm p.2)) / (2 * hbar) - 1 / 2
  let var := wsum (comps.map fun p => p.1 * (tr2 p.2 + 2 * mcm p.2)) / (2 * (hbar * hbar)) - 1 / 4
  let var := var + wsum (comps.map fun p =>
    p.1 * (((tr p.2 + mm p.2) / (2 * hbar) - 1 / 2) * ((tr p.2 + mm p.2) / (2 * hbar) - 1 / 2)))
  (mean, var - mean * mean)

/-- bosonic `quad_expectation(mode, phi)` from the reduced components -/
def bosonicQuad {K : Type} [Zero K] [Add K] [Sub K] [Mul K] (c s : K) (comps : List (K × GData K)) : K × K :=
  let mphi (g : GData K) := c * g.mu 0 + s * g.mu 1
  let mean := wsum (comps.map fun p => p.1 * mphi p.2)
  let cov := wsum (comps.map fun p => p.1 * (quad1 c s p.2).2)
  let cov := cov + wsum (comps.map fun p => p.1 * (mphi p.2 * mphi p.2))
  (mean, cov - mean * mean)

/-- the normal densities bosonic `marginal(mode, xvec, phi)` mixes: `(weight, mean, variance)` per component -/
def bosonicMarginalParams {K : Type} [Add K] [Mul K] (c s : K) (comps : List (K × GData K)) : List (K × K × K) :=
  comps.map fun p => (p.1, (quad1 c s p.2).1, (quad1 c s p.2).2)

/-! ## Gaussian `dm()` / `reduced_dm(modes)`: which Fock tensor is handed out

thewalrus supplies the numbers (`state_vector` → `ψ`, `density_matrix` → `T`, scripted in the correspondence); the state object
decides which one is used and in which index layout. -/

/-- `np.multiply.outer(psi, psi.conj())` of a `k`-mode ket: axes `0..k-1` are the ket indices, `k..2k-1` the bra indices -/
def outerKet {K : Type} [Mul K] (k : Nat) (cj : K → K) (ψ : Tens K) : Tens K :=
  fun idx => ψ (fun a => if a < k then idx a else 0) * cj (ψ (fun a => if a < k then idx (a + k) else 0))

/-- `[k for m in range(num) for k in (m, m + num)]` -/
def dmAxes (k : Nat) : List Nat := (List.range k).flatMap fun m => [m, m + k]

/-- the documented layout `ρ[i₀, j₀, i₁, j₁, …] = ψ[i₀, i₁, …] · conj ψ[j₀, j₁, …]` (what `mix` of K4 produces, restricted to
`k` modes) -/
def dmSpec {K : Type} [Mul K] (k : Nat) (cj : K → K) (ψ : Tens K) : Tens K :=
  fun idx => ψ (fun a => if a < k then idx (2 * a) else 0) * cj (ψ (fun a => if a < k then idx (2 * a + 1) else 0))

/-- `BaseGaussianState.reduced_dm(modes)` (`dm()` is the call with `modes = range(n)`): guards, then the state-vector branch only
when the state is pure *and* no mode is traced out (fix `027e54e`), transposed into the documented layout (fix `a25e90d`); otherwise
thewalrus' density matrix as it comes.  Returns the number of modes and the tensor. -/
def gaussReducedDm {K : Type} [Mul K] (cj : K → K) (n : Nat) (modes : List Nat) (isPure : Bool) (ψ T : Tens K) :
    Except Err (Nat × Tens K) :=
  if !isSortedLe modes then .error .valueError
  else if modes.length > n then .error .valueError
  else if modes ≠ List.range n && (gaussInd n modes).any (fun i => decide (2 * n ≤ i)) then .error .indexError
  else if isPure && modes.length == n then .ok (modes.length, trList (dmAxes modes.length) (outerKet modes.length cj ψ))
  else .ok (modes.length, T)

/-! ## bosonic `fidelity_coherent`, `purity`, `wigner`: what is handed to `exp` / `det` / `inv`

Components are `(weight, (mu, cov))` in the xpxp ordering of the bosonic state object. -/

/-- `fidelity_coherent(alpha_list)`: per component `(weight, deltas = mus − alpha_mean, cov_sum = covs + ħ/2 · 1)`;
`sq = sqrt(2ħ)`, `h2 = ħ/2`; the value is `ħⁿ Σ w · exp(−½ δᵀ cov_sum⁻¹ δ) / sqrt(det cov_sum)` -/
def bosonicFidelityArgs {K : Type} [Zero K] [Add K] [Sub K] [Mul K] (sq h2 : K) (alphaRe alphaIm : Nat → K)
    (comps : List (K × GData K)) : List (K × GData K) :=
  comps.map fun p =>
    (p.1, { mu := fun a => p.2.mu a - (if a % 2 = 0 then alphaRe (a / 2) * sq else alphaIm (a / 2) * sq)
            cov := fun a b => p.2.cov a b + (if a = b then h2 else 0) })

/-- `purity()`: for the outer component `i` and every component `j`: `(w_j · w_i, μ_i − μ_j, cov_j + cov_i)`; the value is
`ħⁿ Σ w · exp(−½ δᵀ Σ⁻¹ δ) / sqrt(det Σ)` -/
def bosonicPurityArgs {K : Type} [Add K] [Sub K] [Mul K] (comps : List (K × GData K)) : List (K × GData K) :=
  comps.flatMap fun pi => comps.map fun pj =>
    (pj.1 * pi.1, { mu := fun a => pi.2.mu a - pj.2.mu a, cov := fun a b => pj.2.cov a b + pi.2.cov a b })

/-- `wigner(mode, x, p)` at one grid point, per component of the reduced one-mode state: `(weight, δᵀ adj(cov) δ, det cov)` with
`δ = (x − μ_x, p − μ_p)`; the value is `Σ w · exp(−½ · first / second) / (2π sqrt(second))` -/
def bosonicWignerArgs {K : Type} [Add K] [Sub K] [Mul K] (x p : K) (comps : List (K × GData K)) : List (K × K × K) :=
  comps.map fun c =>
    (c.1, parity1 { mu := fun a => if a = 0 then x - c.2.mu 0 else p - c.2.mu 1, cov := c.2.cov })

/-- one-mode bosonic `parity_expectation([mode])`, per component `(weight, μᵀ adj(cov) μ, det cov)`; the value is
`(ħ/2) Σ w · exp(−½ · first / second) / sqrt(second)` -/
def bosonicParityArgs1 {K : Type} [Add K] [Sub K] [Mul K] (comps : List (K × GData K)) : List (K × K × K) :=
  comps.map fun c => (c.1, parity1 c.2)

end SFV.States
