/-
Engine model (property C09).  Executable, Mathlib-free transcription of the logic core of

* `strawberryfields/engine.py`  : `BaseEngine._run` (segment loop: compile, can_follow, hand-over of
  samples, bind_params, lock, `_run_program`, append to `run_progs`), `LocalEngine._run_program`,
  `BosonicEngine._run_program` → `BosonicBackend.run_prog` (→ `init_circuit` → `begin_circuit`),
  `BaseEngine.reset` / `LocalEngine.reset`;
* `strawberryfields/ops.py`     : `Operation.apply`, `Measurement.apply`, `Gate.apply` (temporary swap of
  `p[0]`), `Gate.decompose` (dagger flags flipped on the decomposition products, order reversed),
  the `_decompose` templates whose parameters are affine in the inputs, `_New_modes`, `_Delete`;
* `strawberryfields/program.py` : `Program.compile` for the three simulator compilers
  (`Compiler.decompose` recursion + linked copy), `can_follow`, `bind_params`, `lock`,
  `_clear_regrefs`.

The observable of the engine is the *back-end API call trace* (method name, evaluated arguments,
modes, options); the back end itself is opaque.  Measurement outcomes are an input stream.
Everything the engine may mutate in a user program (RegRef values, free-parameter values, the
`locked` flag) lives in `World`; `Prog` itself is immutable data — that this split is faithful is what
the heap-level part (second half of this file) and the harness snapshots establish.
-/
namespace SFV.Eng

/-! ## numbers and parameters -/

/-- `r + p·π` with rational `r`, `p` -/
structure Num where
  r : Rat := 0
  p : Rat := 0
deriving DecidableEq, Repr, Inhabited

def Num.neg (a : Num) : Num := ⟨-a.r, -a.p⟩
def Num.add (a b : Num) : Num := ⟨a.r + b.r, a.p + b.p⟩
def Num.scale (k : Rat) (a : Num) : Num := ⟨k * a.r, k * a.p⟩
def Num.isZero (a : Num) : Bool := a.r == 0 && a.p == 0

inductive Atom
  | meas (m : Nat)        -- `q[m].par`
  | free (f : String)     -- `prog.params(f)`
deriving DecidableEq, Repr, Inhabited

/-- an operation parameter: a number, or `k·atom + c` (SymPy expression, `k ≠ 0`) -/
inductive Par
  | num (c : Num)
  | sym (a : Atom) (k : Rat) (c : Num)
deriving DecidableEq, Repr, Inhabited

def Par.neg : Par → Par
  | .num c => .num c.neg
  | .sym a k c => .sym a (-k) c.neg
def Par.scale (q : Rat) : Par → Par
  | .num c => .num (c.scale q)
  | .sym a k c => .sym a (q * k) (c.scale q)
def Par.addc (d : Num) : Par → Par
  | .num c => .num (c.add d)
  | .sym a k c => .sym a k (c.add d)
/-- `np.all(z == 0)`: a SymPy expression never compares equal to 0 -/
def Par.isZero : Par → Bool
  | .num c => c.isZero
  | .sym _ _ _ => false

/-- a measured value: the vector (over shots / over sampled modes) stored in `RegRef.val` -/
abbrev Val := List Rat

inductive Err
  | parameter      -- ParameterError (unmeasured RegRef, unbound / unknown free parameter)
  | circuit        -- CircuitError (operation not supported by the compiler)
  | notImplemented -- NotImplementedError (no decomposition / no back-end method)
  | runtime        -- RuntimeError("Register mismatch")
  | key            -- KeyError in the hand-over of samples
  | fuel           -- model limit (decomposition depth)
  | unmodelled     -- outside the modelled fragment
deriving DecidableEq, Repr, Inhabited

def evalPar (vals : Nat → Option Val) (free : String → Option Rat) : Par → Except Err (List Num)
  | .num c => .ok [c]
  | .sym (.meas m) k c =>
    match vals m with
    | none => .error .parameter
    | some v => .ok (v.map fun x => ⟨k * x + c.r, c.p⟩)
  | .sym (.free f) k c =>
    match free f with
    | none => .error .parameter
    | some x => .ok [⟨k * x + c.r, c.p⟩]

def evalPars (vals : Nat → Option Val) (free : String → Option Rat) : List Par → Except Err (List (List Num))
  | [] => .ok []
  | p :: ps =>
    match evalPar vals free p with
    | .error e => .error e
    | .ok a =>
      match evalPars vals free ps with
      | .error e => .error e
      | .ok as => .ok (a :: as)

/-! ## commands and calls -/

inductive Kind
  | gate | plain | meas | newModes | del
deriving DecidableEq, Repr, Inhabited

structure Cmd where
  cls : String
  kind : Kind := .gate
  pars : List Par := []
  dagger : Bool := false
  sel : Option (List Rat) := none
  regs : List Nat := []
deriving DecidableEq, Repr, Inhabited

/-- modes whose measured value a circuit reads before measuring them itself -/
def Par.dep : Par → Option Nat
  | .sym (.meas m) _ _ => some m
  | _ => none

def Cmd.deps (c : Cmd) : List Nat := c.pars.filterMap Par.dep

def openDeps : List Cmd → List Nat
  | [] => []
  | c :: rest => c.deps ++ (openDeps rest).filter fun m => !(c.kind == .meas && c.regs.contains m)

/-- one back-end API call -/
structure Call where
  name : String
  args : List (List Num) := []
  modes : List Nat := []
  sel : Option (List Rat) := none
  opts : List (String × Int) := []
  shots : Option Nat := none        -- the `shots=` keyword of measurement calls
deriving DecidableEq, Repr, Inhabited

/-- the back-end method each `_apply` calls (arguments are the evaluated parameters, then the modes) -/
def apiName : String → Option String
  | "Vacuum" => some "prepare_vacuum_state"
  | "Coherent" => some "prepare_coherent_state"
  | "Squeezed" => some "prepare_squeezed_state"
  | "DisplacedSqueezed" => some "prepare_displaced_squeezed_state"
  | "Thermal" => some "prepare_thermal_state"
  | "Fock" => some "prepare_fock_state"
  | "LossChannel" => some "loss"
  | "ThermalLossChannel" => some "thermal_loss"
  | "Dgate" => some "displacement"
  | "Sgate" => some "squeeze"
  | "Rgate" => some "rotation"
  | "Vgate" => some "cubic_phase"
  | "Kgate" => some "kerr_interaction"
  | "BSgate" => some "beamsplitter"
  | "MZgate" => some "mzgate"
  | "S2gate" => some "two_mode_squeeze"
  | "CKgate" => some "cross_kerr_interaction"
  | "MeasureFock" => some "measure_fock"
  | "MeasureThreshold" => some "measure_threshold"
  | "MeasureHomodyne" => some "measure_homodyne"
  | "MeasureHeterodyne" => some "measure_heterodyne"
  | _ => none

/-- `Gate.apply`, value level: the parameter list `_apply` sees; `none` = identity, back end not called -/
def gateArgs (pars : List Par) (dagger : Bool) : Option (List Par) :=
  match pars with
  | [] => none
  | p0 :: rest => if p0.isZero then none else some ((if dagger then p0.neg else p0) :: rest)

/-! ## running a circuit (`_run_program` loop) -/

/-- the measurement outcomes are an input: call number `k` returns, for each measured mode, the vector of
its values over the shots; `shots` is the effective `shots` run option of the `run` call -/
structure Outc where
  get : Nat → List (List Rat)
  shots : Nat := 1

structure RunSt where
  vals : Nat → Option Val            -- RegRef.val of the program being run
  mpos : Nat                         -- number of measurement calls made so far (index into the outcome stream)
  samples : List (Nat × List Rat) := []   -- `samples_dict` of this segment: latest values (over the shots) per mode, sorted by mode

def insSample (m : Nat) (v : List Rat) : List (Nat × List Rat) → List (Nat × List Rat)
  | [] => [(m, v)]
  | (m', v') :: rest =>
    if m < m' then (m, v) :: (m', v') :: rest
    else if m = m' then (m, v) :: rest
    else (m', v') :: insSample m v rest

/-- `for v, r in zip(values.T, reg): r.val = v` (the back end returns one value per measured mode;
a missing column is read as empty so that the function is total) -/
def storeVals (vals : Nat → Option Val) : List Nat → List (List Rat) → (Nat → Option Val)
  | [], _ => vals
  | r :: rs, o => storeVals (fun m => if m = r then some (o.headD []) else vals m) rs o.tail

def storeSamples (s : List (Nat × List Rat)) : List Nat → List (List Rat) → List (Nat × List Rat)
  | [], _ => s
  | r :: rs, o => storeSamples (insSample r (o.headD []) s) rs o.tail

def mkCall (cls : String) (args : List (List Num)) (c : Cmd) : Except Err Call :=
  match apiName cls with
  | none => .error .notImplemented
  | some n => .ok { name := n, args := args, modes := c.regs }

/-- `Gate.apply` of an ordinary gate: the calls it makes (a gate does not change the run state) -/
def applyGate1 (free : String → Option Rat) (vals : Nat → Option Val) (c : Cmd) : Except Err (List Call) :=
  match gateArgs c.pars c.dagger with
  | none => .ok []
  | some ps =>
    match evalPars vals free ps with
    | .error e => .error e
    | .ok args =>
      match mkCall c.cls args c with
      | .error e => .error e
      | .ok call => .ok [call]

/-- `MZgate.apply` / `MZgate._apply` (repaired code): the internal phase is not an additive first
parameter, so `phi_in = 0` is not skipped, and the daggered gate is applied through the inverted
factors `BS†, R(-phi_in), BS†, R(-phi_ex)` (both phases are evaluated first) -/
def mzCalls (free : String → Option Rat) (vals : Nat → Option Val) (dagger : Bool) (pin pex : Par) (a b : Nat) :
    Except Err (List Call) :=
  match evalPars vals free [pin, pex] with
  | .error e => .error e
  | .ok [x, y] =>
    if dagger then
      let bs : Call := { name := "beamsplitter", args := [[⟨0, -1/4⟩], [⟨0, 1/2⟩]], modes := [a, b] }
      .ok [bs, { name := "rotation", args := [x.map Num.neg], modes := [a] }, bs,
           { name := "rotation", args := [y.map Num.neg], modes := [a] }]
    else .ok [{ name := "mzgate", args := [x, y], modes := [a, b] }]
  | .ok _ => .error .unmodelled

/-- `cmd.op.apply(cmd.reg, backend)` for one command; returns the new state and the calls made -/
def applyCmd (free : String → Option Rat) (outc : Outc) (st : RunSt) (c : Cmd) :
    Except Err (RunSt × List Call) :=
  match c.kind with
  | .gate =>
    match c.cls == "MZgate", c.pars, c.regs with
    | true, [pin, pex], [a, b] =>
      match mzCalls free st.vals c.dagger pin pex a b with
      | .error e => .error e
      | .ok t => .ok (st, t)
    | _, _, _ =>
      match applyGate1 free st.vals c with
      | .error e => .error e
      | .ok t => .ok (st, t)
  | .plain =>
    match evalPars st.vals free c.pars with
    | .error e => .error e
    | .ok args =>
      match mkCall c.cls args c with
      | .error e => .error e
      | .ok call => .ok (st, [call])
  | .meas =>
    match evalPars st.vals free c.pars with
    | .error e => .error e
    | .ok args =>
      match mkCall c.cls args c with
      | .error e => .error e
      | .ok call =>
        let o := outc.get st.mpos
        .ok ({ vals := storeVals st.vals c.regs o, mpos := st.mpos + 1,
               samples := storeSamples st.samples c.regs o }, [{ call with sel := c.sel, shots := some outc.shots }])
  | .newModes => .ok (st, [{ name := "add_mode", args := [[⟨(c.regs.length : Nat), 0⟩]] }])
  | .del => .ok (st, [{ name := "del_mode", modes := c.regs }])

def runCircuit (free : String → Option Rat) (outc : Outc) :
    RunSt → List Cmd → Except Err (RunSt × List Call)
  | st, [] => .ok (st, [])
  | st, c :: rest =>
    match applyCmd free outc st c with
    | .error e => .error e
    | .ok (st1, t1) =>
      match runCircuit free outc st1 rest with
      | .error e => .error e
      | .ok (st2, t2) => .ok (st2, t1 ++ t2)

/-! ## compilation (`Program.compile` with the simulator compilers) -/

structure Compiler where
  name : String
  prims : List String
  decomps : List String
deriving Repr, Inhabited

def piNum (q : Rat) : Num := ⟨0, q⟩

/-- `_decompose` of the classes whose products have parameters affine in the inputs (hbar = 2) -/
def template (c : Cmd) : Option (List Cmd) :=
  let g (cls : String) (pars : List Par) (regs : List Nat) (dg : Bool := false) : Cmd :=
    { cls := cls, kind := .gate, pars := pars, dagger := dg, regs := regs }
  match c.cls, c.pars, c.regs with
  | "Xgate", [x], [a] => some [g "Dgate" [x.scale (1/2), .num {}] [a]]
  | "Zgate", [x], [a] => some [g "Dgate" [x.scale (1/2), .num (piNum (1/2))] [a]]
  | "Fouriergate", _, [a] => some [g "Rgate" [.num (piNum (1/2))] [a]]
  | "MZgate", [pin, pex], [a, b] =>
    some [g "Rgate" [pex] [a], g "BSgate" [.num (piNum (1/4)), .num (piNum (1/2))] [a, b],
          g "Rgate" [pin] [a], g "BSgate" [.num (piNum (1/4)), .num (piNum (1/2))] [a, b]]
  | "sMZgate", [pin, pex], [a, b] =>
    some [g "BSgate" [.num (piNum (1/4)), .num (piNum (1/2))] [a, b],
          g "Rgate" [pex.addc (piNum (-1/2))] [b], g "Rgate" [pin.addc (piNum (-1/2))] [a],
          g "BSgate" [.num (piNum (1/4)), .num (piNum (1/2))] [a, b]]
  | "S2gate", [r, phi], [a, b] =>
    some [g "BSgate" [.num (piNum (1/4)), .num {}] [a, b], g "Sgate" [r, phi] [a],
          g "Sgate" [r, phi] [b] true, g "BSgate" [.num (piNum (1/4)), .num {}] [a, b] true]
  | _, _, _ => none

/-- `Gate.decompose`: products of `_decompose`; for a daggered gate every product's flag is flipped
and the order reversed -/
def gateDecompose (c : Cmd) : Option (List Cmd) :=
  (template c).map fun seq =>
    if c.dagger then (seq.map fun x => { x with dagger := !x.dagger }).reverse else seq

def bind2 (a b : Except Err (List Cmd)) : Except Err (List Cmd) :=
  match a with
  | .error e => .error e
  | .ok x => match b with
    | .error e => .error e
    | .ok y => .ok (x ++ y)

def liftList (f : Cmd → Except Err (List Cmd)) : List Cmd → Except Err (List Cmd)
  | [] => .ok []
  | c :: rest => bind2 (f c) (liftList f rest)

/-- one step of `Compiler.decompose` for a command, `recur` = the recursive call on the products -/
def decompStep (recur : List Cmd → Except Err (List Cmd)) (cp : Compiler) (c : Cmd) : Except Err (List Cmd) :=
  if cp.decomps.contains c.cls then
    match gateDecompose c with
    | none => .error .unmodelled
    | some seq => recur seq
  else if cp.prims.contains c.cls then .ok [c]
  else .error .circuit

def decompList : Nat → Compiler → List Cmd → Except Err (List Cmd)
  | 0, _ => liftList fun _ => .error .fuel
  | fuel + 1, cp => liftList (decompStep (decompList fuel cp) cp)

def compileFuel : Nat := 6

/-! ## programs, world, engine -/

/-- the immutable part of a `Program` -/
structure Prog where
  name : String := ""
  initN : Nat                           -- init_num_subsystems
  initRegs : List (Nat × Bool)          -- init_reg_refs : (ind, active)
  regs : List (Nat × Bool)              -- reg_refs      : (ind, active)
  circuit : List Cmd
  freeNames : List String := []
  shots : Option Nat := none             -- run_options.get("shots")
deriving Repr, Inhabited

/-- `Program.compile`: the compiled program is a linked copy (same RegRefs and free parameters —
in this model: the same program id in `World`) with the decomposed circuit -/
def compileProg (cp : Compiler) (p : Prog) : Except Err Prog :=
  match decompList compileFuel cp p.circuit with
  | .error e => .error e
  | .ok circ => .ok { p with circuit := circ }

/-- everything a run may change in the user's programs, by program id -/
structure World where
  vals : Nat → Nat → Option Val        -- RegRef.val
  free : Nat → String → Option Rat     -- FreeParameter.val
  locked : Nat → Bool

inductive BK
  | fock | gaussian | bosonic
deriving DecidableEq, Repr, Inhabited

structure Eng where
  bk : BK
  opts : List (String × Int) := []               -- backend_options
  prev : Option (List (Nat × Bool)) := none      -- reg_refs of run_progs[-1]
  runIds : List Nat := []                        -- run_progs (ids of the programs run)
  samples : Option (List (List Rat)) := none     -- self.samples: one row per shot (`some []` = the empty array)
  measured : Nat → Option Val := fun _ => none   -- self._measured_vals.get(k): latest value per subsystem index
  contd : Bool := false                          -- any(p.circuit for p in self.run_progs)
  mpos : Nat := 0

def fresh (bk : BK) (opts : List (String × Int)) (mpos : Nat := 0) : Eng := { bk := bk, opts := opts, mpos := mpos }

/-- `binding.items()` loop of `bind_params` (names only) -/
def bindParams (names : List String) (free : String → Option Rat) :
    List (String × Rat) → Except Err (String → Option Rat)
  | [] => .ok free
  | (k, v) :: rest =>
    if names.contains k then bindParams names (fun f => if f = k then some v else free f) rest
    else .error .parameter

/-- is `m` a key of `p.reg_refs`? -/
def hasIdx (regs : List (Nat × Bool)) (m : Nat) : Bool := regs.any fun r => r.1 == m

/-- `for k, r in p.reg_refs.items(): r.val = self._measured_vals.get(k)`: every RegRef of `p` receives
the latest value the engine holds for its subsystem index (`None` if there is none) -/
def handOver (regs : List (Nat × Bool)) (measured : Nat → Option Val) (vals : Nat → Option Val) :
    Nat → Option Val :=
  fun m => if hasIdx regs m then measured m else vals m

/-- what the engine records after a segment, `{k: r.val for k, r in p.reg_refs.items()}`: keyed by subsystem
INDEX (deleted subsystems included) -/
def recordByIndex (regs : List (Nat × Bool)) (vals : Nat → Option Val) : Nat → Option Val :=
  fun k => if hasIdx regs k then vals k else none

/-- the defective variant `{k: r.val for k, r in enumerate(p.register)}` (seeded change C09-b1): keyed by the
POSITION among the valid subsystems -/
def recordByPosition (regs : List (Nat × Bool)) (vals : Nat → Option Val) : Nat → Option Val :=
  fun k => ((regs.filter (·.2))[k]?).bind fun r => vals r.1

def nonGaussPreps : List String := ["Bosonic", "Catstate", "DensityMatrix", "Fock", "GKP", "Ket"]

/-- in a continuation the bosonic `run_prog` refuses non-Gaussian preparations when it reaches them:
modelled by replacing the command by one no back end can apply -/
def bosonicMark (c : Cmd) : Cmd :=
  if nonGaussPreps.contains c.cls then { c with cls := "(non-Gaussian preparation)" } else c

/-- `_run_program` : `LocalEngine` loops over the circuit.  `BosonicEngine` (repaired code) passes
`continuation = any(p.circuit for p in self.run_progs)` to the bosonic `run_prog`: the first non-empty
program of a computation goes through `init_circuit` → `begin_circuit(prog.init_num_subsystems)`
(its non-Gaussian preparations and `New` are handled there by direct state manipulation: outside
this model); a continuation is looped over like on the other engines, `New` included, and
non-Gaussian preparations raise `NotImplementedError` -/
def runProgram (bk : BK) (cont : Bool) (free : String → Option Rat) (outc : Outc) (initN : Nat)
    (st : RunSt) (circ : List Cmd) : Except Err (RunSt × List Call) :=
  match bk with
  | .bosonic =>
    if cont then runCircuit free outc st (circ.map bosonicMark)
    else if circ.any (fun c => nonGaussPreps.contains c.cls || c.kind == .newModes) then .error .unmodelled
    else
      match runCircuit free outc st circ with
      | .error e => .error e
      | .ok (st', t) =>
        .ok (st', if circ.isEmpty then t else { name := "begin_circuit", args := [[⟨(initN : Nat), 0⟩]] } :: t)
  | _ => runCircuit free outc st circ

/-- `np.transpose` of the per-mode columns: one row per returned sample (the empty array if nothing was
measured; the number of rows is what the back end returned, normally `shots`) -/
def rowsOf (cols : List (List Rat)) : List (List Rat) :=
  match cols with
  | [] => []
  | c0 :: _ => (List.range c0.length).map fun s => cols.map fun c => c.getD s 0

def setAt {α : Type} (f : Nat → α) (i : Nat) (x : α) : Nat → α := fun j => if j = i then x else f j

/-- first part of the loop body: initialise the back end (no previous segment), or check
`can_follow` and hand the latest samples over to the RegRefs of `p` -/
def initStep (e : Eng) (p : Prog) (vals : Nat → Option Val) : Except Err ((Nat → Option Val) × List Call) :=
  match e.prev with
  | none => .ok (vals, [{ name := "begin_circuit", args := [[⟨(p.initN : Nat), 0⟩]], opts := e.opts }])
  | some prevRegs =>
    if p.initRegs = prevRegs then .ok (handOver p.regs e.measured vals, [])
    else .error .runtime

/-- the body of the `for p in program` loop of `BaseEngine._run` for the program with id `i`:
compile (linked copy), `initStep`, `bind_params`, `lock`, `_run_program`, append to `run_progs` -/
def runOne (cp : Compiler) (progs : Nat → Prog) (outc : Outc) (args : List (String × Rat))
    (e : Eng) (w : World) (i : Nat) : Except Err (Eng × World × List Call) :=
  match compileProg cp (progs i) with
  | .error err => .error err
  | .ok cpd =>
    match initStep e cpd (w.vals i) with
    | .error err => .error err
    | .ok (vals0, t0) =>
      match bindParams cpd.freeNames (w.free i) args with
      | .error err => .error err
      | .ok free1 =>
        match runProgram e.bk e.contd free1 outc cpd.initN { vals := vals0, mpos := e.mpos } cpd.circuit with
        | .error err => .error err
        | .ok (st, t) =>
          -- self._measured_vals = {k: r.val for k, r in p.reg_refs.items()}
          .ok ({ e with prev := some cpd.regs, runIds := e.runIds ++ [i], samples := some (rowsOf (st.samples.map (·.2))),
                        measured := recordByIndex cpd.regs st.vals,
                        contd := e.contd || !cpd.circuit.isEmpty, mpos := st.mpos },
               { vals := setAt w.vals i st.vals, free := setAt w.free i free1, locked := setAt w.locked i true },
               t0 ++ t)

def runList (cp : Compiler) (progs : Nat → Prog) (outc : Outc) (args : List (String × Rat)) :
    Eng → World → List Nat → Except Err (Eng × World × List Call)
  | e, w, [] => .ok (e, w, [])
  | e, w, i :: rest =>
    match runOne cp progs outc args e w i with
    | .error err => .error err
    | .ok (e1, w1, t1) =>
      match runList cp progs outc args e1 w1 rest with
      | .error err => .error err
      | .ok (e2, w2, t2) => .ok (e2, w2, t1 ++ t2)

def stateCall : Call := { name := "state" }

/-- the keyword arguments of `run` the model knows -/
structure RunKw where
  shots : Option Nat := none              -- `shots=`
  modes : Option (List Nat) := none       -- `modes=` (`none` = not given / `None`)
deriving DecidableEq, Repr, Inhabited

/-- `temp_run_options.update(p.run_options)` over the list: the last program that sets `shots` wins -/
def lastShots (progs : Nat → Prog) : List Nat → Option Nat
  | [] => none
  | i :: rest => (lastShots progs rest).orElse fun _ => (progs i).shots

/-- keyword argument, else the programs' run options, else 1 -/
def effShots (progs : Nat → Prog) (kw : RunKw) (l : List Nat) : Nat :=
  ((kw.shots.orElse fun _ => lastShots progs l)).getD 1

/-- `c.op.select is not None` (repaired code: selecting the value 0 is a post-selection too) -/
def selTruthy (c : Cmd) : Bool := c.sel.isSome

/-- the checks of `LocalEngine.run` on the (uncompiled) circuits: post-selection and feed-forward exclude
several shots -/
def preCheck (progs : Nat → Prog) (shots : Nat) (l : List Nat) : Bool :=
  decide (shots > 1) && l.any fun i => (progs i).circuit.any fun c => selTruthy c || !c.deps.isEmpty

/-- `if modes is None or modes: result.state = self.backend.state(modes=modes, ...)` -/
def stateCalls (kw : RunKw) : List Call :=
  match kw.modes with
  | none => [stateCall]
  | some [] => []
  | some l => [{ name := "state", modes := l, opts := [("modes", 1)] }]

/-- `LocalEngine.run`: merge the run options, check them, run the segment loop, then make the
(read-only) `backend.state` query -/
def run (cp : Compiler) (progs : Nat → Prog) (o : Nat → List (List Rat)) (args : List (String × Rat)) (kw : RunKw)
    (e : Eng) (w : World) (l : List Nat) : Except Err (Eng × World × List Call) :=
  let shots := effShots progs kw l
  if preCheck progs shots l then .error .notImplemented
  else
    match runList cp progs ⟨o, shots⟩ args e w l with
    | .error err => .error err
    | .ok (e1, w1, t) => .ok (e1, w1, t ++ stateCalls kw)

def updOpts (old new : List (String × Int)) : List (String × Int) :=
  new ++ old.filter fun kv => !(new.any fun kv' => kv'.1 == kv.1)

/-- `LocalEngine.reset(backend_options)` -/
def reset (e : Eng) (w : World) (newOpts : List (String × Int)) : Eng × World × List Call :=
  let opts := updOpts e.opts newOpts
  ({ bk := e.bk, opts := opts, prev := none, runIds := [], samples := none, measured := fun _ => none,
     contd := false,
     mpos := e.mpos },
   { w with vals := fun i => if e.runIds.contains i then (fun _ => none) else w.vals i },
   [{ name := "reset", opts := opts }])

/-- the calls that can change the back end's state -/
def mutating (t : List Call) : List Call := t.filter fun c => c.name != "state"

/-! ## heap level: `Gate.apply` and `Gate.decompose` on shared objects

Operation objects and their parameter lists are separate heap objects: `Gate.H` is `copy.copy`, so a
gate and its `.H` share one list `p`. -/

structure OpObj where
  cls : String
  pl : Nat            -- address of the list object `self.p`
  dagger : Bool
deriving DecidableEq, Repr, Inhabited

structure Heap where
  ops : List OpObj
  pls : List (List Par)
deriving DecidableEq, Repr, Inhabited

/-- outcome of the back-end call inside `Gate.apply` -/
inductive Outcome | returns | raises
deriving DecidableEq, Repr

structure ApplyRes where
  during : Heap                   -- heap while `_apply` runs
  seen : Option (List Par)        -- `self.p` as read by `_apply` (`none`: back end not called)
  after : Heap                    -- heap when `apply` is left (normally or by the exception)
deriving DecidableEq, Repr

/-- `Gate.apply` on the op object at address `a`.  `restoreOnRaise` = the restore sits in a
`finally` block (the repaired code); with `false` an exception raised by `_apply` skips it. -/
def gateApplyH (restoreOnRaise : Bool) (h : Heap) (a : Nat) (oc : Outcome) : ApplyRes :=
  match h.ops[a]? with
  | none => ⟨h, none, h⟩
  | some o =>
    match h.pls[o.pl]? with
    | none => ⟨h, none, h⟩
    | some [] => ⟨h, none, h⟩
    | some (p0 :: rest) =>
      if p0.isZero then ⟨h, none, h⟩ else
      let z := if o.dagger then p0.neg else p0
      let h1 : Heap := { h with pls := h.pls.set o.pl (z :: rest) }           -- self.p[0] = z
      let seen := (h1.pls[o.pl]?).getD []
      let h2 : Heap := { h1 with pls := h1.pls.set o.pl (((h1.pls[o.pl]?).getD []).set 0 p0) }  -- self.p[0] = original_p0
      match oc with
      | .returns => ⟨h1, some seen, h2⟩
      | .raises => ⟨h1, some seen, if restoreOnRaise then h2 else h1⟩

/-- a product of `_decompose`: a new op object, with a new parameter list or (for `X.H`) sharing the
list of an earlier product -/
structure NewOp where
  cls : String
  pars : List Par := []
  share : Option Nat := none     -- `some j`: `copy.copy` of product `j`
  dagger : Bool := false
deriving DecidableEq, Repr, Inhabited

structure Tmpl where
  news : List NewOp
  cmds : List (Nat × List Nat)   -- (index of the product, regs)
deriving DecidableEq, Repr, Inhabited

def allocOne (base : Nat) (h : Heap) (n : NewOp) : Heap :=
  match n.share with
  | some j => { h with ops := h.ops ++ [{ cls := n.cls, pl := ((h.ops[base + j]?).map (·.pl)).getD h.pls.length,
                                           dagger := n.dagger }] }
  | none => { ops := h.ops ++ [{ cls := n.cls, pl := h.pls.length, dagger := n.dagger }], pls := h.pls ++ [n.pars] }

def flipAt (h : Heap) (x : Nat) : Heap :=
  { h with ops := h.ops.modify x fun o => { o with dagger := !o.dagger } }

/-- `Gate.decompose` on the op object at `a` whose `_decompose` yields template `t`: allocate the
products, then (daggered gate) flip `cmd.op.dagger` for every command of the sequence, in place, and
reverse the sequence.  Returns the heap and the sequence as (op address, regs). -/
def gateDecomposeH (h : Heap) (a : Nat) (t : Tmpl) : Heap × List (Nat × List Nat) :=
  let base := h.ops.length
  let h1 := t.news.foldl (allocOne base) h
  let seq := t.cmds.map fun c => (base + c.1, c.2)
  if ((h.ops[a]?).map (·.dagger)).getD false then
    (seq.foldl (fun hh c => flipAt hh c.1) h1, seq.reverse)
  else (h1, seq)

/-! ### `Gate.merge` / `Channel.merge` (used by the optimiser): "merge may return a newly created object, or
self, or other, but it must never modify self or other" -/

inductive MergeRes
  | identity            -- `None`: the two operations cancel
  | merged (addr : Nat) -- address of the returned object
  | failure             -- MergeFailure
  | unmodelled          -- parameter arithmetic outside the affine fragment
deriving DecidableEq, Repr

/-- `x + y` inside the affine fragment -/
def Par.add : Par → Par → Option Par
  | .num a, .num b => some (.num (a.add b))
  | .num a, .sym x k c => some (.sym x k (c.add a))
  | .sym x k c, .num b => some (.sym x k (c.add b))
  | .sym x k c, .sym y k' c' =>
    if x = y then (if k + k' = 0 then some (.num (c.add c')) else some (.sym x (k + k') (c.add c'))) else none

/-- `np.dot(other.p[0], self.p[0])` for numeric transmissivities -/
def Par.mulNum : Par → Par → Option Par
  | .num a, .num b => if a.p = 0 ∧ b.p = 0 then some (.num ⟨a.r * b.r, 0⟩) else none
  | _, _ => none

/-- `Gate.merge(self = a, other = b)` (`inPlace = false`: the code; `true`: the defective variant that writes
the new first parameter into the shallow copy's — shared — list) -/
def gateMergeH (inPlace : Bool) (h : Heap) (a b : Nat) : Heap × MergeRes :=
  match h.ops[a]?, h.ops[b]? with
  | some oa, some ob =>
    if oa.cls ≠ ob.cls then (h, .failure) else
    match h.pls[oa.pl]?, h.pls[ob.pl]? with
    | some (pa :: ra), some (pb :: rb) =>
      if ra ≠ rb then (h, .failure) else
      match pa.add (if oa.dagger = ob.dagger then pb else pb.neg) with
      | none => (h, .unmodelled)
      | some p0 =>
        if p0.isZero then (h, .identity)
        else if inPlace then
          ({ ops := h.ops ++ [oa], pls := h.pls.set oa.pl (p0 :: ra) }, .merged h.ops.length)
        else
          -- temp = copy.copy(self); temp.p = [p0] + self.p[1:]
          ({ ops := h.ops ++ [{ oa with pl := h.pls.length }], pls := h.pls ++ [p0 :: ra] }, .merged h.ops.length)
    | _, _ => (h, .unmodelled)
  | _, _ => (h, .unmodelled)

/-- `Channel.merge(self = a, other = b)`: same classes, equal `p[1:]`, `T = other.p[0] * self.p[0]`, the
identity if `T = 1` -/
def channelMergeH (inPlace : Bool) (h : Heap) (a b : Nat) : Heap × MergeRes :=
  match h.ops[a]?, h.ops[b]? with
  | some oa, some ob =>
    if oa.cls ≠ ob.cls then (h, .failure) else
    match h.pls[oa.pl]?, h.pls[ob.pl]? with
    | some (pa :: ra), some (pb :: rb) =>
      if ra ≠ rb then (h, .failure) else
      match pb.mulNum pa with
      | none => (h, .unmodelled)
      | some T =>
        if T = .num ⟨1, 0⟩ then (h, .identity)
        else if inPlace then
          ({ ops := h.ops ++ [oa], pls := h.pls.set oa.pl (T :: ra) }, .merged h.ops.length)
        else
          ({ ops := h.ops ++ [{ oa with pl := h.pls.length }], pls := h.pls ++ [T :: ra] }, .merged h.ops.length)
    | _, _ => (h, .unmodelled)
  | _, _ => (h, .unmodelled)

end SFV.Eng
