/-
K7 — time-domain unrolling.  Executable model of `strawberryfields/tdm/program.py`
(`shift_by`, band slices, `_get_modes`, `apply_op`, `_unroll_program` in its shift and space
variants, the cache state machine `unroll / space_unroll / roll`, `_get_mode_order`,
`reshape_samples`, `get_delays`, `get_crop_value`), of the TDM part of `engine.py`
(`BaseEngine.get_tdm_options`, the roll-back after `_run_program`) and of
`tdm/utils.py: vacuum_padding` (the arrival-time / crop arithmetic).

Core Lean only (no Mathlib).  Conventions: loop parameters and sample values are integers (the
harness drives the real code with integer-valued floats / unique integer tags, so everything is
compared exactly).  Inputs are assumed well formed (slots `< ` register length, loop variables
`<` number of parameter lists); out-of-range look-ups default to `0`.
-/
namespace SFV.Tdm

/-! ### `shift_by` and the band slices -/

/-- start index of the Python slice `l[n:]` (and stop index of `l[:n]`) for a list of length `len` -/
def pyCut (len : Nat) (n : Int) : Nat :=
  if 0 ≤ n then min n.toNat len else len - min (-n).toNat len

/-- `shift_by(l, n) = l[n:] + l[:n]` (positive `n` shifts to the left), any integer `n` -/
def shiftBy {α : Type} (l : List α) (n : Int) : List α :=
  l.drop (pyCut l.length n) ++ l.take (pyCut l.length n)

/-- `sum(N[:i])` for every band `i` -/
def bandStartsFrom : Nat → List Nat → List Nat
  | _, [] => []
  | s, n :: ns => s :: bandStartsFrom (s + n) ns

def bandStarts (N : List Nat) : List Nat := bandStartsFrom 0 N

/-- `q_aux[sm[j]] = shift_by(q_aux[sm[j]], 1)` for every band `j`, bands starting at `s` -/
def shiftBandsFrom {α : Type} : Nat → List Nat → List α → List α
  | _, [], q => q
  | s, n :: ns, q =>
    shiftBandsFrom (s + n) ns (q.take s ++ shiftBy ((q.drop s).take n) 1 ++ q.drop (s + n))

/-- the default shift: every spatial mode (band) is rotated separately by one step -/
def shiftBands {α : Type} (N : List Nat) (q : List α) : List α := shiftBandsFrom 0 N q

/-! ### commands and parameters -/

/-- a gate argument: a number or the loop variable `p<i>` -/
inductive TPar
  | const (v : Int)
  | var (i : Nat)
deriving DecidableEq, Repr, Inhabited

/-- a command of a TDM circuit.  In the rolled circuit `regs` are register *slots*, in an unrolled
circuit they are subsystem indices.  `dagger` / `sel` are the flags an operation carries besides
its parameters (`Gate.dagger`, `Measurement.select`). -/
structure TCmd where
  cls : String := ""
  regs : List Nat := []
  pars : List TPar := []
  meas : Bool := false
  dagger : Bool := false
  sel : Option Int := none
deriving DecidableEq, Repr, Inhabited

inductive Shift
  | default
  | int (z : Int)
  | other            -- neither "default" nor an integer: the register is never shifted
deriving DecidableEq, Repr, Inhabited

/-- what `TDMProgram.context(*args, shift=…)` fixes -/
structure Cfg where
  N : List Nat
  shift : Shift := .default
  timebins : Nat
  params : List (List Int)
deriving Repr, Inhabited

def Cfg.concurr (cfg : Cfg) : Nat := cfg.N.sum

/-- `_get_modes(cmd, q)`: the entries of the (shifted) register at the command's slots -/
def getModes (q : List Nat) (c : TCmd) : List Nat := c.regs.map fun j => q.getD j 0

/-- `apply_op`: a symbolic argument `p<i>` becomes `parameters[p<i>][t % timebins]` -/
def resolve (cfg : Cfg) (t : Nat) : TPar → TPar
  | .const v => .const v
  | .var i => .const ((cfg.params.getD i []).getD (t % cfg.timebins) 0)

def applyOp (cfg : Cfg) (c : TCmd) (modes : List Nat) (t : Nat) : TCmd :=
  { c with regs := modes, pars := c.pars.map (resolve cfg t) }

def listMin : List Nat → Nat
  | [] => 0
  | x :: xs => xs.foldl min x

/-! ### `_unroll_program` -/

/-- one command in one time bin; `pv` is `previous_mode_index[cmd]`.  When space-unrolling, a
command whose modes have looped back to the start of the register is skipped. -/
def stepCmd (cfg : Cfg) (space : Bool) (q : List Nat) (t : Nat) (c : TCmd) (pv : Nat) :
    Option TCmd × Nat :=
  let modes := getModes q c
  let loopedBack := modes.any (· < pv)
  if !space || !loopedBack then (some (applyOp cfg c modes t), listMin modes) else (none, pv)

/-- all commands of one time bin -/
def binStep (cfg : Cfg) (space : Bool) (q : List Nat) (t : Nat) (rolled : List TCmd)
    (prev : List Nat) : List TCmd × List Nat :=
  let r := List.zipWith (stepCmd cfg space q t) rolled prev
  (r.filterMap (·.1), r.map (·.2))

/-- the register shift at the end of a time bin -/
def shiftStep (cfg : Cfg) (space : Bool) (q : List Nat) : List Nat :=
  if space then shiftBy q 1
  else match cfg.shift with
    | .default => shiftBands cfg.N q
    | .int z => shiftBy q z
    | .other => q

/-- `for i in range(timebins)` (the list of remaining bins is explicit); returns the commands and
the register after the last shift -/
def binsLoop (cfg : Cfg) (space : Bool) (rolled : List TCmd) :
    List Nat → List Nat → List Nat → List TCmd × List Nat
  | [], q, _ => ([], q)
  | t :: ts, q, prev =>
    let r := binStep cfg space q t rolled prev
    let rest := binsLoop cfg space rolled ts (shiftStep cfg space q) r.2
    (r.1 ++ rest.1, rest.2)

/-- `for _ in range(shots)`: `previous_mode_index` is reset, the register keeps shifting -/
def shotsLoop (cfg : Cfg) (space : Bool) (rolled : List TCmd) : Nat → List Nat → List TCmd
  | 0, _ => []
  | s + 1, q =>
    let r := binsLoop cfg space rolled (List.range cfg.timebins) q (rolled.map fun _ => 0)
    r.1 ++ shotsLoop cfg space rolled s r.2

/-- `_unroll_program(shots, space)` on the register `q` (indices of the active RegRefs) -/
def unrollProgram (cfg : Cfg) (space : Bool) (rolled : List TCmd) (shots : Nat) (q : List Nat) :
    List TCmd :=
  shotsLoop cfg space rolled shots q

/-! ### the cache state machine -/

/-- the observable state of a `TDMProgram` -/
structure St where
  circuit : List TCmd
  rolled : List TCmd
  unrolled : Option (List TCmd) := none
  spaceUnrolled : Option (List TCmd) := none
  shots : Option Nat := none
  numAdded : Int := 0
  initNum : Int
  /-- `reg_refs`: (index, active) in insertion order -/
  regRefs : List (Nat × Bool)
  locked : Bool := false
deriving DecidableEq, Repr, Inhabited

def St.init (cfg : Cfg) (prog : List TCmd) : St :=
  { circuit := prog, rolled := prog, initNum := cfg.concurr,
    regRefs := (List.range cfg.concurr).map fun i => (i, true) }

/-- `Program.register`: indices of the active RegRefs -/
def register (refs : List (Nat × Bool)) : List Nat := (refs.filter (·.2)).map (·.1)

def St.isUnrolled (s : St) : Bool := s.unrolled.isSome || s.spaceUnrolled.isSome

/-- `_add_subsystems(n)`: new indices start at `len(reg_refs)` -/
def addSubsystems (refs : List (Nat × Bool)) (n : Nat) : List (Nat × Bool) :=
  refs ++ (List.range n).map fun i => (refs.length + i, true)

/-- the RegRefs `register[-k:]` are removed from `reg_refs` (the repaired `roll`) -/
def dropAdded (refs : List (Nat × Bool)) (k : Nat) : List (Nat × Bool) :=
  let gone := (register refs).drop ((register refs).length - k)
  refs.filter fun r => !(r.2 && gone.contains r.1)

/-- `TDMProgram.roll` -/
def St.roll (s : St) : St :=
  if !s.isUnrolled then s else
  let s := { s with shots := none, circuit := s.rolled }
  let s :=
    if s.spaceUnrolled.isSome then
      let s := if 0 < s.numAdded then
          { s with regRefs := dropAdded s.regRefs s.numAdded.toNat,
                   initNum := s.initNum - s.numAdded, numAdded := 0 }
        else s
      { s with spaceUnrolled := none }
    else s
  { s with unrolled := none }

/-- `_unroll_program` as a state update (the lock is lifted around it by the callers) -/
def St.build (cfg : Cfg) (s : St) (shots : Nat) (space : Bool) : St :=
  let circ := unrollProgram cfg space s.circuit shots (register s.regRefs)
  let s := { s with rolled := s.circuit, circuit := circ }
  if space then { s with spaceUnrolled := some circ } else { s with unrolled := some circ }

inductive Outcome
  | ok
  | valueError
deriving DecidableEq, Repr, Inhabited

/-- `TDMProgram.unroll(shots)` -/
def St.unroll (cfg : Cfg) (s : St) (shots : Nat) : St × Outcome :=
  match s.unrolled with
  | some c =>
    if s.shots = some shots then ({ s with circuit := c }, .ok)
    else
      let s := s.roll
      ((({ s with shots := some shots }).build cfg shots false), .ok)
  | none =>
    if s.spaceUnrolled.isSome then (s, .valueError)
    else ((({ s with shots := some shots }).build cfg shots false), .ok)

/-- `space_unroll`, the part after `self.roll()` -/
def St.spaceFresh (cfg : Cfg) (s : St) (shots : Nat) : St :=
  let s := { s with shots := some shots }
  let vac : Int := (cfg.concurr : Int) - 1
  let s := { s with numAdded := ((shots * cfg.timebins : Nat) : Int) - s.initNum + vac }
  let s := if 0 < s.numAdded then
      { s with regRefs := addSubsystems s.regRefs s.numAdded.toNat, initNum := s.initNum + s.numAdded }
    else s
  s.build cfg shots true

/-- `TDMProgram.space_unroll(shots)` -/
def St.spaceUnroll (cfg : Cfg) (s : St) (shots : Nat) : St :=
  match s.spaceUnrolled with
  | some c =>
    if s.shots = some shots then { s with circuit := c } else St.spaceFresh cfg s.roll shots
  | none => St.spaceFresh cfg s.roll shots

/-! ### crop / delay arithmetic -/

/-- `get_delays` from the sorted mode pairs of the beamsplitters; `none` = nested loops
(`NotImplementedError`) -/
def insertDesc (x : Nat) : List Nat → List Nat
  | [] => [x]
  | y :: ys => if y < x then x :: y :: ys else if x = y then y :: ys else y :: insertDesc x ys

def diffs : List Nat → List Nat
  | a :: b :: rest => (a - b) :: diffs (b :: rest)
  | _ => []

def getDelays (bs : List (Nat × Nat)) : Option (List Nat) :=
  let nested := bs.length > 1 &&
    (List.range (bs.foldl (fun m p => max m p.2) 0)).any fun x => bs.all fun p => p.1 ≤ x && x < p.2
  if nested then none else
  some (diffs ((bs.flatMap fun p => [p.1, p.2]).foldr insertDesc []))

/-- index of the first non-zero entry, or the length -/
def startZeros : List Int → Nat
  | [] => 0
  | v :: vs => if v ≠ 0 then 0 else startZeros vs + 1

/-- `get_crop_value`: `alphas` are the parameter lists of the beamsplitters' first loop variable,
in circuit order, zipped with the delays; `arrival` is the running arrival time -/
def cropFrom : Nat → List (List Int) → List Nat → Nat
  | arrival, alpha :: as, d :: ds => cropFrom (arrival + min (startZeros (alpha.drop arrival)) d) as ds
  | arrival, _, _ => arrival

def cropValue (alphas : List (List Int)) (delays : List Nat) : Nat := cropFrom 0 alphas delays

/-- `vacuum_padding`: the delay each loop imposes and the arrival times -/
def imposed (alpha : List Int) (d : Nat) : Nat :=
  if startZeros alpha ≠ alpha.length then min (startZeros alpha) d else d

/-- prologue bins (arrival time at every loop) -/
def prologues : Nat → List (List Int) → List Nat → List Nat
  | arrival, alpha :: as, d :: ds => arrival :: prologues (arrival + imposed alpha d) as ds
  | _, _, _ => []

def padCropFrom : Nat → List (List Int) → List Nat → Nat
  | arrival, alpha :: as, d :: ds => padCropFrom (arrival + imposed alpha d) as ds
  | arrival, _, _ => arrival

/-- `vacuum_padding(...)["crop"]` -/
def padCrop (alphas : List (List Int)) (delays : List Nat) : Nat := padCropFrom 0 alphas delays

/-- the padded beamsplitter lists `[0]*prologue + alpha + [0]*epilogue` -/
def padded (alphas : List (List Int)) (delays : List Nat) : List (List Int) :=
  let total := padCrop alphas delays
  List.zipWith (fun alpha pro => List.replicate pro 0 ++ alpha ++ List.replicate (total - pro) 0)
    alphas (prologues 0 alphas delays)

/-! ### `_get_mode_order` and `reshape_samples` -/

/-- `l * k` -/
def repeatList {α : Type} (l : List α) : Nat → List α
  | 0 => []
  | k + 1 => l ++ repeatList l k

/-- the measured-mode sequence of one band -/
def bandOrder (num start n m : Nat) : List Nat :=
  let tm := (List.range n).map (· + start)
  let tm := shiftBy tm ((m : Int) - (start : Int))
  (repeatList tm (1 + num / n)).take num

/-- `[i for j in zip(*ls) for i in j]` -/
def interleave (ls : List (List Nat)) : List Nat :=
  match ls with
  | [] => []
  | l :: rest =>
    let len := rest.foldl (fun m x => min m x.length) l.length
    (List.range len).flatMap fun k => ls.map fun x => x.getD k 0

/-- `_get_mode_order(num_of_values, modes, N)` -/
def getModeOrder (num : Nat) (modes N : List Nat) : List Nat :=
  let all := (List.zip N (bandStarts N)).zipIdx.map fun x =>
    bandOrder num x.1.2 x.1.1 (modes.getD x.2 0)
  (interleave all).take num

def alGet {β : Type} (d : β) : List (Nat × β) → Nat → β
  | [], _ => d
  | (k, v) :: rest, key => if k = key then v else alGet d rest key

def alSet {β : Type} : List (Nat × β) → Nat → β → List (Nat × β)
  | [], key, v => [(key, v)]
  | (k, w) :: rest, key, v => if k = key then (k, v) :: rest else (k, w) :: alSet rest key v

def listSet {β : Type} : List β → Nat → β → List β
  | [], _, _ => []
  | _ :: xs, 0, v => v :: xs
  | x :: xs, k + 1, v => x :: listSet xs k v

structure RS where
  tracker : List (Nat × Nat) := []
  /-- `new_samples`: key ↦ one list per time bin -/
  out : List (Nat × List (List Int)) := []
  tb : Nat := 0
deriving Repr, Inhabited

/-- the placement half of one loop iteration: the `i`-th sample goes to key `modes[i % B]`, time bin
`tb`; returns the new `new_samples` and `timebin_idx` -/
def placeSample (modes : List Nat) (B T : Nat) (out : List (Nat × List (List Int))) (tb i : Nat)
    (sample : Int) : List (Nat × List (List Int)) × Nat :=
  let key := modes.getD (i % B) 0
  let cur := if out.any (·.1 == key) then alGet [] out key else List.replicate T []
  let cur := listSet cur tb (cur.getD tb [] ++ [sample])
  (alSet out key cur, if (i + 1) % B = 0 then (tb + 1) % T else tb)

/-- one iteration of the loop of `reshape_samples` (`i`-th entry `mode` of the mode order): the next
unread sample of `mode` is read (`idx_tracker`) and placed -/
def reshapeStep (samples : List (Nat × List Int)) (modes : List Nat) (B T : Nat) (st : RS)
    (im : Nat × Nat) : RS :=
  let i := im.1
  let mode := im.2
  let k := alGet 0 st.tracker mode
  let sample := (alGet [] samples mode).getD k 0
  let r := placeSample modes B T st.out st.tb i sample
  { tracker := alSet st.tracker mode (k + 1), out := r.1, tb := r.2 }

/-- `np.array(v).T` of a rectangular nested list with `T` rows -/
def transposeRect (v : List (List Int)) : List (List Int) :=
  match v with
  | [] => []
  | r :: _ => (List.range r.length).map fun s => v.map fun row => row.getD s 0

/-- the loop of `reshape_samples` for a given mode order (`B = len(N)`); result: key ↦ array of shape
(shots, timebins), keys in insertion order -/
def reshapeWith (samples : List (Nat × List Int)) (modes : List Nat) (B T : Nat) (order : List Nat) :
    List (Nat × List (List Int)) :=
  let st := (order.zipIdx.map fun x => (x.2, x.1)).foldl (reshapeStep samples modes B T) {}
  st.out.map fun kv => (kv.1, transposeRect kv.2)

/-- `reshape_samples(samples_dict, modes, N, timebins)` without `mode_order`: the order of the default
shift is assumed.  `samples` maps a subsystem index to the list of its outcomes in measurement order. -/
def reshapeSamples (samples : List (Nat × List Int)) (modes N : List Nat) (T : Nat) :
    List (Nat × List (List Int)) :=
  reshapeWith samples modes N.length T (getModeOrder ((samples.map (·.2.length)).sum) modes N)

/-- stable insertion of index `x` by key -/
def insertByKey (key : Nat → Nat) (x : Nat) : List Nat → List Nat
  | [] => [x]
  | y :: ys => if key x < key y then x :: y :: ys else y :: insertByKey key x ys

/-- `sorted(range(len(slots)), key=slots.__getitem__)` -/
def rankOf (slots : List Nat) : List Nat :=
  (List.range slots.length).foldl (fun acc i => insertByKey (fun k => slots.getD k 0) i acc) []

/-- first register of every measurement command, in circuit order -/
def measuredRegs (circ : List TCmd) : List Nat := (circ.filter (·.meas)).map fun c => c.regs.getD 0 0

/-- `TDMProgram.get_mode_order`: the subsystems the circuit measures, time bin by time bin and within a
time bin in the order of the measured slots -/
def measOrder (rolled circ : List TCmd) : List Nat :=
  let slots := measuredRegs rolled
  let measured := measuredRegs circ
  let n := slots.length
  if n = 0 then [] else
  (List.range ((measured.length + n - 1) / n)).flatMap fun g =>
    (rankOf slots).map fun k => measured.getD (g * n + k) 0

def insertAsc (x : Nat) : List Nat → List Nat
  | [] => [x]
  | y :: ys => if x < y then x :: y :: ys else if x = y then y :: ys else y :: insertAsc x ys

/-- `TDMProgram.measured_modes`: the measured slots, ascending, without repetition -/
def measuredModes (rolled : List TCmd) : List Nat := (measuredRegs rolled).foldr insertAsc []

/-- what `LocalEngine._run_program` collects from a circuit: subsystem ↦ outcomes in measurement
order, when the `k`-th measurement returns the tag `k` -/
def collectSamples (circ : List TCmd) : List (Nat × List Int) :=
  ((circ.filter (·.meas)).zipIdx).foldl
    (fun acc x => alSet acc (x.1.regs.getD 0 0) (alGet [] acc (x.1.regs.getD 0 0) ++ [(x.2 : Int)])) []

/-! ### the engine side: `get_tdm_options`, execution, roll-back -/

structure RunOut where
  /-- the circuit handed to `_run_program` -/
  executed : List TCmd
  /-- the number of modes the back end is initialised with -/
  backendModes : Int
  /-- `modes` of the returned state: `some (lo, hi)` = `range(lo, hi)`, `none` = all -/
  stateModes : Option (Nat × Nat)
  /-- `Result.samples_dict` when the `k`-th executed measurement returns the tag `k` (`none`: no samples) -/
  samples : Option (List (Nat × List (List Int))) := none
deriving DecidableEq, Repr, Inhabited

/-- the beamsplitter data `get_crop_value` reads off a rolled circuit -/
def bsPairs (rolled : List TCmd) : List (Nat × Nat) :=
  (rolled.filter (·.cls == "BSgate")).map fun c =>
    let a := c.regs.getD 0 0
    let b := c.regs.getD 1 0
    (min a b, max a b)

def firstVar : List TPar → Option Nat
  | [] => none
  | .var i :: _ => some i
  | .const _ :: ps => firstVar ps

def bsAlphas (cfg : Cfg) (rolled : List TCmd) : List (List Int) :=
  (rolled.filter (·.cls == "BSgate")).filterMap fun c =>
    (firstVar c.pars).map fun i => cfg.params.getD i []

def St.cropValue (cfg : Cfg) (s : St) : Nat :=
  Tdm.cropValue (bsAlphas cfg s.rolled) ((getDelays (bsPairs s.rolled)).getD [])

/-- the samples dictionary `_run_program` returns for the executed circuit `circ` of a program whose
rolled circuit is `rolled`: collected per subsystem, arranged by `reshape_samples` with the order read
off the circuit, key `0` cropped -/
def runSamples (cfg : Cfg) (rolled circ : List TCmd) (crop : Option Nat) : List (Nat × List (List Int)) :=
  let d := reshapeWith (collectSamples circ) (measuredModes rolled) cfg.N.length cfg.timebins
    (measOrder rolled circ)
  match crop with
  | none => d
  | some c => d.map fun kv => if kv.1 = 0 then (kv.1, kv.2.map (·.drop c)) else kv

/-- `LocalEngine.run(prog, shots, space_unroll, crop)` seen from the user's program `s`: the engine
works on a linked copy (locked, sharing `reg_refs` with `s`), unrolls it if needed, executes it and
rolls the copy back iff it unrolled it itself. -/
def St.run (cfg : Cfg) (s : St) (shots : Option Nat) (space crop : Bool) : St × RunOut :=
  let s := { s with locked := true }
  let sh := match shots with | some 0 => 1 | some k => k | none => 1
  let r : St × Bool :=
    if space then
      if s.spaceUnrolled.isNone then (s.spaceUnroll cfg sh, true) else (s, false)
    else
      if !s.isUnrolled then ((s.unroll cfg sh).1, true) else (s, false)
  let p := r.1
  let stateModes :=
    if p.spaceUnrolled.isSome then
      some ((if crop then p.cropValue cfg else 0), cfg.timebins)
    else none
  let samples :=
    if shots.isNone || shots == some 0 || (measuredRegs p.circuit).isEmpty then none else
    some (runSamples cfg p.rolled p.circuit (if crop then some (p.cropValue cfg) else none))
  let out : RunOut := { executed := p.circuit, backendModes := p.initNum, stateModes := stateModes,
                        samples := samples }
  let p := if r.2 then p.roll else p
  ({ s with regRefs := p.regRefs }, out)

/-- the call alphabet of the property's quantifier -/
inductive Ev
  | unroll (shots : Nat)
  | spaceUnroll (shots : Nat)
  | roll
  | run (shots : Option Nat) (space crop : Bool)
  | lock
deriving DecidableEq, Repr, Inhabited

def St.step (cfg : Cfg) (s : St) : Ev → St
  | .unroll k => (s.unroll cfg k).1
  | .spaceUnroll k => s.spaceUnroll cfg k
  | .roll => s.roll
  | .run sh sp cr => (s.run cfg sh sp cr).1
  | .lock => { s with locked := true }

def St.steps (cfg : Cfg) (s : St) (evs : List Ev) : St := evs.foldl (St.step cfg) s

end SFV.Tdm
