/-
K3 — phase-space algebra, part 1: the Gaussian simulator.  Line-by-line transcription of
`strawberryfields/backends/gaussianbackend/gaussiancircuit.py` (`GaussianModes`): the state is
`nmat = ⟨a_i† a_j⟩`, `mmat = ⟨a_i a_j⟩`, `mean = ⟨a_i⟩`, updated entry by entry.

Angles and squeezing amplitudes never occur as numbers: an operation takes the *atoms*
`c = cos φ`, `s = sin φ`, `ch = cosh r`, `sh = sinh r`, `q = √T`; the theorems carry the
polynomial constraints (`c² + s² = 1`, `ch² − sh² = 1`, `q² = T`).

Core Lean only; scalars are an arbitrary type with ring operations (executed over `Rat`).
-/
namespace SFV.Gauss

/-- complex numbers over `K` as explicit pairs -/
structure Cx (K : Type) where
  re : K
  im : K
deriving DecidableEq, Repr, Inhabited

namespace Cx
variable {K : Type}
instance [Zero K] : Zero (Cx K) := ⟨⟨0, 0⟩⟩
instance [Add K] : Add (Cx K) := ⟨fun a b => ⟨a.re + b.re, a.im + b.im⟩⟩
instance [Sub K] : Sub (Cx K) := ⟨fun a b => ⟨a.re - b.re, a.im - b.im⟩⟩
instance [Neg K] : Neg (Cx K) := ⟨fun a => ⟨-a.re, -a.im⟩⟩
instance [Add K] [Sub K] [Mul K] : Mul (Cx K) :=
  ⟨fun a b => ⟨a.re * b.re - a.im * b.im, a.re * b.im + a.im * b.re⟩⟩
def conj [Neg K] (a : Cx K) : Cx K := ⟨a.re, -a.im⟩
/-- real scalar as a complex number -/
def ofK [Zero K] (x : K) : Cx K := ⟨x, 0⟩
/-- multiplication by a real scalar -/
def smul [Mul K] (x : K) (a : Cx K) : Cx K := ⟨x * a.re, x * a.im⟩
end Cx

open Cx

/-- state of `GaussianModes` (the matrices are total functions; only indices `< n` matter) -/
structure GS (K : Type) where
  n : Nat
  N : Nat → Nat → Cx K
  M : Nat → Nat → Cx K
  mean : Nat → Cx K

variable {K : Type} [Zero K] [One K] [Add K] [Sub K] [Neg K] [Mul K]

/-- `reset`: vacuum on `n` modes -/
def vacuum (n : Nat) : GS K := { n := n, N := fun _ _ => 0, M := fun _ _ => 0, mean := fun _ => 0 }

/-- row-`k`-then-column-`k` write pattern shared by all single-mode updates:
row `k` gets `rowN`/`rowM`, then `nmat[:, k] = conj(nmat[k])`, `mmat[:, k] = mmat[k]`. -/
def writeRowCol (st : GS K) (k : Nat) (rowN rowM : Nat → Cx K) (meank : Cx K) : GS K :=
  { n := st.n
    N := fun i j => if j = k then conj (rowN i) else if i = k then rowN j else st.N i j
    M := fun i j => if j = k then rowM i else if i = k then rowM j else st.M i j
    mean := fun i => if i = k then meank else st.mean i }

/-- `displace(r, phi, i)`: `mean[i] += β` with `β = r e^{iφ}` given as a complex number -/
def displace (st : GS K) (β : Cx K) (i : Nat) : GS K :=
  { st with mean := fun j => if j = i then st.mean j + β else st.mean j }

/-- `squeeze(r, phi, k)` with `ph = e^{iφ} = ⟨c, s⟩`, `ch = cosh r`, `sh = sinh r` -/
def squeeze (st : GS K) (c s ch sh : K) (k : Nat) : GS K :=
  let ph : Cx K := ⟨c, s⟩
  let sh2 := sh * sh
  let ch2 := ch * ch
  let shch := sh * ch
  let nk := st.N k
  let mk := st.M k
  let rowN : Nat → Cx K := fun l =>
    if l = k then
      ofK sh2 - smul shch (ph * conj (mk k)) - smul shch (conj ph * mk k) + smul ch2 (nk k) + smul sh2 (nk k)
    else -(smul sh (conj ph * mk l)) + smul ch (nk l)
  let rowM : Nat → Cx K := fun l =>
    if l = k then
      -(smul shch ph) + smul sh2 (ph * ph * conj (mk k)) + smul ch2 (mk k) - smul (shch + shch) (ph * nk k)
    else smul ch (mk l) - smul sh (ph * nk l)
  writeRowCol st k rowN rowM (smul ch (st.mean k) - smul sh (ph * conj (st.mean k)))

/-- `phase_shift(phi, k)` with `ph = e^{iφ} = ⟨c, s⟩` -/
def phaseShift (st : GS K) (c s : K) (k : Nat) : GS K :=
  let ph : Cx K := ⟨c, s⟩
  let rowN : Nat → Cx K := fun l => if l = k then st.N k k else conj ph * st.N k l
  let rowM : Nat → Cx K := fun l => if l = k then ph * ph * st.M k k else ph * st.M k l
  writeRowCol st k rowN rowM (st.mean k * ph)

/-- `loss(T, k)` with `q = √T` -/
def loss (st : GS K) (q : K) (k : Nat) : GS K :=
  let rowN : Nat → Cx K := fun l => if l = k then smul q (smul q (st.N k k)) else smul q (st.N k l)
  let rowM : Nat → Cx K := fun l => if l = k then smul q (smul q (st.M k k)) else smul q (st.M k l)
  writeRowCol st k rowN rowM (smul q (st.mean k))

/-- `thermal_loss(T, nbar, k)`: `loss` then `nmat[k][k] += (1 - T) * nbar` (after the `fix:` commit).
`add = (1 - T) · nbar` is passed as one number. -/
def thermalLoss (st : GS K) (q add : K) (k : Nat) : GS K :=
  let s1 := loss st q k
  { s1 with N := fun i j => if i = k ∧ j = k then s1.N i j + ofK add else s1.N i j }

/-- the same with the defect of the unfixed tree: `self.nmat += (1 - T) * nbar` hits every entry -/
def thermalLossOld (st : GS K) (q add : K) (k : Nat) : GS K :=
  let s1 := loss st q k
  { s1 with N := fun i j => s1.N i j + ofK add }

/-- `init_thermal(population, mode)`: `loss(0)` then `nmat[mode][mode] = population` -/
def initThermal (st : GS K) (pop : K) (k : Nat) : GS K :=
  let s1 := loss st 0 k
  { s1 with N := fun i j => if i = k ∧ j = k then ofK pop else s1.N i j }

/-! `beamsplitter(theta, phi, k, l)` with `ph = e^{iφ} = ⟨c, s⟩`, `ct = cos θ`, `sn = sin θ`.
The explicitly assigned entries first, then the rows `k` and `l`, then the column writes. -/

section bs
variable (st : GS K) (c s ct sn : K) (k l : Nat)

def bsNkk : Cx K :=
  let ph : Cx K := ⟨c, s⟩
  smul (ct * ct) (st.N k k) + smul (sn * ct) (ph * st.N k l) + smul (sn * ct) (conj ph * st.N l k)
    + smul (sn * sn) (st.N l l)
def bsNkl : Cx K :=
  let ph : Cx K := ⟨c, s⟩
  (-(smul (sn * ct) (conj ph * st.N k k))) + smul (ct * ct) (st.N k l) - smul (sn * sn) (conj (ph * ph) * st.N l k)
    + smul (sn * ct) (conj ph * st.N l l)
def bsNll : Cx K :=
  let ph : Cx K := ⟨c, s⟩
  smul (sn * sn) (st.N k k) - smul (sn * ct) (ph * st.N k l) - smul (sn * ct) (conj ph * st.N l k)
    + smul (ct * ct) (st.N l l)
def bsMkk : Cx K :=
  let ph : Cx K := ⟨c, s⟩
  smul (ct * ct) (st.M k k) + smul (sn * ct + sn * ct) (ph * st.M l k) + smul (sn * sn) (ph * ph * st.M l l)
def bsMkl : Cx K :=
  let ph : Cx K := ⟨c, s⟩
  (-(smul (sn * ct) (conj ph * st.M k k))) + smul (ct * ct) (st.M l k) - smul (sn * sn) (st.M l k)
    + smul (sn * ct) (ph * st.M l l)
def bsMll : Cx K :=
  let ph : Cx K := ⟨c, s⟩
  smul (sn * sn) (conj (ph * ph) * st.M k k) - smul (sn * ct + sn * ct) (conj ph * st.M l k)
    + smul (ct * ct) (st.M l l)

/-- rows `k` and `l` after the explicit assignments and the loop over the other columns -/
def bsRowNk (i : Nat) : Cx K :=
  if i = k then bsNkk st c s ct sn k l else if i = l then bsNkl st c s ct sn k l
  else smul ct (st.N k i) + smul sn (conj ⟨c, s⟩ * st.N l i)
def bsRowNl (i : Nat) : Cx K :=
  if i = k then conj (bsNkl st c s ct sn k l) else if i = l then bsNll st c s ct sn k l
  else -(smul sn ((⟨c, s⟩ : Cx K) * st.N k i)) + smul ct (st.N l i)
def bsRowMk (i : Nat) : Cx K :=
  if i = k then bsMkk st c s ct sn k l else if i = l then bsMkl st c s ct sn k l
  else smul ct (st.M k i) + smul sn ((⟨c, s⟩ : Cx K) * st.M l i)
def bsRowMl (i : Nat) : Cx K :=
  if i = k then bsMkl st c s ct sn k l else if i = l then bsMll st c s ct sn k l
  else -(smul sn (conj ⟨c, s⟩ * st.M k i)) + smul ct (st.M l i)

/-- `nmat[:, k] = conj(nmat[k])` overwrites `nmat[l][k]`; then `nmat[:, l] = conj(nmat[l])`
uses row `l` with that new entry -/
def bsRowNl' (i : Nat) : Cx K := if i = k then conj (bsRowNk st c s ct sn k l l) else bsRowNl st c s ct sn k l i
def bsRowMl' (i : Nat) : Cx K := if i = k then bsRowMk st c s ct sn k l l else bsRowMl st c s ct sn k l i

def beamsplitter : GS K :=
  { n := st.n
    N := fun i j =>
      if j = l then conj (bsRowNl' st c s ct sn k l i)
      else if j = k then conj (bsRowNk st c s ct sn k l i)
      else if i = k then bsRowNk st c s ct sn k l j
      else if i = l then bsRowNl' st c s ct sn k l j else st.N i j
    M := fun i j =>
      if j = l then bsRowMl' st c s ct sn k l i
      else if j = k then bsRowMk st c s ct sn k l i
      else if i = k then bsRowMk st c s ct sn k l j
      else if i = l then bsRowMl' st c s ct sn k l j else st.M i j
    mean := fun i =>
      if i = k then smul ct (st.mean k) + smul sn ((⟨c, s⟩ : Cx K) * st.mean l)
      else if i = l then smul ct (st.mean l) - smul sn (conj ⟨c, s⟩ * st.mean k)
      else st.mean i }

end bs

/-- `add_mode(n)`: the old block is copied, new rows/columns are zero -/
def addMode (st : GS K) (m : Nat) : GS K :=
  { n := st.n + m
    N := fun i j => if i < st.n ∧ j < st.n then st.N i j else 0
    M := fun i j => if i < st.n ∧ j < st.n then st.M i j else 0
    mean := fun i => if i < st.n then st.mean i else 0 }

/-! ### multi-mode operations applied natively: `GaussianBackend.passive` → `apply_u`,
`prepare_gaussian_state` → `fromscovmat` / `fromsmean` -/

/-- `Σ_{k < n} f k` for complex pairs -/
def csum (n : Nat) (f : Nat → Cx K) : Cx K :=
  match n with
  | 0 => 0
  | m + 1 => csum m f + f m

/-- position of mode `i` in a mode list (`None` if absent) -/
def posIn (modes : List Nat) (i : Nat) : Option Nat :=
  if modes.contains i then some (modes.idxOf i) else none

/-- `T_expand = identity(nlen); T_expand[ix_(modes, modes)] = T` (`GaussianBackend.passive`) -/
def expandT (modes : List Nat) (T : Nat → Nat → Cx K) : Nat → Nat → Cx K := fun i j =>
  match posIn modes i, posIn modes j with
  | some a, some b => T a b
  | none, none => if i = j then ofK 1 else 0
  | _, _ => 0

/-- `apply_u(U)`: `mean = U @ mean`, `nmat = U.conj() @ nmat @ U.T`, `mmat = U @ mmat @ U.T` -/
def applyU (st : GS K) (U : Nat → Nat → Cx K) : GS K :=
  { n := st.n
    mean := fun i => csum st.n fun k => U i k * st.mean k
    N := fun i j => csum st.n fun k => csum st.n fun l => conj (U i k) * st.N k l * U j l
    M := fun i j => csum st.n fun k => csum st.n fun l => U i k * st.M k l * U j l }

/-- `fromscovmat(V, modes)` followed by `fromsmean(r, modes)` as called by
`prepare_gaussian_state`: the listed modes are first reset (`loss(0, mode)`), then the block
`nmat[rows, cols]`, `mmat[rows, cols]` and the means are written from the blocks
`A = V_xx`, `B = V_xp`, `C = V_pp` (hbar = 2) of the given covariance, in the order of `modes`.
`quarter` is the number `1/4`, `half` the number `1/2`. -/
def fromCov (st : GS K) (quarter half : K) (modes : List Nat) (A B C : Nat → Nat → K) (rx rp : Nat → K) : GS K :=
  let st0 := modes.foldl (fun s m => loss s 0 m) st
  { n := st.n
    N := fun i j => match posIn modes i, posIn modes j with
      | some a, some b => ⟨quarter * (A a b + C a b - (if a = b then 1 + 1 else 0)), quarter * (B a b - B b a)⟩
      | _, _ => st0.N i j
    M := fun i j => match posIn modes i, posIn modes j with
      | some a, some b => ⟨quarter * (A a b - C a b), quarter * (B a b + B b a)⟩
      | _, _ => st0.M i j
    mean := fun i => match posIn modes i with
      | some a => ⟨half * rx a, half * rp a⟩
      | none => st0.mean i }

/-! ### quadrature picture (`scovmatxp`, `smeanxp`; hbar = 2) -/

def Vxx (st : GS K) (i j : Nat) : K :=
  (st.N i j + st.N j i + st.M i j + conj (st.M i j)).re + (if i = j then 1 else 0)
def Vpp (st : GS K) (i j : Nat) : K :=
  (st.N i j + st.N j i - st.M i j - conj (st.M i j)).re + (if i = j then 1 else 0)
/-- `mm12 = 1j * (-M^T + conj(M)^T + N^T - N)`; the real part is minus the imaginary part of the bracket -/
def Vxp (st : GS K) (i j : Nat) : K :=
  -((-(st.M j i) + conj (st.M j i) + st.N j i - st.N i j).im)
def meanX (st : GS K) (i : Nat) : K := (st.mean i).re + (st.mean i).re
def meanP (st : GS K) (i : Nat) : K := (st.mean i).im + (st.mean i).im

end SFV.Gauss
