import SFV.Model.States
/-
K4 — `Circuit.prepare_multimode` (`fockbackend/circuit.py`): preparation of a given ket / density
matrix in a list of modes given in any order.  Index bookkeeping only; the state `σ` is an input
(a ket has one axis per mode, a density matrix two interleaved axes per mode).
Uses `argsort`/`indexPerm` of `SFV.Model.States` and `partialTrace`/`trList` of `SFV.Model.FockTensor`.
-/
namespace SFV.Fock
open SFV.States

/-- `[x for x in range(n) if x not in modes] + modes` -/
def modePermutation (n : Nat) (modes : List Nat) : List Nat :=
  (List.range n).filter (fun x => !modes.contains x) ++ modes

/-- whole-register branch (`self._num_modes == n_modes`): the state is taken as it is and, unless the
modes are listed in standard order, transposed by `argsort(index_permutation)`.
`pure = true`: one axis per mode; `false`: two (row, column) axes per mode. -/
def prepareAll {K : Type} (pure : Bool) (n : Nat) (modes : List Nat) (σ : Tens K) : Tens K :=
  if modes == List.range n then σ
  else
    let ip := if pure then modePermutation n modes else indexPerm (modePermutation n modes)
    trList (argsort ip) σ

/-- sub-register branch: mix, `reduced = partial_trace(state, modes)`, `tensordot(reduced, σ, axes=0)`,
then the same transposition; `σ` is a density matrix with interleaved axes, `k = modes.length` -/
def prepareSome {K : Type} [Zero K] [Add K] [Mul K] (D n : Nat) (modes : List Nat) (σ ρ : Tens K) : Tens K :=
  let k := modes.length
  let red := partialTrace D n modes ρ
  let st : Tens K := fun idx => red idx * σ (fun a => idx (2 * (n - k) + a))
  if modes == List.range' (n - k) k then st
  else trList (argsort (indexPerm (modePermutation n modes))) st

end SFV.Fock
