import SFV.Gen.Templates
/-! `Operation.decompose` for the operations with a generated template (`SFV/Gen/Templates.lean`,
regenerated from `ops.py` on every build by `harness/gen/gen_templates.py`). -/
namespace SFV.Param

def decompose (cls : String) (ps : List Expr) (dagger : Bool) : Option (List TCmd) :=
  (template cls).map fun t => decomposeWith t ps dagger

end SFV.Param
