import SFV.Model.PhaseSpace
/-
C02 — decompositions.  Executable model (core Lean only) of

* the `_decompose` templates of the scalar-parameter operations of `strawberryfields/ops.py`
  (`Xgate, Zgate, Pgate, CXgate, CZgate, S2gate, MZgate, sMZgate, Fouriergate, DisplacedSqueezed`),
  as data over parameter *atoms*: an angle enters as `(cos, sin)`, a squeezing amount as `(cosh, sinh)`.
  Where the source applies a function to the parameter the operation carries the atoms of the result
  (`Pgate`: `ch = √(1+t²)`, `ich = 1/ch`, `sg = sign t` for `t = s/2`; `CXgate`: `sh = −s/2`, `ch = √(1+sh²)`
  and `(ct, st) = (cos θ, sin θ)` for `θ = ½·atan2(−1/ch, −sh/ch)`);
* `Gate.decompose` (reverse the list and flip every flag when the gate is daggered);
* the recursive driver `Compiler.decompose` over an arbitrary command type and arbitrary
  primitives / decompositions tables (the generated tables are in `SFV/Gen/Compilers.lean`);
* the mesh command builders `_rectangular_compact_cmds`, `_triangular_compact_cmds`,
  `_sun_compact_cmds` and the emission loop of `Interferometer._decompose` for the `T`/`MZ` meshes
  (with the `drop_identity` branches), over opaque angle values;
* the documented action of every gate on the quadrature vector (`docAct`, from the docstrings of
  `ops.py`), built on the sparse rows of `SFV.Model.PhaseSpace`.
-/
namespace SFV.Decompose
open SFV.Gauss

/-- global atoms: `q = cos π/4 = sin π/4`, `h = √(2ħ)`, `ih = 1/√(2ħ)` -/
structure Consts (K : Type) where
  q : K
  h : K
  ih : K

/-- operations over parameter atoms -/
inductive Op (K : Type)
  | Dg (r c s : K)              -- Dgate(r, φ)
  | Rg (c s : K)                -- Rgate(θ)
  | Sg (ch sh c s : K)          -- Sgate(r, φ)
  | BSg (ct sn c s : K)         -- BSgate(θ, φ)
  | Xg (x : K)
  | Zg (p : K)
  | Pg (t ch ich sg : K)        -- Pgate(s), t = s/2
  | CXg (ch sh ct st : K)       -- CXgate(s), sh = −s/2
  | CZg (ch sh ct st : K)       -- CZgate(s), sh = −s/2
  | S2g (ch sh c s : K)         -- S2gate(r, φ)
  | MZg (ci si ce se : K)       -- MZgate(φ_in, φ_ex)
  | sMZg (c1 s1 c2 s2 : K)      -- sMZgate(φ₁, φ₂)
  | Fg                          -- Fouriergate
  | Kg (κ : K)                  -- Kgate: a gate without `_decompose`
  | Vac
  | Sq (ch sh c s : K)          -- Squeezed(r, φ)
  | DSq (r c s ch sh c2 s2 : K) -- DisplacedSqueezed(r_d, φ_d, r_s, φ_s)
  deriving Repr

structure Cmd (K : Type) where
  op : Op K
  regs : List Nat
  dagger : Bool
  deriving Repr

variable {K : Type}

def Op.name : Op K → String
  | .Dg .. => "Dgate" | .Rg .. => "Rgate" | .Sg .. => "Sgate" | .BSg .. => "BSgate"
  | .Xg .. => "Xgate" | .Zg .. => "Zgate" | .Pg .. => "Pgate" | .CXg .. => "CXgate"
  | .CZg .. => "CZgate" | .S2g .. => "S2gate" | .MZg .. => "MZgate" | .sMZg .. => "sMZgate"
  | .Fg => "Fouriergate" | .Kg .. => "Kgate" | .Vac => "Vacuum" | .Sq .. => "Squeezed"
  | .DSq .. => "DisplacedSqueezed"

/-- has a `dagger` attribute (subclass of `Gate`) -/
def Op.isGate : Op K → Bool
  | .Vac => false | .Sq .. => false | .DSq .. => false
  | _ => true

/-- `reg[i]` -/
def rg (rs : List Nat) (i : Nat) : Nat := rs.getD i 0

section templates
variable [Zero K] [One K] [Add K] [Sub K] [Neg K] [Mul K]

/-- the `_decompose` methods (`none` = `NotImplementedError`) -/
def decompose1 (C : Consts K) : Op K → List Nat → Option (List (Cmd K))
  | .Xg x, rs => some [⟨.Dg (x * C.ih) 1 0, rs, false⟩]
  | .Zg p, rs => some [⟨.Dg (p * C.ih) 0 1, rs, false⟩]
  | .Pg t ch ich sg, rs =>
    -- r = acosh √(1+t²): cosh r = ch, sinh r = |t| = sg·t;  θ = atan t: (cos, sin) = (1/ch, t/ch);
    -- φ = −(π/2)·sg − θ with cos((π/2)·sg) = 1 − sg², sin((π/2)·sg) = sg for sg ∈ {−1, 0, 1}
    some [⟨.Sg ch (sg * t) ((1 - sg * sg) * ich - sg * (t * ich)) (-(sg * ich + (1 - sg * sg) * (t * ich))), rs, false⟩,
          ⟨.Rg ich (t * ich), rs, false⟩]
  | .CXg ch sh ct st, rs =>
    some [⟨.BSg ct st 1 0, rs, false⟩, ⟨.Sg ch sh 1 0, [rg rs 0], false⟩, ⟨.Sg ch (-sh) 1 0, [rg rs 1], false⟩,
          ⟨.BSg (-st) ct 1 0, rs, false⟩]
  | .CZg ch sh ct st, rs =>
    some [⟨.Rg 0 (-1), [rg rs 1], false⟩, ⟨.CXg ch sh ct st, rs, false⟩, ⟨.Rg 0 1, [rg rs 1], false⟩]
  | .S2g ch sh c s, rs =>
    some [⟨.BSg C.q C.q 1 0, rs, false⟩, ⟨.Sg ch sh c s, [rg rs 0], false⟩, ⟨.Sg ch sh c s, [rg rs 1], true⟩,
          ⟨.BSg C.q C.q 1 0, rs, true⟩]
  | .MZg ci si ce se, rs =>
    some [⟨.Rg ce se, [rg rs 0], false⟩, ⟨.BSg C.q C.q 0 1, rs, false⟩, ⟨.Rg ci si, [rg rs 0], false⟩,
          ⟨.BSg C.q C.q 0 1, rs, false⟩]
  | .sMZg c1 s1 c2 s2, rs =>
    -- Rgate(φ − π/2): (cos, sin) = (sin φ, −cos φ)
    some [⟨.BSg C.q C.q 0 1, rs, false⟩, ⟨.Rg s2 (-c2), [rg rs 1], false⟩, ⟨.Rg s1 (-c1), [rg rs 0], false⟩,
          ⟨.BSg C.q C.q 0 1, rs, false⟩]
  | .Fg, rs => some [⟨.Rg 0 1, rs, false⟩]
  | .DSq r c s ch sh c2 s2, rs => some [⟨.Sq ch sh c2 s2, rs, false⟩, ⟨.Dg r c s, rs, false⟩]
  | _, _ => none

def Cmd.flip (c : Cmd K) : Cmd K := { c with dagger := !c.dagger }

/-- `Gate.decompose` / `Operation.decompose` -/
def decompose (C : Consts K) (c : Cmd K) : Option (List (Cmd K)) :=
  match decompose1 C c.op c.regs with
  | none => none
  | some seq => if c.dagger && c.op.isGate then some ((seq.map Cmd.flip).reverse) else some seq

end templates

/-! ### the recursive driver `Compiler.decompose` -/

inductive DErr
  | circuit (name : String)      -- `CircuitError`
  | notImplemented (name : String)
  | fuel
  deriving Repr, DecidableEq

/-- `Compiler.decompose(seq)`: `name` = class name, `noDecomp c` = `hasattr(op, "decomp") and not op.decomp`,
`dec` = `cmd.op.decompose(cmd.reg, **kwargs)`; `fuel` bounds the recursion depth (Python recurses freely). -/
def compileWith {C : Type} (name : C → String) (noDecomp : C → Bool) (dec : C → Option (List C))
    (prims decs : List String) : Nat → List C → Except DErr (List C)
  | _, [] => .ok []
  | 0, _ :: _ => .error .fuel
  | fuel + 1, c :: rest =>
    let head : Except DErr (List C) :=
      if decs.contains (name c) then
        if noDecomp c then
          if prims.contains (name c) then .ok [c] else .error (.circuit (name c))
        else
          match dec c with
          | none => .error (.notImplemented (name c))
          | some kids => compileWith name noDecomp dec prims decs fuel kids
      else if prims.contains (name c) then .ok [c]
      else .error (.circuit (name c))
    match head with
    | .error e => .error e
    | .ok out =>
      match compileWith name noDecomp dec prims decs (fuel + 1) rest with
      | .error e => .error e
      | .ok out' => .ok (out ++ out')

/-- nesting depth of the scalar decompositions (`CZgate → CXgate → primitives`) -/
def Op.rank : Op K → Nat
  | .CZg .. => 2
  | .Xg .. => 1 | .Zg .. => 1 | .Pg .. => 1 | .CXg .. => 1 | .S2g .. => 1 | .MZg .. => 1 | .sMZg .. => 1
  | .Fg => 1 | .DSq .. => 1
  | _ => 0

/-! ### documented action on the quadrature vector `(x₀, p₀, x₁, p₁, …)`, ħ-generic -/

abbrev Vec (K : Type) := Q → K

section sem
variable [Zero K] [One K] [Add K] [Sub K] [Neg K] [Mul K]

/-- `v ↦ X v` for sparse rows -/
def actRows (R : Q → List (Q × K)) (v : Vec K) : Vec K := fun u => lsum (R u) v

/-- `v ↦ v + d` on mode `k` -/
def shiftV (k : Nat) (dx dp : K) (v : Vec K) : Vec K
  | (i, false) => if i = k then v (i, false) + dx else v (i, false)
  | (i, true) => if i = k then v (i, true) + dp else v (i, true)

/-- BSgate docstring, "Action on the quadrature operators" -/
def bsDocRows (k l : Nat) (ct sn c s : K) : Q → List (Q × K)
  | (i, false) =>
    if i = k then [((k, false), ct), ((l, false), -(sn * c)), ((l, true), -(sn * s))]
    else if i = l then [((l, false), ct), ((k, false), sn * c), ((k, true), -(sn * s))]
    else idRow (i, false)
  | (i, true) =>
    if i = k then [((k, true), ct), ((l, true), -(sn * c)), ((l, false), sn * s)]
    else if i = l then [((l, true), ct), ((k, true), sn * c), ((k, false), sn * s)]
    else idRow (i, true)

/-- a passive two-mode transformation `a_k ↦ U₁₁ a_k + U₁₂ a_l`, `a_l ↦ U₂₁ a_k + U₂₂ a_l`, `U_ij = a_ij + i·b_ij` -/
def passive2Rows (k l : Nat) (a11 b11 a12 b12 a21 b21 a22 b22 : K) : Q → List (Q × K)
  | (i, false) =>
    if i = k then [((k, false), a11), ((k, true), -b11), ((l, false), a12), ((l, true), -b12)]
    else if i = l then [((k, false), a21), ((k, true), -b21), ((l, false), a22), ((l, true), -b22)]
    else idRow (i, false)
  | (i, true) =>
    if i = k then [((k, false), b11), ((k, true), a11), ((l, false), b12), ((l, true), a12)]
    else if i = l then [((k, false), b21), ((k, true), a21), ((l, false), b22), ((l, true), a22)]
    else idRow (i, true)

/-- S2gate docstring: `a₁ ↦ a₁ cosh r + a₂† e^{iφ} sinh r`, `a₂ ↦ a₂ cosh r + a₁† e^{iφ} sinh r` -/
def s2DocRows (k l : Nat) (ch sh c s : K) : Q → List (Q × K)
  | (i, false) =>
    if i = k then [((k, false), ch), ((l, false), sh * c), ((l, true), sh * s)]
    else if i = l then [((l, false), ch), ((k, false), sh * c), ((k, true), sh * s)]
    else idRow (i, false)
  | (i, true) =>
    if i = k then [((k, true), ch), ((l, false), sh * s), ((l, true), -(sh * c))]
    else if i = l then [((l, true), ch), ((k, false), sh * s), ((k, true), -(sh * c))]
    else idRow (i, true)

/-- CXgate docstring: `x₂ ↦ x₂ + s x₁`, `p₁ ↦ p₁ − s p₂` -/
def cxDocRows (k l : Nat) (s : K) : Q → List (Q × K)
  | (i, false) => if i = l then [((l, false), 1), ((k, false), s)] else idRow (i, false)
  | (i, true) => if i = k then [((k, true), 1), ((l, true), -s)] else idRow (i, true)

/-- CZgate docstring: `p₁ ↦ p₁ + s x₂`, `p₂ ↦ p₂ + s x₁` -/
def czDocRows (k l : Nat) (s : K) : Q → List (Q × K)
  | (i, false) => idRow (i, false)
  | (i, true) =>
    if i = k then [((k, true), 1), ((l, false), s)]
    else if i = l then [((l, true), 1), ((k, false), s)]
    else idRow (i, true)

/-- MZgate docstring: `U = ½ [[(e−1)e', i(1+e)], [i(1+e)e', 1−e]]`, `e = e^{iφ_in}`, `e' = e^{iφ_ex}`; `½ = q²` -/
def mzRows (C : Consts K) (k l : Nat) (ci si ce se : K) : Q → List (Q × K) :=
  let hf := C.q * C.q
  passive2Rows k l
    (hf * ((ci - 1) * ce - si * se)) (hf * ((ci - 1) * se + si * ce))
    (hf * (-si)) (hf * (1 + ci))
    (hf * (-(si * ce) - (1 + ci) * se)) (hf * (-(si * se) + (1 + ci) * ce))
    (hf * (1 - ci)) (hf * (-si))

/-- the conjugate transpose of the MZgate unitary -/
def mzInvRows (C : Consts K) (k l : Nat) (ci si ce se : K) : Q → List (Q × K) :=
  let hf := C.q * C.q
  passive2Rows k l
    (hf * ((ci - 1) * ce - si * se)) (-(hf * ((ci - 1) * se + si * ce)))
    (hf * (-(si * ce) - (1 + ci) * se)) (-(hf * (-(si * se) + (1 + ci) * ce)))
    (hf * (-si)) (-(hf * (1 + ci)))
    (hf * (1 - ci)) (-(hf * (-si)))

/-- sMZI matrix of `decompositions.M`: `e^{iσ} [[sin δ, cos δ], [cos δ, −sin δ]]`
 `= ½ [[−i(e₁−e₂), e₁+e₂], [e₁+e₂, i(e₁−e₂)]]`, `e_j = e^{iφ_j}`, `φ₁ = σ+δ`, `φ₂ = σ−δ` -/
def smzRows (C : Consts K) (k l : Nat) (c1 s1 c2 s2 : K) : Q → List (Q × K) :=
  let hf := C.q * C.q
  passive2Rows k l
    (hf * (s1 - s2)) (hf * (-(c1 - c2)))
    (hf * (c1 + c2)) (hf * (s1 + s2))
    (hf * (c1 + c2)) (hf * (s1 + s2))
    (hf * (-(s1 - s2))) (hf * (c1 - c2))

def smzInvRows (C : Consts K) (k l : Nat) (c1 s1 c2 s2 : K) : Q → List (Q × K) :=
  let hf := C.q * C.q
  passive2Rows k l
    (hf * (s1 - s2)) (-(hf * (-(c1 - c2))))
    (hf * (c1 + c2)) (-(hf * (s1 + s2)))
    (hf * (c1 + c2)) (-(hf * (s1 + s2)))
    (hf * (-(s1 - s2))) (-(hf * (c1 - c2)))

/-- documented action of the (non-daggered) gate on targets `rs` -/
def docAct (C : Consts K) : Op K → List Nat → Vec K → Vec K
  | .Dg r c s, rs => shiftV (rg rs 0) (C.h * (r * c)) (C.h * (r * s))
  | .Rg c s, rs => actRows (rotRows (rg rs 0) c s)
  | .Sg ch sh c s, rs => actRows (squeezeRows (rg rs 0) c s ch sh)
  | .BSg ct sn c s, rs => actRows (bsDocRows (rg rs 0) (rg rs 1) ct sn c s)
  | .Xg x, rs => shiftV (rg rs 0) x 0
  | .Zg p, rs => shiftV (rg rs 0) 0 p
  | .Pg t _ _ _, rs => actRows (rows1 (rg rs 0) 1 0 (t + t) 1)
  | .CXg _ sh _ _, rs => actRows (cxDocRows (rg rs 0) (rg rs 1) (-(sh + sh)))
  | .CZg _ sh _ _, rs => actRows (czDocRows (rg rs 0) (rg rs 1) (-(sh + sh)))
  | .S2g ch sh c s, rs => actRows (s2DocRows (rg rs 0) (rg rs 1) ch sh c s)
  | .MZg ci si ce se, rs => actRows (mzRows C (rg rs 0) (rg rs 1) ci si ce se)
  | .sMZg c1 s1 c2 s2, rs => actRows (smzRows C (rg rs 0) (rg rs 1) c1 s1 c2 s2)
  | .Fg, rs => actRows (rotRows (rg rs 0) 0 1)
  | _, _ => id

/-- documented action of the daggered gate: for the primitives this is `Gate.apply`'s convention
"negate the first parameter"; for the composite gates the inverse of the documented transformation -/
def docActInv (C : Consts K) : Op K → List Nat → Vec K → Vec K
  | .Dg r c s, rs => shiftV (rg rs 0) (C.h * (-r * c)) (C.h * (-r * s))
  | .Rg c s, rs => actRows (rotRows (rg rs 0) c (-s))
  | .Sg ch sh c s, rs => actRows (squeezeRows (rg rs 0) c s ch (-sh))
  | .BSg ct sn c s, rs => actRows (bsDocRows (rg rs 0) (rg rs 1) ct (-sn) c s)
  | .Xg x, rs => shiftV (rg rs 0) (-x) 0
  | .Zg p, rs => shiftV (rg rs 0) 0 (-p)
  | .Pg t _ _ _, rs => actRows (rows1 (rg rs 0) 1 0 (-(t + t)) 1)
  | .CXg _ sh _ _, rs => actRows (cxDocRows (rg rs 0) (rg rs 1) (sh + sh))
  | .CZg _ sh _ _, rs => actRows (czDocRows (rg rs 0) (rg rs 1) (sh + sh))
  | .S2g ch sh c s, rs => actRows (s2DocRows (rg rs 0) (rg rs 1) ch (-sh) c s)
  | .MZg ci si ce se, rs => actRows (mzInvRows C (rg rs 0) (rg rs 1) ci si ce se)
  | .sMZg c1 s1 c2 s2, rs => actRows (smzInvRows C (rg rs 0) (rg rs 1) c1 s1 c2 s2)
  | .Fg, rs => actRows (rotRows (rg rs 0) 0 (-1))
  | _, _ => id

def semCmd (C : Consts K) (c : Cmd K) : Vec K → Vec K :=
  if c.dagger then docActInv C c.op c.regs else docAct C c.op c.regs

/-- a command list acts in order: the first command first -/
def semList (C : Consts K) (l : List (Cmd K)) (v : Vec K) : Vec K := l.foldl (fun w c => semCmd C c w) v

end sem

/-! ### mesh command builders over opaque angle values -/

inductive MOp (A : Type)
  | R (φ : A)
  | BS (θ φ : A)
  | MZ (a b : A)
  | sMZ (a b : A)
  deriving Repr, DecidableEq

structure MCmd (A : Type) where
  op : MOp A
  regs : List Nat
  deriving Repr, DecidableEq

variable {A : Type}

/-- `range(lo, hi, 2)` -/
def range2 (lo hi : Nat) : List Nat := (List.range ((hi + 1 - lo) / 2)).map fun i => lo + 2 * i

/-- `_rectangular_compact_cmds(reg, phases)`; `phiOuts` = `phases["phi_outs"].items()` in dict order -/
def rectCompactCmds [Add A] [Sub A] (reg : List Nat) (m : Nat) (phiIns : Nat → A) (phiEdges : Nat → Nat → A)
    (deltas sigmas : Nat → Nat → A) (phiOuts : List (Nat × A)) : List (MCmd A) :=
  let ins := (range2 0 (m - 1)).map fun j => ⟨.R (phiIns j), [rg reg j]⟩
  let layers := (List.range m).flatMap fun layer =>
    (if (layer + m + 1) % 2 = 0 then [(⟨.R (phiEdges (m - 1) layer), [rg reg (m - 1)]⟩ : MCmd A)] else []) ++
    (range2 (layer % 2) (m - 1)).map fun mode =>
      ⟨.sMZ (sigmas mode layer + deltas mode layer) (sigmas mode layer - deltas mode layer),
        [rg reg mode, rg reg (mode + 1)]⟩
  let outs := phiOuts.map fun jp => ⟨.R jp.2, [rg reg jp.1]⟩
  ins ++ layers ++ outs

/-- `_triangular_compact_cmds(reg, phases)` -/
def triCompactCmds [Add A] [Sub A] (reg : List Nat) (m : Nat) (phiIns : Nat → A)
    (deltas sigmas : Nat → Nat → A) (zetas : Nat → A) : List (MCmd A) :=
  let body := (List.range (m - 1)).flatMap fun j =>
    (⟨.R (phiIns j), [rg reg (j + 1)]⟩ : MCmd A) ::
    (List.range (j + 1)).map fun k =>
      let n := j - k
      ⟨.sMZ (sigmas n k + deltas n k) (sigmas n k - deltas n k), [rg reg n, rg reg (n + 1)]⟩
  body ++ (List.range m).map fun j => ⟨.R (zetas j), [rg reg j]⟩

/-- the five commands of one SU(2) factor, in build order -/
def su2Cmds [Neg A] (half : A → A) (zero : A) (reg : List Nat) (md1 md2 : Nat) (a b g : A) : List (MCmd A) :=
  [⟨.R (half a), [rg reg md1]⟩, ⟨.R (-(half a)), [rg reg md2]⟩, ⟨.BS (half b) zero, [rg reg md1, rg reg md2]⟩,
   ⟨.R (half g), [rg reg md1]⟩, ⟨.R (-(half g)), [rg reg md2]⟩]

/-- `_sun_compact_cmds(reg, parameters, global_phase)`; `half x = x/2`, `divn x = x/len(reg)`;
`none` = `ValueError` (non-adjacent mode pair) -/
def sunCompactCmds [Neg A] (half divn : A → A) (zero : A) (reg : List Nat)
    (params : List ((Nat × Nat) × (A × A × A))) (globalPhase : Option A) : Option (List (MCmd A)) :=
  let pre : List (MCmd A) := match globalPhase with
    | some gp => reg.map fun mode => ⟨.R (divn gp), [mode]⟩
    | none => []
  let rec go : List ((Nat × Nat) × (A × A × A)) → List (MCmd A) → Option (List (MCmd A))
    | [], acc => some acc
    | ((md1, md2), (a, b, g)) :: rest, acc =>
      if md2 ≠ md1 + 1 then none else go rest (acc ++ su2Cmds half zero reg md1 md2 a b g)
  (go params pre).map List.reverse

/-- one Clements block of `BS1`: `(n, m, θ, φ)` → `Rgate(φ)` then `BSgate(θ, 0)` (or one `MZgate`) -/
def bs1Cmds [DecidableEq A] (zero : A) (clip mod2pi : A → A) (symmetric dropId : Bool) (reg : List Nat)
    (e : Nat × Nat × A × A) : List (MCmd A) :=
  let (n, m, θ0, φ0) := e
  let θ := clip θ0
  let φ := clip φ0
  if symmetric then [⟨.MZ (mod2pi θ) (mod2pi φ), [rg reg n, rg reg m]⟩]
  else
    (if dropId && φ = zero then [] else [⟨.R φ, [rg reg n]⟩]) ++
    (if dropId && θ = zero then [] else [⟨.BS θ zero, [rg reg n, rg reg m]⟩])

/-- one block of `reversed(BS2)`: `BSgate(−θ, 0)` then `Rgate(−φ)` -/
def bs2Cmds [DecidableEq A] [Neg A] (zero : A) (clip : A → A) (dropId : Bool) (reg : List Nat)
    (e : Nat × Nat × A × A) : List (MCmd A) :=
  let (n, m, θ0, φ0) := e
  let θ := clip θ0
  let φ := clip φ0
  (if dropId && θ = zero then [] else [⟨.BS (-θ) zero, [rg reg n, rg reg m]⟩]) ++
  (if dropId && φ = zero then [] else [⟨.R (-φ), [rg reg n]⟩])

/-- local phases: `q = arg(e^{iφ})` or `0` when `|e^{iφ} − 1| < tol` (`none`) -/
def phaseCmds [DecidableEq A] (zero : A) (mod2pi : A → A) (dropId : Bool) (reg : List Nat)
    (R : List (Option A)) : List (MCmd A) :=
  (R.zipIdx).flatMap fun (qo, n) =>
    let q := qo.getD zero
    if dropId && q = zero then [] else [⟨.R (mod2pi q), [rg reg n]⟩]

/-- `Interferometer._decompose` for the meshes `rectangular`, `rectangular_phase_end`,
`rectangular_symmetric`, `triangular` given the factor lists `BS1, R, BS2` -/
def interferometerCmds [DecidableEq A] [Neg A] (zero : A) (clip mod2pi : A → A)
    (identity dropId symmetric : Bool) (reg : List Nat)
    (BS1 : List (Nat × Nat × A × A)) (R : List (Option A)) (BS2 : Option (List (Nat × Nat × A × A))) :
    List (MCmd A) :=
  if !identity || !dropId then
    BS1.flatMap (bs1Cmds zero clip mod2pi symmetric dropId reg) ++ phaseCmds zero mod2pi dropId reg R ++
    (match BS2 with
     | none => []
     | some l => l.reverse.flatMap (bs2Cmds zero clip dropId reg))
  else []

/-- `Interferometer._decompose`, T/MZ meshes: the factor list of the Reck mesh (`triangular`) denotes
`U = T₁⁻¹ ⋯ T_k⁻¹ D` — the local phases come first, then the inverse blocks in list order — so it is
re-filed as `BS1 = []`, `BS2 = reversed(BS1)` before the common emission loop -/
def interferometerDecompose [DecidableEq A] [Neg A] (zero : A) (clip mod2pi : A → A)
    (identity dropId symmetric triangular : Bool) (reg : List Nat)
    (BS1 : List (Nat × Nat × A × A)) (R : List (Option A)) (BS2 : Option (List (Nat × Nat × A × A))) :
    List (MCmd A) :=
  if triangular then interferometerCmds zero clip mod2pi identity dropId symmetric reg [] R (some BS1.reverse)
  else interferometerCmds zero clip mod2pi identity dropId symmetric reg BS1 R BS2

/-! ### templates of the matrix operations, given their factors

`GraphEmbed`, `BipartiteGraphEmbed`, `GaussianTransform`, `Gaussian`: what `_decompose` emits once the
factorisation (Takagi / Bloch-Messiah / Williamson, C17) has produced its factors.  Matrices are opaque
names; numbers are opaque values; every test the source makes on floats enters as a Boolean input. The
options (`mesh`, `drop_identity`, `tol`, `vacuum`) and the keyword-over-attribute precedence are
transcribed, because a dropped option does not change the state and is invisible to a state oracle. -/

inductive XOp (A : Type)
  | sgate (r φ : A)
  | s2gate (r φ : A)
  | interferometer (mat : String) (mesh : String) (dropId : Bool) (tol : A)
  | gaussianTransform (mat : String) (vacuum : Bool)
  | squeezed (r φ : A)
  | thermal (nbar : A)
  | vac
  | xgate (x : A)
  | zgate (p : A)
  deriving Repr, DecidableEq

structure XCmd (A : Type) where
  op : XOp A
  regs : List Nat
  deriving Repr, DecidableEq

/-- defaults of `Interferometer.__init__` (`mesh="rectangular"`, `drop_identity=True`, `tol`) -/
structure IDefaults (A : Type) where
  mesh : String
  dropId : Bool
  tol : A

/-- `GraphEmbed._decompose`: `sq` = `(s, |s| ≥ tol)` per mode, `uId` = `allclose(U, 1)`, `kwMesh` = `kwargs.get("mesh")` -/
def graphEmbedCmds (d : IDefaults A) (zero : A) (identity : Bool) (sq : List (A × Bool)) (uId : Bool)
    (kwMesh : Option String) (reg : List Nat) : List (XCmd A) :=
  if identity then []
  else
    (sq.zipIdx.flatMap fun (sb, n) => if sb.2 then [(⟨.sgate sb.1 zero, [rg reg n]⟩ : XCmd A)] else []) ++
    (if uId then [] else [⟨.interferometer "U" (kwMesh.getD "rectangular") d.dropId d.tol, reg⟩])

/-- `BipartiteGraphEmbed._decompose`: `sq` = `(s, |s| ≥ tol)`; `uId`/`vId` = `allclose(X, 1)` (then `X` is replaced by
the exact identity `"I"`); keyword arguments take precedence over the attributes -/
def bipartiteCmds [DecidableEq A] [Neg A] (zero : A) (identity selfDrop : Bool) (selfTol : A)
    (kwMesh : Option String) (kwDrop : Option Bool) (kwTol : Option A)
    (sq : List (A × Bool)) (uId vId : Bool) (reg : List Nat) : List (XCmd A) :=
  let tol := kwTol.getD selfTol
  let mesh := kwMesh.getD "rectangular"
  let dropId := kwDrop.getD selfDrop
  let N := sq.length
  if !identity || !dropId then
    (sq.zipIdx.flatMap fun (sb, m) =>
      let s := if sb.2 then sb.1 else zero
      if dropId && s = zero then [] else [(⟨.s2gate (-s) zero, [rg reg m, rg reg (m + N)]⟩ : XCmd A)]) ++
    (if dropId && uId then [] else [⟨.interferometer (if uId then "I" else "U") mesh dropId tol, reg.take N⟩]) ++
    (if dropId && vId then [] else [⟨.interferometer (if vId then "I" else "V") mesh dropId tol, reg.drop N⟩])
  else []

/-- `GaussianTransform._decompose`: `sq` = `(|e − 1| ≥ tol, r = |log e|, φ = arg(log e))` per mode;
both interferometers are built with the requested mesh (after the `fix:`; before, `U2` got the default) -/
def gaussianTransformCmds [Neg A] (d : IDefaults A) (active vacuum : Bool) (kwMesh : Option String)
    (sq : List (Bool × A × A)) (reg : List Nat) : List (XCmd A) :=
  let mesh := kwMesh.getD "rectangular"
  if active then
    (if vacuum then [] else [(⟨.interferometer "U2" mesh d.dropId d.tol, reg⟩ : XCmd A)]) ++
    (sq.zipIdx.flatMap fun (e, n) => if e.1 then [(⟨.sgate (-e.2.1) e.2.2, [rg reg n]⟩ : XCmd A)] else []) ++
    [⟨.interferometer "U1" mesh d.dropId d.tol, reg⟩]
  else if vacuum then [] else [⟨.interferometer "U1" mesh d.dropId d.tol, reg⟩]

/-- per-mode data of `Gaussian._decompose`: for each branch the test it makes and the values it emits -/
structure GMode (A : Type) where
  diagBig : Bool      -- |V_xx − 1| ≥ tol                         (pure diagonal branch)
  diagR : A           -- |log V_xx| / 2
  diagSmall : Bool    -- V_xx < 1
  rotBig : Bool       -- not all(v − 1₂ < tol)                     (pure block-diagonal branch)
  rotR : A
  rotPhi : A
  thBig : Bool        -- n̄ ≥ tol, n̄ from the diagonal              (thermal branch)
  thNbar : A
  wBig : Bool         -- |n̄| ≥ tol, n̄ from the Williamson spectrum (general branch)
  wNbar : A

/-- `Gaussian._decompose`; `thermalDiag` = `is_diag and all(D[:n] == D[n:])`; displacements `(u, u ≠ 0)` -/
def gaussianCmds (zero pi : A) (pure isDiag isBlockDiag thermalDiag : Bool) (modes : List (GMode A))
    (xdisp pdisp : List (A × Bool)) (reg : List Nat) : List (XCmd A) :=
  let prep : List (XCmd A) :=
    if pure && isDiag then
      modes.zipIdx.map fun (g, n) =>
        if g.diagBig then ⟨.squeezed g.diagR (if g.diagSmall then zero else pi), [rg reg n]⟩ else ⟨.vac, [rg reg n]⟩
    else if pure && isBlockDiag then
      modes.zipIdx.map fun (g, n) => if g.rotBig then ⟨.squeezed g.rotR g.rotPhi, [rg reg n]⟩ else ⟨.vac, [rg reg n]⟩
    else if !pure && thermalDiag then
      modes.zipIdx.map fun (g, n) => if g.thBig then ⟨.thermal g.thNbar, [rg reg n]⟩ else ⟨.vac, [rg reg n]⟩
    else
      (if !pure then modes.zipIdx.map fun (g, n) => if g.wBig then (⟨.thermal g.wNbar, [rg reg n]⟩ : XCmd A) else ⟨.vac, [rg reg n]⟩
       else reg.map fun r => ⟨.vac, [r]⟩) ++
      [⟨.gaussianTransform "S" pure, reg⟩]
  prep ++ (xdisp.zipIdx.flatMap fun (u, n) => if u.2 then [(⟨.xgate u.1, [rg reg n]⟩ : XCmd A)] else []) ++
    (pdisp.zipIdx.flatMap fun (u, n) => if u.2 then [(⟨.zgate u.1, [rg reg n]⟩ : XCmd A)] else [])

end SFV.Decompose
