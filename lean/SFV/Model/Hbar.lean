import SFV.Model.PhaseSpace
/-
K3, hbar layer (property C15).  Everything in Strawberry Fields below the front end works with
hbar = 2 (`GaussianModes.hbar = BosonicModes.hbar = Circuit._hbar = 2`); the value `sf.hbar` is read
in exactly two places:

* the *front end* (`ops.py`): `Xgate/Zgate._decompose`, `Vgate._apply`, `Gaussian.__init__/_apply`,
  `MeasureHomodyne._apply` (select and returned value), `MSgate._apply` (returned ancilla value) turn
  user parameters written in units of the current hbar into hbar-free back-end calls;
* the *state objects* (`backends/states.py`): `BaseGaussianState.__init__` multiplies the hbar = 2 data by
  `sqrt(hbar/2)` / `hbar/2`, and every observable divides the right power out again.

The model is over a scalar type `K` with one atom `s` standing for `sqrt(hbar/2)`; `hbar/2` is `s*s`,
`sqrt(2 hbar)` is `s+s`, `hbar` is `s*s + s*s`.  Angles occur only through their cos / sin atoms.
Core Lean only (executed over `Rat`).
-/
namespace SFV.Hbar
open SFV.Gauss

variable {K : Type}

/-! ## 1. front end: user operations → hbar-free back-end calls -/

/-- the operations of `ops.py` whose code reads `sf.hbar` (parameters as the *user* writes them, i.e. in
units of the current hbar), `dgate` as the dimensionless reference, and `free g` for every other
(hbar-free) operation `g : G` -/
inductive FOp (K G : Type)
  | dgate (r c sn : K) (dagger : Bool) (k : Nat)      -- Dgate(r, φ), (c, sn) = (cos φ, sin φ)
  | xgate (x : K) (dagger : Bool) (k : Nat)
  | zgate (p : K) (dagger : Bool) (k : Nat)
  | vgate (γ : K) (dagger : Bool) (k : Nat)
  | gaussian (V : List (List K)) (r : List K) (modes : List Nat)   -- Gaussian(V, r), decomp = False
  | homodyne (c sn : K) (select : Option K) (k : Nat)  -- MeasureHomodyne(φ, select)
  | free (g : G)
deriving Repr

/-- the back-end API calls these operations end in (`BaseBackend.displacement`, `cubic_phase`,
`prepare_gaussian_state`, `measure_homodyne`); none of them knows hbar -/
inductive BCall (K G : Type)
  | displacement (r c sn : K) (k : Nat)
  | cubicPhase (γ : K) (k : Nat)
  | prepareGaussian (r : List K) (V : List (List K)) (modes : List Nat)
  | measureHomodyne (c sn : K) (select : Option K) (k : Nat)
  | free (g : G)
deriving Repr, DecidableEq

section frontend
variable [Zero K] [One K] [Add K] [Neg K] [Mul K] [Div K] [DecidableEq K] {G : Type}

/-- `Gate.apply`: nothing is sent to the back end when `p[0] == 0`; an inverted gate sends `-p[0]` -/
def gateP0 (z : K) (dagger : Bool) : Option K :=
  if z = 0 then none else some (if dagger then -z else z)

/-- `Gaussian.__init__`: `V = V / (sf.hbar / 2)` -/
def gaussianInitV (s : K) (V : List (List K)) : List (List K) := V.map fun row => row.map fun v => v / (s * s)

/-- `ops.py` at `sf.hbar = 2 s²`: the back-end calls one user operation produces.
* `Xgate(x)` → `Dgate(x / sqrt(2 hbar), 0)`, `Zgate(p)` → `Dgate(p / sqrt(2 hbar), π/2)` (`_decompose`; the
  inverse flag is handed to the `Dgate`, whose `apply` negates the amplitude);
* `Vgate(γ)` → `cubic_phase(γ · sqrt(hbar/2))`;
* `Gaussian(V, r)` → `prepare_gaussian_state(r / sqrt(hbar/2), V / (hbar/2))`;
* `MeasureHomodyne(φ, select)` → `measure_homodyne(φ, select / sqrt(hbar/2))`. -/
def compile (s : K) : FOp K G → List (BCall K G)
  | .dgate r c sn dg k => match gateP0 r dg with
    | none => []
    | some z => [.displacement z c sn k]
  | .xgate x dg k => match gateP0 (x / (s + s)) dg with
    | none => []
    | some z => [.displacement z 1 0 k]
  | .zgate p dg k => match gateP0 (p / (s + s)) dg with
    | none => []
    | some z => [.displacement z 0 1 k]
  | .vgate γ dg k => match gateP0 γ dg with
    | none => []
    | some z => [.cubicPhase (z * s) k]
  | .gaussian V r modes => [.prepareGaussian (r.map fun x => x / s) (gaussianInitV s V) modes]
  | .homodyne c sn sel k => [.measureHomodyne c sn (sel.map fun v => v / s) k]
  | .free g => [.free g]

def compileProg (s : K) (prog : List (FOp K G)) : List (BCall K G) := prog.flatMap (compile s)

/-- the same experiment written in units where `sqrt(hbar/2) = s`, from its hbar = 2 form: the documented
units are `x, p, r, select ∝ s`, `V ∝ s²`, `γ ∝ 1/s` (`V(γ) = exp(i γ x³ / (3 hbar))`) -/
def rescale (s : K) : FOp K G → FOp K G
  | .xgate x dg k => .xgate (x * s) dg k
  | .zgate p dg k => .zgate (p * s) dg k
  | .vgate γ dg k => .vgate (γ / s) dg k
  | .gaussian V r modes => .gaussian (V.map fun row => row.map fun v => v * (s * s)) (r.map fun x => x * s) modes
  | .homodyne c sn sel k => .homodyne c sn (sel.map fun v => v * s) k
  | op => op

/-- `MeasureHomodyne._apply`: `return s * backend.measure_homodyne(...)` -/
def homodyneResult (s q : K) : K := s * q

/-- `MSgate._apply`, single shot, after the `fix:` commit: `return s * ancillae_val` -/
def msgateResult (s v : K) : K := s * v

/-- the same before the fix: `return ancillae_val / s` -/
def msgateResultOld (s v : K) : K := v / s

/-- run any hbar-free back end (a transition function on calls) -/
def runCalls {σ : Type} (B : σ → BCall K G → σ) (st : σ) (calls : List (BCall K G)) : σ := calls.foldl B st

end frontend

/-! ## 2. state objects (`BaseGaussianState`) -/

/-- `BaseGaussianState` after `__init__` : `_mu`, `_cov` in xxpp ordering, `_hbar` through the atom `s` -/
structure GState (K : Type) where
  n : Nat
  s : K
  mu : Nat → K
  cov : Nat → Nat → K

section state
variable [Zero K] [One K] [Add K] [Sub K] [Neg K] [Mul K] [Div K]

/-- `__init__`: `_mu = data[0] * sqrt(hbar/2)`, `_cov = data[1] * (hbar/2)` -/
def mkState (s : K) (n : Nat) (mu2 : Nat → K) (cov2 : Nat → Nat → K) : GState K :=
  { n := n, s := s, mu := fun i => mu2 i * s, cov := fun i j => cov2 i j * (s * s) }

/-- row/column indices `concatenate([modes, modes + N])` of `reduced_gaussian` -/
def redIdx (n : Nat) (modes : List Nat) : List Nat := modes ++ modes.map (· + n)

/-- `reduced_gaussian(modes)` as lists: means then the covariance rows -/
def reducedGaussian (st : GState K) (modes : List Nat) : List K × List (List K) :=
  let ix := redIdx st.n modes
  (ix.map st.mu, ix.map fun i => ix.map fun j => st.cov i j)

/-- `displacement()`: `alpha = (mu_x + i mu_p) / sqrt(2 hbar)` of one mode, as (re, im) -/
def displacement (st : GState K) (m : Nat) : K × K :=
  (st.mu m / (st.s + st.s), st.mu (m + st.n) / (st.s + st.s))

/-- the matrix `cov / (hbar/2)` of one mode that `is_coherent`, `is_squeezed` and `squeezing` look at:
`(xx, xp, px, pp)` -/
def normCov (st : GState K) (m : Nat) : K × K × K × K :=
  let h2 := st.s * st.s
  (st.cov m m / h2, st.cov m (m + st.n) / h2, st.cov (m + st.n) m / h2, st.cov (m + st.n) (m + st.n) / h2)

/-- `squeezing()`: the two numbers the formulas use, `tr = trace(cov)` and `cov[0, 1]` -/
def squeezingInputs (st : GState K) (m : Nat) : K × K :=
  let c := normCov st m
  (c.1 + c.2.2.2, c.2.1)

/-- `mean_photon(mode)`: `(tr V + μ·μ)/(2 hbar) − 1/2`, `(tr V² + 2 μᵀVμ)/(2 hbar²) − 1/4` -/
def meanPhoton (st : GState K) (m : Nat) : K × K :=
  let hb := st.s * st.s + st.s * st.s
  let x := st.mu m
  let p := st.mu (m + st.n)
  let a := st.cov m m
  let b := st.cov m (m + st.n)
  let b' := st.cov (m + st.n) m
  let d := st.cov (m + st.n) (m + st.n)
  let two : K := 1 + 1
  ((a + d + (x * x + p * p)) / (two * hb) - 1 / two,
   ((a * a + b * b' + (b' * b + d * d)) + two * (x * (a * x + b * p) + p * (b' * x + d * p))) / (two * (hb * hb))
     - 1 / (two * two))

/-- `quad_expectation(mode, φ)`: first entry of `R(φ)ᵀ μ` and top-left entry of `R(φ)ᵀ V R(φ)` -/
def quadExpectation (st : GState K) (m : Nat) (c sn : K) : K × K :=
  let x := st.mu m
  let p := st.mu (m + st.n)
  let a := st.cov m m
  let b := st.cov m (m + st.n)
  let b' := st.cov (m + st.n) m
  let d := st.cov (m + st.n) (m + st.n)
  (c * x + sn * p, c * (a * c + b * sn) + sn * (b' * c + d * sn))

/-- what the thewalrus routines (`probabilities`, `density_matrix_element`, `fidelity`, …) are handed,
normalised the way they normalise it: `(μ / sqrt(hbar/2), V / (hbar/2))` -/
def fockInputs (st : GState K) : (Nat → K) × (Nat → Nat → K) :=
  (fun i => st.mu i / st.s, fun i j => st.cov i j / (st.s * st.s))

/-- `fidelity_coherent(α)`: the reference state `(α·sqrt(2 hbar), 1·hbar/2)`, normalised as above -/
def coherentRef (s re im : K) : (K × K) × K := (((re * (s + s)) / s, (im * (s + s)) / s), (s * s) / (s * s))

end state

/-! ### histories of method calls on one state object -/

inductive Call (K : Type)
  | means
  | cov
  | reduced (modes : List Nat)
  | displacement (m : Nat)
  | isCoherent (m : Nat) (tol : K)
  | isSqueezed (m : Nat) (tol : K)
  | squeezing (m : Nat)
  | meanPhoton (m : Nat)
  | quad (m : Nat) (c sn : K)
deriving Repr

/-- an answer; `dimless` answers must not depend on hbar, `scaled d l` carries `d` powers of `s` per entry -/
inductive Ans (K : Type)
  | nums (l : List K)
  | bool (b : Bool)
deriving Repr, DecidableEq

section hist
variable [Zero K] [One K] [Add K] [Sub K] [Neg K] [Mul K] [Div K] [LT K] [DecidableRel (α := K) (· < ·)]

def absK (x : K) : K := if x < 0 then -x else x

/-- `np.allclose(cov, identity(2), atol = tol, rtol = 0)` -/
def isCoherentOf (c : K × K × K × K) (tol : K) : Bool :=
  !(tol < absK (c.1 - 1)) && !(tol < absK c.2.1) && !(tol < absK c.2.2.1) && !(tol < absK (c.2.2.2 - 1))

/-- `np.any(np.abs(cov - identity(2)) > tol)` -/
def isSqueezedOf (c : K × K × K × K) (tol : K) : Bool :=
  decide (tol < absK (c.1 - 1)) || decide (tol < absK c.2.1) || decide (tol < absK c.2.2.1)
    || decide (tol < absK (c.2.2.2 - 1))

/-- the answer of one method call, made dimensionless with the documented power of `s`
(`means / s`, `cov / s²`, `quad_expectation` mean `/ s` and variance `/ s²`) -/
def answer (st : GState K) : Call K → Ans K
  | .means => .nums ((List.range (st.n + st.n)).map fun i => st.mu i / st.s)
  | .cov => .nums ((List.range (st.n + st.n)).flatMap fun i => (List.range (st.n + st.n)).map fun j => st.cov i j / (st.s * st.s))
  | .reduced modes =>
    let r := reducedGaussian st modes
    .nums (r.1.map (· / st.s) ++ r.2.flatMap fun row => row.map (· / (st.s * st.s)))
  | .displacement m => .nums [(displacement st m).1, (displacement st m).2]
  | .isCoherent m tol => .bool (isCoherentOf (normCov st m) tol)
  | .isSqueezed m tol => .bool (isSqueezedOf (normCov st m) tol)
  | .squeezing m => .nums [(squeezingInputs st m).1, (squeezingInputs st m).2]
  | .meanPhoton m => .nums [(meanPhoton st m).1, (meanPhoton st m).2]
  | .quad m c sn => .nums [(quadExpectation st m c sn).1 / st.s, (quadExpectation st m c sn).2 / (st.s * st.s)]

/-- after the `fix:` commit no method changes the state object -/
def step (st : GState K) (c : Call K) : GState K × Ans K := (st, answer st c)

/-- before the fix: `reduced_gaussian([m])` returns the *stored* `_cov` when `[m] == list(range(N))`, and
`is_coherent`, `is_squeezed`, `squeezing` then executed `cov /= hbar/2` on it -/
def stepOld (st : GState K) (c : Call K) : GState K × Ans K :=
  let aliased (m : Nat) : Bool := st.n == 1 && m == 0
  let st' : GState K := { st with cov := fun i j => st.cov i j / (st.s * st.s) }
  match c with
  | .isCoherent m _ => (if aliased m then st' else st, answer st c)
  | .isSqueezed m _ => (if aliased m then st' else st, answer st c)
  | .squeezing m => (if aliased m then st' else st, answer st c)
  | _ => (st, answer st c)

/-- all answers along a history of calls -/
def history (stp : GState K → Call K → GState K × Ans K) : GState K → List (Call K) → List (Ans K)
  | _, [] => []
  | st, c :: cs => (stp st c).2 :: history stp (stp st c).1 cs

end hist

/-! ## 3. Wigner function of a one-mode Gaussian: exponent and normalisation -/

section wigner
variable [Add K] [Sub K] [Mul K] [Div K]

/-- `det` of the 2×2 covariance `[[a, b], [b, d]]` -/
def det2 (a b d : K) : K := a * d - b * b

/-- `(r − μ)ᵀ V⁻¹ (r − μ)` for `V = [[a, b], [b, d]]` (adjugate over determinant) -/
def wignerExponent (x p mx mp a b d : K) : K :=
  let dx := x - mx
  let dp := p - mp
  (d * (dx * dx) - (b * (dx * dp) + b * (dx * dp)) + a * (dp * dp)) / det2 a b d

/-- `BaseFockState.wigner`: the argument `A = (Q + iP) / (2 sqrt(hbar/2))` as (re, im) -/
def wignerFockArg (s x p : K) : K × K := (x / (s + s), p / (s + s))

end wigner

/-! ## 4. `utils/states.py`, gaussian basis -/

section utils
variable [Add K] [Mul K]

/-- `coherent_state(r, φ, basis="gaussian", hbar)`: `means = (Re a, Im a)·sqrt(2 hbar)`, `cov = 1·hbar/2`
(diagonal entry) -/
def utilsCoherent (s re im : K) : (K × K) × K := ((re * (s + s), im * (s + s)), s * s)

end utils

end SFV.Hbar
