import SFV.Model.Decompose
import SFV.Model.Decomp
/-
C02 — unitary semantics of the mesh commands.  The passive gates `Rgate, BSgate, MZgate, sMZgate` act on the
annihilation operators as `a ↦ U a`; a command multiplies the accumulated unitary from the left with its
documented 2×2 block (docstrings of `ops.py`) embedded at its targets — expressed with the index-level
`leftMix` / `leftPhase` of the C17 model (`SFV.Model.Decomp`), so that the emitted circuit can be compared
with the factorisation's own defining product of `T`, `Ti`, `mach_zehnder`, `M`, SU(2) blocks.
Angles are opaque values of type `A`; `cs : A → K × K` gives their `(cos, sin)`; `hf` is `1/2`.  Core Lean only.
-/
namespace SFV.Decompose
open SFV.Decomp SFV.Decomp.Cx

variable {K A : Type} [Add K] [Mul K] [Sub K] [Neg K] [Zero K] [One K]

/-- `e^{iφ}` from the atoms of `φ` -/
def eOf (cs : A → K × K) (φ : A) : Cx K := ⟨(cs φ).1, (cs φ).2⟩

/-- BSgate docstring: `[[t, −r*], [r, t]]`, `t = cos θ`, `r = e^{iφ} sin θ` -/
def blkBS (ct sn : K) (e : Cx K) : Blk K := ⟨ofReal ct, -(conj e * ofReal sn), e * ofReal sn, ofReal ct⟩

/-- MZgate docstring: `½ [[(e−1)e', i(1+e)], [i(1+e)e', 1−e]]`, `e = e^{iφ_in}`, `e' = e^{iφ_ex}` -/
def blkMZdoc (hf : K) (e e' : Cx K) : Blk K :=
  ⟨ofReal hf * ((e - 1) * e'), ofReal hf * (Cx.I * (1 + e)), ofReal hf * (Cx.I * (1 + e) * e'), ofReal hf * (1 - e)⟩

/-- sMZgate: `½ [[−i(e₁−e₂), e₁+e₂], [e₁+e₂, i(e₁−e₂)]]`, `e_j = e^{iφ_j}` (what its `_decompose` multiplies out to;
`Props.C02.scalar_decomposition_doc`) -/
def blkSMZdoc (hf : K) (e1 e2 : Cx K) : Blk K :=
  ⟨ofReal hf * (-(Cx.I * (e1 - e2))), ofReal hf * (e1 + e2), ofReal hf * (e1 + e2), ofReal hf * (Cx.I * (e1 - e2))⟩

/-- one mesh command multiplies the accumulated unitary from the left -/
def applyM (cs : A → K × K) (hf : K) (c : MCmd A) (W : CMat K) : CMat K :=
  match c.op, c.regs with
  | .R φ, [p] => leftPhase (eOf cs φ) p W
  | .BS θ φ, [p, q] => leftMix (blkBS (cs θ).1 (cs θ).2 (eOf cs φ)) p q W
  | .MZ a b, [p, q] => leftMix (blkMZdoc hf (eOf cs a) (eOf cs b)) p q W
  | .sMZ a b, [p, q] => leftMix (blkSMZdoc hf (eOf cs a) (eOf cs b)) p q W
  | _, _ => W

/-- unitary accumulated by a command list (first command first) -/
def runM (cs : A → K × K) (hf : K) (l : List (MCmd A)) (W : CMat K) : CMat K :=
  l.foldl (fun W c => applyM cs hf c W) W

/-- identity matrix -/
def idM : CMat K := fun i j => if i = j then 1 else 0

/-! the factorisations' own defining products (C17: `T`, `Ti` blocks; diagonal of phases) -/

/-- `∏ T(n, m, θ, φ)` over a factor list, first entry applied first -/
def prodT (cs : A → K × K) (l : List (Nat × Nat × A × A)) (W : CMat K) : CMat K :=
  l.foldl (fun W e => leftMix (blkT (cs e.2.2.1).1 (cs e.2.2.1).2 (eOf cs e.2.2.2)) e.1 e.2.1 W) W

/-- `∏ Ti(n, m, θ, φ)`, first entry applied first -/
def prodTi (cs : A → K × K) (l : List (Nat × Nat × A × A)) (W : CMat K) : CMat K :=
  l.foldl (fun W e => leftMix (blkTi (cs e.2.2.1).1 (cs e.2.2.1).2 (eOf cs e.2.2.2)) e.1 e.2.1 W) W

/-- the diagonal of local phases `diag(e^{iq₀}, e^{iq₁}, …)` -/
def prodPhase (cs : A → K × K) (l : List (A × Nat)) (W : CMat K) : CMat K :=
  l.foldl (fun W qn => leftPhase (eOf cs qn.1) qn.2 W) W

/-- `∏ mach_zehnder(n, m, φ_i, φ_e)` with the half-angle atoms `(c, s)` of `φ_i` supplied by `hcs` -/
def prodMZ (cs : A → K × K) (half : A → K × K) (l : List (Nat × Nat × A × A)) (W : CMat K) : CMat K :=
  l.foldl (fun W e => leftMix (blkMZ (half e.2.2.1).1 (half e.2.2.1).2 (eOf cs e.2.2.2)) e.1 e.2.1 W) W

/-- `∏ SU2(α, β, γ)` over a parameter list, first entry applied first; `half x = x/2` -/
def prodSU2 (cs : A → K × K) (half : A → A) (reg : List Nat) (l : List ((Nat × Nat) × (A × A × A))) (W : CMat K) : CMat K :=
  l.foldl (fun W p => leftMix (blkSU2 (cs (half p.2.2.1)).1 (cs (half p.2.2.1)).2 (eOf cs (half p.2.1)) (eOf cs (half p.2.2.2)))
    (rg reg p.1.1) (rg reg p.1.2) W) W

/-! the compact meshes: their parameter dictionaries describe the physical mesh directly, the defining product is a
sequence of phase shifters `P(j, φ)` and sMZIs `M(n, σ, δ)` (arXiv:2104.07561, eqs. 1, 2) -/

inductive CItem (A : Type)
  | phase (φ : A) (j : Nat)
  | smzi (σ δ : A) (n : Nat)
  deriving Repr, DecidableEq

/-- the defining product of `rectangular_compact` (input phases on even modes, per layer the edge phase and the sMZIs of
that parity, output phases), first item applied first; positions, not targets -/
def rectCompactSpec (m : Nat) (phiIns : Nat → A) (phiEdges : Nat → Nat → A) (deltas sigmas : Nat → Nat → A)
    (phiOuts : List (Nat × A)) : List (CItem A) :=
  (range2 0 (m - 1)).map (fun j => .phase (phiIns j) j) ++
  ((List.range m).flatMap fun layer =>
    (if (layer + m + 1) % 2 = 0 then [CItem.phase (phiEdges (m - 1) layer) (m - 1)] else []) ++
    (range2 (layer % 2) (m - 1)).map fun mode => .smzi (sigmas mode layer) (deltas mode layer) mode) ++
  phiOuts.map fun jp => .phase jp.2 jp.1

/-- the defining product of `triangular_compact` -/
def triCompactSpec (m : Nat) (phiIns : Nat → A) (deltas sigmas : Nat → Nat → A) (zetas : Nat → A) : List (CItem A) :=
  ((List.range (m - 1)).flatMap fun j =>
    CItem.phase (phiIns j) (j + 1) :: (List.range (j + 1)).map fun k => .smzi (sigmas (j - k) k) (deltas (j - k) k) (j - k)) ++
  (List.range m).map fun j => .phase (zetas j) j

/-- the product of `P` and `M` blocks (C17's `blkM`), embedded at the targets -/
def runSpec (cs : A → K × K) (reg : List Nat) (l : List (CItem A)) (W : CMat K) : CMat K :=
  l.foldl (fun W it => match it with
    | .phase φ j => leftPhase (eOf cs φ) (rg reg j) W
    | .smzi σ δ n => leftMix (blkM (cs δ).1 (cs δ).2 (eOf cs σ)) (rg reg n) (rg reg (n + 1)) W) W

end SFV.Decompose
