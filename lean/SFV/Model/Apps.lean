/-!
# K6 — GBS application combinatorics (model of `strawberryfields/apps/{similarity,clique,subgraph,sample}.py`)

Core Lean only.  Every function is a transcription of what the Python code does, branch by branch.
Random choices (`numpy.random.choice`) are an explicit argument `pick : Nat → Nat → Nat`:
`pick step n` is the position returned by the `step`-th call when it is offered `n` alternatives
(theorems quantify over every `pick` with `pick step n < n`).

Conventions.  Graphs are *simple* (no self-loops): `nodes` in `graph.nodes` order, `adj` symmetric.
Node sets are duplicate-free lists.  Orders that Python leaves to set iteration are fixed here to
"`graph.nodes` order restricted to the set"; the harness compares index-scripted runs only on inputs where
all these orders coincide (ascending), and as sets otherwise.
-/
namespace SFV
namespace Apps

/-! ## small list helpers -/

def insertAsc (x : Nat) : List Nat → List Nat
  | [] => [x]
  | y :: ys => if x ≤ y then x :: y :: ys else y :: insertAsc x ys

/-- `sorted(l)` -/
def sortAsc (l : List Nat) : List Nat := l.foldr insertAsc []

/-- `sorted(l, reverse=True)` -/
def sortDesc (l : List Nat) : List Nat := (sortAsc l).reverse

/-- `max(l)` (0 for the empty list, where Python raises) -/
def listMax (l : List Nat) : Nat := l.foldr max 0

/-- distinct values in first-occurrence order (`Counter(l).keys()`, `set(l)` up to order) -/
def distinct : List Nat → List Nat
  | [] => []
  | x :: xs => x :: (distinct xs).filter (fun y => y != x)

def fact : Nat → Nat
  | 0 => 1
  | n + 1 => (n + 1) * fact n

def prodList (l : List Nat) : Nat := l.foldr (· * ·) 1

/-! ## similarity.py -/

/-- `sample_to_orbit`: `sorted(filter(None, sample), reverse=True)` -/
def sampleToOrbit (s : List Nat) : List Nat := sortDesc (s.filter (fun c => c != 0))

/-- `sample_to_event` -/
def sampleToEvent (s : List Nat) (maxCount : Nat) : Option Nat :=
  if listMax s ≤ maxCount then some s.sum else none

/-! ### `orbits`: the imperative generator, transcribed statement by statement -/

/-- `while 2 * x <= y: a[k] = x; y -= x; k += 1` -/
def orbLoopA (x : Nat) : Nat → Array Nat → Nat → Int → Array Nat × Nat × Int
  | 0, a, k, y => (a, k, y)
  | f + 1, a, k, y =>
    if 2 * (x : Int) ≤ y then orbLoopA x f (a.setIfInBounds k x) (k + 1) (y - x) else (a, k, y)

/-- `while x <= y: a[k] = x; a[l] = y; yield sorted(a[:k+2], reverse=True); x += 1; y -= 1`
(yields are accumulated in reverse) -/
def orbLoopB (k l : Nat) : Nat → Nat → Int → Array Nat → List (List Nat) → Nat × Int × Array Nat × List (List Nat)
  | 0, x, y, a, out => (x, y, a, out)
  | f + 1, x, y, a, out =>
    if (x : Int) ≤ y then
      let a := (a.setIfInBounds k x).setIfInBounds l y.toNat
      orbLoopB k l f (x + 1) (y - 1) a (sortDesc (a.extract 0 (k + 2)).toList :: out)
    else (x, y, a, out)

/-- `while k != 0: …` -/
def orbOuter : Nat → Array Nat → Nat → Int → List (List Nat) → List (List Nat)
  | 0, _, _, _, out => out
  | f + 1, a, k, y, out =>
    if k = 0 then out else
      let x := a[k - 1]! + 1
      let k := k - 1
      let (a, k, y) := orbLoopA x (a.size + 1) a k y
      let l := k + 1
      let (x, y, a, out) := orbLoopB k l (a.size + 1) x y a out
      let a := a.setIfInBounds k ((x : Int) + y).toNat
      let y := (x : Int) + y - 1
      orbOuter f a k y (sortDesc (a.extract 0 (k + 1)).toList :: out)

/-- `list(orbits(n))`, imperative transcription (fuel `2^n + 1` ≥ number of outer iterations) -/
def orbitsImp (n : Nat) : List (List Nat) :=
  (orbOuter (2 ^ n + 1) (Array.replicate (n + 1) 0) 1 ((n : Int) - 1) []).reverse

/-! ### `orbits`: the same sequence by structural recursion (ascending compositions in
lexicographic order, which is what the generator enumerates); the theorems are about this form and
the driver reports both so that every run checks `orbitsImp n = orbits n = list(orbits(n))`. -/

/-- ascending compositions of `n` with all parts `≥ m`, lexicographic order -/
def ascFuel : Nat → Nat → Nat → List (List Nat)
  | 0, _, _ => []
  | fuel + 1, m, n =>
    ((List.range' m (n / 2 + 1 - m)).flatMap fun x => (ascFuel fuel x (n - x)).map (x :: ·)) ++ [[n]]

def orbits (n : Nat) : List (List Nat) := (ascFuel (n + 1) 1 n).map List.reverse

/-! ### cardinalities (exact integers; follows the repaired `orbit_cardinality`) -/

/-- `orbit + [0] * (modes - len(orbit))` -/
def orbitSample (orbit : List Nat) (modes : Nat) : List Nat :=
  orbit ++ List.replicate (modes - orbit.length) 0

/-- `prod(factorial(c) for c in Counter(sample).values())` -/
def multProd (s : List Nat) : Nat := prodList ((distinct s).map fun v => fact (s.count v))

/-- `orbit_cardinality` -/
def orbitCardinality (orbit : List Nat) (modes : Nat) : Nat :=
  if modes < orbit.length then 0 else fact modes / multProd (orbitSample orbit modes)

/-- `event_cardinality` -/
def eventCardinality (photons maxCount modes : Nat) : Nat :=
  (((orbits photons).filter fun o => listMax o ≤ maxCount).map fun o => orbitCardinality o modes).sum

/-- the distinct arrangements of a multiset (given as a list of length `k`): choose the first letter
among the distinct values, recurse on the rest.  Specification object for `orbitCardinality`. -/
def dperms : Nat → List Nat → List (List Nat)
  | 0, _ => [[]]
  | k + 1, s => (distinct s).flatMap fun v => (dperms k (s.erase v)).map (v :: ·)

/-! ## graphs -/

structure Graph where
  nodes : List Nat
  adj : Nat → Nat → Bool

/-- graph given by an edge list (driver, examples) -/
def Graph.ofEdges (nodes : List Nat) (edges : List (Nat × Nat)) : Graph :=
  { nodes := nodes
    adj := fun u v => edges.any fun e => (e.1 == u && e.2 == v) || (e.1 == v && e.2 == u) }

inductive Err
  | notSubgraph | notClique | weightLen | notRecognized | minSize | maxSize | maxLtMin | iterations
deriving DecidableEq, Repr

/-- node selection: `"uniform"`, `"degree"`, or a weight vector aligned with `graph.nodes` -/
inductive Sel
  | uniform
  | degree
  | weight (ws : List Int)
deriving Repr

abbrev Pick := Nat → Nat → Nat

/-- element at the position the `step`-th random choice returns -/
def choose {α : Type} (pick : Pick) (step : Nat) (l : List α) (dflt : α) : α :=
  l.getD (pick step l.length) dflt

/-- `w[v]` where `w = {n: node_select[i] for i, n in enumerate(graph.nodes)}` -/
def weightOf (g : Graph) (ws : List Int) (v : Nat) : Int := ws.getD (g.nodes.idxOf v) 0

/-- `graph.degree(v)` -/
def degree (g : Graph) (v : Nat) : Nat := (g.nodes.filter fun u => g.adj v u).length

/-- degree of `v` relative to the node set `S` -/
def degIn (g : Graph) (S : List Nat) (v : Nat) : Nat := (S.filter fun u => g.adj v u).length

/-- positions holding the maximum of `key` (`np.where(keys == keys.max())`), as elements -/
def argmaxs (key : Nat → Int) (l : List Nat) : List Nat :=
  l.filter fun v => l.all fun u => key u ≤ key v

def argmins (key : Nat → Int) (l : List Nat) : List Nat :=
  l.filter fun v => l.all fun u => key v ≤ key u

/-- number of edges of the subgraph induced by `S` -/
def edgeCount (g : Graph) : List Nat → Nat
  | [] => 0
  | u :: rest => (rest.filter fun v => g.adj u v).length + edgeCount g rest

/-- `is_clique(graph.subgraph(S))`: `len(edges) == n * (n - 1) / 2` -/
def isCliqueCount (g : Graph) (S : List Nat) : Bool :=
  edgeCount g S * 2 == S.length * (S.length - 1)

/-- pairwise form (specification) -/
def isCliquePair (g : Graph) (S : List Nat) : Bool :=
  S.all fun u => S.all fun v => u == v || g.adj u v

/-! ## clique.py -/

/-- body of `c_0` (after its clique check): outside nodes adjacent to every clique node -/
def c0 (g : Graph) (C : List Nat) : List Nat :=
  g.nodes.filter fun i => !C.contains i && C.all fun c => g.adj i c

/-- body of `c_1`: pairs (clique node, outside node adjacent to all clique nodes but that one) -/
def c1 (g : Graph) (C : List Nat) : List (Nat × Nat) :=
  g.nodes.filterMap fun i =>
    if C.contains i then none else
      match C.filter (fun c => !g.adj i c) with
      | [c] => some (c, i)
      | _ => none

/-- public `c_0` / `c_1` with their input check -/
def c0E (g : Graph) (C : List Nat) : Except Err (List Nat) :=
  if isCliqueCount g (distinct C) then .ok (c0 g (distinct C)) else .error .notClique

def c1E (g : Graph) (C : List Nat) : Except Err (List (Nat × Nat)) :=
  if isCliqueCount g (distinct C) then .ok (c1 g (distinct C)) else .error .notClique

def selOk (g : Graph) : Sel → Bool
  | .weight ws => ws.length == g.nodes.length
  | _ => true

/-- candidates among which `grow` draws, by selection rule -/
def growCands (g : Graph) (sel : Sel) (cs : List Nat) : List Nat :=
  match sel with
  | .uniform => cs
  | .degree => argmaxs (fun v => (degree g v : Int)) cs
  | .weight ws => argmaxs (weightOf g ws) cs

/-- the `while _c_0:` loop of `grow` (the clique re-check inside `c_0` is dead code there, see
`Proofs/Apps.lean: growLoop_clique` + `isClique_iff`) -/
def growLoop (g : Graph) (sel : Sel) (pick : Pick) : Nat → Nat → List Nat → List Nat
  | 0, _, C => C
  | f + 1, step, C =>
    let cs := sortAsc (c0 g C)
    if cs.isEmpty then C
    else growLoop g sel pick f (step + 1) (choose pick step (growCands g sel cs) 0 :: C)

def checkClique (g : Graph) (clique : List Nat) (sel : Sel) : Except Err Unit :=
  if !(clique.all fun v => g.nodes.contains v) then .error .notSubgraph
  else if !isCliqueCount g (distinct clique) then .error .notClique
  else if !selOk g sel then .error .weightLen
  else .ok ()

/-- `grow(clique, graph, node_select)` -/
def grow (g : Graph) (clique : List Nat) (sel : Sel) (pick : Pick) : Except Err (List Nat) :=
  match checkClique g clique sel with
  | .error e => .error e
  | .ok () => .ok (sortAsc (growLoop g sel pick (g.nodes.length + 1) 0 (distinct clique)))

def swapCands (g : Graph) (sel : Sel) (cs : List (Nat × Nat)) : List (Nat × Nat) :=
  match sel with
  | .uniform => cs
  | .degree => cs.filter fun p => cs.all fun q => degree g q.2 ≤ degree g p.2
  | .weight ws => cs.filter fun p => cs.all fun q => weightOf g ws q.2 ≤ weightOf g ws p.2

/-- `swap(clique, graph, node_select)` -/
def swap (g : Graph) (clique : List Nat) (sel : Sel) (pick : Pick) : Except Err (List Nat) :=
  match checkClique g clique sel with
  | .error e => .error e
  | .ok () =>
    let C := distinct clique
    let cs := c1 g C
    if cs.isEmpty then .ok (sortAsc C)
    else
      let p := choose pick 0 (swapCands g sel cs) (0, 0)
      .ok (sortAsc (p.2 :: C.erase p.1))

/-- candidates for removal: minimum degree inside `S`, then (weights) minimum weight among those -/
def shrinkCands (g : Graph) (ws : Option (List Int)) (S : List Nat) : List Nat :=
  let dmin := argmins (fun v => (degIn g S v : Int)) S
  match ws with
  | none => dmin
  | some ws => argmins (weightOf g ws) dmin

/-- the `while not is_clique(subgraph):` loop of `shrink` -/
def shrinkLoop (g : Graph) (ws : Option (List Int)) (pick : Pick) : Nat → Nat → List Nat → List Nat
  | 0, _, S => S
  | f + 1, step, S =>
    if isCliqueCount g S then S
    else shrinkLoop g ws pick f (step + 1) (S.erase (choose pick step (shrinkCands g ws S) 0))

/-- `shrink(subgraph, graph, node_select)`; `S` is kept in `graph.nodes` order -/
def shrink (g : Graph) (sub : List Nat) (sel : Sel) (pick : Pick) : Except Err (List Nat) :=
  if !(sub.all fun v => g.nodes.contains v) then .error .notSubgraph
  else if !selOk g sel then .error .weightLen
  else
    let S := g.nodes.filter fun v => sub.contains v
    match sel with
    | .degree => if isCliqueCount g S then .ok (sortAsc S) else .error .notRecognized
    | .uniform => .ok (sortAsc (shrinkLoop g none pick (S.length + 1) 0 S))
    | .weight ws => .ok (sortAsc (shrinkLoop g (some ws) pick (S.length + 1) 0 S))

/-! ### `clique.search`: repeated grow + swap -/

/-- the random choices seen by a callee that starts after `k` choices were already consumed -/
def shiftPick (pick : Pick) (k : Nat) : Pick := fun s n => pick (s + k) n

/-- `set(a) == set(b)` -/
def setEq (a b : List Nat) : Bool := (a.all fun x => b.contains x) && (b.all fun x => a.contains x)

/-- the recursion of `clique.search` with `it + 1` iterations left, `step` random choices consumed so far.
Each round calls `grow` and then `swap` WITH THE SAME `sel`; `grow` consumes one choice per node added,
`swap` one choice iff `C1` is non-empty. -/
def cliqueSearchLoop (g : Graph) (sel : Sel) (pick : Pick) : Nat → Nat → List Nat → Except Err (List Nat)
  | 0, _, C => .ok C
  | it + 1, step, C =>
    match grow g C sel (shiftPick pick step) with
    | .error e => .error e
    | .ok grown =>
      let step1 := step + (grown.length - (distinct C).length)
      match swap g grown sel (shiftPick pick step1) with
      | .error e => .error e
      | .ok swapped =>
        let step2 := step1 + (if (c1 g (distinct grown)).isEmpty then 0 else 1)
        if setEq grown swapped || it == 0 then .ok swapped
        else cliqueSearchLoop g sel pick it step2 swapped

/-- `clique.search(clique, graph, iterations, node_select)` -/
def cliqueSearch (g : Graph) (clique : List Nat) (iterations : Nat) (sel : Sel) (pick : Pick) :
    Except Err (List Nat) :=
  if iterations < 1 then .error .iterations else cliqueSearchLoop g sel pick iterations 0 clique

/-! ## subgraph.py -/

/-- candidates for addition in `resize`: outside nodes of maximum degree relative to `S`,
then (weights) maximum weight among those -/
def resizeGrowCands (g : Graph) (ws : Option (List Int)) (S : List Nat) : List Nat :=
  let comp := g.nodes.filter fun v => !S.contains v
  let dmax := argmaxs (fun v => (degIn g S v : Int)) comp
  match ws with
  | none => dmax
  | some ws => argmaxs (weightOf g ws) dmax

/-- growth phase: returns the recorded `(size, sorted nodes)` entries (in order) and the next step -/
def resizeGrow (g : Graph) (ws : Option (List Int)) (pick : Pick) (minS maxS : Nat) :
    Nat → Nat → List Nat → List (Nat × List Nat) → List (Nat × List Nat) × Nat
  | 0, step, _, acc => (acc, step)
  | f + 1, step, S, acc =>
    if S.length < maxS then
      let S' := S ++ [choose pick step (resizeGrowCands g ws S) 0]
      let acc := if minS ≤ S'.length ∧ S'.length ≤ maxS then acc ++ [(S'.length, sortAsc S')] else acc
      resizeGrow g ws pick minS maxS f (step + 1) S' acc
    else (acc, step)

def resizeShrink (g : Graph) (ws : Option (List Int)) (pick : Pick) (minS maxS : Nat) :
    Nat → Nat → List Nat → List (Nat × List Nat) → List (Nat × List Nat) × Nat
  | 0, step, _, acc => (acc, step)
  | f + 1, step, S, acc =>
    if minS < S.length then
      let S' := S.erase (choose pick step (shrinkCands g ws S) 0)
      let acc := if minS ≤ S'.length ∧ S'.length ≤ maxS then acc ++ [(S'.length, sortAsc S')] else acc
      resizeShrink g ws pick minS maxS f (step + 1) S' acc
    else (acc, step)

/-- `_validate_inputs` -/
def validateResize (g : Graph) (sub : List Nat) (minS maxS : Nat) (sel : Sel) :
    Except Err (Option (List Int)) :=
  if !(sub.all fun v => g.nodes.contains v) then .error .notSubgraph
  else if minS < 1 then .error .minSize
  else if maxS ≥ g.nodes.length then .error .maxSize
  else if maxS < minS then .error .maxLtMin
  else match sel with
    | .weight ws => if ws.length == g.nodes.length then .ok (some ws) else .error .weightLen
    | .uniform => .ok none
    | .degree => .error .notRecognized

/-- `resize(subgraph, graph, min_size, max_size, node_select)` started at random-choice number
`step0`; returns the dictionary as an association list (insertion order) and the next step -/
def resizeFrom (g : Graph) (sub : List Nat) (minS maxS : Nat) (sel : Sel) (pick : Pick) (step0 : Nat) :
    Except Err (List (Nat × List Nat) × Nat) :=
  match validateResize g sub minS maxS sel with
  | .error e => .error e
  | .ok ws =>
    let S := g.nodes.filter fun v => sub.contains v
    let acc := if minS ≤ S.length ∧ S.length ≤ maxS then [(S.length, sortAsc S)] else []
    let (acc, step) := resizeGrow g ws pick minS maxS (g.nodes.length + 1) step0 S acc
    let (acc, step) := resizeShrink g ws pick minS maxS (S.length + 1) step S acc
    .ok (acc, step)

def resize (g : Graph) (sub : List Nat) (minS maxS : Nat) (sel : Sel) (pick : Pick) :
    Except Err (List (Nat × List Nat)) :=
  (resizeFrom g sub minS maxS sel pick 0).map (·.1)

/-! ### top lists -/

/-- Python's list `<` on node lists -/
def listLt : List Nat → List Nat → Bool
  | [], [] => false
  | [], _ :: _ => true
  | _ :: _, [] => false
  | a :: as, b :: bs => a < b || (a == b && listLt as bs)

section TopList
variable {D : Type} [LT D] [DecidableRel (α := D) (· < ·)] [DecidableEq D]

/-- tuple `<` on `(density, nodes)` -/
def entryLt (a b : D × List Nat) : Bool :=
  decide (a.1 < b.1) || (decide (a.1 = b.1) && listLt a.2 b.2)

def insertDesc (x : D × List Nat) : List (D × List Nat) → List (D × List Nat)
  | [] => [x]
  | y :: ys => if entryLt x y then y :: insertDesc x ys else x :: y :: ys

/-- `l.sort(reverse=True)` -/
def sortEntries (l : List (D × List Nat)) : List (D × List Nat) := l.foldr insertDesc []

/-- `_update_subgraphs_list(l, t, max_count)`; `coin` is the result of `np.random.choice(2)`;
the Boolean says whether the coin was used -/
def updateList (l : List (D × List Nat)) (t : D × List Nat) (maxCount : Nat) (coin : Bool) :
    List (D × List Nat) × Bool :=
  let t : D × List Nat := (t.1, sortAsc (distinct t.2))
  if l.any (fun e => e.2 == t.2) then (l, false)
  else if l.length < maxCount then (sortEntries (l ++ [t]), false)
  else
    match l.getLast? with
    | none => (l, false)   -- Python: IndexError on `l[-1]` (empty list with max_count = 0)
    | some last =>
      if last.1 < t.1 then ((sortEntries (l ++ [t])).dropLast, false)
      else if t.1 = last.1 then
        (if coin then sortEntries (l.dropLast ++ [t]) else l, true)
      else (l, false)

end TopList

/-- `nx.density(graph.subgraph(S))` -/
def density (g : Graph) (S : List Nat) : Rat :=
  let n := S.length
  let m := edgeCount g S
  if m = 0 ∨ n ≤ 1 then 0 else mkRat (2 * m) (n * (n - 1))

abbrev Dense := List (Nat × List (Rat × List Nat))

/-- `_update_dict` for one `(size, t)` pair -/
def updateDict1 (d : Dense) (size : Nat) (t : Rat × List Nat) (maxCount : Nat) (pick : Pick) (step : Nat) :
    Dense × Nat :=
  match d.find? (fun e => e.1 == size) with
  | none =>
    -- `d.setdefault(size, [t])` then the update finds `t` already present
    let (l, used) := updateList [t] t maxCount (pick step 2 == 1)
    (d ++ [(size, l)], if used then step + 1 else step)
  | some (_, l) =>
    let (l', used) := updateList l t maxCount (pick step 2 == 1)
    (d.map (fun e => if e.1 == size then (size, l') else e), if used then step + 1 else step)

def updateDict (d : Dense) (r : List (Nat × Rat × List Nat)) (maxCount : Nat) (pick : Pick) (step : Nat) :
    Dense × Nat :=
  r.foldl (fun (acc : Dense × Nat) e => updateDict1 acc.1 e.1 e.2 maxCount pick acc.2) (d, step)

/-- `search(subgraphs, graph, min_size, max_size, max_count, node_select)` -/
def searchFrom (g : Graph) (minS maxS maxCount : Nat) (sel : Sel) (pick : Pick) :
    List (List Nat) → Dense → Nat → Except Err Dense
  | [], d, _ => .ok d
  | s :: rest, d, step =>
    match resizeFrom g s minS maxS sel pick step with
    | .error e => .error e
    | .ok (r, step) =>
      let r' := r.map fun e => (e.1, density g e.2, e.2)
      let (d, step) := updateDict d r' maxCount pick step
      searchFrom g minS maxS maxCount sel pick rest d step

def search (g : Graph) (subs : List (List Nat)) (minS maxS maxCount : Nat) (sel : Sel) (pick : Pick) :
    Except Err Dense :=
  searchFrom g minS maxS maxCount sel pick subs [] 0

/-! ## sample.py -/

/-- `postselect` -/
def postselect (samples : List (List Nat)) (minC maxC : Nat) : List (List Nat) :=
  samples.filter fun s => minC ≤ s.sum ∧ s.sum ≤ maxC

/-- `modes_from_counts` -/
def modesFromCountsAux : Nat → List Nat → List Nat
  | _, [] => []
  | i, c :: cs => List.replicate c i ++ modesFromCountsAux (i + 1) cs

def modesFromCounts (s : List Nat) : List Nat := sortAsc (modesFromCountsAux 0 s)

/-- `to_subgraphs` for one sample (as a set: ascending order) -/
def toSubgraph (g : Graph) (s : List Nat) : List Nat :=
  let idx := distinct (modesFromCounts s)
  if g.nodes == List.range g.nodes.length then idx
  else sortAsc (idx.map fun i => g.nodes.getD i 0)

def toSubgraphs (g : Graph) (samples : List (List Nat)) : List (List Nat) := samples.map (toSubgraph g)

end Apps
end SFV
