import SFV.Model.GaussNM
import SFV.Model.Apps
/-
K6b — calculus / algebra skeleton of the trainable-GBS and chemistry helpers
(`apps/train/{embed,param,cost}.py`, `apps/qchem/{vibronic,dynamics,utils}.py`,
`apps/similarity.py: prob_orbit_exact, prob_event_exact`).

Transcendental quantities never occur as numbers: a weight `w_i = exp(-f_i·θ)`, a square root
`s_i = √w_i`, `√ω`, `cos/sin` of a rotation angle, a determinant ratio, a logarithm … are *atoms*
(arbitrary scalars) handed to the model; the theorems carry the relations they need
(`s_i·s_i = w_i`, `c² + s² = 1`, `w_i ≠ 0`, …).  Scalars are an arbitrary type with field operations
(executed over `Rat`, where every float64 the implementation produces is an exact value).

Vectors and matrices are total functions `Nat → K`, `Nat → Nat → K` with explicit sizes (only indices
below the size matter); photon patterns are `List Nat`.  Core Lean only.
-/
namespace SFV.Train

variable {K : Type}

/-! ### finite sums and products -/

/-- `Σ_{k<n} f k` -/
def sumTo [Zero K] [Add K] : Nat → (Nat → K) → K
  | 0, _ => 0
  | n + 1, f => sumTo n f + f n

/-- `Π_{k<n} f k` -/
def prodTo [One K] [Mul K] : Nat → (Nat → K) → K
  | 0, _ => 1
  | n + 1, f => prodTo n f * f n

/-- sum of a list -/
def sumL [Zero K] [Add K] : List K → K
  | [] => 0
  | x :: xs => x + sumL xs

/-- `x ^ n` by repeated multiplication (`np.power(w, sample)` on integer counts) -/
def pw [One K] [Mul K] (x : K) : Nat → K
  | 0 => 1
  | n + 1 => pw x n * x

/-- the `k`-th count of a photon pattern (0 beyond its length) -/
def cnt (n : List Nat) (k : Nat) : Nat := n.getD k 0

section ring
variable [Zero K] [One K] [Add K] [Sub K] [Neg K] [Mul K]

/-! ### `embed.py` — `ExpFeatures` -/

inductive Err | dimMismatch | emptySamples | emptyState | lenMismatch
deriving DecidableEq, Repr

/-- `-features @ params`: the exponent of every weight (`weights = np.exp` of this vector);
`ValueError` when the parameter vector does not have `d` entries -/
def exponents (m d : Nat) (F : Nat → Nat → K) (θ : Nat → K) (lenθ : Nat) : Except Err (Nat → K) :=
  if d ≠ lenθ then .error .dimMismatch
  else .ok fun i => if i < m then -(sumTo d fun j => F i j * θ j) else 0

/-- `jacobian`: `-features * w[:, newaxis]`, i.e. `J i j = -F i j * w i` -/
def jacobian (F : Nat → Nat → K) (w : Nat → K) : Nat → Nat → K := fun i j => -(F i j) * w i

/-- `Exp(dim)`: the feature matrix is the identity -/
def expFeatures : Nat → Nat → K := fun i j => if i = j then 1 else 0

/-! ### `param.py` — matrices -/

/-- matrix product of `n × n` matrices -/
def mm (n : Nat) (A B : Nat → Nat → K) : Nat → Nat → K := fun i j => sumTo n fun k => A i k * B k j

/-- `np.diag(v)` -/
def diag (v : Nat → K) : Nat → Nat → K := fun i j => if i = j then v i else 0

/-- `np.diag(a) @ A @ np.diag(b)` as the code computes it (two matrix products) -/
def dAd (n : Nat) (a : Nat → K) (A : Nat → Nat → K) (b : Nat → K) : Nat → Nat → K :=
  mm n (mm n (diag a) A) (diag b)

/-- `VGBS.W(params) = np.sqrt(np.diag(w))` with `s i = √(w i)` (and `√0 = 0` off the diagonal) -/
def vgbsW (s : Nat → K) : Nat → Nat → K := diag s

/-- `VGBS.A(params) = W @ A_init @ W` -/
def vgbsA (n : Nat) (s : Nat → K) (A : Nat → Nat → K) : Nat → Nat → K := dAd n s A s

/-- `_Omat(A) = [[0, conj A], [A, 0]]` (size `2n`) -/
def omat (n : Nat) (conj : K → K) (A : Nat → Nat → K) : Nat → Nat → K := fun i j =>
  if i < n then (if j < n then 0 else conj (A i (j - n)))
  else (if j < n then A (i - n) j else 0)

/-- `A_to_cov` given the inverse `X = (I - O)⁻¹`: `hbar * (X - I/2)`; `half = 1/2` -/
def covOfInverse (hbar half : K) (X : Nat → Nat → K) : Nat → Nat → K := fun i j =>
  hbar * (X i j - (if i = j then half else 0))

/-! ### the exponential family `P_w(n) = c(n) Π_k w_k^{n_k} / Z(w)` over a finite support -/

/-- `Π_k w_k^{n_k}` (`np.prod(np.power(w, sample))`) -/
def mono (m : Nat) (w : Nat → K) (n : List Nat) : K := prodTo m fun k => pw (w k) (cnt n k)

/-- a finite support: patterns with their `θ`-independent coefficients `c(n)` -/
abbrev Support (K : Type) := List (List Nat × K)

/-- the partition function `Z(w) = Σ_n c(n) Π w^n` -/
def Z (m : Nat) (w : Nat → K) (S : Support K) : K := sumL (S.map fun e => e.2 * mono m w e.1)

/-- un-normalised first moment `Σ_n n_k c(n) Π w^n` -/
def M1 [NatCast K] (m : Nat) (w : Nat → K) (S : Support K) (k : Nat) : K :=
  sumL (S.map fun e => (cnt e.1 k : K) * (e.2 * mono m w e.1))

/-- formal partial derivative `∂/∂w_k` of the monomial: `n_k w_k^{n_k - 1} Π_{j≠k} w_j^{n_j}` -/
def dmono [NatCast K] (m : Nat) (w : Nat → K) (n : List Nat) (k : Nat) : K :=
  (cnt n k : K) * (pw (w k) (cnt n k - 1) * prodTo m fun j => if j = k then 1 else pw (w j) (cnt n j))

/-- formal partial derivative of `Z` -/
def dZ [NatCast K] (m : Nat) (w : Nat → K) (S : Support K) (k : Nat) : K :=
  sumL (S.map fun e => e.2 * dmono m w e.1 k)

end ring

section field
variable [Zero K] [One K] [Add K] [Sub K] [Neg K] [Mul K] [Div K] [NatCast K]

/-- `P_w(n)` -/
def prob (m : Nat) (w : Nat → K) (S : Support K) (e : List Nat × K) : K := e.2 * mono m w e.1 / Z m w S

/-- `⟨n_k⟩_w` -/
def meanN (m : Nat) (w : Nat → K) (S : Support K) (k : Nat) : K := M1 m w S k / Z m w S

/-! ### `cost.py` -/

/-- `np.mean(data, axis=0)[k]` -/
def meanData (data : List (List Nat)) (k : Nat) : K :=
  sumL (data.map fun s => (cnt s k : K)) / (data.length : K)

/-- `KL.grad`: `(n_diff / weights) @ jacobian` with `n_diff = mean_model - mean_data` -/
def klGrad (m : Nat) (F : Nat → Nat → K) (w nModel nData : Nat → K) : Nat → K := fun j =>
  sumTo m fun k => (nModel k - nData k) / w k * jacobian F w k j

/-- `KL.evaluate`: `-Σ_S log P(S) / T`; the logarithms are atoms -/
def klCost (logP : List K) : K := -(sumL logP) / (logP.length : K)

/-- `Stochastic.h_reparametrized`: `h * dets * Π w^n` with `dets = √(det(I-O(A(θ))) / det(I-O(A)))` an atom -/
def hRep (m : Nat) (h dets : K) (w : Nat → K) (n : List Nat) : K := h * dets * mono m w n

/-- `Stochastic._gradient_one_sample`: `h(n,θ) * ((n - ⟨n⟩) / w) @ jac` -/
def gradOne (m : Nat) (F : Nat → Nat → K) (w nModel : Nat → K) (hrep : K) (n : List Nat) : Nat → K := fun j =>
  sumTo m fun k => hrep * (((cnt n k : K) - nModel k) / w k) * jacobian F w k j

/-- `Stochastic.evaluate` on a fixed sample set: the mean of `h_reparametrized` -/
def stochCost (hreps : List K) : K := sumL hreps / (hreps.length : K)

/-- `Stochastic.grad`: the mean over the samples of the one-sample gradients -/
def stochGrad (m : Nat) (F : Nat → Nat → K) (w nModel : Nat → K) (samples : List (K × List Nat)) : Nat → K :=
  fun j => sumL (samples.map fun e => gradOne m F w nModel e.1 e.2 j) / (samples.length : K)

/-- `VGBS.n_mean` -/
def nMean (m : Nat) (byMode : Nat → K) : K := sumTo m byMode

/-! ### `utils.prob` -/

/-- relative frequency of `state` among `samples` -/
def probState (samples : List (List Nat)) (state : List Nat) : Except Err K :=
  match samples with
  | [] => .error .emptySamples
  | s0 :: _ =>
    if state.length = 0 then .error .emptyState
    else if state.length ≠ s0.length then .error .lenMismatch
    else .ok ((samples.count state : K) / (samples.length : K))

end field

/-! ### sample store of `VGBS` (`add_A_init_samples`, `get_A_init_samples`) -/

/-- `get_A_init_samples(n)`: when fewer than `n` samples are stored, `n - stored` new ones are generated
(from the *initial* matrix) and appended; the first `n` stored samples are returned.  Samples are
abstract (`α`); `fresh k` is the generator asked for `k` samples.  Returns (new store, result, requested). -/
def getSamples {α : Type} (store : List α) (n : Nat) (fresh : Nat → List α) : List α × List α × Nat :=
  if store.length < n then
    let st := store ++ fresh (n - store.length)
    (st, st.take n, n - store.length)
  else (store, store.take n, 0)

/-- which thewalrus sampler `generate_samples` calls -/
def samplerName (threshold : Bool) : String :=
  if threshold then "torontonian_sample_state" else "hafnian_sample_state"

/-! ### `dynamics.TimeEvolution`, `vibronic.VibronicTransition` as command lists -/

inductive QOp
  | interferometer (which : Nat) (modes : List Nat)   -- `which` = 1 / 2: U1 / U2
  | sgate (par : Nat) (mode : Nat)                     -- `Sgate(r[par]) | q[mode]`
  | dgate (par : Nat) (mode : Nat)                     -- `Dgate(|alpha[par]|, arg alpha[par]) | q[mode]`
  | rgate (par : Nat) (mode : Nat)                     -- `Rgate(theta[par]) | q[mode]`
  | s2gate (par : Nat) (m1 m2 : Nat)                   -- `S2gate(t[par]) | (q[m1], q[m2])`
  | fock (par : Nat) (mode : Nat)                      -- `Fock(input_state[par]) | q[mode]`
  | loss (mode : Nat)                                  -- `LossChannel(1 - loss) | q[mode]`
  | measureFock (modes : List Nat)                     -- `MeasureFock() | q`
deriving DecidableEq, Repr

/-- `TimeEvolution(w, t)`: one `Rgate(theta[i])` on mode `i` -/
def timeEvolutionOps (n : Nat) : List QOp := (List.range n).map fun i => .rgate i i

/-- `VibronicTransition(U1, r, U2, alpha)` -/
def vibronicOps (n : Nat) : List QOp :=
  [.interferometer 1 (List.range n)] ++ ((List.range n).map fun i => .sgate i i) ++
  [.interferometer 2 (List.range n)] ++ ((List.range n).map fun i => .dgate i i)

section ring2
variable [Zero K] [One K] [Add K] [Sub K] [Neg K] [Mul K]

/-- `theta = -w * 100 * c * 1e-15 * t * (2 pi)`; `kc = 100 * c * 1e-15` and `twoPi` are passed in -/
def theta (w : Nat → K) (kc t twoPi : K) : Nat → K := fun i => -(w i) * kc * t * twoPi

/-- the action of `TimeEvolution` on the Gaussian simulator: `phase_shift(theta_i, i)` for `i = 0..n-1`,
each angle given by its atoms `(cos, sin)` -/
def timeEvolve (st : Gauss.GS K) : List (K × K) → Nat → Gauss.GS K
  | [], _ => st
  | (c, s) :: rest, i => timeEvolve (Gauss.phaseShift st c s i) rest (i + 1)

/-- an arbitrary sequence of rotations on arbitrary modes -/
def rotations (st : Gauss.GS K) : List (K × K × Nat) → Gauss.GS K
  | [] => st
  | (c, s, k) :: rest => rotations (Gauss.phaseShift st c s k) rest

/-- `gbs_params`: the matrix handed to the SVD, `diag(wp**0.5) @ Ud @ diag(w**-0.5)`;
`sp i = √wp_i`, `swi j = 1/√w_j` are atoms -/
def duschJ (n : Nat) (sp : Nat → K) (Ud : Nat → Nat → K) (swi : Nat → K) : Nat → Nat → K := dAd n sp Ud swi

/-- position / momentum blocks of the symplectic matrix of `R(U2) S(log σ) R(U1)` (real `U1`, `U2`):
`U2 diag(σ⁻¹) U1` and `U2 diag(σ) U1` -/
def doktorovBlock (n : Nat) (U2 : Nat → Nat → K) (σ : Nat → K) (U1 : Nat → Nat → K) : Nat → Nat → K :=
  mm n (mm n U2 (diag σ)) U1

/-- `alpha = delta / sqrt(2)` -/
def alphaOf (δ : Nat → K) (invSqrt2 : K) : Nat → K := fun i => δ i * invSqrt2

/-! ### `similarity.prob_orbit_exact`, `prob_event_exact` -/

/-- the patterns summed by `prob_orbit_exact`: all distinct arrangements of `orbit ++ zeros`
(`multiset_permutations(click)`); none when the orbit has more parts than modes (after the `fix:` commit) -/
def orbitPatterns (orbit : List Nat) (modes : Nat) : List (List Nat) :=
  if modes < orbit.length then [] else Apps.dperms modes (Apps.orbitSample orbit modes)

/-- `prob_orbit_exact` for a state with pattern probabilities `P` -/
def probOrbit (P : List Nat → K) (orbit : List Nat) (modes : Nat) : K :=
  sumL ((orbitPatterns orbit modes).map P)

/-- `prob_event_exact`: the orbits of `photons` with no part above `maxCount` -/
def probEvent (P : List Nat → K) (photons maxCount modes : Nat) : K :=
  sumL (((Apps.orbits photons).filter fun o => Apps.listMax o ≤ maxCount).map fun o => probOrbit P o modes)

end ring2

/-! ### the sampling programs of `vibronic.sample`, `dynamics.sample_fock / sample_tmsv / sample_coherent` -/

def lossOps (loss : Bool) (modes : Nat) : List QOp := if loss then (List.range modes).map .loss else []

/-- `vibronic.sample`: `anyT` = some two-mode squeezing parameter is non-zero (then `2N` modes and one `S2gate` per
pair, zero parameters included), `loss` = the loss parameter is non-zero -/
def vibSampleModes (n : Nat) (anyT : Bool) : Nat := if anyT then 2 * n else n

def vibSampleOps (n : Nat) (anyT loss : Bool) : List QOp :=
  (if anyT then (List.range n).map fun i => QOp.s2gate i i (i + n) else []) ++ vibronicOps n ++
  lossOps loss (vibSampleModes n anyT) ++ [.measureFock (List.range (vibSampleModes n anyT))]

/-- columns appended to the samples: `N` zero columns exactly when the `N`-mode program was run (after the `fix:`) -/
def vibSamplePad (n : Nat) (anyT : Bool) : Nat := if anyT then 0 else n

/-- the interferometer / time-evolution / interferometer core shared by the three `dynamics` samplers
(`which = 1`: `Ul.T`, `which = 2`: `Ul`) -/
def dynCore (n : Nat) : List QOp :=
  [.interferometer 1 (List.range n)] ++ timeEvolutionOps n ++ [.interferometer 2 (List.range n)]

def dynFockOps (n : Nat) (loss : Bool) : List QOp :=
  ((List.range n).map fun i => QOp.fock i i) ++ dynCore n ++ lossOps loss n ++ [.measureFock (List.range n)]

def dynTmsvOps (n : Nat) (loss : Bool) : List QOp :=
  ((List.range n).map fun i => QOp.s2gate i i (i + n)) ++ dynCore n ++ lossOps loss (2 * n) ++
  [.measureFock (List.range (2 * n))]

def dynCoherentOps (n : Nat) (loss : Bool) : List QOp :=
  ((List.range n).map fun i => QOp.dgate i i) ++ dynCore n ++ lossOps loss n ++ [.measureFock (List.range n)]

/-- modes an operation acts on -/
def QOp.modes : QOp → List Nat
  | .interferometer _ ms => ms
  | .sgate _ m => [m] | .dgate _ m => [m] | .rgate _ m => [m] | .fock _ m => [m] | .loss m => [m]
  | .s2gate _ a b => [a, b]
  | .measureFock ms => ms

/-! ### `vibronic.energies`, `utils.duschinsky`, `utils.marginals` -/

section chem
variable [Zero K] [One K] [Add K] [Sub K] [Neg K] [Mul K] [NatCast K]

/-- `np.dot(counts, freqs)` -/
def dotCounts : List Nat → (Nat → K) → Nat → K
  | [], _, _ => 0
  | c :: rest, f, k => (c : K) * f k + dotCounts rest f (k + 1)

/-- `energies` of one sample: `Σ_{k<N} m_k ω'_k − Σ_{k<N} n_k ω_k`, the sample split at `len // 2` -/
def energy (s : List Nat) (wp w : Nat → K) : K :=
  dotCounts (s.take (s.length / 2)) wp 0 - dotCounts (s.drop (s.length / 2)) w 0

/-- `duschinsky`: `U = Lf.T @ Li` (`a` = the `3N` Cartesian coordinates) -/
def duschU (a : Nat) (Lf Li : Nat → Nat → K) : Nat → Nat → K := fun k l => sumTo a fun x => Lf x k * Li x l

/-- `d = Lf.T * m**0.5 @ (ri - rf)`; `sm x = √m_x` -/
def duschD (a : Nat) (Lf : Nat → Nat → K) (sm ri rf : Nat → K) : Nat → K := fun k =>
  sumTo a fun x => Lf x k * sm x * (ri x - rf x)

/-- `delta = d @ l0_inv` with `l0_inv = np.diag(linv)` -/
def duschDelta (a M : Nat) (Lf : Nat → Nat → K) (sm ri rf linv : Nat → K) : Nat → K := fun k =>
  sumTo M fun j => duschD a Lf sm ri rf j * diag linv j k

/-- `marginals`: the calls `density_matrix_element(reduced(mode), [i], [i])` in the order they are made -/
def marginalCalls (nModes nMax : Nat) : List (Nat × Nat) :=
  (List.range nModes).flatMap fun mode => (List.range nMax).map fun i => (mode, i)

/-- rows / columns `reduced_gaussian(mu, V, mode)` keeps (xxpp ordering, `n` modes) -/
def reducedIdx (n mode : Nat) : List Nat := [mode, mode + n]

inductive MargErr | notSquare | lenMismatch | nMax
deriving DecidableEq, Repr

/-- argument checks of `marginals`; returns `(n_modes, n_max)` = the shape of the result -/
def marginalsShape (lenMu rowsV colsV : Nat) (nMax : Int) : Except MargErr (Nat × Nat) :=
  if rowsV ≠ colsV then .error .notSquare
  else if lenMu ≠ rowsV then .error .lenMismatch
  else if nMax ≤ 0 then .error .nMax
  else .ok (lenMu / 2, nMax.toNat)

end chem

/-! ### hafnian by the perfect-matching recursion; the GBS weight of a pattern -/

/-- rows / columns of the sub-matrix `A_n`: mode `k` repeated `n_k` times -/
def expand : List Nat → Nat → List Nat
  | [], _ => []
  | c :: rest, k => List.replicate c k ++ expand rest (k + 1)

/-- all ways to take one element out of a list: `(element, rest)` -/
def picks : List Nat → List (Nat × List Nat)
  | [] => []
  | x :: xs => (x, xs) :: (picks xs).map fun p => (p.1, x :: p.2)

section haf
variable [Zero K] [One K] [Add K] [Mul K]

/-- `Σ` over the partner of the first index, recursively (fuel = number of indices) -/
def hafAux (A : Nat → Nat → K) : Nat → List Nat → K
  | _, [] => 1
  | 0, _ :: _ => 0
  | fuel + 1, i :: rest => sumL ((picks rest).map fun p => A i p.1 * hafAux A fuel p.2)

def haf (A : Nat → Nat → K) (idx : List Nat) : K := hafAux A idx.length idx

/-- `|Haf(A_n)|²` for a real matrix: the `θ`-dependent part of the probability of pattern `n` up to `1/Z` -/
def gbsWeight (A : Nat → Nat → K) (n : List Nat) : K := haf A (expand n 0) * haf A (expand n 0)

/-- `Π_k f(k0 + k)^{n_k}` by recursion over the pattern -/
def monoL (f : Nat → K) : List Nat → Nat → K
  | [], _ => 1
  | c :: rest, k => pw (f k) c * monoL f rest (k + 1)

def prodL : List K → K
  | [] => 1
  | x :: xs => x * prodL xs

/-- the finite exponential-family support built from the matrix itself: coefficient `c(n) = |Haf(A_n)|² / n!`
(`invfact n = 1/Π n_k!`) for each listed pattern -/
def gbsSupport (A : Nat → Nat → K) (invfact : List Nat → K) (pats : List (List Nat)) : Support K :=
  pats.map fun n => (n, gbsWeight A n * invfact n)

end haf

/-! ### exact inverse (Gauss–Jordan, first non-zero pivot) — used by the driver to evaluate `A_to_cov`
at rational points; its result is re-checked by multiplication (`isInverse`) on every call -/

section inverse
variable [Zero K] [One K] [Add K] [Sub K] [Neg K] [Mul K] [Div K] [DecidableEq K]

def rowOp (r p : Array K) (f : K) : Array K := (Array.range r.size).map fun j => r.getD j 0 - f * p.getD j 0

def gaussJordan (n : Nat) (M : Array (Array K)) : Option (Array (Array K)) := Id.run do
  -- augmented matrix [M | I]
  let mut a : Array (Array K) := (Array.range n).map fun i =>
    ((Array.range (2 * n)).map fun j => if j < n then (M.getD i #[]).getD j 0 else if j - n = i then 1 else 0)
  for col in [0:n] do
    let piv := (List.range n).find? fun r => col ≤ r ∧ (a.getD r #[]).getD col 0 ≠ 0
    match piv with
    | none => return none
    | some r =>
      let rowR := a.getD r #[]
      let rowC := a.getD col #[]
      a := (a.set! r rowC).set! col rowR
      let p := (a.getD col #[]).getD col 0
      let prow := (a.getD col #[]).map fun x => x / p
      a := a.set! col prow
      a := (Array.range n).map fun i =>
        if i = col then prow else rowOp (a.getD i #[]) prow ((a.getD i #[]).getD col 0)
  return some ((Array.range n).map fun i => (Array.range n).map fun j => (a.getD i #[]).getD (j + n) 0)

/-- `X * M = I` checked entry by entry -/
def isInverse (n : Nat) (X M : Nat → Nat → K) : Bool :=
  (List.range n).all fun i => (List.range n).all fun j => mm n X M i j = (if i = j then 1 else 0)

end inverse

end SFV.Train
