import SFV.Model.FockTensor
/-
K3 — phase-space algebra, part 3: the bosonic simulator's index algebra
(`strawberryfields/backends/bosonicbackend/bosoniccircuit.py`): `from_xp`, `update_means`, `update_covs`
(`X[:, perm][perm, :]`), `expandXY`/`expandS`, `apply_channel`.  Every component of the linear
combination is updated by the same `(X, Y)`; weights change only in measurements.
`thewalrus.symplectic.expand` is third-party: `expand` below is its specification (identity outside
the listed modes), validated entrywise against the library on every run.
Core Lean only; sums via `SFV.Fock.sumTo`.
-/
namespace SFV.Bos
open SFV.Fock

variable {K : Type}

/-- `from_xp(n)[r]`: position `r` of the `(x₁,p₁,…,xₙ,pₙ)` ordering ↦ index in `(x₁…xₙ,p₁…pₙ)` -/
def fromXp (n r : Nat) : Nat := r / 2 + (r % 2) * n

/-- `to_xp(n)[r]`: position `r` of the `(x₁…xₙ,p₁…pₙ)` ordering ↦ index in `(x₁,p₁,…)` -/
def toXp (n r : Nat) : Nat := 2 * (r % n) + r / n

/-- `X[:, perm][perm, :]` with `perm = from_xp(n)` -/
def permBoth (n : Nat) (X : Nat → Nat → K) : Nat → Nat → K := fun r c => X (fromXp n r) (fromXp n c)

/-- position of mode `i` in the target list -/
def posOf (modes : List Nat) (i : Nat) : Option Nat :=
  if modes.contains i then some (modes.idxOf i) else none

/-- `symp.expand(S, modes, n)` in the xxpp ordering: `S` (of size `2k`, `k = modes.length`) on the
listed modes, identity elsewhere -/
def expand [Zero K] [One K] (n : Nat) (modes : List Nat) (S : Nat → Nat → K) : Nat → Nat → K := fun r c =>
  let k := modes.length
  match posOf modes (r % n), posOf modes (c % n) with
  | some pi, some pj => S (pi + (r / n) * k) (pj + (c / n) * k)
  | none, none => if r = c then 1 else 0
  | _, _ => 0

/-- the `Y` half of `expandXY`: `symp.expand(Y, …)` with the identity padding zeroed again
(`Y2[i, i] = 0`, `Y2[i+n, i+n] = 0` for `i ∉ modes`) -/
def expandY [Zero K] (n : Nat) (modes : List Nat) (Y : Nat → Nat → K) : Nat → Nat → K := fun r c =>
  let k := modes.length
  match posOf modes (r % n), posOf modes (c % n) with
  | some pi, some pj => Y (pi + (r / n) * k) (pj + (c / n) * k)
  | _, _ => 0

/-- `update_means(means, X, from_xp)` for one component -/
def updateMeans [Zero K] [Add K] [Mul K] (n : Nat) (X : Nat → Nat → K) (μ : Nat → K) : Nat → K :=
  fun r => sumTo (2 * n) fun c => permBoth n X r c * μ c

/-- `update_covs(covs, X, from_xp, Y)` for one component -/
def updateCovs [Zero K] [Add K] [Mul K] (n : Nat) (X Y : Nat → Nat → K) (V : Nat → Nat → K) : Nat → Nat → K :=
  fun r s => (sumTo (2 * n) fun c => sumTo (2 * n) fun d => permBoth n X r c * V c d * permBoth n X s d)
    + permBoth n Y r s

end SFV.Bos
