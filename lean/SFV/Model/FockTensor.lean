/-
K4 — Fock tensor index algebra.  Executable model of the axis bookkeeping of
`strawberryfields/backends/fockbackend/circuit.py` (`apply_gate_BLAS`, `apply_twomode_gate`,
`_apply_two_mode_passive`, `_apply_S2`) and `fockbackend/ops.py` (`mix`, `partial_trace`,
`project_reset`, `tensor`).  The numeric gate matrix `mat` is an input.

A tensor of rank `r` with cutoff `D` is a function from index assignments `Nat → Nat`
(axis ↦ value; only axes `< r` and values `< D` matter) to the scalar type.
Core Lean only.
-/
namespace SFV.Fock

abbrev Idx := Nat → Nat
abbrev Tens (K : Type) := Idx → K

/-- index assignment with axis `p` set to `a` -/
def upd (idx : Idx) (p a : Nat) : Idx := fun x => if x = p then a else idx x

/-- `Σ_{a < D} f a` -/
def sumTo {K : Type} [Zero K] [Add K] : Nat → (Nat → K) → K
  | 0, _ => 0
  | D + 1, f => sumTo D f + f D

/-- the transposition of axes `a` and `b` (what `lst[[a, b]] = lst[[b, a]]` does to `arange`) -/
def swp (a b : Nat) : Nat → Nat := fun x => if x = a then b else if x = b then a else x

/-- NumPy `ψ.transpose(axes)` where `axesInv` is the inverse of the axis list: result axis `k` is
source axis `axes[k]`, i.e. the source is read at `fun a => idx (axesInv a)`. -/
def tr {K : Type} (axesInv : Nat → Nat) (ψ : Tens K) : Tens K := fun idx => ψ (fun a => idx (axesInv a))

/-- transpose by an explicit axis list (inverse = position in the list) -/
def trList {K : Type} (axes : List Nat) (ψ : Tens K) : Tens K :=
  tr (fun a => if a < axes.length then axes.idxOf a else a) ψ

/-- inverse of `trList axes` (the "untranspose" list of the source) -/
def untrList {K : Type} (axes : List Nat) (ψ : Tens K) : Tens K :=
  tr (fun a => axes.getD a a) ψ

/-! ### canonical embedded operators (the specification) -/

/-- one-mode operator `mat[out, in]` acting on axis `p` -/
def applyAt1 {K : Type} [Zero K] [Add K] [Mul K] (D : Nat) (mat : Nat → Nat → K) (p : Nat)
    (ψ : Tens K) : Tens K :=
  fun idx => sumTo D fun a => mat (idx p) a * ψ (upd idx p a)

/-- two-mode operator in the SF convention `mat[out₁, in₁, out₂, in₂]` acting on axes `p`, `q` -/
def applyAt2 {K : Type} [Zero K] [Add K] [Mul K] (D : Nat) (mat : Nat → Nat → Nat → Nat → K)
    (p q : Nat) (ψ : Tens K) : Tens K :=
  fun idx => sumTo D fun a => sumTo D fun b =>
    mat (idx p) a (idx q) b * ψ (upd (upd idx p a) q b)

/-! ### selection-rule kernels (`_apply_two_mode_passive`, `_apply_S2`) acting on axes 0 and 1 -/

/-- `Σ_{k = lo}^{hi-1} f k` as the source's `range(lo, hi)` loop -/
def sumRange {K : Type} [Zero K] [Add K] (lo hi : Nat) (f : Nat → K) : K :=
  sumTo (hi - lo) fun t => f (lo + t)

/-- `_apply_two_mode_passive`: `ret[i,j] += mat[i,k,j,i+j-k] * state[k,i+j-k]`
for `k in range(max(1+i+j-trunc, 0), min(i+j, trunc-1)+1)` -/
def passiveKernel {K : Type} [Zero K] [Add K] [Mul K] (D : Nat) (mat : Nat → Nat → Nat → Nat → K)
    (ψ : Tens K) : Tens K :=
  fun idx =>
    let i := idx 0
    let j := idx 1
    sumRange (max (1 + i + j - D) 0) (min (i + j) (D - 1) + 1) fun k =>
      mat i k j (i + j - k) * ψ (upd (upd idx 0 k) 1 (i + j - k))

/-- the loop bound of `_apply_S2` (signed arithmetic as in Python):
`k in range(max(i-j,0), trunc + min(i-j,0))` -/
def s2Cond (D i j k : Nat) : Prop :=
  max ((i : Int) - j) 0 ≤ (k : Int) ∧ (k : Int) < (D : Int) + min ((i : Int) - j) 0

instance (D i j k : Nat) : Decidable (s2Cond D i j k) := by unfold s2Cond; infer_instance

/-- `_apply_S2`: `ret[i,k] += mat[i,j,k,k+j-i] * state[j,k+j-i]` for `j in range(trunc)`,
`k in range(max(i-j,0), trunc + min(i-j,0))`; here written for output entry `(i, k)`:
the `j` with `max(i-j,0) ≤ k < trunc + min(i-j,0)`. -/
def s2Kernel {K : Type} [Zero K] [Add K] [Mul K] (D : Nat) (mat : Nat → Nat → Nat → Nat → K)
    (ψ : Tens K) : Tens K :=
  fun idx =>
    let i := idx 0
    let k := idx 1
    sumTo D fun j =>
      if s2Cond D i j k then
        mat i j k (k + j - i) * ψ (upd (upd idx 0 j) 1 (k + j - i))
      else 0

/-! ### `apply_twomode_gate` -/

/-- pure branch (after the `fix:` commit: the second switch uses position `t1` when `t2 = 0`).
`kernel` is the contraction applied to axes 0,1. -/
def twoModePure {K : Type} (kernel : Tens K → Tens K) (t1 t2 : Nat) (ψ : Tens K) : Tens K :=
  let s1 := swp 0 t1
  let p2 := if t2 = 0 then t1 else t2
  let s2 := swp 1 p2
  let st := tr s2 (tr s1 ψ)
  let st := kernel st
  tr s1 (tr s2 st)

/-- the pure branch as it was before the fix (kept for the counterexample) -/
def twoModePureOld {K : Type} (kernel : Tens K → Tens K) (t1 t2 : Nat) (ψ : Tens K) : Tens K :=
  let s1 := swp 0 t1
  let s2 := swp 1 t2
  tr s1 (tr s2 (kernel (tr s2 (tr s1 ψ))))

/-- swap of the axis pairs `(0,1)` and `(t,t+1)` (`lst[[0,1,t,t+1]] = lst[[t,t+1,0,1]]`) -/
def swpPair (t : Nat) : Nat → Nat := fun x =>
  if t = 0 then x
  else if x = 0 then t else if x = 1 then t + 1 else if x = t then 0 else if x = t + 1 then 1 else x

/-- mixed branch: `m1 m2` are the modes, axes are interleaved (row, column) per mode;
`kernel`/`kernelc` contract axes 0,1 with `mat` resp. `mat.conj()` -/
def twoModeMixed {K : Type} (kernel kernelc : Tens K → Tens K) (m1 m2 : Nat) (ψ : Tens K) : Tens K :=
  let t1 := 2 * m1
  let t2 := 2 * m2
  let T := swp (t1 + 1) t2
  let s1 := swpPair t1
  let s2 := swpPair t2
  let st := tr s1 (tr T ψ)
  let st := kernel st
  let st := tr s2 (tr s1 st)
  let st := kernelc st
  tr T (tr s2 st)

/-! ### `apply_gate_BLAS` -/

/-- `[i for i in range(n) if i not in modes] + modes` -/
def blasList (n : Nat) (modes : List Nat) : List Nat :=
  (List.range n).filter (fun i => !modes.contains i) ++ modes

/-- executable validity of an axis list: a permutation of `range n` -/
def isPermList (l : List Nat) (n : Nat) : Bool :=
  l.length == n && l.all (· < n) && (List.range n).all (fun a => l.contains a) && decide l.Nodup

/-- pure, one target mode: transpose target to the back, multiply, untranspose -/
def blasPure1 {K : Type} [Zero K] [Add K] [Mul K] (D n : Nat) (mat : Nat → Nat → K) (m : Nat)
    (ψ : Tens K) : Tens K :=
  if n = 1 then applyAt1 D mat 0 ψ
  else
    let tl := blasList n [m]
    untrList tl (applyAt1 D mat (n - 1) (trList tl ψ))

/-- pure, two target modes; `matview[(o₁,o₂),(a₁,a₂)] = mat[o₁,a₁,o₂,a₂]` -/
def blasPure2 {K : Type} [Zero K] [Add K] [Mul K] (D n : Nat) (mat : Nat → Nat → Nat → Nat → K)
    (m1 m2 : Nat) (ψ : Tens K) : Tens K :=
  let tl := blasList n [m1, m2]
  untrList tl (applyAt2 D mat (n - 2) (n - 1) (trList tl ψ))

/-- `[i for i in range(2n) if i//2 not in modes] + [2i for i in modes] + [2i+1 for i in modes]` -/
def blasListMixed (n : Nat) (modes : List Nat) : List Nat :=
  (List.range (2 * n)).filter (fun i => !modes.contains (i / 2)) ++ modes.map (2 * ·) ++ modes.map (2 * · + 1)

/-- mixed, one target mode: `mat ρ mat†` on the row/column axes of mode `m` -/
def blasMixed1 {K : Type} [Zero K] [Add K] [Mul K] (D n : Nat) (mat matc : Nat → Nat → K) (m : Nat)
    (ψ : Tens K) : Tens K :=
  if n = 1 then applyAt1 D matc 1 (applyAt1 D mat 0 ψ)
  else
    let tl := blasListMixed n [m]
    untrList tl (applyAt1 D matc (2 * n - 1) (applyAt1 D mat (2 * n - 2) (trList tl ψ)))

/-- mixed, two target modes -/
def blasMixed2 {K : Type} [Zero K] [Add K] [Mul K] (D n : Nat) (mat matc : Nat → Nat → Nat → Nat → K)
    (m1 m2 : Nat) (ψ : Tens K) : Tens K :=
  let tl := blasListMixed n [m1, m2]
  untrList tl (applyAt2 D matc (2 * n - 2) (2 * n - 1)
    (applyAt2 D mat (2 * n - 4) (2 * n - 3) (trList tl ψ)))

/-! ### `ops.mix`, `ops.partial_trace`, `ops.project_reset` -/

/-- `mix`: `ρ[i₀,j₀,i₁,j₁,…] = ψ[i₀,i₁,…] · conj ψ[j₀,j₁,…]` -/
def mix {K : Type} [Mul K] (cj : K → K) (ψ : Tens K) : Tens K :=
  fun idx => ψ (fun a => idx (2 * a)) * cj (ψ (fun a => idx (2 * a + 1)))

/-- position of mode `i` among the kept modes (number of kept modes below it) -/
def keptPos (traced : List Nat) (i : Nat) : Nat :=
  ((List.range i).filter fun x => !traced.contains x).length

/-- sum over the values of the modes in `ms` (row = column) of a mixed tensor -/
def traceOver {K : Type} [Zero K] [Add K] (D : Nat) : List Nat → (Idx → K) → Idx → K
  | [], f, idx => f idx
  | m :: ms, f, idx => sumTo D fun v => traceOver D ms f (upd (upd idx (2 * m) v) (2 * m + 1) v)

/-- `partial_trace(state, n, modes)`: the remaining modes keep their order and are renumbered -/
def partialTrace {K : Type} [Zero K] [Add K] (D n : Nat) (traced : List Nat) (ρ : Tens K) : Tens K :=
  let tracedD := (List.range n).filter fun i => traced.contains i
  fun idx =>
    -- source index: kept mode `i` reads output axes of its new position
    let base : Idx := fun a => idx (2 * keptPos traced (a / 2) + a % 2)
    traceOver D tracedD ρ base

/-- `project_reset(modes, x, state, pure=True, …)`: `ret[…0…] = state[…x…]`, zero elsewhere -/
def projectResetPure {K : Type} [Zero K] (modes xs : List Nat) (ψ : Tens K) : Tens K :=
  fun idx =>
    if modes.all (fun m => idx m == 0) then
      ψ (fun a => match (modes.zip xs).find? (fun p => p.1 == a) with
        | some p => p.2
        | none => idx a)
    else 0

/-- mixed version (interleaved axes) -/
def projectResetMixed {K : Type} [Zero K] (modes xs : List Nat) (ρ : Tens K) : Tens K :=
  fun idx =>
    if modes.all (fun m => idx (2 * m) == 0 && idx (2 * m + 1) == 0) then
      ρ (fun a => match (modes.zip xs).find? (fun p => p.1 == a / 2) with
        | some p => p.2
        | none => idx a)
    else 0

/-! ### `_apply_channel`, `alloc`, `dealloc` -/

/-- `_apply_channel(kraus_ops, [m])` on a mixed state: `Σ_k K_k ρ K_k†` (an empty list gives the zero tensor);
each Kraus operator is given with its entrywise conjugate -/
def applyChannel1 {K : Type} [Zero K] [Add K] [Mul K] (D : Nat) (kraus : List ((Nat → Nat → K) × (Nat → Nat → K)))
    (m : Nat) (ρ : Tens K) : Tens K :=
  fun idx => kraus.foldr (fun k acc => applyAt1 D k.2 (2 * m + 1) (applyAt1 D k.1 (2 * m) ρ) idx + acc) 0

/-- `alloc(k)`: tensor product with `k` vacuum modes at the end (`pure`: one axis per mode) -/
def allocVac {K : Type} [Zero K] [Mul K] (pure : Bool) (n k : Nat) (ψ : Tens K) : Tens K :=
  fun idx =>
    let lo := if pure then n else 2 * n
    let hi := if pure then n + k else 2 * (n + k)
    if (List.range' lo (hi - lo)).all (fun a => idx a == 0) then ψ idx else 0

/-- `dealloc(modes)`: a pure state is mixed first, then the listed modes are traced out -/
def dealloc {K : Type} [Zero K] [Add K] [Mul K] (cj : K → K) (D n : Nat) (pure : Bool) (modes : List Nat)
    (ψ : Tens K) : Tens K :=
  partialTrace D n modes (if pure then mix cj ψ else ψ)

/-! ### Gaussian integers: the scalar type the driver computes with (exact in float64) -/

structure GInt where
  re : Int
  im : Int
deriving DecidableEq, Repr, Inhabited

instance : Zero GInt := ⟨⟨0, 0⟩⟩
instance : Add GInt := ⟨fun a b => ⟨a.re + b.re, a.im + b.im⟩⟩
instance : Mul GInt := ⟨fun a b => ⟨a.re * b.re - a.im * b.im, a.re * b.im + a.im * b.re⟩⟩
def GInt.conj (a : GInt) : GInt := ⟨a.re, -a.im⟩

end SFV.Fock
