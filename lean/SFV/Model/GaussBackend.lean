import SFV.Model.PhaseSpace
/-
K3 — the API layer of the Gaussian simulator (`gaussianbackend/backend.py`): how back-end calls are
mapped onto `GaussianModes` methods (sign convention of the beamsplitter, preparations as
reset + gate).  Core Lean only.
-/
namespace SFV.Gauss

variable {K : Type} [Zero K] [One K] [Add K] [Sub K] [Neg K] [Mul K]

/-- `beamsplitter(theta, phi, m1, m2)`: `self.circuit.beamsplitter(-theta, -phi, m1, m2)`;
atoms `c, s = cos φ, sin φ`, `ct, sn = cos θ, sin θ` of the API arguments -/
def bkBeamsplitter (st : GS K) (c s ct sn : K) (k l : Nat) : GS K := beamsplitter st c (-s) ct (-sn) k l

def bkRotation (st : GS K) (c s : K) (k : Nat) : GS K := phaseShift st c s k
def bkDisplacement (st : GS K) (β : Cx K) (k : Nat) : GS K := displace st β k
def bkSqueeze (st : GS K) (c s ch sh : K) (k : Nat) : GS K := squeeze st c s ch sh k
/-- `prepare_vacuum_state`: `loss(0.0, mode)` -/
def bkPrepareVacuum (st : GS K) (k : Nat) : GS K := loss st 0 k
/-- `prepare_coherent_state`: `loss(0.0)` then `displace` -/
def bkPrepareCoherent (st : GS K) (β : Cx K) (k : Nat) : GS K := displace (loss st 0 k) β k
/-- `prepare_squeezed_state`: `loss(0.0)` then `squeeze` -/
def bkPrepareSqueezed (st : GS K) (c s ch sh : K) (k : Nat) : GS K := squeeze (loss st 0 k) c s ch sh k
/-- `prepare_displaced_squeezed_state`: `loss(0.0)`, `squeeze`, `displace` -/
def bkPrepareDisplacedSqueezed (st : GS K) (β : Cx K) (c s ch sh : K) (k : Nat) : GS K :=
  displace (squeeze (loss st 0 k) c s ch sh k) β k
def bkPrepareThermal (st : GS K) (pop : K) (k : Nat) : GS K := initThermal st pop k

/-- the documented beamsplitter `B(θ, φ)`: `a₁ ↦ cos θ·a₁ − e^{−iφ} sin θ·a₂`, `a₂ ↦ cos θ·a₂ + e^{iφ} sin θ·a₁`
written out in quadratures -/
def sfBsRows (k l : Nat) (c s ct sn : K) : Q → List (Q × K)
  | (i, false) =>
    if i = k then [((k, false), ct), ((l, false), -(sn * c)), ((l, true), -(sn * s))]
    else if i = l then [((l, false), ct), ((k, false), sn * c), ((k, true), -(sn * s))]
    else idRow (i, false)
  | (i, true) =>
    if i = k then [((k, true), ct), ((l, false), sn * s), ((l, true), -(sn * c))]
    else if i = l then [((l, true), ct), ((k, false), sn * s), ((k, true), sn * c)]
    else idRow (i, true)

end SFV.Gauss
