/-!
# Model of the algebraic skeleton of `strawberryfields/decompositions.py` (C17)

Core Lean only.  Scalars are an arbitrary type `K` with ring operations (the driver uses `Rat`);
complex numbers are explicit pairs `Cx K`.  Angles never appear: every step takes the *atoms*
`c = cos θ, s = sin θ, e = e^{iφ}` of the result (DESIGN A.1).

* 2×2 blocks of `T`, `Ti`, `mach_zehnder`, `mach_zehnder_inv`, `M` (sMZI), `P`, the SU(2) block;
* their embedding as index-level updates: `leftMix` (= block ⋅ U, rows `p,q` mixed) and
  `rightMix` (= U ⋅ block, columns `p,q` mixed);
* the branch structure of `nullT / nullTi / nullMZ / nullMZi` (`nullBranch`: exact-zero,
  divide-by-zero "swap", generic);
* the elimination *schedules* (which pair is mixed, which entry is nulled, in which order) of
  `triangular`, `rectangular`/`rectangular_phase_end`, `rectangular_MZ`/`rectangular_symmetric`,
  `triangular_compact`, `rectangular_compact`, `sun_compact`;
* the Boolean zero-pattern abstraction (`Pat`, `applyStep`);
* an exact executor of the T-meshes on matrices that only hit the exact-zero / swap branches
  (`runExact`), so that permutation-like inputs are compared with the real code end to end.
-/
namespace SFV.Decomp
set_option linter.unusedSectionVars false

/-! ## complex numbers as pairs -/

structure Cx (K : Type) where
  re : K
  im : K
deriving Repr, DecidableEq

namespace Cx
variable {K : Type} [Add K] [Mul K] [Sub K] [Neg K] [Zero K] [One K]
instance : Add (Cx K) := ⟨fun a b => ⟨a.re + b.re, a.im + b.im⟩⟩
instance : Sub (Cx K) := ⟨fun a b => ⟨a.re - b.re, a.im - b.im⟩⟩
instance : Neg (Cx K) := ⟨fun a => ⟨-a.re, -a.im⟩⟩
instance : Mul (Cx K) := ⟨fun a b => ⟨a.re * b.re - a.im * b.im, a.re * b.im + a.im * b.re⟩⟩
instance : Zero (Cx K) := ⟨⟨0, 0⟩⟩
instance : One (Cx K) := ⟨⟨1, 0⟩⟩
def conj (a : Cx K) : Cx K := ⟨a.re, -a.im⟩
def ofReal (x : K) : Cx K := ⟨x, 0⟩
def I : Cx K := ⟨0, 1⟩
@[simp] theorem add_re (a b : Cx K) : (a + b).re = a.re + b.re := rfl
@[simp] theorem add_im (a b : Cx K) : (a + b).im = a.im + b.im := rfl
@[simp] theorem sub_re (a b : Cx K) : (a - b).re = a.re - b.re := rfl
@[simp] theorem sub_im (a b : Cx K) : (a - b).im = a.im - b.im := rfl
@[simp] theorem neg_re (a : Cx K) : (-a).re = -a.re := rfl
@[simp] theorem neg_im (a : Cx K) : (-a).im = -a.im := rfl
@[simp] theorem mul_re (a b : Cx K) : (a * b).re = a.re * b.re - a.im * b.im := rfl
@[simp] theorem mul_im (a b : Cx K) : (a * b).im = a.re * b.im + a.im * b.re := rfl
@[simp] theorem zero_re : (0 : Cx K).re = 0 := rfl
@[simp] theorem zero_im : (0 : Cx K).im = 0 := rfl
@[simp] theorem one_re : (1 : Cx K).re = 1 := rfl
@[simp] theorem one_im : (1 : Cx K).im = 0 := rfl
@[simp] theorem conj_re (a : Cx K) : (conj a).re = a.re := rfl
@[simp] theorem conj_im (a : Cx K) : (conj a).im = -a.im := rfl
@[simp] theorem ofReal_re (x : K) : (ofReal x : Cx K).re = x := rfl
@[simp] theorem ofReal_im (x : K) : (ofReal x : Cx K).im = 0 := rfl
end Cx

/-! ## 2×2 blocks (documented formulas) -/

/-- a 2×2 complex block `[[a, b], [c, d]]` -/
structure Blk (K : Type) where
  a : Cx K
  b : Cx K
  c : Cx K
  d : Cx K
deriving Repr, DecidableEq

section blocks
variable {K : Type} [Add K] [Mul K] [Sub K] [Neg K] [Zero K] [One K]
open Cx

/-- `T(θ, φ)`: `[[e^{iφ} cos θ, −sin θ], [e^{iφ} sin θ, cos θ]]` -/
def blkT (c s : K) (e : Cx K) : Blk K :=
  ⟨e * ofReal c, ofReal (-s), e * ofReal s, ofReal c⟩
/-- `Ti(θ, φ) = T(θ, −φ)ᵀ` -/
def blkTi (c s : K) (e : Cx K) : Blk K :=
  ⟨conj e * ofReal c, conj e * ofReal s, ofReal (-s), ofReal c⟩
/-- `mach_zehnder(φ_i, φ_e) = g [[s e, c], [c e, −s]]`, `g = i e^{iφ_i/2} = −s + i c`,
`c = cos(φ_i/2)`, `s = sin(φ_i/2)`, `e = e^{iφ_e}` -/
def blkMZ (c s : K) (e : Cx K) : Blk K :=
  let g : Cx K := ⟨-s, c⟩
  ⟨g * (ofReal s * e), g * ofReal c, g * (ofReal c * e), g * ofReal (-s)⟩
/-- `mach_zehnder_inv` = conjugate transpose of `mach_zehnder` -/
def blkMZi (c s : K) (e : Cx K) : Blk K :=
  let m := blkMZ c s e
  ⟨conj m.a, conj m.c, conj m.b, conj m.d⟩
/-- sMZI `M(σ, δ) = e^{iσ} [[sin δ, cos δ], [cos δ, −sin δ]]`, `c = cos δ`, `s = sin δ`, `e = e^{iσ}` -/
def blkM (c s : K) (e : Cx K) : Blk K :=
  ⟨e * ofReal s, e * ofReal c, e * ofReal c, e * ofReal (-s)⟩
/-- the SU(2) block of `sun_compact`: `[[ea·eg·c, −ea·conj eg·s], [conj ea·eg·s, conj ea·conj eg·c]]`
with `ea = e^{iα/2}`, `eg = e^{iγ/2}`, `c = cos(β/2)`, `s = sin(β/2)` -/
def blkSU2 (c s : K) (ea eg : Cx K) : Blk K :=
  ⟨ea * eg * ofReal c, ea * conj eg * ofReal (-s), conj ea * eg * ofReal s, conj ea * conj eg * ofReal c⟩

end blocks

/-! ## matrices as functions of two indices, embedded multiplications as index-level updates -/

abbrev CMat (K : Type) := Nat → Nat → Cx K

section mix
variable {K : Type} [Add K] [Mul K] [Sub K] [Neg K] [Zero K] [One K]

/-- `E(p,q,blk) ⋅ U`: rows `p` and `q` are replaced by combinations of rows `p`, `q`; everything else is kept. -/
def leftMix (b : Blk K) (p q : Nat) (U : CMat K) : CMat K := fun i j =>
  if i = p then b.a * U p j + b.b * U q j
  else if i = q then b.c * U p j + b.d * U q j
  else U i j

/-- `U ⋅ E(p,q,blk)`: columns `p` and `q` are replaced by combinations of columns `p`, `q`. -/
def rightMix (U : CMat K) (b : Blk K) (p q : Nat) : CMat K := fun i j =>
  if j = p then U i p * b.a + U i q * b.c
  else if j = q then U i p * b.b + U i q * b.d
  else U i j

/-- `P(j, φ) ⋅ U` resp. `U ⋅ P(j, φ)`: one row / column is multiplied by a phase -/
def leftPhase (e : Cx K) (p : Nat) (U : CMat K) : CMat K := fun i j => if i = p then e * U i j else U i j
def rightPhase (U : CMat K) (e : Cx K) (p : Nat) : CMat K := fun i j => if j = p then U i j * e else U i j

/-- the embedded block as a matrix (what `T(m, n, θ, φ, nmax)` etc. return) -/
def embed (b : Blk K) (p q : Nat) : CMat K := fun i j =>
  if i = p ∧ j = p then b.a else if i = p ∧ j = q then b.b
  else if i = q ∧ j = p then b.c else if i = q ∧ j = q then b.d
  else if i = j then 1 else 0

end mix

/-! ## which branch the `null*` helpers take -/

inductive Branch | zero | swap | generic
deriving Repr, DecidableEq

/-- `target` is the entry to be nulled, `partner` the entry it is divided by
(`U[m,n+1]` for `nullTi`/`nullMZi`, `U[n-1,m]` for `nullT`/`nullMZ`). -/
def nullBranch {K : Type} [DecidableEq K] [Zero K] (target partner : Cx K) : Branch :=
  if target = 0 then .zero else if partner = 0 then .swap else .generic

/-- atoms `(cos, sin)` fixed by the two non-generic branches: `T`-type helpers use θ = 0 / π/2,
the Mach-Zehnder helpers use φ_i = π / 0, i.e. half angles π/2 / 0. -/
def branchAtomsT {K : Type} [Zero K] [One K] : Branch → Option (K × K)
  | .zero => some (1, 0) | .swap => some (0, 1) | .generic => none
def branchAtomsMZ {K : Type} [Zero K] [One K] : Branch → Option (K × K)
  | .zero => some (0, 1) | .swap => some (1, 0) | .generic => none

/-! ## elimination schedules -/

/-- one elimination step: `rowMix = true` — the block multiplies from the left and mixes rows `(p, p+1)`;
otherwise from the right, mixing columns `(p, p+1)`.  `(tr, tc)` is the entry that is nulled. -/
structure Step where
  rowMix : Bool
  p : Nat
  tr : Nat
  tc : Nat
deriving Repr, DecidableEq

def Step.q (s : Step) : Nat := s.p + 1

/-- column `c` of the Reck scheme: rows `n-1, n-2, …, c+1` (bottom up); `cnt = number of rows still to do`.
Target `(r, c)` is nulled by `T(r-1, r)` from the left. -/
def reckColumn (c : Nat) : (cnt : Nat) → List Step
  | 0 => []
  | cnt + 1 => ⟨true, c + cnt, c + cnt + 1, c⟩ :: reckColumn c cnt

/-- `triangular`: `for i in range(n-2,-1,-1): for j in range(i+1): nullT(n-j-1, n-i-2)`, i.e. columns
`c = 0 … n-2`, each from the bottom row up to the row below the diagonal. -/
def reckFrom (n : Nat) (c : Nat) : (todo : Nat) → List Step
  | 0 => []
  | todo + 1 => reckColumn c (n - 1 - c) ++ reckFrom n (c + 1) todo

def triSchedule (n : Nat) : List Step := reckFrom n 0 (n - 1)

/-- a sweep along the sub-diagonal `row − col = d` with column mixes, from column `k` down to column 0
(`nullTi(d+j, j)` resp. the sMZI acting on modes `(j, j+1)` from the right) -/
def sweepCols (d : Nat) : (cnt : Nat) → List Step
  | 0 => []
  | j + 1 => ⟨false, j, d + j, j⟩ :: sweepCols d j

/-- a sweep along the sub-diagonal `row − col = d` with row mixes, from column `j0` upwards, `cnt` entries
(`nullT(d+j, j)`, mixing rows `(d+j-1, d+j)`) -/
def sweepRows (d : Nat) (j0 : Nat) : (cnt : Nat) → List Step
  | 0 => []
  | cnt + 1 => ⟨true, d + j0 - 1, d + j0, j0⟩ :: sweepRows d (j0 + 1) cnt

/-- Clements: diagonals `k = 0 … n-2` (`d = n-1-k`), alternately a column sweep (k even) and a row sweep (k odd) -/
def clementsFrom (n : Nat) (k : Nat) : (todo : Nat) → List Step
  | 0 => []
  | todo + 1 =>
    (if k % 2 = 0 then sweepCols (n - 1 - k) (k + 1) else sweepRows (n - 1 - k) 0 (k + 1))
      ++ clementsFrom n (k + 1) todo

/-- `rectangular`, `rectangular_MZ` (and hence `_phase_end`, `_symmetric`), `rectangular_compact` -/
def rectSchedule (n : Nat) : List Step := clementsFrom n 0 (n - 1)

/-- `triangular_compact`: every sub-diagonal is swept with column mixes -/
def triCompactFrom (n : Nat) (k : Nat) : (todo : Nat) → List Step
  | 0 => []
  | todo + 1 => sweepCols (n - 1 - k) (k + 1) ++ triCompactFrom n (k + 1) todo

def triCompactSchedule (n : Nat) : List Step := triCompactFrom n 0 (n - 1)

/-- `sun_compact`: the SU(2) factors act on the mode pairs of the Reck scheme, in the same order -/
def sunSchedule (n : Nat) : List (Nat × Nat) := (triSchedule n).map fun s => (s.p, s.p + 1)

/-! ## Boolean zero pattern -/

/-- `Z i j = true` : entry `(i, j)` is known to be zero -/
abbrev Pat := Nat → Nat → Bool

def applyStep (Z : Pat) (s : Step) : Pat := fun i j =>
  if i = s.tr ∧ j = s.tc then true
  else if s.rowMix then (if i = s.p ∨ i = s.p + 1 then Z s.p j && Z (s.p + 1) j else Z i j)
  else (if j = s.p ∨ j = s.p + 1 then Z i s.p && Z i (s.p + 1) else Z i j)

def runPat (Z : Pat) (l : List Step) : Pat := l.foldl applyStep Z

/-- an `n × n` pattern as data, and back (the identity on indices `< n`) -/
def tabulatePat (n : Nat) (Z : Pat) : Array (Array Bool) :=
  Array.ofFn (n := n) fun i => Array.ofFn (n := n) fun j => Z i.val j.val
def ofTablePat (a : Array (Array Bool)) : Pat := fun i j => (a.getD i #[]).getD j false

/-- `runPat` with the pattern tabulated after every step (what the driver evaluates; the state is data, so
the evaluation of a long run stays polynomial) -/
def runPatTab (n : Nat) (a : Array (Array Bool)) (l : List Step) : Array (Array Bool) :=
  l.foldl (fun a s => tabulatePat n (applyStep (ofTablePat a) s)) a

/-- nothing known -/
def noZeros : Pat := fun _ _ => false

/-- executable check used by the driver / the size-bounded tests: all entries below the diagonal of an
`n × n` pattern are known zeros -/
def lowerDone (n : Nat) (Z : Pat) : Bool :=
  (List.range n).all fun i => (List.range i).all fun j => Z i j

/-! ## exact execution of the `T`-meshes on the non-generic branches -/

section exact
variable {K : Type} [Add K] [Mul K] [Sub K] [Neg K] [Zero K] [One K] [DecidableEq K]

/-- an `n × n` matrix as data, and back (the identity on indices `< n`) -/
def tabulate (n : Nat) (U : CMat K) : Array (Array (Cx K)) :=
  Array.ofFn (n := n) fun i => Array.ofFn (n := n) fun j => U i.val j.val
def ofTable (a : Array (Array (Cx K))) : CMat K := fun i j => (a.getD i #[]).getD j 0

/-- one step of `rectangular`/`triangular` (`mz = false`) or `rectangular_MZ` (`mz = true`) when the branch is
not generic; returns the branch taken and the new matrix -/
def exactStep (mz : Bool) (U : CMat K) (s : Step) : Option (Branch × CMat K) :=
  let target := U s.tr s.tc
  let partner := if s.rowMix then U (s.tr - 1) s.tc else U s.tr (s.tc + 1)
  let br := nullBranch target partner
  match (if mz then branchAtomsMZ br else branchAtomsT br : Option (K × K)) with
  | none => none
  | some (c, sn) =>
    let blk : Blk K :=
      if s.rowMix then (if mz then blkMZ c sn 1 else blkT c sn 1)
      else (if mz then blkMZi c sn 1 else blkTi c sn 1)
    some (br, if s.rowMix then leftMix blk s.p (s.p + 1) U else rightMix U blk s.p (s.p + 1))

/-- run a schedule on tabulated matrices; `none` as soon as a generic branch would be needed -/
def runExact (mz : Bool) (n : Nat) (a : Array (Array (Cx K))) : List Step → Option (List Branch × Array (Array (Cx K)))
  | [] => some ([], a)
  | s :: l =>
    match exactStep mz (ofTable a) s with
    | none => none
    | some (br, U') =>
      match runExact mz n (tabulate n U') l with
      | none => none
      | some (brs, V) => some (br :: brs, V)

end exact

/-! ## `_absorb_zeta`: where the residual phases of `rectangular_compact` are relocated -/

inductive Slot | sigma | edge | out
deriving Repr, DecidableEq

/-- one update `target[mode, layer] ±= zetas[j]` (`out`: `phi_outs[0] = zetas[0]`) -/
structure Upd where
  slot : Slot
  mode : Nat
  layer : Nat
  plus : Bool
  j : Nat
deriving Repr, DecidableEq

/-- Python `range(a, b, 2)` -/
def evens (a b : Nat) : List Nat := (List.range ((b - a + 1) / 2)).map fun k => a + 2 * k

/-- body of the loop over `j` (`edgePlusOnEven`: the odd-`m` branch adds on even layers, the even-`m` branch on odd ones) -/
def absorbFor (m j layer : Nat) (edgePlusOnEven : Bool) : List Upd :=
  (evens j (m - 1)).map (fun mode => ⟨.sigma, mode, layer, true, j⟩) ++
  (evens (j + 1) (m - 1)).map (fun mode => ⟨.sigma, mode, layer - 1, false, j⟩) ++
  [if (layer % 2 == 0) == edgePlusOnEven then ⟨.edge, m - 1, layer, true, j⟩
   else ⟨.edge, m - 1, layer - 1, false, j⟩]

def absorbUpdates (m : Nat) : List Upd :=
  if m % 2 = 0 then
    ⟨.out, 0, 0, true, 0⟩ :: (List.range (m - 1)).flatMap fun t => absorbFor m (t + 1) (m - (t + 1)) false
  else (List.range m).flatMap fun j => absorbFor m j (m - j - 1) true

/-! ## `takagi`, real branch: order of the returned values and phases -/

/-- `a` comes before `b` in `list_vals.sort(reverse=True)`: larger value first, then larger index -/
def takagiBefore (a b : Int × Nat) : Bool := decide (b.1 < a.1 ∨ (b.1 = a.1 ∧ b.2 ≤ a.2))

def takagiInsert (a : Int × Nat) : List (Int × Nat) → List (Int × Nat)
  | [] => [a]
  | b :: l => if takagiBefore a b then a :: b :: l else b :: takagiInsert a l

def takagiSort : List (Int × Nat) → List (Int × Nat)
  | [] => []
  | a :: l => takagiInsert a (takagiSort l)

/-- `list_vals = [(|l_i|, i)]; list_vals.sort(reverse=True)` (the pairs are distinct, so the result of the sort is
determined by the order relation) -/
def takagiOrder (l : List Int) : List (Int × Nat) :=
  takagiSort ((l.map fun x => (x.natAbs : Int)).zipIdx)

/-- square of the phase attached to eigenvalue `x` (`sqrt(1 if x > 0 else -1)`) -/
def takagiPhaseSq (x : Int) : Int := if 0 < x then 1 else -1

/-! ## `bloch_messiah`: the permutation that brings `s₁ ≥ … ≥ 1/s₁` into `(s₁ … s_n, 1/s₁ … 1/s_n)` -/

/-- `perm = list(range(0, n)) + list(reversed(range(n, 2n)))` -/
def bmPerm (n i : Nat) : Nat := if i < n then i else 3 * n - 1 - i

end SFV.Decomp
