/-! Model of `fockbackend/ops.py: lossChannel(T, trunc)` (K4, properties C07 / C05): the Kraus operators of the loss channel on
the truncated Fock space.

`E(k) = ((1−T)/T)^{k/2} · a^k/√k! · T^{a†a/2}` has the single band `E(k)[n−k, n] = √(C(n,k) (1−T)^k T^{n−k})`; the list returned is
`[E(0), …, E(trunc−1)]` (for `T = 0` the projectors `|0⟩⟨i|`, which is the same band formula with `0⁰ = 1`).  The square roots
are atoms `e k n` constrained by `e k n · e k n = lossSq T k n`, like the trigonometric atoms of K3. -/
namespace SFV.Fock

/-- Pascal's triangle (core only; equal to Mathlib's `Nat.choose`, `SFV.Fock.choose_eq`) -/
def choose : Nat → Nat → Nat
  | _, 0 => 1
  | 0, _ + 1 => 0
  | n + 1, k + 1 => choose n k + choose n (k + 1)

/-- `x^n` (core only) -/
def pw {K : Type} [One K] [Mul K] (x : K) : Nat → K
  | 0 => 1
  | n + 1 => pw x n * x

/-- `|E(k)[n−k, n]|² = C(n,k) (1−T)^k T^{n−k}` (zero when `k > n`) -/
def lossSq {K : Type} [NatCast K] [One K] [Sub K] [Mul K] (T : K) (k n : Nat) : K :=
  (choose n k : K) * pw (1 - T) k * pw T (n - k)

/-- the Kraus operator `E(k)` as a matrix `[row, column]`, from its amplitudes -/
def lossKraus {K : Type} [Zero K] (e : Nat → Nat → K) (k : Nat) : Nat → Nat → K :=
  fun v a => if v + k = a then e k a else 0

/-- the list `[E(0), …, E(nK − 1)]`, each with its entrywise conjugate (the amplitudes are real) -/
def lossKrausList {K : Type} [Zero K] (e : Nat → Nat → K) (nK : Nat) : List ((Nat → Nat → K) × (Nat → Nat → K)) :=
  (List.range nK).map fun k => (lossKraus e k, lossKraus e k)

end SFV.Fock
