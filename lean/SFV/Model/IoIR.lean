import SFV.Gen.IoNames
/-
K8 — Program ↔ IR conversion.  Executable model of the logic core of
`strawberryfields/io/blackbird_io.py` (`to_blackbird`, `from_blackbird`, `from_blackbird_to_tdm`),
`strawberryfields/io/xir_io.py` (`to_xir`, `from_xir`, `from_xir_to_tdm`), the dispatch of
`strawberryfields/io/__init__.py:to_program`, `parameters.par_convert`, and
`io/utils.py:_factor_out_pi`.

What is *not* modelled but abstracted:
* SymPy expressions are opaque objects (`Sym`) carrying what SymPy reports about them: their printed
  forms, the measured-parameter and free-parameter atoms, whether they are a bare symbol, whether they
  are one of the loop variables of a TDM program, and the same data for their negation (`-a`);
* the text layer (library `serialize` / `loads`) is the function `reparseBB` (Blackbird recomputes the
  set of modes from the operations) respectively the identity (XIR); validated through real text on
  every run;
* operation constructors are the identity on the stored parameter list `op.p` (the writers emit all of
  `op.p`), except `Fouriergate`, whose constructor takes no argument and fixes `p = [π/2]`;
* parsing an expression string (`parameters.par_from_str`, SymPy) is a table `P : String → Option ISym`
  handed to the readers (what SymPy returns for the strings of the IR at hand).

Core Lean only (no Mathlib).
-/
namespace SFV.Io

/-! ### values -/

/-- numeric scalar: Python int, float (exact dyadic rational) or complex -/
inductive Sc
  | int (i : Int)
  | flt (q : Rat)
  | cpx (re im : Rat)
deriving DecidableEq, Repr, Inhabited

def Sc.neg : Sc → Sc
  | .int i => .int (-i)
  | .flt q => .flt (-q)
  | .cpx a b => .cpx (-a) (-b)

/-- what SymPy reports about one printed face of an expression -/
structure Face where
  /-- `str(a)` (SF notation: free parameters in braces) -/
  text : String
  /-- `a.name` for a bare symbol, else `str(a)` with the free symbols replaced by their names -/
  plain : String
  /-- `a.is_symbol` -/
  atom : Bool
  /-- index of `a` in `prog.loop_vars` (TDM programs) -/
  loop : Option Nat
deriving DecidableEq, Repr, Inhabited

/-- an opaque symbolic parameter together with its negation -/
structure Sym where
  pos : Face
  neg : Face
  /-- indices of the `MeasuredParameter` atoms -/
  meas : List Nat
  /-- names of the `FreeParameter` atoms -/
  frees : List String
  /-- the number the expression currently evaluates to (all atoms bound by `bind_params` / measured in
  an earlier run), `none` otherwise: state kept between calls, which no converter may look at -/
  val : Option Sc := none
deriving DecidableEq, Repr, Inhabited

/-- `-a` -/
def Sym.negate (e : Sym) : Sym := { e with pos := e.neg, neg := e.pos, val := e.val.map Sc.neg }

/-- the same expression in a program in which nothing is bound or measured yet -/
def Sym.noVal (e : Sym) : Sym := { e with val := none }

/-- the value of a constant symbolic expression (no free or measured parameter in it, e.g. a
decomposition product `0.72 - 0.5*pi`): `par_evaluate` always succeeds on it -/
def constVal (e : Sym) : Option Sc := if e.meas = [] ∧ e.frees = [] then e.val else none

/-! ### subsystem indices in symbol names

SymPy symbols carry *names*; `MeasuredParameter(q[i])` is named `"q" + str(i)` and `par_convert` goes back from
the name to the subsystem (`re.fullmatch("q[0-9]+", name)`, `int(name[1:])`).  Decimal printing and parsing
are modelled on digit lists. -/

def digitChar (d : Nat) : Char := Char.ofNat (48 + d)

/-- `str(n)` as a list of characters -/
def printIndex (n : Nat) : List Char :=
  if n < 10 then [digitChar n] else printIndex (n / 10) ++ [digitChar (n % 10)]
decreasing_by omega

def digitVal (c : Char) : Option Nat :=
  if 48 ≤ c.toNat ∧ c.toNat ≤ 57 then some (c.toNat - 48) else none

/-- `int(s)` for a string of ASCII digits, given the value of the digits read so far -/
def parseFrom : Nat → List Char → Option Nat
  | acc, [] => some acc
  | acc, c :: cs => match digitVal c with
    | some d => parseFrom (acc * 10 + d) cs
    | none => none

/-- `int(s)` for `s` matching `[0-9]+` (`none`: no match) -/
def parseIndex : List Char → Option Nat
  | [] => none
  | cs => parseFrom 0 cs

/-- the name of the measured parameter of subsystem `i` -/
def qName (i : Nat) : String := String.ofList ('q' :: printIndex i)

/-- `par_convert`: the subsystem a symbol name denotes, if it is `q<index>` -/
def measuredIndex (name : String) : Option Nat :=
  match name.toList with
  | 'q' :: ds => parseIndex ds
  | _ => none

/-- the name of the `i`-th loop variable of a TDM program (`f"p{i}"`) -/
def pName (i : Nat) : String := String.ofList ('p' :: printIndex i)

/-- `tdm.is_ptype(name)` together with `int(name[1:])` (the TDM readers): `len(name) > 1 and name[0] == "p" and
name[1:].isdigit()` (ASCII digits) -/
def ptypeIndex (name : String) : Option Nat :=
  match name.toList with
  | 'p' :: ds => parseIndex ds
  | _ => none

/-- an expression over plain SymPy symbols, as the IRs hold it (`RegRefTransform.expr`, the result of
`par_from_str`): printed forms and the *names* of its symbols -/
structure ISym where
  pos : Face
  neg : Face
  names : List String
  val : Option Sc := none
deriving DecidableEq, Repr, Inhabited

/-- the IR-side expression of an SF expression: measured parameters appear under their names `q<i>` -/
def toI (e : Sym) : ISym := { pos := e.pos, neg := e.neg, names := e.meas.map qName ++ e.frees, val := e.val }

/-- `par_convert`: symbols named `q<i>` become measured parameters of subsystem `i`, all others free
parameters of that name -/
def fromI (ie : ISym) : Sym :=
  { pos := ie.pos, neg := ie.neg, meas := ie.names.filterMap measuredIndex,
    frees := ie.names.filter fun s => (measuredIndex s).isNone, val := none }

/-- the canonical loop variable `p_i` of a TDM program -/
def loopSym (i : Nat) : Sym :=
  { pos := { text := "{p" ++ toString i ++ "}", plain := "p" ++ toString i, atom := true, loop := some i }
    neg := { text := "-{p" ++ toString i ++ "}", plain := "-p" ++ toString i, atom := false, loop := none }
    meas := [], frees := ["p" ++ toString i] }

/-- an operation parameter / IR argument -/
inductive Val
  | sc (s : Sc)
  | str (s : String)
  /-- Python list of scalars (`select=[1, 0]`, `dark_counts=[...]`, 1-D XIR lists) -/
  | lst (l : List Sc)
  /-- NumPy array (row-major data); in XIR the nested list of the same shape -/
  | arr (shape : List Nat) (data : List Sc)
  /-- SymPy expression over SF parameters -/
  | sym (e : Sym)
  /-- an expression over plain symbols: `blackbird.RegRefTransform`, or what `par_from_str` returns -/
  | rrt (e : ISym)
  /-- the string `"p<i>"` in a TDM IR -/
  | pname (i : Nat)
deriving DecidableEq, Repr, Inhabited

/-- unary minus as Python evaluates it on a parameter (`none` = `TypeError`) -/
def Val.neg : Val → Option Val
  | .sc s => some (.sc s.neg)
  | .arr sh d => some (.arr sh (d.map Sc.neg))
  | .sym e => some (.sym e.negate)
  | _ => none

/-! ### programs -/

structure Cmd where
  cls : String
  regs : List Nat
  pars : List Val := []
  dagger : Bool := false
  select : Option Val := none
  dark : Option Val := none
  /-- constructor keyword options that change the meaning and are not part of `op.p` -/
  kw : List (String × Val) := []
deriving DecidableEq, Repr, Inhabited

structure Tdm where
  N : List Nat
  params : List (List Sc)
deriving DecidableEq, Repr, Inhabited

structure Prog where
  name : String
  n : Nat
  target : Option String := none
  shots : Option Nat := none
  cutoff : Option Nat := none
  tdm : Option Tdm := none
  /-- run and backend options other than `shots` and `cutoff_dim` (run options first) -/
  extra : List (String × Val) := []
  cmds : List Cmd
deriving DecidableEq, Repr, Inhabited

inductive Err
  | valueError | typeError | indexError | nameError | unmodelled
deriving DecidableEq, Repr, Inhabited

instance {ε α : Type} [DecidableEq ε] [DecidableEq α] : DecidableEq (Except ε α) := fun a b =>
  match a, b with
  | .ok x, .ok y => if h : x = y then isTrue (by rw [h]) else isFalse (fun e => h (by cases e; rfl))
  | .error x, .error y => if h : x = y then isTrue (by rw [h]) else isFalse (fun e => h (by cases e; rfl))
  | .ok _, .error _ => isFalse (fun e => by cases e)
  | .error _, .ok _ => isFalse (fun e => by cases e)

/-- `"Measure" in name` -/
def isPrefixL : List Char → List Char → Bool
  | [], _ => true
  | _ :: _, [] => false
  | a :: as, b :: bs => a == b && isPrefixL as bs

def isInfixL (p : List Char) : List Char → Bool
  | [] => p.isEmpty
  | c :: cs => isPrefixL p (c :: cs) || isInfixL p cs

def isMeasure (cls : String) : Bool := isInfixL "Measure".toList cls.toList

/-- `blackbird_io.NEGATION_INVERTS` -/
def negInverts (cls : String) : Bool :=
  ["Xgate", "Zgate", "Rgate", "Pgate", "Vgate", "Kgate", "CXgate", "CZgate", "CKgate", "Dgate", "Sgate",
   "BSgate", "S2gate"].contains cls

/-- `np.pi / 2` as the float it is -/
def halfPi : Val := .sc (.flt (884279719003555 / 562949953421312))

/-- `io.utils._constructor_params`: the constructor of `Fouriergate` takes no argument -/
def ctorParams (c : Cmd) : List Val := if c.cls = "Fouriergate" then [] else c.pars

/-- highest mode index used by a list of mode lists, plus one (`max(modes) + 1`); 0 if none -/
def maxSucc : List Nat → Nat
  | [] => 0
  | x :: xs => max (x + 1) (maxSucc xs)

def modeCount (l : List (List Nat)) : Nat := maxSucc l.flatten

/-! ### Blackbird -/

structure BBOp where
  op : String
  modes : List Nat
  args : List Val
  kwargs : List (String × Val)
deriving DecidableEq, Repr, Inhabited

structure BB where
  name : String
  /-- `bb.modes` (a set; kept ascending without duplicates) -/
  modes : List Nat
  target : Option String := none
  /-- `bb.target["options"]` restricted to the keys the reader uses -/
  shots : Option Nat := none
  cutoff : Option Nat := none
  /-- `bb.programtype`: `some temporal_modes` for type `tdm` -/
  tdm : Option Nat := none
  /-- `bb._var["p0"], bb._var["p1"], …` (each a one-row array) -/
  vars : List (List Sc) := []
  /-- the other entries of `bb.target["options"]` -/
  extra : List (String × Val) := []
  ops : List BBOp
deriving DecidableEq, Repr, Inhabited

/-- `_param_to_blackbird` followed by the TDM replacement of loop variables by their names
(all operations, measurements included) -/
def bbArg (tdm : Bool) : Val → Val
  | .sym e =>
    match constVal e with
    | some v => .sc v                   -- a constant expression: its value
    | none =>
      if e.meas ≠ [] then .rrt (toI e)    -- contains measured parameters: RegRefTransform
      else match tdm, e.pos.loop with
        | true, some i => .pname i        -- `str(p) == str(ar)` for a loop variable: its name
        | _, _ => .str e.pos.text         -- `str(a)`
  | v => v

def optKw (k : String) : Option Val → List (String × Val)
  | some v => [(k, v)]
  | none => []

/-- `params[0] = -params[0]` -/
def negFirst : List Val → Except Err (List Val)
  | [] => .error .indexError
  | a :: as => match a.neg with
    | some b => .ok (b :: as)
    | none => .error .typeError

def toBBOp (tdm : Bool) (c : Cmd) : Except Err BBOp :=
  if isMeasure c.cls then
    .ok { op := c.cls, modes := c.regs, args := c.pars.map (bbArg tdm),
          kwargs := optKw "select" c.select ++
            (if c.cls = "MeasureFock" then optKw "dark_counts" c.dark else []) }
  else do
    let ps ← if c.dagger then
        (if negInverts c.cls then negFirst (ctorParams c) else .error .valueError)
      else .ok (ctorParams c)
    .ok { op := c.cls, modes := c.regs, args := ps.map (bbArg tdm), kwargs := [] }

/-- `to_blackbird` -/
def toBB (p : Prog) : Except Err BB := do
  let ops ← p.cmds.mapM (toBBOp p.tdm.isSome)
  -- options are only stored when the program has a target
  let (sh, cu) := if p.target.isSome then (p.shots, p.cutoff) else (none, none)
  .ok { name := p.name, modes := List.range p.n, target := p.target, shots := sh, cutoff := cu,
        tdm := p.tdm.map fun t => (t.params.headD []).length   -- prog.timebins = len(tdm_params[0])
        vars := match p.tdm with | some t => t.params | none => []
        extra := if p.target.isSome then p.extra else []
        ops := ops }

/-- insert into an ascending duplicate-free list -/
def insertAsc (x : Nat) : List Nat → List Nat
  | [] => [x]
  | y :: ys => if x < y then x :: y :: ys else if x = y then y :: ys else y :: insertAsc x ys

/-- text carries no state: a `RegRefTransform` read from text holds no value -/
def textVal : Val → Val
  | .rrt e => .rrt { e with val := none }
  | v => v

/-- what `blackbird.loads(bb.serialize())` returns for `bb`: the set of modes is recomputed from
the operations, values held by parameters are gone (trusted text layer, validated on every run) -/
def reparseBB (bb : BB) : BB :=
  { bb with modes := (bb.ops.map (·.modes)).flatten.foldr insertAsc []
            ops := bb.ops.map fun o => { o with args := o.args.map textVal } }

/-- `par_convert` on one argument for a program with `n` subsystems -/
def convert (n : Nat) : Val → Except Err Val
  | .rrt ie => if (fromI ie).meas.all (· < n) then .ok (.sym (fromI ie)) else .error .indexError
  | .sym e => if e.meas.all (· < n) then .ok (.sym e.noVal) else .error .indexError
  | v => .ok v

/-- Blackbird `_expression`: a string that `par_from_str` parses (the harness-supplied table `P` answers
only for strings containing a brace) is the expression it denotes, other arguments stay -/
def bbExpr (P : String → Option ISym) : Val → Val
  | .str s => match P s with
    | some e => .rrt e
    | none => .str s
  | v => v

/-- `op["op"] in ops.__all__` (the classes; the shorthand instances are not operations a writer emits) -/
def checkName (cls : String) : Except Err Unit :=
  if SFV.Gen.ioClassNames.contains cls then .ok ()
  else if SFV.Gen.ioShorthands.contains cls then .error .unmodelled
  else .error .nameError

def lookupKw (k : String) (l : List (String × Val)) : Option Val := (l.find? (·.1 = k)).map (·.2)

/-- `gate(*args, **kwargs)` for the keyword arguments the writers produce (`phi`, `select`,
`dark_counts`); `inv` is the XIR inverse modifier -/
def build (cls : String) (regs : List Nat) (args : List Val) (kwargs : List (String × Val)) (inv : Bool) :
    Except Err Cmd :=
  if cls = "Fouriergate" ∧ args ≠ [] then .error .typeError
  else if kwargs.any (fun kv => !(["phi", "select", "dark_counts"].contains kv.1)) then .error .unmodelled
  else .ok { cls := cls, regs := regs, dagger := inv,
             pars := if cls = "Fouriergate" then [halfPi] else args ++ (lookupKw "phi" kwargs).toList,
             select := lookupKw "select" kwargs, dark := lookupKw "dark_counts" kwargs, kw := [] }

def convertKw (n : Nat) (l : List (String × Val)) : Except Err (List (String × Val)) :=
  l.mapM fun kv => do let v ← convert n kv.2; pure (kv.1, v)

/-- a string argument outside a TDM program stays a string -/
def unPname : Val → Val
  | .pname i => .str ("p" ++ toString i)
  | v => v

def fromBBOp (P : String → Option ISym) (n : Nat) (o : BBOp) : Except Err Cmd := do
  checkName o.op
  let args ← (o.args.map (bbExpr P ∘ unPname)).mapM (convert n)
  let kws ← convertKw n (o.kwargs.map fun kv => (kv.1, bbExpr P (unPname kv.2)))
  build o.op o.modes args kws false

/-- `from_blackbird` -/
def fromBB (P : String → Option ISym) (bb : BB) : Except Err Prog := do
  let n := modeCount [bb.modes]
  let cmds ← bb.ops.mapM (fromBBOp P n)
  .ok { name := bb.name, n := n, target := bb.target, shots := bb.shots, cutoff := bb.cutoff,
        tdm := none, cmds := cmds }

/-- `is_free_param` / `is_ptype` arguments become the loop variables of the new TDM program -/
def tdmArg : Val → Val
  | .pname i => .sym (loopSym i)
  | v => v

def fromBBOpTdm (P : String → Option ISym) (n : Nat) (o : BBOp) : Except Err Cmd := do
  checkName o.op
  let args ← (o.args.map (bbExpr P ∘ tdmArg)).mapM (convert n)
  let kws ← convertKw n (o.kwargs.map fun kv => (kv.1, bbExpr P (tdmArg kv.2)))
  build o.op o.modes args kws false

/-- `from_blackbird_to_tdm`: `TDMProgram(max(bb.modes) + 1)` -/
def fromBBTdm (P : String → Option ISym) (bb : BB) : Except Err Prog := do
  let n := modeCount [bb.modes]
  let cmds ← bb.ops.mapM (fromBBOpTdm P n)
  .ok { name := bb.name, n := n, target := bb.target, shots := bb.shots, cutoff := bb.cutoff,
        tdm := some { N := [n], params := bb.vars }, cmds := cmds }

/-- `to_program` on a Blackbird program -/
def toProgramBB (P : String → Option ISym) (bb : BB) : Except Err Prog :=
  if bb.modes = [] then .error .valueError
  else if bb.tdm.isSome then fromBBTdm P bb else fromBB P bb

/-! ### XIR -/

inductive XParams
  | pos (l : List Val)
  | kw (l : List (String × Val))
deriving DecidableEq, Repr, Inhabited

structure XStmt where
  name : String
  params : XParams
  wires : List Nat
  inverse : Bool := false
deriving DecidableEq, Repr, Inhabited

structure XIR where
  /-- options `_type_ = tdm` and `N` -/
  tdmN : Option (List Nat) := none
  /-- option `_name_` -/
  name : Option String := none
  /-- option `target` -/
  target : Option String := none
  cutoff : Option Nat := none
  shots : Option Nat := none
  /-- constants `p0, p1, …` -/
  consts : List (List Sc) := []
  stmts : List XStmt
deriving DecidableEq, Repr, Inhabited

/-- `_param_to_xir` (all operations, the phase of a measurement included); the value an expression
currently holds is not looked at -/
def xirArg (tdm : Bool) : Val → Val
  | .sym e =>
    match constVal e with
    | some v => .sc v                 -- a constant expression: its value
    | none => match tdm, e.pos.loop with
      | true, some i => .pname i      -- `a in prog.loop_vars`: its name
      | _, _ => .str e.pos.plain      -- `a.name` / `str` of the expression with plain names
  | .arr [_] d => .lst d            -- `_listr` of a 1-D array
  | v => v

def toXStmt (tdm : Bool) (c : Cmd) : XStmt :=
  if isMeasure c.cls then
    { name := c.cls, wires := c.regs, inverse := c.dagger,
      params := .kw ((match c.pars with | a :: _ => [("phi", xirArg tdm a)] | [] => []) ++
        optKw "select" c.select ++ (if c.cls = "MeasureFock" then optKw "dark_counts" c.dark else [])) }
  else
    { name := c.cls, wires := c.regs, inverse := c.dagger, params := .pos ((ctorParams c).map (xirArg tdm)) }

def nonEmpty (s : String) : Option String := if s = "" then none else some s

/-- `to_xir` -/
def toXIR (p : Prog) : XIR :=
  { tdmN := p.tdm.map (·.N), consts := match p.tdm with | some t => t.params | none => []
    name := nonEmpty p.name, target := p.target.bind nonEmpty, cutoff := p.cutoff, shots := p.shots,
    stmts := p.cmds.map (toXStmt p.tdm.isSome) }

/-- XIR `_expression`: every string is an expression (`par_from_str`; a string SymPy cannot parse
raises `SympifyError`, a `ValueError`) -/
def xirExpr (P : String → Option ISym) : Val → Except Err Val
  | .str s => match P s with
    | some e => .ok (.rrt e)
    | none => .error .valueError
  | v => .ok v

/-- positional argument in `from_xir`: strings are expressions, other iterables become arrays -/
def xirReadArg (P : String → Option ISym) : Val → Except Err Val
  | .lst l => .ok (.arr [l.length] l)
  | .pname i => xirExpr P (.str ("p" ++ toString i))
  | v => xirExpr P v

def fromXStmt (P : String → Option ISym) (n : Nat) (s : XStmt) : Except Err Cmd := do
  checkName s.name
  match s.params with
  | .kw [] => build s.name s.wires [] [] s.inverse
  | .pos [] => build s.name s.wires [] [] s.inverse
  | .kw l => do
    let vals ← l.mapM fun kv => do let v ← xirExpr P (unPname kv.2); pure (kv.1, v)
    let kws ← convertKw n vals
    build s.name s.wires [] kws s.inverse
  | .pos l => do
    let a ← l.mapM (xirReadArg P)
    let a ← a.mapM (convert n)
    build s.name s.wires a [] s.inverse

/-- `from_xir` -/
def fromXIR (P : String → Option ISym) (x : XIR) : Except Err Prog :=
  if (x.stmts.map (·.wires)).flatten = [] then .error .valueError
  else do
    let n := modeCount (x.stmts.map (·.wires))
    let cmds ← x.stmts.mapM (fromXStmt P n)
    .ok { name := x.name.getD "sf_from_xir", n := n, target := x.target, shots := x.shots,
          cutoff := x.cutoff, tdm := none, cmds := cmds }

/-- an argument in `from_xir_to_tdm`: `p<i>` is the loop variable, other strings are expressions -/
def xirReadArgTdm (P : String → Option ISym) (k : Nat) : Val → Except Err Val
  | .lst l => .ok (.arr [l.length] l)
  | .pname i => if i < k then .ok (.sym (loopSym i)) else .error .indexError
  | v => xirExpr P v

/-- a keyword argument in `from_xir_to_tdm` (lists stay lists) -/
def xirReadKwTdm (P : String → Option ISym) (k : Nat) : Val → Except Err Val
  | .pname i => if i < k then .ok (.sym (loopSym i)) else .error .indexError
  | v => xirExpr P v

def fromXStmtTdm (P : String → Option ISym) (n k : Nat) (s : XStmt) : Except Err Cmd := do
  checkName s.name
  match s.params with
  | .kw [] => build s.name s.wires [] [] s.inverse
  | .pos [] => build s.name s.wires [] [] s.inverse
  | .kw l => do
    let vals ← l.mapM fun kv => do let v ← xirReadKwTdm P k kv.2; pure (kv.1, v)
    let kws ← convertKw n vals
    build s.name s.wires [] kws s.inverse
  | .pos l => do
    let a ← l.mapM (xirReadArgTdm P k)
    let a ← a.mapM (convert n)
    build s.name s.wires a [] s.inverse

/-- `from_xir_to_tdm` -/
def fromXIRTdm (P : String → Option ISym) (x : XIR) : Except Err Prog :=
  match x.tdmN with
  | none => .error .valueError
  | some [] => .error .valueError
  | some N => do
    let n := N.foldl (· + ·) 0
    let cmds ← x.stmts.mapM (fromXStmtTdm P n x.consts.length)
    .ok { name := x.name.getD "xir", n := n, target := x.target, shots := x.shots, cutoff := x.cutoff,
          tdm := some { N := N, params := x.consts }, cmds := cmds }

/-- `to_program` on an XIR program -/
def toProgramXIR (P : String → Option ISym) (x : XIR) : Except Err Prog :=
  if x.tdmN.isSome then fromXIRTdm P x else fromXIR P x

/-! ### `_factor_out_pi` on a multiple `m · π/12` -/

/-- `(coeff, den)`: the term `coeff*np.pi/den` chosen for `p = m·π/12` -/
def piTerm (m : Int) : Int × Nat :=
  let g := Int.gcd m 12
  if g = 12 then (m / 12, 1) else (m / (g : Int), 12 / g)

def piString (m : Int) : String :=
  let (c, d) := piTerm m
  if d = 1 then (if c = 1 then "np.pi" else toString c ++ "*np.pi")
  else (if c = 1 then "np.pi/" ++ toString d else toString c ++ "*np.pi/" ++ toString d)

end SFV.Io
