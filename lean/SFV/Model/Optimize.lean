import SFV.Model.Circuit
/-!
K1 — the circuit optimiser.  Executable model of `program_utils.optimize_circuit` and of the merge
rules of `ops.py` (`Gate.merge`, `Channel.merge`, `Preparation.merge`, `Decomposition.merge`,
`Fouriergate.merge` and the classes whose `merge` always raises `MergeFailure`), transcribed branch
by branch from the code as it is now.

Core Lean only (no Mathlib).  Proofs are in `SFV/Proofs/Optimize.lean`, the property theorems in
`SFV/Props/C03.lean`.
-/
namespace SFV

/-! ### the operation class table (hand-listed; `Props/C03.lean` proves by `decide` that it agrees
with the table generated from `ops.py` on every build) -/

/-- which `merge` implementation a class uses -/
inductive Rule
  | gate      -- `Gate.merge`: same class, same tail parameters, add the first parameters
  | channel   -- `Channel.merge`: same class, same tail parameters, multiply the first parameters
  | matrix    -- `Decomposition.merge` / `Channel.merge` on a matrix: matrix product `U₂ @ U₁`
  | prep      -- `Preparation.merge`: the later preparation wins
  | fourier   -- `Fouriergate.merge`: cancels against its inverse only
  | never     -- `merge` always raises `MergeFailure` (or is not reachable because `ns ≠ 1`)
deriving DecidableEq, Repr

/-- how `op.ns` is determined -/
inductive NsKind
  | fixed (n : Nat)   -- class attribute
  | perInstance       -- set by `__init__` from the shape of the first parameter (= number of targets)
  | absent            -- `ns = None`
deriving DecidableEq, Repr

/-- class name ↦ (merge rule, ns).  The *lawful families* are the entries whose rule is not `never`. -/
def classTable : List (String × Rule × NsKind) :=
  [ -- one-parameter unitary groups in `p[0]` at fixed remaining parameters
    ("Rgate", .gate, .fixed 1), ("Sgate", .gate, .fixed 1), ("Dgate", .gate, .fixed 1),
    ("Xgate", .gate, .fixed 1), ("Zgate", .gate, .fixed 1), ("Pgate", .gate, .fixed 1),
    ("Vgate", .gate, .fixed 1), ("Kgate", .gate, .fixed 1),
    ("BSgate", .gate, .fixed 2), ("S2gate", .gate, .fixed 2), ("CXgate", .gate, .fixed 2),
    ("CZgate", .gate, .fixed 2), ("CKgate", .gate, .fixed 2),
    -- inherits `Gate.merge` although its first parameter is not additive (known finding; listed in
    -- `knownUnlawful`; never merged by `optimize_circuit` because `ns = 2`)
    ("MZgate", .gate, .fixed 2),
    ("Fouriergate", .fourier, .fixed 1),
    -- channels multiplicative in `p[0]`
    ("LossChannel", .channel, .fixed 1), ("ThermalLossChannel", .channel, .fixed 1),
    -- matrix-valued first parameter, composition = matrix product
    ("PassiveChannel", .matrix, .perInstance),
    ("Interferometer", .matrix, .perInstance), ("GaussianTransform", .matrix, .perInstance),
    -- state preparations: the later one wins
    ("Vacuum", .prep, .fixed 1), ("Coherent", .prep, .fixed 1), ("Squeezed", .prep, .fixed 1),
    ("DisplacedSqueezed", .prep, .fixed 1), ("Thermal", .prep, .fixed 1), ("Fock", .prep, .fixed 1),
    ("Catstate", .prep, .fixed 1), ("GKP", .prep, .fixed 1), ("Bosonic", .prep, .fixed 1),
    ("Ket", .prep, .absent), ("DensityMatrix", .prep, .absent), ("Gaussian", .prep, .perInstance),
    -- never merged
    ("MeasureFock", .never, .absent), ("MeasureThreshold", .never, .absent),
    ("MeasureHomodyne", .never, .fixed 1), ("MeasureHeterodyne", .never, .fixed 1),
    ("MSgate", .never, .fixed 1), ("Ggate", .never, .perInstance),
    ("sMZgate", .never, .fixed 2),
    ("GraphEmbed", .never, .perInstance), ("BipartiteGraphEmbed", .never, .perInstance),
    ("_Delete", .never, .absent), ("_New_modes", .never, .fixed 0) ]

/-- classes that use an inherited merge rule their semantics does not obey (known findings) -/
def knownUnlawful : List String := ["MZgate"]

def classInfo (cls : String) : Option (Rule × NsKind) :=
  (classTable.find? fun e => e.1 == cls).map (·.2)

/-- merge rule of a class (`never` for a class that is not in the table) -/
def ruleOf (cls : String) : Rule := ((classInfo cls).map (·.1)).getD .never

/-- `cmd.op.ns` -/
def nsOf (c : Cmd) : Option Nat :=
  match classInfo c.cls with
  | some (_, .fixed n) => some n
  | some (_, .perInstance) => some c.regs.length
  | _ => none

/-! ### parameter arithmetic

A parameter is a number or `k * s` for one symbol `s` (a measured or a free parameter).  Sums
leaving this fragment (two different symbols, number + symbol) are not modelled: `Par.add` returns
`none` and the merge is treated as failed; the correspondence generator stays inside the fragment. -/

def Par.neg : Par → Par
  | .num q => .num (-q)
  | .meas m k => .meas m (-k)

def Par.add : Par → Par → Option Par
  | .num x, .num y => some (.num (x + y))
  | .meas m k, .meas m' k' =>
    if m = m' then (if k + k' = 0 then some (.num 0) else some (.meas m (k + k'))) else none
  | _, _ => none

/-- value of a parameter under an assignment of the symbols -/
def Par.val (θ : Nat → Rat) : Par → Rat
  | .num q => q
  | .meas m k => k * θ m

/-- all parameters numeric -/
def parsNums : List Par → Option (List Rat)
  | [] => some []
  | .num q :: ps => (parsNums ps).map (q :: ·)
  | _ :: _ => none

/-! ### square matrices as row-major lists -/

def matMul (n : Nat) (A B : List Rat) : List Rat :=
  (List.range n).flatMap fun i => (List.range n).map fun j =>
    ((List.range n).map fun k => A.getD (i * n + k) 0 * B.getD (k * n + j) 0).sum

def identMat (n : Nat) : List Rat :=
  (List.range n).flatMap fun i => (List.range n).map fun j => if i = j then 1 else 0

/-! ### merge rules -/

/-- result of `a.op.merge(b.op)`: `MergeFailure`, `None` (identity) or a new operation.  The
operation is carried as a `Cmd`; identity and register are assigned by the caller. -/
inductive MergeRes
  | fail
  | identity
  | merged (op : Cmd)
deriving DecidableEq, Repr

/-- `Gate.merge` -/
def gateMerge (a b : Cmd) : MergeRes :=
  if a.cls ≠ b.cls then .fail
  else match a.pars, b.pars with
    | pa :: ta, pb :: tb =>
      if ta = tb then
        match Par.add pa (if a.dagger = b.dagger then pb else pb.neg) with
        | some p0 => if p0 = .num 0 then .identity else .merged { a with pars := p0 :: ta }
        | none => .fail
      else .fail
    | _, _ => .fail

/-- `Channel.merge` with a scalar first parameter -/
def channelMerge (a b : Cmd) : MergeRes :=
  if a.cls ≠ b.cls then .fail
  else match a.pars, b.pars with
    | .num x :: ta, .num y :: tb =>
      if ta = tb then
        (if y * x = 1 then .identity else .merged { a with pars := .num (y * x) :: ta })
      else .fail
    | _, _ => .fail

/-- `Decomposition.merge` (and `Channel.merge` of `PassiveChannel`): `U = U₂ @ U₁`, identity ⇒ `None`;
the parameter list of the command is the matrix, row-major -/
def matrixMerge (a b : Cmd) : MergeRes :=
  if a.cls ≠ b.cls then .fail
  else match parsNums a.pars, parsNums b.pars with
    | some A, some B =>
      if A.length ≠ B.length then .fail
      else
        let n := Nat.sqrt A.length
        let U := matMul n B A
        if U = identMat n then .identity else .merged { a with pars := U.map .num }
    | _, _ => .fail

/-- `Preparation.merge` -/
def prepMerge (_a b : Cmd) : MergeRes :=
  if ruleOf b.cls = .prep then .merged b else .fail

/-- `Fouriergate.merge` -/
def fourierMerge (a b : Cmd) : MergeRes :=
  if a.cls ≠ b.cls then .fail
  else if a.dagger ≠ b.dagger then .identity else .fail

/-- `a.op.merge(b.op)` -/
def opMerge (a b : Cmd) : MergeRes :=
  match ruleOf a.cls with
  | .gate => gateMerge a b
  | .channel => channelMerge a b
  | .matrix => matrixMerge a b
  | .prep => prepMerge a b
  | .fourier => fourierMerge a b
  | .never => .fail

/-! ### the wire-wise loop of `optimize_circuit` -/

/-- outcome of one pass through the body of the `while` loop for the pair `(a, b) = (q[i], q[i+1])` -/
inductive Step
  | advance              -- `i += 1`
  | identity             -- both deleted
  | merged (c : Cmd)     -- both deleted, `c` inserted at `i`
deriving DecidableEq, Repr

/-- the body of the `try` block.  `B` is the offset that makes the identity of a newly created
`Command` object fresh (`B` > every id of the input). -/
def tryMerge (B : Nat) (a b : Cmd) : Step :=
  if nsOf a = nsOf b ∧ a.regs = b.regs then
    if nsOf a ≠ some 1 ∨ a.deps ≠ [] ∨ b.deps ≠ [] then .advance
    else match opMerge a b with
      | .fail => .advance
      | .identity => .identity
      | .merged op => .merged { op with id := a.id + B, regs := a.regs }
  else .advance

/-- the `while i + 1 < len(q)` loop on one wire, as a zipper: `done` is `q[:i]` reversed, `rest` is
`q[i:]`.  `try` is the loop body; `fuel` bounds the number of iterations (see `optLoop_fuel`). -/
def optLoop (try_ : Cmd → Cmd → Step) : Nat → List Cmd → List Cmd → List Cmd
  | fuel + 1, done, a :: b :: rest =>
    match try_ a b with
    | .advance => optLoop try_ fuel (a :: done) (b :: rest)
    | .identity =>
      match done with
      | [] => optLoop try_ fuel [] rest
      | d :: done' => optLoop try_ fuel done' (d :: rest)       -- `i -= 1`
    | .merged m =>
      match done with
      | [] => optLoop try_ fuel [] (m :: rest)
      | d :: done' => optLoop try_ fuel done' (d :: m :: rest)  -- `i -= 1`
  | _, done, rest => done.reverse ++ rest

/-- iterations that always suffice for a wire with `n` commands -/
def optFuel (n : Nat) : Nat := 2 * n + 1

/-- the optimised row of one wire -/
def optRow (B : Nat) (row : List Cmd) : List Cmd := optLoop (tryMerge B) (optFuel row.length) [] row

/-- the grid after the merge loops (rows sorted by wire index) -/
def optGrid (B : Nat) (l : List Cmd) : List (Nat × List Cmd) :=
  (allWires l).map fun w => (w, optRow B (gridRow l w))

/-- `out` is a list that `DAG_to_list(grid_to_DAG(grid))` may return for the optimised grid of `l`:
on every wire, the commands of `out` touching it are exactly the optimised row, in order; every
command of `out` sits on at least one wire. -/
def isOptOutput (B : Nat) (l out : List Cmd) : Bool :=
  out.all (fun c => !c.wires.isEmpty) &&
  (allWires l ++ allWires out).all fun w => gridRow out w == optRow B (gridRow l w)

end SFV
