/-
C12 — hardware compilation.  Executable model of the logic core of

* `compilers/compiler.py`: `Range.__contains__`, `Ranges.__contains__`, `Compiler.init_circuit` / `reset_circuit`;
* `device.py`: `Device.gate_parameters` (spec entries → `Ranges`), `Device.validate_parameters`
  (what `program_utils.validate_gate_parameters` decides once `match_template` has produced the parameter dict);
* `program.py: Program.assert_modes`, `tdm/program.py: TDMProgram.assert_modes`;
* the X-series template: the command skeleton `Xunitary.compile` / `Xcov.compile` emit
  (`S2gate`s ⧺ `U1` ⧺ `U2` ⧺ `MeasureFock`, `U1` = `Interferometer(mesh="rectangular_symmetric",
  drop_identity=False)._decompose`, whose mode pairs come from `decompositions.rectangular_MZ` /
  `rectangular_symmetric`) and the device layout skeleton (rectangular mesh written layer by layer);
* `compilers/xunitary.py`: `list_duplicates`, the S2-merge loop (pop / insert list surgery);
* `compilers/tdm.py`: `Borealis.compile` loop-offset insertion, `Borealis.update_params` phase arithmetic
  (angles are rationals in units of π: the value `q` stands for the angle `q·π`).

Not modelled: Blackbird `match_template` / NetworkX graph isomorphism (exercised by the oracle), the numerical
decompositions (Clements angles, Takagi) — only which gate sits on which modes.

Core Lean only (no Mathlib).
-/
namespace SFV.Hw

/-! ## `Range`, `Ranges` (compilers/compiler.py) and `Device.gate_parameters` (device.py) -/

structure Range where
  x : Rat
  y : Rat
  atol : Rat
deriving Repr, DecidableEq

/-- `Range.__contains__`: `self.x - self.atol <= item <= self.y + self.atol` -/
def Range.contains (r : Range) (v : Rat) : Bool :=
  decide (r.x - r.atol ≤ v) && decide (v ≤ r.y + r.atol)

/-- `Ranges.__contains__`: some range contains the item -/
def rangesContain (rs : List Range) (v : Rat) : Bool := rs.any (·.contains v)

/-- default `atol=1e-5` of `Range.__init__` -/
def defaultAtol : Rat := 1 / 100000

/-- `Range(*a)` as called from `Ranges(*range_list)`: one value = single point, two = bounds;
`y < x` raises `ValueError` (modelled as `none`); other lengths are a `TypeError` (`none`). -/
def mkRange (a : List Rat) : Option Range :=
  match a with
  | [x] => some ⟨x, x, defaultAtol⟩
  | [x, y] => if y < x then none else some ⟨x, y, defaultAtol⟩
  | _ => none

/-- `Device.gate_parameters` for one gate: every entry of the spec list that is not a sequence is
wrapped in a one-element list (`[i] if not isinstance(i, Sequence) else i`); the harness sends scalars
already wrapped. -/
def mkRanges (entries : List (List Rat)) : Option (List Range) := entries.mapM mkRange

/-! ## `Device.validate_parameters` -/

inductive VErr
  | unknown (p : String)            -- "Parameter 'p' not a valid parameter for this device"
  | invalid (p : String) (v : Rat)  -- "'p' has invalid value v"
deriving Repr, DecidableEq

/-- first value of the (flattened) list that is in none of the ranges -/
def firstInvalid (rs : List Range) : List Rat → Option Rat
  | [] => none
  | v :: vs => if rangesContain rs v then firstInvalid rs vs else some v

def lookup (gp : List (String × List Range)) (p : String) : Option (List Range) :=
  match gp with
  | [] => none
  | (q, rs) :: rest => if q = p then some rs else lookup rest p

/-- `for p, v in parameters.items()`: unknown name ⇒ error; then every (flattened) value must lie in
`gate_parameters[p]`.  `none` = no exception.  (`gate_parameters is None` ⇒ no check: `gp = none`.) -/
def validateParameters (gp : Option (List (String × List Range))) :
    List (String × List Rat) → Option VErr
  | [] => none
  | (p, vs) :: rest =>
    match gp with
    | none => none
    | some g =>
      match lookup g p with
      | none => some (.unknown p)
      | some rs =>
        match firstInvalid rs vs with
        | some v => some (.invalid p v)
        | none => validateParameters gp rest

/-! ## `Compiler.init_circuit` / `reset_circuit` (class-level layout cache) -/

def stripNewlines (s : String) : String := s.replace "\n" ""

/-- state = `cls._layout`.  `if cls._layout:` — `None` and `""` are falsy.  Returns the new state, or
`none` for the `CircuitError` ("Circuit already set in compiler"). -/
def initCircuit (cur : Option String) (layout : String) : Option (Option String) :=
  match cur with
  | some l =>
    if l ≠ "" then
      if stripNewlines l ≠ stripNewlines layout then none else some cur
    else some (some layout)
  | none => some (some layout)

inductive LayoutEv
  | init (layout : String)
  | reset
deriving Repr

/-- run a history of calls; rejected `init_circuit` calls leave the state unchanged.  Returns the final
state and the accept flag of every call. -/
def runLayout : Option String → List LayoutEv → Option String × List Bool
  | s, [] => (s, [])
  | _, .reset :: es => let (s', fl) := runLayout none es; (s', true :: fl)
  | s, .init l :: es =>
    match initCircuit s l with
    | none => let (s', fl) := runLayout s es; (s', false :: fl)
    | some s1 => let (s', fl) := runLayout s1 es; (s', true :: fl)

/-! ## `assert_modes` -/

/-- `sub in s` for strings -/
def hasSub (s sub : String) : Bool := (s.splitOn sub).length > 1

inductive MeasKind | pnr | homodyne | heterodyne | other
deriving Repr, DecidableEq

/-- the `if / elif / elif` chain on `str(c.op)` -/
def measKind (opName : String) : MeasKind :=
  if hasSub opName "MeasureFock" then .pnr
  else if hasSub opName "MeasureHomodyne" || hasSub opName "MeasureX" || hasSub opName "MeasureP" then .homodyne
  else if hasSub opName "MeasureHeterodyne" || hasSub opName "MeasureHD" then .heterodyne
  else .other

/-- `(num_pnr, num_homodyne, num_heterodyne)`; a command is `(kind, len(c.reg))` -/
def countMeas : List (MeasKind × Nat) → Nat × Nat × Nat
  | [] => (0, 0, 0)
  | (k, n) :: rest =>
    let (a, b, c) := countMeas rest
    match k with
    | .pnr => (a + n, b, c)
    | .homodyne => (a, b + n, c)
    | .heterodyne => (a, b, c + n)
    | .other => (a, b, c)

inductive ModesErr | total | pnr | homodyne | heterodyne | temporal | concurrent | spatial
deriving Repr, DecidableEq

/-- `isinstance(device.modes, int)` branch -/
def assertModesInt (modesTotal devModes : Nat) : Option ModesErr :=
  if modesTotal > devModes then some .total else none

/-- dictionary branch: the three comparisons in source order -/
def assertModesDict (circ : List (MeasKind × Nat)) (maxPnr maxHom maxHet : Nat) : Option ModesErr :=
  let (a, b, c) := countMeas circ
  if a > maxPnr then some .pnr
  else if b > maxHom then some .homodyne
  else if c > maxHet then some .heterodyne
  else none

/-- `TDMProgram.assert_modes` -/
def tdmAssertModes (timebins concurr spatial tmax dconc dspat : Nat) : Option ModesErr :=
  if timebins > tmax then some .temporal
  else if concurr ≠ dconc then some .concurrent
  else if spatial ≠ dspat then some .spatial
  else none

/-! ## X-series template skeleton -/

/-- a command skeleton: operation name and the modes it acts on, in order -/
structure Sk where
  name : String
  modes : List Nat
deriving Repr, DecidableEq

/-- column sweep of `rectangular_MZ` for even `k`: `for j in reversed(range(k+1)): nullMZi(i+j+1, j)`,
which returns the pair `(j, j+1)`; the list of first modes is `k, k-1, …, 0`. -/
def colSweep (k : Nat) : List Nat := (List.range (k + 1)).map fun l => k - l

/-- row sweep for odd `k`, `i = N-2-k`: `for j in range(k+1): nullMZ(i+j+1, j)`, which returns the pair
`(i+j, i+j+1)`. -/
def rowSweep (N k : Nat) : List Nat := (List.range (k + 1)).map fun j => N - 2 - k + j

/-- `tilist` of `rectangular_MZ` (first mode `p` of every pair `(p, p+1)`): `k = 0 … N-2`, even `k` only -/
def tilist (N : Nat) : List Nat :=
  (List.range (N - 1)).flatMap fun k => if k % 2 = 0 then colSweep k else []

/-- `tlist` of `rectangular_MZ`: odd `k` only -/
def tlist (N : Nat) : List Nat :=
  (List.range (N - 1)).flatMap fun k => if k % 2 = 1 then rowSweep N k else []

/-- `rectangular_symmetric`: `new_tlist = tilist + [new_i for i in reversed(tlist)]` — the first modes of
the `MZgate`s that `Interferometer._decompose` emits, in order -/
def compiledMZ (N : Nat) : List Nat := tilist N ++ (tlist N).reverse

/-- layer `l` of the rectangular mesh of the device layout: pairs `(p, p+1)`, `p ≡ l (mod 2)`, ascending -/
def layer (N l : Nat) : List Nat := (List.range (N - 1)).filter fun p => p % 2 = l % 2

/-- the layout mesh: layers `0 … N-1` -/
def layoutMZ (N : Nat) : List Nat := (List.range N).flatMap (layer N)

def s2Sk (N i : Nat) : Sk := ⟨"S2gate", [i, i + N]⟩
def mzSk (off p : Nat) : Sk := ⟨"MZgate", [p + off, p + 1 + off]⟩
def rSk (i : Nat) : Sk := ⟨"Rgate", [i]⟩
def measSk (n : Nat) : Sk := ⟨"MeasureFock", List.range n⟩

/-- `Interferometer(U, mesh="rectangular_symmetric", drop_identity=False)._decompose(reg)` on the `N` modes
`off … off+N-1`: the MZgates, then one `Rgate` per mode -/
def interferometerSk (N off : Nat) : List Sk :=
  (compiledMZ N).map (mzSk off) ++ (List.range N).map fun i => rSk (i + off)

/-- what `Xunitary.compile` / `Xcov.compile` return on `2N` modes: `B + U1 + U2 + meas_seq`;
`s2order` = order of the squeezers in `B` (first modes) -/
def xCompiled (N : Nat) (s2order : List Nat) : List Sk :=
  s2order.map (s2Sk N) ++ interferometerSk N 0 ++ interferometerSk N N ++ [measSk (2 * N)]

/-- the X-series device layout on `2N` modes (for `N = 4` the `X8_01` layout of the repository's fixtures) -/
def xLayout (N : Nat) : List Sk :=
  (List.range N).map (s2Sk N) ++ (layoutMZ N).map (mzSk 0) ++ (layoutMZ N).map (mzSk N)
    ++ (List.range (2 * N)).map rSk ++ [measSk (2 * N)]

/-- the commands on wire `w`, in order -/
def onWire (w : Nat) (l : List Sk) : List Sk := l.filter fun c => c.modes.contains w

/-! ## `xunitary.py`: `list_duplicates` and the S2-merge loop -/

abbrev Key := Nat × Nat

/-- positions of `k` in the sequence (ascending) -/
def positions (k : Key) : List Key → List Nat
  | [] => []
  | x :: xs => (if x = k then [0] else []) ++ (positions k xs).map (· + 1)

/-- keys in order of first occurrence (insertion order of the `defaultdict`) -/
def firstOcc : List Key → List Key
  | [] => []
  | k :: ks => k :: (firstOcc ks).filter (· ≠ k)

/-- `list_duplicates(seq)`: `(key, locs)` for every key with more than one location, in dict order -/
def listDuplicates (seq : List Key) : List (Key × List Nat) :=
  (firstOcc seq).filterMap fun k =>
    let locs := positions k seq
    if locs.length > 1 then some (k, locs) else none

/-- an `S2gate(r, phi) | (a, b)` command -/
structure S2 where
  a : Nat
  b : Nat
  r : Rat
  phi : Rat
  /-- the inverse flag `cmd.op.dagger` -/
  dag : Bool := false
deriving Repr, DecidableEq

def S2.key (c : S2) : Key := (c.a, c.b)

/-- the squeezing a command contributes: `S2gate(r, phi).H = S2gate(-r, phi)` -/
def S2.effR (c : S2) : Rat := if c.dag then -c.r else c.r

inductive MErr | circuit | index | fuel
deriving Repr, DecidableEq

/-- `for k, i in enumerate(sorted(indices, reverse=True))`: `removed_cmd = B.pop(i)`, `r += ±p[0]` (sign by the
inverse flag),
`if k > 0 and phi_new != phi: raise CircuitError`, `phi = phi_new`.  State `(B, r, phi)`. -/
def popLoop : List Nat → Nat → List S2 → Rat → Rat → Except MErr (List S2 × Rat × Rat)
  | [], _, B, r, phi => .ok (B, r, phi)
  | i :: is, k, B, r, phi =>
    match B[i]? with
    | none => .error .index
    | some c =>
      if k > 0 ∧ c.phi ≠ phi then .error .circuit
      else popLoop is (k + 1) (B.eraseIdx i) (r + c.effR) c.phi

/-- one pass of the loop body for the group `(mode, indices)`; `indices` is ascending (as produced by
`list_duplicates`), so `sorted(indices, reverse=True)` is its reverse.  `B.insert(indices[0], …)`. -/
def mergeOne (B : List S2) (g : Key × List Nat) : Except MErr (List S2) :=
  match popLoop g.2.reverse 0 B 0 0 with
  | .error e => .error e
  | .ok (B', r, phi) => .ok (B'.insertIdx (g.2.headD 0) ⟨g.1.1, g.1.2, r, phi, false⟩)

/-- `duplicates = next(list_duplicates(regrefs), None); while duplicates is not None: …` (the repaired
loop: positions are recomputed after every merge).  `fuel` bounds the number of iterations. -/
def mergeLoop : Nat → List S2 → Except MErr (List S2)
  | 0, B =>
    match (listDuplicates (B.map S2.key)).head? with
    | none => .ok B
    | some _ => .error .fuel
  | fuel + 1, B =>
    match (listDuplicates (B.map S2.key)).head? with
    | none => .ok B
    | some g =>
      match mergeOne B g with
      | .error e => .error e
      | .ok B' => mergeLoop fuel B'

/-- `if len(regrefs) > half_n_modes: <merge loop>` -/
def mergeS2 (half : Nat) (B : List S2) : Except MErr (List S2) :=
  if B.length > half then mergeLoop B.length B else .ok B

/-- the squeezer part of `Xunitary.compile` from the S2 group `B` on: the pairs must be allowed
(`(i, i+half)`), missing pairs get zero squeezers inserted at the front (`B.insert(0, …)` per missing
pair; `missing` is iterated in Python-set order, passed in as `missingOrder`), then the merge. -/
def xunitaryS2 (half : Nat) (B : List S2) (missingOrder : List Nat) : Except MErr (List S2) :=
  if B.all (fun c => c.a < half ∧ c.b = c.a + half) then
    let B1 := missingOrder.foldl (fun acc i => (⟨i, i + half, 0, 0, false⟩ : S2) :: acc) B
    mergeS2 half B1
  else .error .circuit

/-! ## `Borealis.compile`: loop-offset insertion -/

/-- what the loop compares: the operation class, the set of wires (sorted), and whether the layout
operation is a loop-offset gate (`_is_loop_offset`) -/
structure TCmd where
  cls : String
  wires : List Nat
  offset : Bool
deriving Repr, DecidableEq

/-- `for i, cmds in enumerate(zip(circuit, seq))` with `seq.insert(i, cmds[0])` while iterating (the list
iterator then sees the displaced user command again at `i+1`); when the user's sequence ends first, the
remaining layout commands are appended if they are all loop offsets (flag `False` each), otherwise
`CircuitError` (repaired behaviour).  Returns the new `seq` and `_user_offsets`; `none` = `CircuitError`. -/
def offsetInsert : List TCmd → List TCmd → Option (List TCmd × List Bool)
  | [], seq => some (seq, [])
  | l :: ls, [] =>
    if (l :: ls).all (·.offset) then some (l :: ls, (l :: ls).map fun _ => false) else none
  | l :: ls, u :: us =>
    let ne := l.cls ≠ u.cls ∨ l.wires ≠ u.wires
    if l.offset then
      if ne then (offsetInsert ls (u :: us)).map fun (s, f) => (l :: s, false :: f)
      else (offsetInsert ls us).map fun (s, f) => (u :: s, true :: f)
    else if ne then none
    else (offsetInsert ls us).map fun (s, f) => (u :: s, f)

/-! ## `Borealis.update_params`: phase compensation, angles in units of π -/

/-- `np.mod(x, 2π)` in units of π -/
def mod2 (q : Rat) : Rat := q - 2 * ((q / 2).floor : Int)

/-- `np.mod(phi, 2π)` then `where(phi > π, phi − 2π, phi)` -/
def wrapPi (q : Rat) : Rat :=
  let m := mod2 q
  if m > 1 then m - 2 else m

/-- `corr_low = phi < −π/2`, `corr_high = phi > π/2`; `+π` resp. `−π` -/
def shiftIntoRange (q : Rat) : Rat :=
  if q < -1 / 2 then q + 1 else if q > 1 / 2 then q - 1 else q

/-- `offset * int(j / delay)` -/
def corrAt (offset : Rat) (delay j : Nat) : Rat := offset * ((j / delay : Nat) : Rat)

/-- one compensated phase: source `phi`, this loop's correction, previous loop's correction -/
def compensate (phi corr prev : Rat) : Rat := shiftIntoRange (wrapPi (phi + corr - prev))

/-- the `for loop, offset in enumerate(phi_loop)` loop.  `prev j` = `corr_previous_loop[j]`;
a loop whose offset was set by the user is skipped (`continue`: neither its phases nor
`corr_previous_loop` change).  Input/Output: the rotation-phase lists `tdm_params[1 + 2*loop]`. -/
def updateLoops (len : Nat) : (prev : Nat → Rat) → List (Rat × Nat × Bool × List Rat) → List (List Rat)
  | _, [] => []
  | prev, (offset, delay, user, phis) :: rest =>
    if user then phis :: updateLoops len prev rest
    else
      let out := (List.range len).map fun j => compensate (phis.getD j 0) (corrAt offset delay j) (prev j)
      out :: updateLoops len (corrAt offset delay) rest

def updateParams (len : Nat) (loops : List (Rat × Nat × Bool × List Rat)) : List (List Rat) :=
  updateLoops len (fun _ => 0) loops

/-! ## `numpy.allclose` and the unitary / adjacency-matrix checks of `Xunitary.compile` / `Xcov.compile`

Complex numbers are pairs `(re, im)` of rationals (the exact values of the floats).  The matrices come from
third-party numerics (`GaussianUnitary` symplectic, thewalrus `Amat`); what is SF's own is which blocks are
taken, what they are compared with, in which order, with which tolerance, and which error follows. -/

abbrev Cq := Rat × Rat
abbrev CM := List (List Cq)

/-- default `atol=1e-8`, `rtol=1e-5` of `numpy.allclose` -/
def atolNp : Rat := 1 / 100000000
def rtolNp : Rat := 1 / 100000

/-- `|a - b| <= atol + rtol * |b|` for complex `a`, `b`, decided exactly: with `d² = |a-b|²`, `n² = |b|²`,
`d ≤ atol + rtol·n  ⟺  d² − atol² − rtol² n² ≤ 2·atol·rtol·n`, and the last inequality is decided by its sign
and its square. -/
def closeC (a b : Cq) : Bool :=
  let d2 := (a.1 - b.1) * (a.1 - b.1) + (a.2 - b.2) * (a.2 - b.2)
  let n2 := b.1 * b.1 + b.2 * b.2
  let lhs := d2 - atolNp * atolNp - rtolNp * rtolNp * n2
  if lhs ≤ 0 then true else decide (lhs * lhs ≤ 4 * atolNp * atolNp * rtolNp * rtolNp * n2)

/-- `np.allclose(A, B)` entry by entry (same shapes) -/
def allcloseM (A B : CM) : Bool :=
  (A.zip B).all fun rr => (rr.1.zip rr.2).all fun ab => closeC ab.1 ab.2

/-- `A[r0:r1, c0:c1]` -/
def blockM (A : CM) (r0 r1 c0 c1 : Nat) : CM :=
  ((A.drop r0).take (r1 - r0)).map fun row => (row.drop c0).take (c1 - c0)

def zerosM (r c : Nat) : CM := List.replicate r (List.replicate c (0, 0))
def identM (n : Nat) : CM := (List.range n).map fun i => (List.range n).map fun j => if i = j then (1, 0) else (0, 0)

def getR (S : List (List Rat)) (i j : Nat) : Rat := (S.getD i []).getD j 0

/-- `S @ S.T` -/
def gramR (m : Nat) (S : List (List Rat)) : CM :=
  (List.range m).map fun i => (List.range m).map fun j =>
    (((List.range m).map fun k => getR S i k * getR S j k).foldl (· + ·) 0, 0)

/-- thewalrus `expand(S, modes, N)`: the `2k × 2k` matrix `S` (xxpp) of the listed modes inside the identity on
`N` modes -/
def expandS (S : List (List Rat)) (modes : List Nat) (N : Nat) : List (List Rat) :=
  let k := modes.length
  let pos (i : Nat) : Option Nat :=      -- row/column of the big matrix ↦ row/column of S
    if i < N then (modes.idxOf? i) else (modes.idxOf? (i - N)).map (· + k)
  (List.range (2 * N)).map fun i => (List.range (2 * N)).map fun j =>
    match pos i, pos j with
    | some a, some b => getR S a b
    | _, _ => if i = j then 1 else 0

inductive XErr | notInterferometer | mix | notIdentical
deriving Repr, DecidableEq

/-- `U = S[:n, :n] - 1j * S[:n, n:]` of the (expanded, if it acts on fewer modes) symplectic matrix -/
def xunitaryU (half : Nat) (S : List (List Rat)) (used : List Nat) : CM :=
  let n := 2 * half
  let S' := if used.length ≠ n then expandS S used n else S
  (List.range n).map fun i => (List.range n).map fun j => (getR S' i j, - getR S' i (j + n))

/-- the validation part of `Xunitary.compile` after `GaussianUnitary().compile`: `S` acts on `used` (all modes,
in order, when the sequence is empty); orthogonality is tested on `S` as returned, the rest on the expanded
matrix.  Returns `U11`. -/
def xunitaryCheck (half : Nat) (S : List (List Rat)) (used : List Nat) : Except XErr CM :=
  if ¬ allcloseM (gramR S.length S) (identM S.length) then .error .notInterferometer else
  let U := xunitaryU half S used
  let n := 2 * half
  if ¬ allcloseM (blockM U 0 half half n) (zerosM half half) ∨ ¬ allcloseM (blockM U half n 0 half) (zerosM half half)
  then .error .mix
  else if ¬ allcloseM (blockM U 0 half 0 half) (blockM U half n half n) then .error .notIdentical
  else .ok (blockM U 0 half 0 half)

/-- the validation part of `Xcov.compile`: `B = A[:n, :n]` of the `A` matrix; `B00`, `B11` must vanish and
`B01` must equal `B10` (`np.allclose(B01, B10)`).  Returns `B01` (handed to `takagi`). -/
def xcovCheck (half : Nat) (A : CM) : Except XErr CM :=
  let n := 2 * half
  let B := blockM A 0 n 0 n
  if ¬ allcloseM (blockM B 0 half 0 half) (zerosM half half) ∨ ¬ allcloseM (blockM B half n half n) (zerosM half half)
  then .error .mix
  else if ¬ allcloseM (blockM B 0 half half n) (blockM B half n 0 half) then .error .notIdentical
  else .ok (blockM B 0 half half n)

/-- `sq_seq` of `Xcov.compile`: the `i`-th Takagi value (in the order `takagi` returns them) squeezes the pair
`(i, i + half)`; entries are `(first mode, second mode, index of the Takagi value)` -/
def xcovSqueezers (half : Nat) : List (Nat × Nat × Nat) := (List.range half).map fun i => (i, i + half, i)

/-! ## `Borealis.add_loss` and `program_utils.remove_loss` -/

/-- argument of an inserted `LossChannel`: a number from the certificate, or the new per-time-bin loop variable -/
inductive LossArg
  | num (q : Rat)
  | param
deriving Repr, DecidableEq

/-- a command of the lossy circuit: an original command `(class, modes)` or an inserted loss channel -/
inductive LCmd
  | gate (cls : String) (regs : List Nat)
  | loss (arg : LossArg) (regs : List Nat)
deriving Repr, DecidableEq

/-- the `for i, s in enumerate(program.circuit)` loop of `add_loss`: loss before a `MeasureFock` (the new loop variable, on
its modes), the command itself, loss after an `Sgate` (`common_efficiency`, on its modes) and after a `BSgate`
(`loop_efficiencies[loop]` on its SECOND mode; `loop` counts the beamsplitters).  `none` = `IndexError` (more
beamsplitters than loop efficiencies, or a one-mode `BSgate`). -/
def addLoss (etaGlob : Rat) (etasLoop : List Rat) : Nat → List (String × List Nat) → Option (List LCmd)
  | _, [] => some []
  | loop, (cls, regs) :: rest =>
    let pre := if cls = "MeasureFock" then [LCmd.loss .param regs] else []
    let mid := pre ++ [LCmd.gate cls regs] ++ (if cls = "Sgate" then [LCmd.loss (.num etaGlob) regs] else [])
    if cls = "BSgate" then
      match etasLoop[loop]?, regs[1]? with
      | some eta, some r => (addLoss etaGlob etasLoop (loop + 1) rest).map fun t => mid ++ [LCmd.loss (.num eta) [r]] ++ t
      | _, _ => none
    else (addLoss etaGlob etasLoop loop rest).map fun t => mid ++ t

/-- `remove_loss`: drop every `LossChannel` -/
def removeLoss : List LCmd → List (String × List Nat)
  | [] => []
  | .gate c r :: rest => (c, r) :: removeLoss rest
  | .loss _ _ :: rest => removeLoss rest

/-! ## `tdm.utils.make_phases_compatible` (angles in units of π) -/

/-- one phase of loop ≥ 1: `phi_corr = (phi + corr − prev) % 2π`, `> π ⇒ − 2π`; if that is outside `[−π/2, π/2]` the
argument becomes `(phi + π) % 2π` -/
def makeCompatible (phi corr prev : Rat) : Rat :=
  let w := wrapPi (phi + corr - prev)
  if w < -1 / 2 ∨ w > 1 / 2 then mod2 (phi + 1) else phi

/-- `for loop in sorted(gate_args["loops"])`: loop 0 keeps its phases, `corr_previous_loop = corr_loop` after EVERY loop -/
def makeCompatLoops (len : Nat) : (first : Bool) → (prev : Nat → Rat) → List (Rat × Nat × List Rat) → List (List Rat)
  | _, _, [] => []
  | first, prev, (offset, delay, phis) :: rest =>
    let out := if first then phis else
      (List.range len).map fun j => makeCompatible (phis.getD j 0) (corrAt offset delay j) (prev j)
    out :: makeCompatLoops len false (corrAt offset delay) rest

/-! ## `Compiler.compile`: hard-coded parameters of the layout; `validate_gate_parameters`: fixed layout values -/

/-- a gate argument as the two checks see it: a number, a bare SymPy symbol (template / free parameter), or another
SymPy expression -/
inductive GArg
  | num (q : Rat)
  | sym (name : String)
  | expr (name : String)
  /-- a program variable holding one value per time bin (TDM programs) -/
  | arr (vals : List Rat)
deriving Repr, DecidableEq

def GArg.isSymbol : GArg → Bool | .sym _ => true | _ => false
/-- `isinstance(y, sympy.Expr)`: symbols are expressions -/
def GArg.isExpr : GArg → Bool | .num _ => false | _ => true

/-- `Compiler.compile`: `x != y and not (isinstance(x, Symbol) or isinstance(y, Expr))` for some zipped pair ⇒
"incompatible parameter values"; `x` from the layout, `y` from the program -/
def hardCodedClash (layoutArgs progArgs : List GArg) : Bool :=
  (layoutArgs.zip progArgs).any fun xy => decide (xy.1 ≠ xy.2) && !(xy.1.isSymbol || xy.2.isExpr)

/-- `_fixed_layout_values_match` node rule: a number of the layout and a number — or ANY value of an array variable — of the
program farther apart than `atol = 1e-5` do not match -/
def fixedValuesMatch (layoutArgs progArgs : List GArg) : Bool :=
  (layoutArgs.zip progArgs).all fun xy =>
    match xy.1, xy.2 with
    | .num a, .num b => decide (a - b ≤ defaultAtol ∧ b - a ≤ defaultAtol)
    | .num a, .arr vs => vs.all fun b => decide (a - b ≤ defaultAtol ∧ b - a ≤ defaultAtol)
    | _, _ => true

/-! ## `decompositions.rectangular_symmetric`: pushing the local phases to the end (angles in units of π) -/

/-- one pass of `for i in reversed(tlist)`: `(new_phi_i, new_phi_e, new_alpha, new_beta)` from the block's phases and the two
diagonal phases `alpha = angle(new_diags[m])`, `beta = angle(new_diags[n])`:
`new_phi_e = (α − β) % 2π`, `new_alpha = (β − φ_e − φ_i + π) % 2π`, `new_beta = (β − φ_i + π) % 2π`, `new_phi_i = φ_i % 2π` -/
def pushSymStep (phiI phiE alpha beta : Rat) : Rat × Rat × Rat × Rat :=
  (mod2 phiI, mod2 (alpha - beta), mod2 (beta - phiE - phiI + 1), mod2 (beta - phiI + 1))

/-- the whole loop: `new_tlist = tilist + [new_i …]`, the diagonal updated in place at the two modes of every block -/
def symmetricPush (tilist : List (Nat × Nat × Rat × Rat)) (diags : List Rat) (tlist : List (Nat × Nat × Rat × Rat)) :
    List (Nat × Nat × Rat × Rat) × List Rat :=
  tlist.reverse.foldl (fun acc t =>
    let r := pushSymStep t.2.2.1 t.2.2.2 (acc.2.getD t.1 0) (acc.2.getD t.2.1 0)
    (acc.1 ++ [(t.1, t.2.1, r.1, r.2.1)], (acc.2.set t.1 r.2.2.1).set t.2.1 r.2.2.2)) (tilist, diags)

/-! ## `GBS.compile`: post-selection values and dark counts of the combined measurement -/

/-- a `MeasureFock` command: measured modes in the order written, optional `select` / `dark_counts` lists (paired with the modes by
position: `zip(cmd.reg, option)`) -/
structure FockCmd where
  regs : List Nat
  select : Option (List Nat)
  dark : Option (List Rat)
deriving Repr, DecidableEq

/-- `dict.update(zip(regs, vals))`: later entries overwrite earlier ones; lookup by mode -/
def optLookup {α : Type} (pairs : List (Nat × α)) (m : Nat) : Option α :=
  (pairs.reverse.find? fun p => p.1 = m).map (·.2)

/-- `zip(cmd.reg, option)` when the option is given -/
def optPairs {α : Type} (regs : List Nat) (o : Option (List α)) : List (Nat × α) :=
  match o with
  | some s => regs.zip s
  | none => []

/-- ascending, duplicate-free list of the measured modes (`sorted(measured, key=ind)`) -/
def insertSorted (m : Nat) : List Nat → List Nat
  | [] => [m]
  | x :: xs => if m < x then m :: x :: xs else if m = x then x :: xs else x :: insertSorted m xs

def sortedModes (l : List Nat) : List Nat := l.foldr insertSorted []

inductive GbsOptErr | partialSelect
deriving Repr, DecidableEq

/-- the options of the single `MeasureFock` that replaces the commands `B` (the measured modes are disjoint — checked before):
`select` exists iff some command has one and then must cover every measured mode (else `CircuitError`), and not together with dark
counts; `dark_counts` default to 0 on modes without.  Returns `(modes, select, dark_counts)`. -/
def gbsOptions (B : List FockCmd) : Except GbsOptErr (List Nat × Option (List Nat) × Option (List Rat)) :=
  let measured := sortedModes (B.flatMap (·.regs))
  let sel : List (Nat × Nat) := B.flatMap fun c => optPairs c.regs c.select
  let dk : List (Nat × Rat) := B.flatMap fun c => optPairs c.regs c.dark
  let selKeys := sortedModes (sel.map (·.1))
  if ¬ sel.isEmpty ∧ (¬ dk.isEmpty ∨ selKeys.length ≠ measured.length) then .error .partialSelect
  else .ok (measured,
    if sel.isEmpty then none else some (measured.map fun m => (optLookup sel m).getD 0),
    if dk.isEmpty then none else some (measured.map fun m => (optLookup dk m).getD 0))

end SFV.Hw
