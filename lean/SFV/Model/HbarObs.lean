import SFV.Model.Hbar
/-
K3, hbar layer, part 2 (property C15): the polynomial observables of the other two state classes and the
remaining hbar-reading front-end paths.

* `BaseBosonicState` (weighted sums of Gaussians, xpxp ordering): `__init__`, `reduced_bosonic` indices,
  `mean_photon`, `displacement`, `quad_expectation`;
* `BaseFockState.quad_expectation`: the operators `x = s (a + aᵀ)`, `p = -i s (a - aᵀ)` on `cutoff + 5` levels,
  the rotated quadrature, its square, truncation and the two traces (real and imaginary parts kept apart;
  `sq n` stands for `sqrt n`);
* `Gaussian._decompose`: the displacement tail `Xgate(u) / Zgate(u)` for the non-zero entries of `r`;
* when `sf.hbar` is read: `Gaussian.__init__` reads it at construction, everything else when the operation is
  applied (`compileAt sBuild sRun`).
Core Lean only.
-/
namespace SFV.Hbar
open SFV.Gauss

variable {K : Type}

/-! ## sums -/
section sums
variable [Zero K] [Add K] [Mul K]

/-- `Σ_{i < n} f i` -/
def sumR (n : Nat) (f : Nat → K) : K := (List.range n).foldr (fun i acc => f i + acc) 0

/-- `Σ_i w_i · f (k + i)` over the list of weights -/
def wsumFrom (k : Nat) : List K → (Nat → K) → K
  | [], _ => 0
  | wi :: ws, f => wi * f k + wsumFrom (k + 1) ws f

/-- `np.sum(weights * f)` -/
def wsum (w : List K) (f : Nat → K) : K := wsumFrom 0 w f

end sums

/-! ## `BaseBosonicState` -/

/-- `_weights`, `_mus[i, j]`, `_covs[i, j, k]` (xpxp ordering: `2m` is `x_m`, `2m+1` is `p_m`), `_hbar` via `s` -/
structure BState (K : Type) where
  n : Nat
  s : K
  w : List K
  mu : Nat → Nat → K
  cov : Nat → Nat → Nat → K

section bosonic
variable [Zero K] [One K] [Add K] [Sub K] [Neg K] [Mul K] [Div K]

/-- `__init__`: `_mus = data[0] * sqrt(hbar/2)`, `_covs = data[1] * (hbar/2)`, `_weights = data[2]` -/
def mkBState (s : K) (n : Nat) (w : List K) (mu2 : Nat → Nat → K) (cov2 : Nat → Nat → Nat → K) : BState K :=
  { n := n, s := s, w := w, mu := fun i j => mu2 i j * s, cov := fun i j k => cov2 i j k * (s * s) }

/-- `reduced_bosonic(modes)`: `ind = sort(concatenate([2 modes, 2 modes + 1]))` for ascending `modes` -/
def bRedIdx (modes : List Nat) : List Nat := modes.flatMap fun m => [2 * m, 2 * m + 1]

/-- `mean_photon(mode)` -/
def bMeanPhoton (st : BState K) (m : Nat) : K × K :=
  let hb := st.s * st.s + st.s * st.s
  let two : K := 1 + 1
  let x := fun i => st.mu i (2 * m)
  let p := fun i => st.mu i (2 * m + 1)
  let a := fun i => st.cov i (2 * m) (2 * m)
  let b := fun i => st.cov i (2 * m) (2 * m + 1)
  let b' := fun i => st.cov i (2 * m + 1) (2 * m)
  let d := fun i => st.cov i (2 * m + 1) (2 * m + 1)
  let covTrace := fun i => a i + d i
  let meanDots := fun i => x i * x i + p i * p i
  let mean := wsum st.w (fun i => covTrace i + meanDots i) / (two * hb) - 1 / two
  let covSqTrace := fun i => a i * a i + b i * b' i + (b' i * b i + d i * d i)
  let meanCovDots := fun i => x i * (a i * x i + b i * p i) + p i * (b' i * x i + d i * p i)
  let var0 := wsum st.w (fun i => covSqTrace i + two * meanCovDots i) / (two * (hb * hb)) - 1 / (two * two)
  let var1 := wsum st.w (fun i => ((covTrace i + meanDots i) / (two * hb) - 1 / two) * ((covTrace i + meanDots i) / (two * hb) - 1 / two))
  (mean, var0 + var1 - mean * mean)

/-- `displacement([mode])`: weighted mean divided by `sqrt(2 hbar)`, as (re, im) -/
def bDisplacement (st : BState K) (m : Nat) : K × K :=
  (wsum st.w (fun i => st.mu i (2 * m)) / (st.s + st.s), wsum st.w (fun i => st.mu i (2 * m + 1)) / (st.s + st.s))

/-- `quad_expectation(mode, φ)` -/
def bQuad (st : BState K) (m : Nat) (c sn : K) : K × K :=
  let muPhi := fun i => c * st.mu i (2 * m) + sn * st.mu i (2 * m + 1)
  let covPhi := fun i =>
    c * (st.cov i (2 * m) (2 * m) * c + st.cov i (2 * m) (2 * m + 1) * sn)
      + sn * (st.cov i (2 * m + 1) (2 * m) * c + st.cov i (2 * m + 1) (2 * m + 1) * sn)
  let mean := wsum st.w muPhi
  (mean, wsum st.w covPhi + wsum st.w (fun i => muPhi i * muPhi i) - mean * mean)

end bosonic

/-! ## `BaseFockState.quad_expectation` -/

section fock
variable [Zero K] [One K] [Add K] [Sub K] [Neg K] [Mul K]

/-- `a = np.diag(np.sqrt(np.arange(1, dim)), 1)`: `a[m][m+1] = sqrt(m+1)` inside `dim` levels -/
def ladder (sq : Nat → K) (dim : Nat) (m k : Nat) : K := if k = m + 1 ∧ k < dim then sq k else 0

/-- real part of `xphi = cos φ · x + sin φ · p` with `x = s (a + aᵀ)` (`p` is purely imaginary) -/
def xphiRe (s c : K) (sq : Nat → K) (dim : Nat) (m k : Nat) : K := c * (s * (ladder sq dim m k + ladder sq dim k m))

/-- imaginary part: `p = -i s (a - aᵀ)` -/
def xphiIm (s sn : K) (sq : Nat → K) (dim : Nat) (m k : Nat) : K := sn * (-(s * (ladder sq dim m k - ladder sq dim k m)))

/-- entry of a matrix product over `dim` levels -/
def mmul (dim : Nat) (A B : Nat → Nat → K) (i j : Nat) : K := sumR dim fun k => A i k * B k j

/-- `np.trace(np.dot(A, rho)).real` on the first `D` levels, `A = AR + i AI`, `rho = ρr + i ρi` -/
def trRe (D : Nat) (AR AI ρr ρi : Nat → Nat → K) : K :=
  sumR D fun m => sumR D fun k => AR m k * ρr k m - AI m k * ρi k m

/-- `quad_expectation(mode, φ)` of a reduced one-mode density matrix with cutoff `D` -/
def fockQuad (s c sn : K) (sq : Nat → K) (D : Nat) (ρr ρi : Nat → Nat → K) : K × K :=
  let dim := D + 5
  let xr := xphiRe s c sq dim
  let xi := xphiIm s sn sq dim
  let sqr := fun i j => mmul dim xr xr i j - mmul dim xi xi i j      -- Re (xphi · xphi)
  let sqi := fun i j => mmul dim xr xi i j + mmul dim xi xr i j      -- Im (xphi · xphi)
  let mean := trRe D xr xi ρr ρi
  (mean, trRe D sqr sqi ρr ρi - mean * mean)

end fock

/-! ## remaining front-end paths -/

section frontend2
variable [Zero K] [One K] [Add K] [Neg K] [Mul K] [Div K] [DecidableEq K] {G : Type}

/-- `Gaussian._decompose`, the tail: `Xgate(u) | reg[n]` for the non-zero `x_disp`, then `Zgate(u)` for the non-zero
`p_disp` (`r = x_disp ++ p_disp`, in the user's units) -/
def gaussianDecompDisp (r : List K) (modes : List Nat) : List (FOp K G) :=
  let ns := modes.length
  (((r.take ns).zip modes).filter (fun um => um.1 ≠ 0)).map (fun um => FOp.xgate um.1 false um.2)
    ++ (((r.drop ns).zip modes).filter (fun um => um.1 ≠ 0)).map (fun um => FOp.zgate um.1 false um.2)

/-- the quadrature shift (hbar = 2 units) a back-end displacement call produces: `2 r (cos φ, sin φ)` -/
def callShift : BCall K G → Option (Nat × K × K)
  | .displacement r c sn k => some (k, (r + r) * c, (r + r) * sn)
  | _ => none

/-- the operation object was constructed while `sqrt(hbar/2) = sBuild` and is applied while it is `sRun`:
only `Gaussian.__init__` reads hbar at construction -/
def compileAt (sBuild sRun : K) : FOp K G → List (BCall K G)
  | .gaussian V r modes => [.prepareGaussian (r.map fun x => x / sRun) (gaussianInitV sBuild V) modes]
  | op => compile sRun op

def isGaussianPrep : FOp K G → Bool
  | .gaussian _ _ _ => true
  | _ => false

end frontend2

/-! ## decisions against absolute tolerances: the purity flag -/

section purity
variable [Zero K] [One K] [Add K] [Sub K] [Neg K] [Mul K] [Div K] [LT K] [DecidableRel (α := K) (· < ·)]

/-- determinant by Laplace expansion along the first row (stands for `np.linalg.det`; executable for the small
matrices of the correspondence) -/
def detN : Nat → List (List K) → K
  | 0, _ => 1
  | n + 1, M =>
    match M with
    | [] => 1
    | row :: rest =>
      (List.range (n + 1)).foldr
        (fun j acc => (if j % 2 = 0 then 1 else -1) * row.getD j 0 * detN n (rest.map fun r => r.eraseIdx j) + acc) 0

def detL (M : List (List K)) : K := detN M.length M

def powN (x : K) : Nat → K
  | 0 => 1
  | n + 1 => x * powN x n

/-- `V / (hbar / 2)` -/
def normMat (h2 : K) (V : List (List K)) : List (List K) := V.map fun row => row.map fun v => v / h2

/-- `Gaussian.__init__` (`tol = 1e-6`) and, after the `fix:` commit, `BaseGaussianState.__init__`
(`EQ_TOLERANCE = 1e-10`): `|det(V / (hbar/2)) - 1| < tol`; `det` is a parameter (LAPACK) -/
def pureNormalised (det : List (List K) → K) (tol s : K) (V : List (List K)) : Bool :=
  decide (absK (det (normMat (s * s) V) - 1) < tol)

/-- the un-normalised form `|det V - (hbar/2)^(2N)| < tol` (`BaseGaussianState.__init__` before the fix): the
absolute tolerance is applied to a quantity of dimension `hbar^(2N)` -/
def pureUnnormalised (det : List (List K) → K) (tol s : K) (V : List (List K)) : Bool :=
  decide (absK (det V - powN (s * s) V.length) < tol)

end purity

end SFV.Hbar
