import SFV.Model.Measure
/-
C06 — what the measurements *sample from*.

* Fock `measure_fock` (`fockbackend/circuit.py`): `reduced = partial_trace(state, n, unmeasured)`,
  `dist = ravel(diagonal(reduced, k).real)`, normalisation `dist / sum(dist)`; the flat position `i` is decoded
  by `unIndex`.  `partial_trace` is `SFV.Fock.partialTrace` (Model/FockTensor.lean).
* bosonic `measure_dyne` (`bosonicbackend/bosoniccircuit.py`), real weights and real means: construction of
  the upper-bounding mixture (`ub_ind`, `ub_weights`, `ub_weights_prob`), value of the target density and of
  the envelope at the proposed point, accept test `vertical_sample < prob_dist_val` with
  `vertical_sample = u * prob_upbnd`.  The Gaussian factors (`1/sqrt(det(2π Σ))`, `exp(-½ q)`) are inputs.

Core Lean only.
-/
namespace SFV.Meas
open SFV.Fock

variable {K : Type}

/-! ### Fock: the distribution handed to `numpy.random.choice` -/

/-- `ops.diagonal(reduced, k)` at the multi-index `p` (axis ↦ photon number): row index = column index -/
def diagAt (ρ : Tens K) (p : Nat → Nat) : K := ρ fun a => p (a / 2)

/-- entry of `diagonal(partial_trace(state, n, unmeasured))` at the ascending-order outcome `p` -/
def reducedDiag [Zero K] [Add K] (D n : Nat) (measure : List Nat) (ρ : Tens K) (p : List Nat) : K :=
  diagAt (partialTrace D n (unmeasured n measure) ρ) fun a => p.getD a 0

/-- `dist = np.ravel(ops.diagonal(reduced, len(measure)))`: entry `i` belongs to the multi-index `unIndex i`
(C order; `fock_index_roundtrip`) -/
def fockDist [Zero K] [Add K] (D n : Nat) (measure : List Nat) (ρ : Tens K) : List K :=
  (List.range (D ^ measure.length)).map fun i => reducedDiag D n measure ρ (unIndex i measure.length D)

/-- `p = dist / sum(dist)` -/
def fockProbs [Zero K] [Add K] [Div K] (D n : Nat) (measure : List Nat) (ρ : Tens K) : List K :=
  let d := fockDist D n measure ρ
  d.map (· / d.foldl (· + ·) 0)

/-- index assignment of a full diagonal entry: photon number `val m` on the row and the column axis of mode `m` -/
def diagIdx (val : Nat → Nat) : Idx := fun a => val (a / 2)

/-- assignment that puts photon number `v` on both axes of mode `m` for every `(m, v)` of `sel`, `0` elsewhere -/
def assign : List (Nat × Nat) → Idx
  | [] => fun _ => 0
  | s :: sel => upd (upd (assign sel) (2 * s.1) s.2) (2 * s.1 + 1) s.2

/-- **specification**: Born probability (unnormalised) that every mode `m` of `sel` holds `v` photons, in an `n`-mode
state `ρ` with cutoff `D`: the full diagonal summed over the photon numbers of all other modes -/
def bornProb [Zero K] [Add K] (D n : Nat) (ρ : Tens K) (sel : List (Nat × Nat)) : K :=
  traceOver D ((List.range n).filter fun i => !(sel.map (·.1)).contains i) ρ (assign sel)

/-! ### Gaussian back end: what the photon-counting / threshold samplers receive -/

section discrete
open SFV.Gauss

/-- `GaussianBackend.measure_fock` / `measure_threshold`: `x_idxs = array(modes)`, `p_idxs = x_idxs + len(mu)`,
`modes_idxs = concatenate([x_idxs, p_idxs])`.  `nlen = len(self.circuit.mean)` is the size of the simulator arrays:
a deleted mode keeps its row, so `nlen` is NOT the number of live modes. -/
def discreteIdxs (nlen : Nat) (modes : List Nat) : List Nat := modes ++ modes.map (· + nlen)

variable [Zero K] [One K] [Add K] [Sub K] [Neg K] [Mul K]

/-- `scovmatxp()`: xx, xp / px, pp blocks side by side (array size `2·nlen`) -/
def scovxp (st : GS K) : Mat K := fun r c =>
  if r < st.n then (if c < st.n then Vxx st r c else Vxp st r (c - st.n))
  else (if c < st.n then Vxp st c (r - st.n) else Vpp st (r - st.n) (c - st.n))

/-- `smeanxp()` -/
def smeanxp (st : GS K) : Vec K := fun r => if r < st.n then meanX st r else meanP st (r - st.n)

/-- `(reduced_mean, reduced_cov)` handed to `hafnian_sample_state` / `torontonian_sample_state` -/
def gaussDiscreteArgs (st : GS K) (modes : List Nat) : PS K :=
  let ix := discreteIdxs st.n modes
  { cov := fun a b => scovxp st (ix.getD a 0) (ix.getD b 0), mean := fun a => smeanxp st (ix.getD a 0) }

end discrete

/-! ### Fock homodyne: the grid and the Hermite table (`fockbackend/ops.py: hermiteVals`) -/

section hermite
variable [Zero K] [One K] [Add K] [Sub K] [Neg K] [Mul K] [Div K] [NatCast K]

/-- `np.linspace(-q_mag, q_mag, num_bins)[k]` = `-q + k · (2q / (num_bins - 1))` -/
def linspacePt (q : K) (nb k : Nat) : K := -q + (k : K) * ((q + q) / ((nb : K) - 1))

/-- `Hvals[0] = 1; Hvals[1] = 2x; Hvals[i] = 2x·Hvals[i-1] - 2(i-1)·Hvals[i-2]` at one point `x` -/
def hermiteAt (x : K) : Nat → K
  | 0 => 1
  | 1 => (1 + 1) * x
  | (i + 2) => (1 + 1) * x * hermiteAt x (i + 1) - (1 + 1) * ((i : K) + 1) * hermiteAt x i

/-- `hermiteVals(q_mag, num_bins, m_omega_over_hbar, trunc)`: `x = s · q_tensor` with `s = sqrt(m_omega_over_hbar)` an input;
entry `[n][k]` of the table -/
def hermiteVals (q s : K) (nb : Nat) (n k : Nat) : K := hermiteAt (s * linspacePt q nb k) n

end hermite

/-! ### bosonic rejection sampler: the exponent of a peak with a complex mean -/

section cxmean
open SFV.Gauss SFV.Gauss.Cx
variable [Zero K] [Add K] [Sub K] [Neg K] [Mul K]

/-- `(x − μ)ᵀ W (x − μ)` for `μ = μ_R + i μ_I`, with `d = x − μ_R`, `m = μ_I` (`exp_arg` of a peak in `imag_means_ind`) -/
def quadFormCx (W : Mat K) (d m : Vec K) (k : Nat) : Cx K :=
  sumTo k fun a => sumTo k fun b => ((⟨d a, -(m a)⟩ : Cx K) * ofK (W a b)) * ⟨d b, -(m b)⟩

end cxmean

/-! ### bosonic rejection sampler (real weights, real means) -/

/-- one Gaussian peak evaluated at the proposed point: weight, prefactor `1/sqrt(det(2π Σ))`, `exp(-½ q)` -/
structure Peak (K : Type) where
  w : K
  pref : K
  e : K

section sampler
variable [Zero K] [Add K] [Mul K] [Neg K] [LT K] [DecidableLT K]

/-- `np.angle(w) != np.pi` for a real weight: not negative -/
def isUb (w : K) : Bool := !decide (w < 0)

/-- `np.abs` -/
def absK (w : K) : K := if w < 0 then -w else w

/-- `ub_ind`: positions of the peaks that enter the upper-bounding function -/
def ubIndices (ws : List K) : List Nat := (List.range ws.length).filter fun i => isUb (ws.getD i 0)

/-- `ub_weights = np.abs(weights)[ub_ind]` -/
def ubWeights (ws : List K) : List K := (ubIndices ws).map fun i => absK (ws.getD i 0)

/-- `ub_weights_prob = ub_weights / np.sum(ub_weights)` -/
def ubWeightsProb [Div K] (ws : List K) : List K :=
  let u := ubWeights ws
  u.map (· / u.foldl (· + ·) 0)

/-- `prob_dist_val = Σ_i w_i · pref_i · exp(-½ q_i)` -/
def probDistVal (peaks : List (Peak K)) : K := (peaks.map fun p => p.w * p.pref * p.e).foldl (· + ·) 0

/-- `prob_upbnd = Σ_{i ∈ ub_ind} |w_i| · pref_i · exp(-½ q_i)` -/
def probUpbnd (peaks : List (Peak K)) : K :=
  ((peaks.filter fun p => isUb p.w).map fun p => absK p.w * p.pref * p.e).foldl (· + ·) 0

/-- `vertical_sample = u * prob_upbnd; if vertical_sample < prob_dist_val: drawn = True` -/
def accept (u : K) (peaks : List (Peak K)) : Bool := decide (u * probUpbnd peaks < probDistVal peaks)

end sampler

end SFV.Meas
