import SFV.Gen.Handlers
/-! Line-protocol driver: one JSON request per input line (`{"op": ..., ...}`), one JSON response
per output line (`{"r": ...}` or `{"error": ...}`).  Run with `lake env lean --run Driver.lean`. -/
open Lean SFV.Drv

def handlers : List (String → Json → Option (R Json)) := allHandlers

def dispatch (line : String) : Json :=
  match Json.parse line with
  | .error e => Json.mkObj [("error", Json.str s!"parse: {e}")]
  | .ok j =>
    match getStr j "op" with
    | .error e => Json.mkObj [("error", Json.str e)]
    | .ok op =>
      match handlers.findSome? (fun h => h op j) with
      | none => Json.mkObj [("error", Json.str s!"unknown op {op}")]
      | some (.error e) => Json.mkObj [("error", Json.str e)]
      | some (.ok r) => Json.mkObj [("r", r)]

partial def loop (h : IO.FS.Stream) (out : IO.FS.Stream) : IO Unit := do
  let line ← h.getLine
  if line.isEmpty then return ()
  let t := line.trimAscii.toString
  if !t.isEmpty then
    out.putStrLn (dispatch t).compress
  loop h out

def main : IO Unit := do
  let out ← IO.getStdout
  loop (← IO.getStdin) out
  out.flush
