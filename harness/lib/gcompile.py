"""Helpers for C11 (Gaussian-merging compilers): program specs with matrix parameters and arbitrary index
sets, exact rational blocks for the Lean model, an independent float reference of the net action, and the
interpretation of compiled circuits.

A spec is {"n": register size, "ops": [{"cls", "regs", "pars", "dagger"}]} where a parameter is a float or
{"mat": [[re, im], ...] rows} (complex matrix) / {"rmat": [[..]]} (real matrix).  Exact data for the
model travel next to it in op["ex"] (not needed for replay)."""
import math
from fractions import Fraction as F

import numpy as np

from lib import sim

# ------------------------------------------------------------------ exact atoms

TS = [F(0), F(1, 2), F(-1, 2), F(1, 3), F(2, 3), F(-1, 3), F(1), F(-1), F(2), F(-3, 2), F(1, 4), F(3, 4), F(1, 5)]
US = [F(1), F(2), F(1, 2), F(3, 2), F(2, 3), F(5, 4), F(4, 5), F(3), F(4, 3)]


def circle(rng, special=True):
    """(c, s, theta): rational point on the unit circle and the float angle"""
    if special and rng.random() < 0.08:
        return F(-1), F(0), math.pi
    t = rng.choice(TS)
    c, s = (1 - t * t) / (1 + t * t), 2 * t / (1 + t * t)
    return c, s, 2 * math.atan(float(t))


def hyper(rng):
    u = rng.choice(US)
    return (u + 1 / u) / 2, (u - 1 / u) / 2, math.log(float(u))


def rat(q):
    q = F(q)
    return [q.numerator, q.denominator]


def jmat(M):
    return [[rat(x) for x in row] for row in M]


def jcx(z):
    return [rat(z[0]), rat(z[1])]


def jcmat(M):
    return [[jcx(z) for z in row] for row in M]


# complex rationals as pairs
def cmul(a, b):
    return (a[0] * b[0] - a[1] * b[1], a[0] * b[1] + a[1] * b[0])


def cadd(a, b):
    return (a[0] + b[0], a[1] + b[1])


def cconj(a):
    return (a[0], -a[1])


def cmatmul(A, B):
    n, m, k = len(A), len(B[0]), len(B)
    out = [[(F(0), F(0)) for _ in range(m)] for _ in range(n)]
    for i in range(n):
        for j in range(m):
            acc = (F(0), F(0))
            for l in range(k):
                acc = cadd(acc, cmul(A[i][l], B[l][j]))
            out[i][j] = acc
    return out


def cdag(A):
    return [[cconj(A[j][i]) for j in range(len(A))] for i in range(len(A[0]))]


def rmatmul(A, B):
    return [[sum((A[i][l] * B[l][j] for l in range(len(B))), F(0)) for j in range(len(B[0]))] for i in range(len(A))]


def rinv(A):
    """exact inverse by Gauss-Jordan over Fractions"""
    n = len(A)
    M = [list(A[i]) + [F(int(i == j)) for j in range(n)] for i in range(n)]
    for c in range(n):
        p = next(r for r in range(c, n) if M[r][c] != 0)
        M[c], M[p] = M[p], M[c]
        pv = M[c][c]
        M[c] = [x / pv for x in M[c]]
        for r in range(n):
            if r != c and M[r][c] != 0:
                f = M[r][c]
                M[r] = [x - f * y for x, y in zip(M[r], M[c])]
    return [row[n:] for row in M]


def interf_symp(U):
    """[[Re U, -Im U], [Im U, Re U]] for a complex-rational matrix"""
    k = len(U)
    top = [[U[i][j][0] for j in range(k)] + [-U[i][j][1] for j in range(k)] for i in range(k)]
    bot = [[U[i][j][1] for j in range(k)] + [U[i][j][0] for j in range(k)] for i in range(k)]
    return top + bot


def cfloat(U):
    return np.array([[complex(float(z[0]), float(z[1])) for z in row] for row in U])


def rfloat(M):
    return np.array([[float(x) for x in row] for row in M])


# documented blocks, exact
def bs_unitary(ct, st, c, s):
    return [[(ct, F(0)), (-(c * st), s * st)], [(c * st, s * st), (ct, F(0))]]


def mz_unitary(vin, uex):
    """MZgate docstring: U = 1/2 [[u (v - 1), i (1 + v)], [i u (1 + v), 1 - v]], v = e^{i phi_in}, u = e^{i phi_ex}"""
    h = (F(1, 2), F(0))
    one, i_ = (F(1), F(0)), (F(0), F(1))
    vm1 = cadd(vin, (F(-1), F(0)))
    vp1 = cadd(vin, one)
    return [[cmul(h, cmul(uex, vm1)), cmul(h, cmul(i_, vp1))],
            [cmul(h, cmul(i_, cmul(uex, vp1))), cmul(h, cadd(one, (-vin[0], -vin[1])))]]


def smz_unitary(esig, cd, sd):
    """e^{i sigma} [[sin d, cos d], [cos d, -sin d]]"""
    return [[cmul(esig, (sd, F(0))), cmul(esig, (cd, F(0)))], [cmul(esig, (cd, F(0))), cmul(esig, (-sd, F(0)))]]


def rand_unitary_exact(rng, k):
    """exact complex-rational unitary: product of embedded beamsplitters and phases"""
    U = [[(F(int(i == j)), F(0)) for j in range(k)] for i in range(k)]
    for _ in range(rng.randint(1, 2 * k)):
        if k >= 2 and rng.random() < 0.7:
            a, b = rng.sample(range(k), 2)
            ct, st, _ = circle(rng, False)
            c, s, _ = circle(rng, False)
            B = bs_unitary(ct, st, c, s)
            E = [[(F(int(i == j)), F(0)) for j in range(k)] for i in range(k)]
            E[a][a], E[a][b], E[b][a], E[b][b] = B[0][0], B[0][1], B[1][0], B[1][1]
        else:
            a = rng.randrange(k)
            c, s, _ = circle(rng)
            E = [[(F(int(i == j)), F(0)) for j in range(k)] for i in range(k)]
            E[a][a] = (c, s)
        U = cmatmul(E, U)
    return U


def rand_symplectic_exact(rng, k):
    """exact rational symplectic 2k x 2k (xxpp): interferometer * squeezers * interferometer"""
    S = interf_symp(rand_unitary_exact(rng, k))
    D = [[F(0)] * (2 * k) for _ in range(2 * k)]
    for i in range(k):
        u = rng.choice(US)
        D[i][i], D[i + k][i + k] = 1 / u, u
    S = rmatmul(D, S)
    return rmatmul(interf_symp(rand_unitary_exact(rng, k)), S)


# ------------------------------------------------------------------ op generators (exact + float)

def gu_op(rng, cls, regs, dagger=False):
    """a gaussian_unitary primitive with exact model data"""
    op = dict(cls=cls, regs=list(regs), dagger=bool(dagger))
    if cls == "Dgate":
        c, s, phi = circle(rng)
        r = rng.choice([F(1, 2), F(1, 4), F(-1, 2), F(1), F(3, 4), F(0), F(2)])
        op["pars"] = [float(r), phi]
        op["ex"] = dict(op="gate", name="D", a=[rat(r * c), rat(r * s)])
    elif cls == "Rgate":
        c, s, th = circle(rng)
        op["pars"] = [th]
        op["ex"] = dict(op="gate", name="R", a=[rat(c), rat(s)])
    elif cls == "Sgate":
        c, s, phi = circle(rng)
        ch, sh, r = hyper(rng)
        op["pars"] = [r, phi]
        op["ex"] = dict(op="gate", name="S", a=[rat(c), rat(s), rat(ch), rat(sh)])
    elif cls == "S2gate":
        c, s, phi = circle(rng)
        ch, sh, r = hyper(rng)
        op["pars"] = [r, phi]
        op["ex"] = dict(op="gate", name="S2", a=[rat(c), rat(s), rat(ch), rat(sh)])
    elif cls == "BSgate":
        ct, st, th = circle(rng)
        c, s, phi = circle(rng)
        op["pars"] = [th, phi]
        op["ex"] = dict(op="gate", name="BS", a=[rat(ct), rat(st), rat(c), rat(s)])
    elif cls == "MZgate":
        cv, sv, pin = circle(rng)
        cu, su, pex = circle(rng)
        op["pars"] = [pin, pex]
        op["ex"] = dict(op="gate", name="MZ", a=[rat(F(1, 2)), rat(cv), rat(sv), rat(cu), rat(su)])
    elif cls == "sMZgate":
        cs_, ss_, sig = circle(rng)
        cd, sd, dl = circle(rng)
        op["pars"] = [sig + dl, sig - dl]
        op["ex"] = dict(op="gate", name="sMZ", a=[rat(cs_), rat(ss_), rat(cd), rat(sd)])
    elif cls == "Interferometer":
        k = len(regs)
        U = rand_unitary_exact(rng, k)
        g = interf_symp(U)
        op["pars"] = [dict(mat=[[[float(z[0]), float(z[1])] for z in row] for row in U])]
        op["dagger"] = False
        kind = "blk1" if k == 1 else "blk2" if k == 2 else "blkN"
        op["ex"] = dict(op=kind, g=jmat(g), gi=jmat(rinv(g)))
    elif cls == "GaussianTransform":
        k = len(regs)
        g = rand_symplectic_exact(rng, k)
        op["pars"] = [dict(rmat=[[float(x) for x in row] for row in g])]
        op["dagger"] = False
        kind = "blk1" if k == 1 else "blk2" if k == 2 else "blkN"
        op["ex"] = dict(op=kind, g=jmat(g), gi=jmat(rinv(g)))
    else:
        raise KeyError(cls)
    return op


def passive_op(rng, cls, regs, dagger=False):
    op = dict(cls=cls, regs=list(regs), dagger=bool(dagger))
    if cls == "Rgate":
        c, s, th = circle(rng)
        op["pars"] = [th]
        op["ex"] = dict(op="gate", name="R", a=[rat(c), rat(s)])
    elif cls == "LossChannel":
        q = rng.choice([F(0), F(1, 2), F(3, 4), F(1), F(2, 3), F(1, 4)])
        op["pars"] = [float(q * q)]
        op["dagger"] = False
        op["ex"] = dict(op="gate", name="Loss", a=[rat(q)])
    elif cls == "BSgate":
        ct, st, th = circle(rng)
        c, s, phi = circle(rng)
        op["pars"] = [th, phi]
        op["ex"] = dict(op="gate", name="BS", a=[rat(ct), rat(st), rat(c), rat(s)])
    elif cls == "MZgate":
        cv, sv, pin = circle(rng)
        cu, su, pex = circle(rng)
        op["pars"] = [pin, pex]
        op["ex"] = dict(op="gate", name="MZ", a=[rat(F(1, 2)), rat(cv), rat(sv), rat(cu), rat(su)])
    elif cls == "sMZgate":
        cs_, ss_, sig = circle(rng)
        cd, sd, dl = circle(rng)
        op["pars"] = [sig + dl, sig - dl]
        op["ex"] = dict(op="gate", name="sMZ", a=[rat(cs_), rat(ss_), rat(cd), rat(sd)])
    elif cls in ("Interferometer", "PassiveChannel"):
        k = len(regs)
        U = rand_unitary_exact(rng, k)
        if cls == "PassiveChannel":  # any complex matrix: scale rows
            qs = [rng.choice([F(1), F(1, 2), F(3, 4), F(0)]) for _ in range(k)]
            U = [[cmul((qs[i], F(0)), z) for z in row] for i, row in enumerate(U)]
        op["pars"] = [dict(mat=[[[float(z[0]), float(z[1])] for z in row] for row in U])]
        op["dagger"] = False
        if k == 1:
            op["ex"] = dict(op="one", g=jcx(U[0][0]), gi=jcx(U[0][0]))
        elif k == 2:
            op["ex"] = dict(op="two", g=jcmat(U), gi=jcmat(U))
        else:
            op["ex"] = dict(op="many", g=jcmat(U))
    else:
        raise KeyError(cls)
    return op


INDEX_SETS = [[8, 1], [1, 8], [0, 9, 17], [16, 8, 1], [9, 8], [3], [0, 1], [5, 2, 11, 7]]


def rand_modes(rng, big=False):
    """(register size, used modes in a random order)"""
    u = rng.random()
    if u < 0.3:
        ms = list(rng.choice(INDEX_SETS))
    elif u < 0.45 or big:
        k = rng.randint(9, 12)
        ms = rng.sample(range(rng.randint(k, 20)), k)
    else:
        n = rng.randint(1, 10)
        ms = rng.sample(range(n + rng.randint(0, 9)), rng.randint(1, min(n, 5)))
    n = max(ms) + 1 + rng.choice([0, 0, 1, 3])
    rng.shuffle(ms)
    return n, ms


GU1 = ["Dgate", "Rgate", "Sgate", "Interferometer", "GaussianTransform"]
GU2 = ["S2gate", "BSgate", "MZgate", "sMZgate", "Interferometer", "GaussianTransform"]
P1 = ["Rgate", "LossChannel", "Interferometer", "PassiveChannel"]
P2 = ["BSgate", "MZgate", "sMZgate", "Interferometer", "PassiveChannel"]


def rand_exact_circuit(rng, which, length=None, big=False):
    n, ms = rand_modes(rng, big)
    ops = []
    L = length if length is not None else rng.randint(1, 9)
    for _ in range(L):
        u = rng.random()
        k = 1 if (len(ms) < 2 or u < 0.4) else 2 if (len(ms) < 3 or u < 0.85) else min(len(ms), rng.randint(3, 4))
        regs = rng.sample(ms, k)
        dag = rng.random() < 0.35
        if which == "gu":
            cls = rng.choice(GU1) if k == 1 else rng.choice(GU2) if k == 2 else rng.choice(["Interferometer", "GaussianTransform"])
            ops.append(gu_op(rng, cls, regs, dag))
        else:
            cls = rng.choice(P1) if k == 1 else rng.choice(P2) if k == 2 else rng.choice(["Interferometer", "PassiveChannel"])
            ops.append(passive_op(rng, cls, regs, dag))
    return dict(n=n, ops=ops)


def strip_ex(spec):
    return dict(n=spec["n"], ops=[{k: v for k, v in op.items() if k != "ex"} for op in spec["ops"]])


# ------------------------------------------------------------------ building real programs

def _param(p):
    if isinstance(p, dict):
        if "mat" in p:
            return np.array([[complex(z[0], z[1]) for z in row] for row in p["mat"]])
        if "rmat" in p:
            return np.array(p["rmat"], dtype=float)
    return p


def build(spec, name="c11", op_cache=None):
    """returns (prog, cmds): cmds[i] is the Command of spec op i (None for New).
    `op_cache` (a dict) makes equal operations ONE shared Operation instance, within a program and across all
    programs built with the same cache (`bs = BSgate(..)` created once and applied many times)."""
    import json
    import strawberryfields as sf
    from strawberryfields import ops
    prog = sf.Program(spec["n"], name=name)
    with prog.context as q:
        q = list(q)
        for op in spec["ops"]:
            if op["cls"] == "Del":
                ops.Del | tuple(q[i] for i in op["regs"])
                continue
            if op["cls"] == "New":          # regs = the indices the new modes receive
                q += list(ops.New(len(op["regs"])))
                continue
            key = None
            if op_cache is not None:
                key = json.dumps([op["cls"], op.get("pars", []), op.get("kw", {})], sort_keys=True)
            if key is not None and key in op_cache:
                o = op_cache[key]
            else:
                o = getattr(ops, op["cls"])(*[_param(p) for p in op.get("pars", [])], **op.get("kw", {}))
                if key is not None:
                    op_cache[key] = o
            if op.get("dagger"):
                o = o.H             # `g = Gate(..)` once, `g | ..` and `g.H | ..`: the copy shares the parameter list
            regs = [q[i] for i in op["regs"]]
            o | (regs if len(regs) > 1 else regs[0])
    return prog, list(prog.circuit)


def circuit_signature(cmds):
    """value-level description of a command list (class, registers, evaluated parameters, flags)"""
    from strawberryfields.parameters import par_evaluate
    out = []
    for c in cmds:
        ps = []
        for p in (par_evaluate(c.op.p) if getattr(c.op, "p", None) else []):
            a = np.asarray(p)
            ps.append((a.shape, a.astype(complex).round(12).tobytes()))
        out.append((c.op.__class__.__name__, tuple(r.ind for r in c.reg), tuple(ps), bool(getattr(c.op, "dagger", False))))
    return out


def snapshot(prog):
    """deep value snapshot + object identities of a program (to detect in-place edits of the source)"""
    cmds = list(prog.circuit)
    return dict(ids=[(id(c), id(c.op)) for c in cmds], sig=circuit_signature(cmds),
                pids=[tuple(id(p) for p in getattr(c.op, "p", [])) for c in cmds],
                reg=[(r.ind, r.active) for r in prog.reg_refs.values()],
                target=prog.target)


# ------------------------------------------------------------------ independent float reference

def smz_float(phi_in, phi_ex):
    """from the documented decomposition BS(pi/4, pi/2) R_1(phi_ex - pi/2) R_0(phi_in - pi/2) BS(pi/4, pi/2)"""
    bs, _ = sim.gate_symplectic("BSgate", [math.pi / 4, math.pi / 2])

    def r(t, m):
        R = np.eye(4)
        c, s = math.cos(t), math.sin(t)
        R[m, m], R[m, m + 2], R[m + 2, m], R[m + 2, m + 2] = c, -s, s, c
        return R
    return bs @ r(phi_in - math.pi / 2, 0) @ r(phi_ex - math.pi / 2, 1) @ bs


def symp_of_unitary(U):
    U = np.asarray(U, dtype=complex)
    return np.block([[U.real, -U.imag], [U.imag, U.real]])


def unitary_of_symp(S):
    k = S.shape[0] // 2
    return S[:k, :k] + 1j * S[k:, :k]


def gate_block(op):
    """(S, d) of a Gaussian unitary op on its own modes (xxpp, hbar = 2), dagger applied; None if not a Gaussian unitary"""
    cls, pars = op["cls"], [_param(p) for p in op.get("pars", [])]
    k = len(op["regs"])
    if cls in sim.GAUSSIAN_GATE_CLASSES:
        S, d = sim.gate_symplectic(cls, [float(p) for p in pars])
    elif cls == "sMZgate":
        S, d = smz_float(*pars), np.zeros(4)
    elif cls == "Interferometer":
        S, d = symp_of_unitary(pars[0]), np.zeros(2 * k)
    elif cls == "GaussianTransform":
        S, d = np.asarray(pars[0], dtype=float), np.zeros(2 * k)
    elif cls in ("GraphEmbed", "BipartiteGraphEmbed"):
        # no closed formula here: the gate is *defined* by its decomposition (whose correctness is C02's subject);
        # what C11 needs is the ordered product of the commands the decomposition emits
        from strawberryfields import ops as sfops
        from strawberryfields.program_utils import RegRef
        o = getattr(sfops, cls)(*pars, **op.get("kw", {}))
        sub = [cmd_to_op(c) for c in o.decompose([RegRef(i) for i in range(k)])]
        r = net_reference(sub, list(range(k)))
        if r is None:
            return None
        S, d = r
    else:
        return None
    if op.get("dagger"):
        Si = np.linalg.inv(S)
        S, d = Si, -Si @ d
    return S, d


def embed(S, pos, n):
    ix = list(pos) + [p + n for p in pos]
    E = np.eye(2 * n)
    E[np.ix_(ix, ix)] = S
    return E, ix


def net_reference(ops, modes):
    """ordered product of the embedded blocks on the ascending mode list `modes`: (S, d) or None"""
    n = len(modes)
    S, d = np.eye(2 * n), np.zeros(2 * n)
    for op in ops:
        b = gate_block(op)
        if b is None:
            return None
        E, ix = embed(b[0], [modes.index(m) for m in op["regs"]], n)
        S = E @ S
        d = E @ d
        d[ix] += b[1]
    return S, d


def passive_block(op):
    """complex matrix of a passive op on its own modes (a -> T a), dagger applied"""
    cls, pars = op["cls"], [_param(p) for p in op.get("pars", [])]
    if cls == "LossChannel":
        return np.array([[math.sqrt(pars[0])]], dtype=complex)
    if cls == "PassiveChannel":
        return np.asarray(pars[0], dtype=complex)
    b = gate_block(op)
    if b is None or np.max(np.abs(b[1]), initial=0) > 0:
        return None
    S = b[0]
    k = S.shape[0] // 2
    if not (np.allclose(S[:k, :k], S[k:, k:]) and np.allclose(S[:k, k:], -S[k:, :k])):
        return None
    return unitary_of_symp(S)


def passive_reference(ops, modes):
    n = len(modes)
    T = np.eye(n, dtype=complex)
    for op in ops:
        b = passive_block(op)
        if b is None:
            return None
        pos = [modes.index(m) for m in op["regs"]]
        E = np.eye(n, dtype=complex)
        E[np.ix_(pos, pos)] = b
        T = E @ T
    return T


def cmd_to_op(cmd):
    """a real Command -> spec-like op (numeric parameters)"""
    from strawberryfields.parameters import par_evaluate
    pars = []
    for p in (par_evaluate(cmd.op.p) if getattr(cmd.op, "p", None) else []):
        if isinstance(p, np.ndarray) and p.ndim == 2:
            if np.iscomplexobj(p):
                pars.append(dict(mat=[[[float(z.real), float(z.imag)] for z in row] for row in p]))
            else:
                pars.append(dict(rmat=[[float(x) for x in row] for row in p]))
        else:
            pars.append(float(np.real(p)) if np.isreal(p) else complex(p))
    return dict(cls=cmd.op.__class__.__name__, regs=[r.ind for r in cmd.reg], pars=pars,
                dagger=bool(getattr(cmd.op, "dagger", False)))


def emitted_gu(cmds):
    """interpret the output of GaussianUnitary.compile: (regs, S or None, {mode: (dx, dp)}, problems)"""
    problems = []
    gts = [c for c in cmds if c.op.__class__.__name__ == "GaussianTransform"]
    ds = [c for c in cmds if c.op.__class__.__name__ == "Dgate"]
    if len(gts) + len(ds) != len(cmds) or len(gts) > 1 or (gts and cmds[0] is not gts[0]):
        problems.append("output is not [GaussianTransform?] + Dgates")
    regs, S = None, None
    if gts:
        regs = [r.ind for r in gts[0].reg]
        S = np.asarray(cmd_to_op(gts[0])["pars"][0]["rmat"])
        if S.shape != (2 * len(regs), 2 * len(regs)):
            problems.append(f"GaussianTransform of shape {S.shape} on {len(regs)} registers")
    disp = {}
    for c in ds:
        o = cmd_to_op(c)
        m = o["regs"][0]
        if m in disp:
            problems.append(f"two Dgates on mode {m}")
        r, phi = o["pars"][0], o["pars"][1]
        sgn = -1 if o["dagger"] else 1
        disp[m] = (sgn * 2 * r * math.cos(phi), sgn * 2 * r * math.sin(phi))
    return regs, S, disp, problems
