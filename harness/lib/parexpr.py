"""Parameter-expression helpers for C10 (K5): JSON expression trees (the format of
lean/SFV/Driver/Param.lean), a generator, an independent numeric evaluator (NumPy, no SymPy), a builder
that turns a tree into the real SymPy/SF object, a walker that reads a SymPy object back into a tree,
and a recording backend whose measurement outcomes are scripted by the harness.

tree :=  {"n":[p,q]} | {"f":name} | {"m":mode} | {"add":[a,b]} | {"mul":[a,b]} | {"neg":a}
       | {"pow":[a,b]} | {"fn":name,"a":[x]} | {"fn":name,"a":[x,y]}
"""
import json
import math
from fractions import Fraction

import numpy as np


class Unsupported(Exception):
    pass


def num(v):
    f = Fraction(float(v))
    return {"n": [f.numerator, f.denominator]}


def val_tree(v):
    """a (possibly complex) value as a closed term"""
    if isinstance(v, complex) or np.iscomplexobj(v):
        v = complex(v)
        return {"add": [num(v.real), {"mul": [num(v.imag), {"fn": "I", "a": [num(1)]}]}]}
    return num(v)


def numval(t):
    return t["n"][0] / t["n"][1]


# ------------------------------------------------------------------ independent evaluation

FN1 = {
    "sin": np.sin, "cos": np.cos, "tan": np.tan, "tanh": np.tanh, "atan": np.arctan, "asinh": np.arcsinh,
    "acosh": np.arccosh, "sinh": np.sinh, "cosh": np.cosh, "exp": np.exp, "log": np.log, "sqrt": np.sqrt,
    "Abs": np.abs, "sign": np.sign,
    "re": np.real, "im": np.imag, "conjugate": np.conj, "arg": None,   # arg: see _arg (branch cut guarded)
    "floor": np.floor, "pimul": lambda x: np.pi * x,        # pimul(x) = pi*x with the EXACT SymPy pi
    "I": lambda x: 1j * x,                       # imaginary unit times x (complex values travel as re + im*I(1))
    "f32": lambda x: (np.complex64(x).item() if np.iscomplexobj(x) else float(np.float32(x))),   # dtype=np.float32
    "f64": lambda x: x,
}
FN2 = {"atan2": np.arctan2, "Max": np.maximum, "Min": np.minimum}


def _arg(x):
    """phase of a complex number; refuses inputs on (or within rounding of) the branch cut and the origin, where a
    rounding difference of the last bit changes the result by 2 pi"""
    x = np.asarray(x, dtype=complex)
    if np.any((np.abs(x.imag) < 1e-9 * np.maximum(1.0, np.abs(x.real))) & (x.real <= 1e-9)):
        raise Unsupported("arg on the branch cut")
    v = np.angle(x)
    return v.item() if v.ndim == 0 else v


FN1["arg"] = _arg


class Unbound(Exception):
    def __init__(self, kind, what):
        super().__init__(f"{kind}:{what}")
        self.kind, self.what = kind, what


def fold(t, free=None, meas=None, track=None):
    """numeric value of a tree.  `free`: name -> value, `meas`: mode -> value; missing atom -> Unbound.
    `track` (list) collects the magnitudes of all intermediate values."""
    free = free or {}
    meas = meas or {}

    def go(t):
        if "n" in t:
            v = numval(t)
        elif "f" in t:
            if free.get(t["f"]) is None:
                raise Unbound("unbound", t["f"])
            v = free[t["f"]]
        elif "m" in t:
            if meas.get(t["m"]) is None:
                raise Unbound("unmeasured", t["m"])
            v = meas[t["m"]]
        elif "add" in t:
            a, b = t["add"]
            x = go(a)
            v = x + go(b)
        elif "mul" in t:
            a, b = t["mul"]
            x = go(a)
            v = x * go(b)
        elif "neg" in t:
            v = -go(t["neg"])
        elif "pow" in t:
            a, b = t["pow"]
            x = go(a)
            y = go(b)
            v = np.power(np.asarray(x, dtype=complex if np.iscomplexobj(x) or np.iscomplexobj(y) else float), y)
            v = v.item() if np.ndim(v) == 0 and hasattr(v, "item") else v
        elif "fn" in t:
            args = [go(a) for a in t["a"]]
            f = (FN1 if len(args) == 1 else FN2).get(t["fn"])
            if f is None:
                raise Unsupported(t["fn"])
            v = f(*args)
            v = v.item() if np.ndim(v) == 0 and hasattr(v, "item") else v
        else:
            raise Unsupported(str(t))
        if track is not None:
            track.append(float(np.max(np.abs(v))))
        return v

    with np.errstate(all="ignore"):
        return go(t)


def atoms(t, kind):
    out = []

    def go(t):
        if kind in t and kind in ("f", "m"):
            out.append(t[kind])
        for k in ("add", "mul", "pow", "a"):
            if k in t:
                for x in t[k]:
                    go(x)
        if "neg" in t:
            go(t["neg"])
    go(t)
    return out


# ------------------------------------------------------------------ generator

SAFE1 = ["sin", "cos", "tanh", "atan", "asinh", "sin", "cos", "Abs", "exp", "cosh", "sinh", "sign"]
CONSTS = [0.5, 0.25, 2.0, 1.5, -0.75, 0.3, 1.0, -1.25, 0.125, 3.0, 0.7]


def gen_expr(rng, depth, free_names, meas_modes, p_atom=0.35):
    """random expression of depth <= `depth` over the given atoms (at least the leaves may be numbers)"""
    leafs = [("f", n) for n in free_names] + [("m", m) for m in meas_modes]
    if depth <= 0 or (rng.random() < p_atom and depth < 4):
        if leafs and rng.random() < 0.8:
            k, v = rng.choice(leafs)
            return {k: v}
        return num(rng.choice(CONSTS))
    kind = rng.choice(["add", "add", "mul", "mul", "neg", "fn1", "fn1", "fn1", "pow", "fn2", "sqrt1p", "div", "scale",
                       "assume"])
    sub = lambda: gen_expr(rng, depth - 1, free_names, meas_modes, p_atom)
    if kind in ("add", "mul"):
        return {kind: [sub(), sub()]}
    if kind == "neg":
        return {"neg": sub()}
    if kind == "scale":
        return {"mul": [num(rng.choice(CONSTS)), sub()]}
    if kind == "fn1":
        return {"fn": rng.choice(SAFE1), "a": [sub()]}
    if kind == "assume":
        # forms SymPy would rewrite at construction if an atom carried an assumption (real, positive, integer …):
        # sqrt(x**2), Abs(x), sign(x), sin(pi*x), cos(pi*x), floor(c*x)
        x = sub()
        if not (atoms(x, "f") or atoms(x, "m")) and leafs:
            # (on a constant SymPy would fold with the exact pi: cos(3*pi/2) is 0 exactly, a float evaluation gives -2e-16,
            # and sign / floor behind it differ legitimately)
            k, v = rng.choice(leafs)
            x = {"add": [x, {k: v}]}
        return rng.choice([
            {"pow": [{"pow": [x, num(2)]}, num(0.5)]}, {"fn": "Abs", "a": [x]}, {"fn": "sign", "a": [x]},
            {"fn": "sin", "a": [{"fn": "pimul", "a": [x]}]}, {"fn": "cos", "a": [{"fn": "pimul", "a": [x]}]},
            {"fn": "floor", "a": [{"mul": [num(rng.choice([0.5, 1.5, 0.3])), x]}]},
            {"fn": "exp", "a": [{"fn": "log", "a": [{"add": [num(1.0), {"pow": [x, num(2)]}]}]}]}])
    if kind == "fn2":
        return {"fn": "atan2", "a": [sub(), {"add": [num(1.5), {"fn": "cos", "a": [sub()]}]}]}
    if kind == "pow":
        return {"pow": [sub(), num(rng.choice([2, 2, 3]))]}
    if kind == "sqrt1p":
        x = sub()
        inner = {"add": [num(1.0), {"pow": [x, num(2)]}]}
        return rng.choice([{"fn": "sqrt", "a": [inner]}, {"fn": "log", "a": [inner]}, {"fn": "acosh", "a": [inner]}])
    # division by something bounded away from zero
    x = sub()
    return {"mul": [sub(), {"pow": [{"add": [num(2.0), {"fn": "sin", "a": [x]}]}, num(-1)]}]}


def well_conditioned(t, free, meas, lim=1e3, cplx=False):
    """True iff the tree evaluates to a finite real number with all intermediates below `lim`"""
    tr = []
    try:
        v = fold(t, free, meas, tr)
    except (Unbound, Unsupported, TypeError, ValueError):
        return False
    return bool(np.all(np.isfinite(v))) and (cplx or not np.iscomplexobj(v)) and all(x < lim and x == x for x in tr)


def gen_cexpr(rng, depth, cmodes, rmodes=(), free_names=(), real=True):
    """expression whose value depends on the imaginary parts of the (complex) outcomes of `cmodes`: re, im,
    conjugate, Abs, arg, exp(I*x) compositions; `rmodes` / `free_names` are real atoms.  With real=True the value is
    real (it can be a gate parameter)."""
    q = lambda: {"m": rng.choice(list(cmodes))}
    ratom = lambda: ({"m": rng.choice(list(rmodes))} if rmodes and rng.random() < 0.5 else
                     ({"f": rng.choice(list(free_names))} if free_names and rng.random() < 0.6 else num(rng.choice(CONSTS))))

    def cplx(d):
        """complex-valued"""
        k = rng.choice(["q", "q", "conj", "mul", "add", "rot", "scale", "pow"]) if d > 0 else rng.choice(["q", "conj"])
        if k == "q":
            return q()
        if k == "conj":
            return {"fn": "conjugate", "a": [cplx(d - 1) if d > 0 else q()]}
        if k == "mul":
            return {"mul": [cplx(d - 1), cplx(d - 1)]}
        if k == "add":
            return {"add": [cplx(d - 1), {"mul": [num(rng.choice(CONSTS)), cplx(d - 1)]}]}
        if k == "rot":   # q * exp(I * x), x real
            return {"mul": [cplx(d - 1), {"fn": "exp", "a": [{"mul": [{"fn": "I", "a": [num(1)]}, realv(d - 1)]}]}]}
        if k == "scale":
            return {"mul": [ratom(), cplx(d - 1)]}
        return {"pow": [cplx(d - 1), num(2)]}

    def realv(d):
        """real-valued"""
        k = rng.choice(["re", "im", "im", "abs", "arg", "arg", "add", "mul", "atom", "sin", "neg"]) if d > 0 else \
            rng.choice(["re", "im", "abs", "arg"])
        if k in ("re", "im", "arg"):
            return {"fn": k, "a": [cplx(d - 1)]}
        if k == "abs":
            # (not Abs of a power: SymPy stores Abs(conjugate(q)**2) as sqrt(q**2*conjugate(q)**2), a complex-TYPED value
            # that real-only NumPy functions behind it — arctan2 in CXgate, thewalrus' rotation — refuse; SymPy's choice)
            for _ in range(20):
                a = cplx(d - 1)
                if '"pow"' not in json.dumps(a):
                    break
            else:
                a = q()
            return {"fn": "Abs", "a": [a]}
        if k == "add":
            return {"add": [realv(d - 1), realv(d - 1)]}
        if k == "mul":
            return {"mul": [realv(d - 1), realv(d - 1)]}
        if k == "sin":
            return {"fn": rng.choice(["sin", "cos", "tanh"]), "a": [realv(d - 1)]}
        if k == "neg":
            return {"neg": realv(d - 1)}
        return ratom()
    return realv(depth) if real else cplx(depth)


def gen_poly(rng, depth, free_names, meas_modes):
    """polynomial expression (sums, products, negation, small powers): meaningful for complex values"""
    leafs = [("f", n) for n in free_names] + [("m", m) for m in meas_modes]
    if depth <= 0 or rng.random() < 0.3:
        if leafs and rng.random() < 0.8:
            k, v = rng.choice(leafs)
            return {k: v}
        return num(rng.choice(CONSTS))
    kind = rng.choice(["add", "mul", "neg", "pow", "scale"])
    sub = lambda: gen_poly(rng, depth - 1, free_names, meas_modes)
    if kind in ("add", "mul"):
        return {kind: [sub(), sub()]}
    if kind == "neg":
        return {"neg": sub()}
    if kind == "scale":
        return {"mul": [num(rng.choice(CONSTS)), sub()]}
    return {"pow": [sub(), num(rng.choice([2, 3]))]}


# ------------------------------------------------------------------ tree <-> real objects

def to_sympy(t, free_objs, regs):
    """build the real parameter object: SF free parameters (`free_objs[name]`), measured parameters
    (`regs[mode].par`), Python arithmetic, `sf.math` functions"""
    from strawberryfields.parameters import par_funcs as pf
    if "n" in t:
        v = numval(t)
        return int(v) if t["n"][1] == 1 and abs(v) < 10 else v   # small integers as Python ints (sympy Integer)
    if "f" in t:
        return free_objs[t["f"]]
    if "m" in t:
        return regs[t["m"]].par
    if "add" in t:
        a, b = t["add"]
        return to_sympy(a, free_objs, regs) + to_sympy(b, free_objs, regs)
    if "mul" in t:
        a, b = t["mul"]
        return to_sympy(a, free_objs, regs) * to_sympy(b, free_objs, regs)
    if "neg" in t:
        return -to_sympy(t["neg"], free_objs, regs)
    if "pow" in t:
        a, b = t["pow"]
        e = to_sympy(b, free_objs, regs)
        if isinstance(e, float) and e.is_integer():
            e = int(e)
        return to_sympy(a, free_objs, regs) ** e
    if "fn" in t:
        if t["fn"] == "I":
            import sympy
            return sympy.I * to_sympy(t["a"][0], free_objs, regs)
        if t["fn"] == "pimul":
            import sympy
            return sympy.pi * to_sympy(t["a"][0], free_objs, regs)
        return getattr(pf, t["fn"])(*[to_sympy(a, free_objs, regs) for a in t["a"]])
    raise Unsupported(str(t))


def _nest(op, items):
    out = items[-1]
    for x in reversed(items[:-1]):
        out = {op: [x, out]}
    return out


def from_sympy(e):
    """read a SymPy object (as stored in `op.p`) back into a tree; uses only `.func` / `.args`"""
    import sympy
    from strawberryfields.parameters import FreeParameter, MeasuredParameter
    if isinstance(e, MeasuredParameter):
        return {"m": int(e.regref.ind)}
    if isinstance(e, FreeParameter):
        return {"f": str(e.name)}
    if e is sympy.I:
        return {"fn": "I", "a": [num(1)]}
    if isinstance(e, sympy.Symbol):
        return {"f": str(e.name)}   # a plain (Blackbird) symbol
    if isinstance(e, (sympy.Integer, sympy.Rational)):
        return {"n": [int(e.p), int(e.q)]}
    if isinstance(e, sympy.Float) or isinstance(e, sympy.NumberSymbol):
        return num(float(e))
    if isinstance(e, sympy.Add):
        return _nest("add", [from_sympy(a) for a in e.args])
    if isinstance(e, sympy.Mul):
        return _nest("mul", [from_sympy(a) for a in e.args])
    if isinstance(e, sympy.Pow):
        return {"pow": [from_sympy(e.args[0]), from_sympy(e.args[1])]}
    if isinstance(e, (sympy.Max, sympy.Min)):
        return _nest_fn(e.func.__name__, [from_sympy(a) for a in e.args])
    if isinstance(e, sympy.Function) or isinstance(e, sympy.Abs):
        name = e.func.__name__
        if name == "exp" and len(e.args) == 1:
            return {"fn": "exp", "a": [from_sympy(e.args[0])]}
        if len(e.args) in (1, 2) and name in FN1 or name in FN2:
            return {"fn": name, "a": [from_sympy(a) for a in e.args]}
    raise Unsupported(f"{type(e).__name__}: {e}")


def _nest_fn(name, items):
    out = items[-1]
    for x in reversed(items[:-1]):
        out = {"fn": name, "a": [x, out]}
    return out


def param_to_json(p):
    """real operation parameter -> model `Param` JSON"""
    import sympy
    if isinstance(p, np.ndarray) and p.ndim == 2:
        return {"arr2": [[_scalar_json(x) for x in row] for row in (p.tolist() if p.dtype != object else p)]}
    if isinstance(p, np.ndarray):
        return {"arr": [_scalar_json(x) for x in p.tolist()] if p.dtype != object else [_scalar_json(x) for x in p]}
    return {"one": _scalar_json(p)}


def _scalar_json(x):
    import sympy
    if isinstance(x, sympy.Basic):
        return {"sym": from_sympy(x)}
    f = Fraction(float(x))
    return {"lit": [f.numerator, f.denominator]}


def pval_fold(pv):
    """model PVal (closed terms) -> float / array"""
    if "one" in pv:
        return fold(pv["one"])
    if "arr2" in pv:
        return np.array([[fold(x) for x in row] for row in pv["arr2"]])
    return np.array([fold(x) for x in pv["arr"]])


def close(a, b, tol=1e-9):
    cplx = np.iscomplexobj(a) or np.iscomplexobj(b)
    a = np.asarray(a, dtype=complex if cplx else float)
    b = np.asarray(b, dtype=complex if cplx else float)
    if a.shape != b.shape:
        return False
    return bool(np.all(np.abs(a - b) <= tol * np.maximum(1.0, np.maximum(np.abs(a), np.abs(b)))))


# ------------------------------------------------------------------ scripted recording backend

def make_backend(outcomes):
    """a backend that records every API call and returns the measurement outcomes scripted by the
    harness: `outcomes` is a list of arrays of shape (shots, modes) consumed in order, or of pairs
    (modes, array) — then a measurement of `modes` takes the first entry for exactly these modes (so
    that a compiler may reorder independent measurements)"""
    from strawberryfields.backends.base import BaseBackend

    class Recording(BaseBackend):
        short_name = "recording"
        compiler = None

        def __init__(self):
            super().__init__()
            self.calls = []
            self.outcomes = list(outcomes)
            self.n = 0

        def supports(self, name):
            return True

        def begin_circuit(self, num_subsystems, **kwargs):
            self.n = num_subsystems
            self.calls.append(("begin", (), (num_subsystems,)))

        def reset(self, **kwargs):
            self.calls.append(("reset", (), ()))

        def add_mode(self, n=1, **kwargs):
            self.n += n
            self.calls.append(("add_mode", (), (n,)))

        def del_mode(self, modes):
            self.calls.append(("del_mode", tuple(np.atleast_1d(modes).tolist()), ()))

        def get_modes(self):
            return list(range(self.n))

        def state(self, modes=None, **kwargs):
            return None

        def is_vacuum(self, tol=0.0, **kwargs):
            return False

        def _rec(self, name, modes, *args):
            self.calls.append((name, tuple(int(m) for m in modes), tuple(np.asarray(a, dtype=float).tolist() if not np.iscomplexobj(a) else np.asarray(a).tolist() for a in args)))

        def prepare_vacuum_state(self, mode):
            self._rec("vacuum", [mode])

        def prepare_coherent_state(self, r, phi, mode):
            self._rec("coherent", [mode], r, phi)

        def prepare_squeezed_state(self, r, phi, mode):
            self._rec("squeezed", [mode], r, phi)

        def prepare_displaced_squeezed_state(self, r_d, phi_d, r_s, phi_s, mode):
            self._rec("dsqueezed", [mode], r_d, phi_d, r_s, phi_s)

        def prepare_thermal_state(self, nbar, mode):
            self._rec("thermal", [mode], nbar)

        def rotation(self, phi, mode):
            self._rec("rotation", [mode], phi)

        def displacement(self, r, phi, mode):
            self._rec("displacement", [mode], r, phi)

        def squeeze(self, r, phi, mode):
            self._rec("squeeze", [mode], r, phi)

        def beamsplitter(self, theta, phi, mode1, mode2):
            self._rec("beamsplitter", [mode1, mode2], theta, phi)

        def mzgate(self, phi_in, phi_ex, mode1, mode2):
            self._rec("mzgate", [mode1, mode2], phi_in, phi_ex)

        def two_mode_squeeze(self, r, phi, mode1, mode2):
            self._rec("two_mode_squeeze", [mode1, mode2], r, phi)

        def loss(self, T, mode):
            self._rec("loss", [mode], T)

        def thermal_loss(self, T, nbar, mode):
            self._rec("thermal_loss", [mode], T, nbar)

        def cubic_phase(self, gamma, mode):
            self._rec("cubic_phase", [mode], gamma)

        def kerr_interaction(self, kappa, mode):
            self._rec("kerr", [mode], kappa)

        def cross_kerr_interaction(self, kappa, mode1, mode2):
            self._rec("cross_kerr", [mode1, mode2], kappa)

        def _meas(self, name, modes, shots, args):
            if not self.outcomes:
                raise RuntimeError("recording backend: no scripted outcome left")
            key = tuple(int(m) for m in modes)
            k = next((i for i, o in enumerate(self.outcomes) if isinstance(o, tuple) and tuple(o[0]) == key), None)
            if k is not None:
                v = np.array(self.outcomes.pop(k)[1])
            elif isinstance(self.outcomes[0], tuple):
                raise RuntimeError(f"recording backend: no scripted outcome for modes {key}")
            else:
                v = np.array(self.outcomes.pop(0))
            v = v.astype(complex if np.iscomplexobj(v) else float)
            self.calls.append((name, tuple(int(m) for m in modes), tuple(args) + (("shots", shots),)))
            return v.reshape(shots, len(modes))

        def measure_homodyne(self, phi, mode, shots=1, select=None, **kwargs):
            # Measurement ops scale by sqrt(hbar/2); hand back so that RegRef.val is the scripted value
            import strawberryfields as sf
            return self._meas("homodyne", [mode], shots, (float(phi),)) / np.sqrt(sf.hbar / 2)

        def measure_heterodyne(self, mode, shots=1, select=None, **kwargs):
            return self._meas("heterodyne", [mode], shots, ())

        def measure_fock(self, modes, shots=1, select=None, **kwargs):
            return self._meas("fock", modes, shots, ())

        def measure_threshold(self, modes, shots=1, select=None, **kwargs):
            return self._meas("threshold", modes, shots, ())

    return Recording()
