"""Helpers of the C16 check (state observables): own formulas for every observable from an independent phase-space
reference `(mu, V)` (lib/sim.py) and from a Fock density matrix (own partial trace, own ladder operators), the list of
mode selections, and state generators.  Nothing here calls a method of a strawberryfields state object."""
import itertools
import math

import numpy as np

from lib import sim


# ---------------------------------------------------------------- mode selections

def ordered_subsets(n, kmax=None):
    out = []
    for k in range(1, (kmax or n) + 1):
        out.extend(list(p) for p in itertools.permutations(range(n), k))
    return out


def sorted_subsets(n):
    out = []
    for k in range(1, n + 1):
        out.extend(list(c) for c in itertools.combinations(range(n), k))
    return out


# ---------------------------------------------------------------- phase-space formulas (hbar units of the front end)

class PS:
    """reference Gaussian state in the units of the state objects: mu = mu_ref sqrt(hbar/2), V = V_ref hbar/2 (xxpp)"""

    def __init__(self, ref, hbar):
        self.n = ref.n
        self.hbar = hbar
        self.mu = ref.mu * math.sqrt(hbar / 2)
        self.V = ref.V * (hbar / 2)

    def idx(self, modes):
        return list(modes) + [m + self.n for m in modes]

    def reduced(self, modes):
        ix = self.idx(modes)
        return self.mu[ix], self.V[np.ix_(ix, ix)]

    def reduced_xpxp(self, modes):
        ix = [i for m in modes for i in (m, m + self.n)]
        return self.mu[ix], self.V[np.ix_(ix, ix)]

    def alpha(self, modes):
        return np.array([(self.mu[m] + 1j * self.mu[m + self.n]) / math.sqrt(2 * self.hbar) for m in modes])

    def mean_photon(self, m):
        mu, V = self.reduced([m])
        h = self.hbar
        mean = (np.trace(V) + mu @ mu) / (2 * h) - 0.5
        var = (np.trace(V @ V) + 2 * mu @ V @ mu) / (2 * h * h) - 0.25
        return mean, var

    def quad(self, m, phi):
        mu, V = self.reduced([m])
        u = np.array([math.cos(phi), math.sin(phi)])
        return u @ mu, u @ V @ u

    def parity(self, modes):
        mu, V = self.reduced(sorted(modes))
        k = len(modes)
        return (self.hbar / 2) ** k * math.exp(-0.5 * mu @ np.linalg.solve(V, mu)) / math.sqrt(np.linalg.det(V))

    def fidelity_coherent(self, alphas):
        h, n = self.hbar, self.n
        a = np.asarray(alphas, dtype=complex)
        target = np.concatenate([a.real, a.imag]) * math.sqrt(2 * h)
        d = self.mu - target
        S = self.V + np.eye(2 * n) * h / 2
        return h ** n * math.exp(-0.5 * d @ np.linalg.solve(S, d)) / math.sqrt(np.linalg.det(S))

    def fidelity_mode(self, m, mu1, cov1):
        """fidelity of the reduced state of mode m with a *pure* one-mode Gaussian (mu1, cov1)"""
        h = self.hbar
        mu, V = self.reduced([m])
        d = mu - np.asarray(mu1)
        S = V + np.asarray(cov1)
        return h * math.exp(-0.5 * d @ np.linalg.solve(S, d)) / math.sqrt(np.linalg.det(S))

    def wigner(self, m, xvec, pvec):
        """W[ip, ix] (the layout all three state classes use)"""
        mu, V = self.reduced([m])
        Vi = np.linalg.inv(V)
        X, P = np.meshgrid(xvec, pvec)
        dx, dp = X - mu[0], P - mu[1]
        e = Vi[0, 0] * dx * dx + 2 * Vi[0, 1] * dx * dp + Vi[1, 1] * dp * dp
        return np.exp(-0.5 * e) / (2 * math.pi * math.sqrt(np.linalg.det(V)))

    def purity(self):
        return (self.hbar / 2) ** self.n / math.sqrt(np.linalg.det(self.V))

    def poly_mean(self, A, d, k, phi):
        """<r^T A r + r^T d + k> with r = (x_1..x_n, p_1..p_n) rotated by phi:  x -> cos x - sin p?  No: the front
        end documents x_phi = cos(phi) x + sin(phi) p for every mode; p_phi = -sin(phi) x + cos(phi) p."""
        n = self.n
        c, s = math.cos(phi), math.sin(phi)
        R = np.block([[c * np.eye(n), s * np.eye(n)], [-s * np.eye(n), c * np.eye(n)]])
        mu, V = R @ self.mu, R @ self.V @ R.T
        return np.trace(A @ V) + mu @ A @ mu + mu @ d + k


# ---------------------------------------------------------------- Fock formulas from an own density matrix

def as_matrix(rho, k):
    D = rho.shape[0] if k else 1
    if k == 0:
        return np.asarray(rho).reshape(1, 1)
    return np.transpose(rho, [2 * i for i in range(k)] + [2 * i + 1 for i in range(k)]).reshape(D ** k, D ** k)


class FK:
    """own evaluation of every observable from the full density matrix rho[i0, j0, i1, j1, ...]"""

    def __init__(self, rho, n, hbar):
        self.rho, self.n, self.hbar = np.asarray(rho), n, hbar
        self.D = self.rho.shape[0]
        self.tr = float(np.real(sim.reduced_dm(self.rho, n, [])))

    def reduced(self, modes):
        return sim.reduced_dm(self.rho, self.n, list(modes))

    def probs(self, modes=None):
        modes = list(range(self.n)) if modes is None else list(modes)
        r = self.reduced(modes)
        k = len(modes)
        if k == 0:
            return np.real(r)
        return np.real(np.einsum(r, [i // 2 for i in range(2 * k)], list(range(k))))

    def diag_expect(self, modes, values):
        p = self.probs(modes)
        for _ in modes:
            p = np.tensordot(p, values, axes=([0], [0]))
        return float(p)

    def mean_photon(self, m):
        nn = np.arange(self.D)
        p = self.probs([m])
        mean = float(nn @ p)
        return mean, float((nn ** 2) @ p) - mean ** 2

    def number(self, modes):
        nn = np.arange(self.D)
        mean = self.diag_expect(modes, nn)
        return mean, self.diag_expect(modes, nn ** 2) - mean ** 2

    def parity(self, modes):
        return self.diag_expect(modes, (-1.0) ** np.arange(self.D))

    def quad(self, m, phi, pad=5):
        """<x_phi>, var with x_phi^2 evaluated in a padded space and truncated (as the front end documents: the
        operators act on the truncated state)"""
        D = self.D
        a = np.diag(np.sqrt(np.arange(1, D + pad)), 1)
        sc = math.sqrt(self.hbar / 2)
        x = sc * (a + a.T)
        p = -1j * sc * (a - a.T)
        xphi = math.cos(phi) * x + math.sin(phi) * p
        sq = (xphi @ xphi)[:D, :D]
        xphi = xphi[:D, :D]
        r = self.reduced([m])
        mean = float(np.real(np.trace(xphi @ r)))
        return mean, float(np.real(np.trace(sq @ r))) - mean ** 2

    def coherent_vec(self, a):
        D = self.D
        return np.array([np.exp(-0.5 * abs(a) ** 2) * a ** k / math.sqrt(math.factorial(k)) for k in range(D)], dtype=complex)

    def fidelity_coherent(self, alphas):
        v = np.array([1.0 + 0j])
        for a in alphas:
            v = np.kron(v, self.coherent_vec(a))
        return float(np.real(v.conj() @ as_matrix(self.rho, self.n) @ v))

    def fidelity_mode(self, m, ket):
        r = self.reduced([m])
        return float(np.real(np.conj(ket) @ r @ ket))

    def purity(self):
        mat = as_matrix(self.rho, self.n)
        return float(np.real(np.trace(mat @ mat))) / self.tr ** 2


def fock_gaussian_ket(mu1, cov1, D, hbar):
    """ket of a pure one-mode Gaussian state with x/p means mu1 and covariance cov1 = (hbar/2) S S^T, built here from the
    squeezing / rotation / displacement parameters (own recurrence-free construction through matrix exponentials)"""
    from scipy.linalg import expm
    Dp = D + 25
    a = np.diag(np.sqrt(np.arange(1, Dp)), 1)
    V = np.asarray(cov1) / (hbar / 2)
    # V = R(th) diag(e^{-2r}, e^{2r}) R(th)^T
    w, U = np.linalg.eigh(V)
    r = -0.5 * math.log(w[0])
    th = math.atan2(U[1, 0], U[0, 0])
    # squeezing S(z) with z = r e^{2 i th}: x-variance e^{-2r} along angle th
    z = r * np.exp(2j * th)
    S = expm(0.5 * (np.conj(z) * a @ a - z * a.T @ a.T))
    al = (mu1[0] + 1j * mu1[1]) / math.sqrt(2 * hbar)
    Dm = expm(al * a.T - np.conj(al) * a)
    vac = np.zeros(Dp, dtype=complex)
    vac[0] = 1
    return (Dm @ S @ vac)[:D]


# ---------------------------------------------------------------- generators

def product_spec(rng, n):
    """thermal (x) coherent (x) squeezed ... product state, then optionally entangled"""
    ops = []
    kinds = ["Thermal", "Coherent", "Squeezed", "DisplacedSqueezed", "Vacuum"]
    rng.shuffle(kinds)
    for m in range(n):
        c = kinds[m % len(kinds)]
        if c == "Thermal":
            ops.append(dict(cls="Thermal", regs=[m], pars=[rng.choice([0.2, 0.4, 0.6])]))
        elif c == "Coherent":
            ops.append(dict(cls="Coherent", regs=[m], pars=[round(rng.uniform(0.2, 0.6), 3), sim.angle(rng)]))
        elif c == "Squeezed":
            ops.append(dict(cls="Squeezed", regs=[m], pars=[round(rng.uniform(0.1, 0.3), 3) * rng.choice([1, -1]), sim.angle(rng)]))
        elif c == "DisplacedSqueezed":
            ops.append(dict(cls="DisplacedSqueezed", regs=[m], pars=[round(rng.uniform(0.2, 0.5), 3), sim.angle(rng),
                                                                   round(rng.uniform(0.1, 0.3), 3), sim.angle(rng)]))
    return ops


def gate_only(ops_):
    """a spec whose operations are unitary gates only (so the Fock register can stay pure)"""
    return all(o["cls"] in sim.GAUSSIAN_GATE_CLASSES for o in ops_)


def rand_state_spec(rng, n, kind):
    if kind == "product":
        ops = product_spec(rng, n)
    elif kind == "product+bs":
        ops = product_spec(rng, n)
        for _ in range(rng.randint(1, 2)):
            if n >= 2:
                a, b = rng.sample(range(n), 2)
                ops.append(dict(cls="BSgate", regs=[a, b], pars=[round(rng.uniform(0.3, 1.2), 3), sim.angle(rng)]))
    elif kind == "pure":
        ops = [o for o in sim.correlated_prefix(rng, n) if o["cls"] != "LossChannel"]
        if n >= 2 and rng.random() < 0.5:
            a, b = rng.sample(range(n), 2)
            ops.append(dict(cls="S2gate", regs=[a, b], pars=[round(rng.uniform(0.1, 0.25), 3), sim.angle(rng)]))
    else:  # correlated mixed
        ops = sim.correlated_prefix(rng, n)
        if not any(o["cls"] == "LossChannel" for o in ops):
            ops.append(dict(cls="LossChannel", regs=[rng.randrange(n)], pars=[0.7]))
        if rng.random() < 0.5:
            ops.append(dict(cls="ThermalLossChannel", regs=[rng.randrange(n)], pars=[0.8, 0.3]))
    return dict(n=n, ops=ops)
