"""Shared machinery of the checks: Lean bridge (build, audit, driver), PRNG, coverage counters,
known-findings matcher, evidence writer and the verdict rule of DESIGN.md section 0."""
import fcntl
import hashlib
import json
import os
import random
import re
import subprocess
import sys
import time
import traceback
from pathlib import Path

VERIF = Path(__file__).resolve().parents[2]
LEAN = VERIF / "lean"
REPO = Path(os.environ.get("SF_REPO", "/repo"))
ALLOWED_AXIOMS = {"propext", "Classical.choice", "Quot.sound"}
FORBIDDEN = re.compile(
    r"\bsorry\b|\badmit\b|^\s*axiom\s|native_decide|bv_decide|implemented_by|\bunsafe\s|maxHeartbeats\s+0"
)

TRUSTED_BASE = [
    "Lean 4.33 kernel",
    "axioms: subset of {propext, Classical.choice, Quot.sound} (audited with collectAxioms on every run)",
    "no sorry/admit/native_decide/bv_decide/own axioms (source grep on every run)",
    "model-to-code tie: correspondence harness (model run through the Lean driver vs real code, same inputs)",
]


class SearchTimeout(BaseException):
    """raised by the alarm that bounds the extended search (BaseException: guards written as `except Exception` let it pass)"""


class Infra(Exception):
    """infrastructure problem: exit 2, never a VIOLATION"""


def _strip_comments(src):
    # remove /- ... -/ (nested not needed for our files) and -- comments
    src = re.sub(r"/-.*?-/", "", src, flags=re.S)
    return re.sub(r"--.*", "", src)


def forbidden_tokens():
    hits = []
    for p in sorted(LEAN.glob("SFV/**/*.lean")) + [LEAN / "Driver.lean"]:
        if "AuditCmd" in p.name:
            continue
        for i, line in enumerate(_strip_comments(p.read_text()).splitlines(), 1):
            if FORBIDDEN.search(line):
                hits.append(f"{p.relative_to(LEAN)}:{i}: {line.strip()[:80]}")
    return hits


def run_translator():
    """regenerate SFV/Gen/*.lean from /repo; only rewrite on change"""
    gen_dir = VERIF / "harness" / "gen"
    env = dict(os.environ, PYTHONPATH=str(VERIF / "harness"))
    for script in sorted(gen_dir.glob("gen_*.py")):
        r = subprocess.run([sys.executable, str(script)], capture_output=True, text=True, env=env, cwd=str(VERIF))
        if r.returncode != 0:
            raise Infra(f"translator {script.name} failed:\n{r.stdout}\n{r.stderr}")


def lean_build(targets=("SFV",)):
    """returns (ok, log).  Serialised with a file lock (lake is not re-entrant)."""
    lock = open(LEAN / ".build.lock", "w")
    fcntl.flock(lock, fcntl.LOCK_EX)
    try:
        run_translator()
        t0 = time.time()
        r = subprocess.run(["lake", "build", *targets], cwd=str(LEAN), capture_output=True, text=True)
        log = (r.stdout + r.stderr)
        return r.returncode == 0, log, time.time() - t0
    finally:
        fcntl.flock(lock, fcntl.LOCK_UN)
        lock.close()


def lean_audit(pid):
    """run `#sfv_audit SFV.<pid>`; returns dict(theorems={name: [axioms]}, deps={...}, ok, bad)"""
    f = LEAN / "SFV" / "Audit" / f"{pid}.lean"
    if not f.exists():
        raise Infra(f"missing audit file {f}")
    r = subprocess.run(["lake", "env", "lean", str(f.relative_to(LEAN))], cwd=str(LEAN), capture_output=True, text=True)
    thms, deps = {}, {}
    for line in r.stdout.splitlines():
        m = re.match(r".*AUDIT-(THM|DEP) (\S+) : \[(.*)\]", line)
        if m:
            axs = [a.strip() for a in m.group(3).split(",") if a.strip()]
            (thms if m.group(1) == "THM" else deps)[m.group(2)] = axs
    bad = {n: a for n, a in {**thms, **deps}.items() if not set(a) <= ALLOWED_AXIOMS}
    ok = r.returncode == 0 and bool(thms) and not bad
    return dict(theorems=thms, deps=deps, ok=ok, bad=bad, log=(r.stdout + r.stderr)[-2000:] if not ok else "")


def lean_driver(requests, timeout=900):
    """run the model on a batch of requests (list of dicts) -> list of results (`r` payloads).
    A model-side error is returned as {'__error__': msg}."""
    if not requests:
        return []
    inp = "\n".join(json.dumps(r, separators=(",", ":")) for r in requests) + "\n"
    r = subprocess.run(["lake", "env", "lean", "--run", "Driver.lean"], cwd=str(LEAN), input=inp,
                       capture_output=True, text=True, timeout=timeout)
    lines = [l for l in r.stdout.splitlines() if l.strip()]
    if r.returncode != 0 or len(lines) != len(requests):
        raise Infra(f"Lean driver failed (rc={r.returncode}, {len(lines)}/{len(requests)} answers):\n"
                    f"{r.stderr[-1500:]}\n{r.stdout[-500:]}")
    out = []
    for l in lines:
        j = json.loads(l)
        out.append(j["r"] if "r" in j else {"__error__": j.get("error", "?")})
    return out


def leanchecker(mods):
    r = subprocess.run(["lake", "env", "leanchecker", *mods], cwd=str(LEAN), capture_output=True, text=True)
    return r.returncode == 0, (r.stdout + r.stderr)[-1500:]


class Known:
    """known_findings.json: committed, never written at run time."""

    def __init__(self):
        p = VERIF / "known_findings.json"
        self.data = json.loads(p.read_text()) if p.exists() else {"findings": [], "fixed": []}

    def match(self, pid, sig):
        for f in self.data.get("findings", []):
            if f["property"] == pid and f["signature"] == sig:
                return f
        return None


class Ctx:
    def __init__(self, pid, tier, seed, replay=None):
        self.pid, self.tier, self.seed, self.replay = pid, tier, seed, replay
        self.rng = random.Random(seed * 1000003 + int(hashlib.sha1(pid.encode()).hexdigest()[:6], 16))
        self.t0 = time.time()
        self.evaluations = 0
        self.distinct = set()
        self.samples = []
        self.dist = {}            # measured input distribution
        self.disagreements = []   # correspondence: model vs code
        self.failures = []        # property-level failing inputs on the real code: dict(sig, what, replay)
        self.corr_cases = 0
        self.oracle_cases = 0
        self.notes = []
        self.boost = 1            # >1 during the extended failing-input search
        self.extra = {}

    # ---- budgets
    def n(self, quick, thorough):
        return int((quick if self.tier == "quick" else thorough) * self.boost)

    def elapsed(self):
        return time.time() - self.t0

    def nprng(self, salt=0):
        import numpy as np
        return np.random.Generator(np.random.PCG64(self.rng.getrandbits(63) ^ salt))

    # ---- coverage
    def count(self, kind, case=None, nontrivial=True, sample=None):
        self.evaluations += 1
        self.dist[kind] = self.dist.get(kind, 0) + 1
        if case is not None and nontrivial:
            self.distinct.add(hashlib.sha1(json.dumps(case, sort_keys=True, default=str).encode()).hexdigest())
        if sample is not None and len(self.samples) < 6 and not any(s.get("kind") == kind for s in self.samples):
            self.samples.append({"kind": kind, "case": sample})

    def tally(self, key, k=1):
        self.dist[key] = self.dist.get(key, 0) + k

    def disagree(self, pair, case, model, impl):
        self.disagreements.append(dict(pair=pair, case=case, model=model, impl=impl))

    def fail(self, sig, what, replay):
        """a concrete input on which the REAL code violates the property"""
        self.failures.append(dict(sig=sig, what=what, replay=replay))

    def lean(self, reqs):
        return lean_driver(reqs)


def _jsonable(o):
    try:
        import numpy as np
        if isinstance(o, np.ndarray):
            return o.tolist()
        if isinstance(o, (np.integer,)):
            return int(o)
        if isinstance(o, (np.floating,)):
            return float(o)
        if isinstance(o, (np.complexfloating, complex)):
            return [float(o.real), float(o.imag)]
    except Exception:
        pass
    if isinstance(o, (set, frozenset)):
        return sorted(o, key=str)
    if isinstance(o, complex):
        return [o.real, o.imag]
    return str(o)


def dump(obj, path):
    Path(path).parent.mkdir(parents=True, exist_ok=True)
    Path(path).write_text(json.dumps(obj, indent=1, default=_jsonable))


def import_sf():
    try:
        import warnings
        warnings.filterwarnings("ignore")
        import strawberryfields as sf
    except Exception:
        raise Infra("cannot import strawberryfields from the working tree:\n" + traceback.format_exc())
    if not str(Path(sf.__file__).resolve()).startswith(str(REPO)):
        raise Infra(f"strawberryfields imported from {sf.__file__}, expected under {REPO}")
    return sf


def main(pid, prop_module, argv):
    import argparse
    ap = argparse.ArgumentParser()
    ap.add_argument("--tier", default=os.environ.get("VERIF_TIER", "quick"), choices=["quick", "thorough"])
    ap.add_argument("--replay", default=None)
    ap.add_argument("--no-build", action="store_true")
    a = ap.parse_args(argv)
    seed = int(os.environ.get("VERIF_SEED", "0") or 0)
    ctx = Ctx(pid, a.tier, seed, a.replay)
    try:
        rc = _run(ctx, prop_module, a)
    except Infra as e:
        print(f"INFRA-ERROR property={pid}: {e}")
        rc = 2
    except subprocess.TimeoutExpired as e:
        print(f"INFRA-ERROR property={pid}: timeout {e}")
        rc = 2
    sys.stdout.flush()
    os._exit(rc)


def _run(ctx, mod, a):
    pid = ctx.pid
    sf = import_sf()
    known = Known()
    if a.replay:
        rp = json.loads(Path(a.replay).read_text())
        n = 0
        for item in rp.get("failures", []):
            res = mod.replay(ctx, item["replay"])
            print(("REPRODUCED " if res else "not reproduced ") + item.get("what", ""))
            n += bool(res)
        return 1 if n else 0

    # 1. proof: build + audit + token grep
    proof_broken = []
    build_s = 0.0
    if not a.no_build:
        ok, log, build_s = lean_build()
        if not ok:
            errs = [l for l in log.splitlines() if "error" in l][:12]
            proof_broken.append("lake build failed: " + " | ".join(errs))
    audit = dict(theorems={}, deps={}, ok=False, bad={})
    if not proof_broken:
        audit = lean_audit(pid)
        if not audit["ok"]:
            proof_broken.append(f"axiom audit failed: bad={audit['bad']} {audit['log'][-400:]}")
    toks = forbidden_tokens()
    if toks:
        proof_broken.append("forbidden tokens: " + "; ".join(toks[:5]))
    checker_note = ""
    if ctx.tier == "thorough" and not proof_broken:
        ok, log = leanchecker([f"SFV.Props.{pid}"])
        checker_note = "leanchecker ok" if ok else "leanchecker FAILED: " + log
        if not ok:
            proof_broken.append(checker_note)

    # 2+3. correspondence and oracle search (corpus first), in the property module
    if proof_broken:
        ctx.notes.append("proof side broken; model-dependent steps may be skipped")
    ctx.proof_ok = not proof_broken
    crashed = []

    def guarded(fn, what):
        """The unchanged tree never makes the harness raise (checked over many seeds), so an exception that is not an
        infrastructure problem means the code under test behaves differently: it is reported like a broken tie
        (VIOLATION ... no-failing-input-found, traceback in the replay file) unless a concrete failing input is found."""
        try:
            fn(ctx, sf)
        except Infra:
            raise
        except (MemoryError, OSError, subprocess.TimeoutExpired) as e:
            raise Infra(f"{what}: {type(e).__name__}: {e}")
        except Exception:  # noqa: BLE001
            tb = traceback.format_exc()
            crashed.append(f"{what} raised:\n{tb[-3000:]}")
            print(f"  evaluation raised an exception ({what}):", tb.strip().splitlines()[-1][:300])

    # the run itself is bounded too (a sampler of the code under test that never accepts must not hang the check): exit 2
    import signal

    def _run_alarm(signum, frame):
        raise SearchTimeout()
    run_budget = int(os.environ.get("VERIF_RUN_BUDGET", 2400 if ctx.tier == "quick" else 4 * 3600))
    old_run_handler = signal.signal(signal.SIGALRM, _run_alarm)
    signal.alarm(run_budget)
    try:
        guarded(mod.run, "harness run")
    except SearchTimeout:
        raise Infra(f"harness run exceeded its budget of {run_budget} s")
    finally:
        signal.alarm(0)
        signal.signal(signal.SIGALRM, old_run_handler)

    # extended search when the proof or the tie is broken and nothing failed yet
    unlisted = [f for f in ctx.failures if not known.match(pid, f["sig"])]
    if (proof_broken or ctx.disagreements or crashed) and not unlisted and hasattr(mod, "search"):
        ctx.boost = 6
        ctx.notes.append("extended failing-input search (boost 6)")
        # the extended search is best effort: it is cut off after a fixed budget (the verdict is then
        # `no-failing-input-found` unless something was found before)
        import signal

        def _alarm(signum, frame):
            raise SearchTimeout()
        budget = int(os.environ.get("VERIF_SEARCH_BUDGET", 900 if ctx.tier == "quick" else 3600))
        old_handler = signal.signal(signal.SIGALRM, _alarm)
        signal.alarm(budget)
        try:
            guarded(mod.search, "extended search")
        except SearchTimeout:
            ctx.notes.append(f"extended search cut off after {budget} s")
            print(f"  extended search cut off after {budget} s")
        finally:
            signal.alarm(0)
            signal.signal(signal.SIGALRM, old_handler)
        unlisted = [f for f in ctx.failures if not known.match(pid, f["sig"])]
    proof_broken = proof_broken + crashed[:2]

    # verdict
    listed = {}
    for f in ctx.failures:
        k = known.match(pid, f["sig"])
        if k:
            listed.setdefault(f["sig"], (k, f))
    for sig, (k, f) in sorted(listed.items()):
        print(f"KNOWN-FINDING: property={pid} {k['what']} [signature {sig}]")
    rc = 0
    outdir = VERIF / "out"
    if unlisted:
        path = outdir / f"{pid}.violation.json"
        # group by signature, keep the first of each
        seen, items = set(), []
        for f in unlisted:
            if f["sig"] not in seen:
                seen.add(f["sig"])
                items.append(f)
        dump(dict(property=pid, seed=ctx.seed, tier=ctx.tier, failures=items,
                  proof_broken=proof_broken, disagreements=ctx.disagreements[:5]), path)
        for f in items[:8]:
            print(f"  failing input [{f['sig']}]: {f['what']}")
        print(f"VIOLATION property={pid} replay={path}")
        rc = 1
    elif proof_broken or ctx.disagreements:
        path = outdir / f"{pid}.violation.json"
        dump(dict(property=pid, seed=ctx.seed, tier=ctx.tier, failures=[],
                  no_longer_checks=proof_broken + [f"correspondence {d['pair']}" for d in ctx.disagreements[:10]],
                  disagreements=ctx.disagreements[:10]), path)
        for p in proof_broken[:5]:
            print("  proof obligation no longer checks:", p[:300])
        for d in ctx.disagreements[:5]:
            print(f"  correspondence {d['pair']} disagrees on {json.dumps(d['case'], default=_jsonable)[:300]}")
        print(f"VIOLATION property={pid} replay={path} no-failing-input-found")
        rc = 1

    # evidence
    n_thm, n_dep = len(audit["theorems"]), len(audit["deps"])
    obligations = n_thm + n_dep
    discharged = 0 if proof_broken else obligations
    ev = dict(
        property_id=pid, tier=ctx.tier, seed=ctx.seed, level="proof",
        coverage=dict(
            obligations=max(obligations, 1), discharged=discharged,
            checker_cmd="cd lean && lake build && lake env lean SFV/Audit/%s.lean%s" % (
                pid, " && lake env leanchecker SFV.Props.%s" % pid if ctx.tier == "thorough" else ""),
            trusted_base=TRUSTED_BASE + list(getattr(mod, "TRUSTED", [])),
            theorems=sorted(audit["theorems"]), lemma_count=n_dep,
            evaluations=max(ctx.evaluations, 1), distinct_nontrivial=len(ctx.distinct),
            rule=getattr(mod, "RULE", ""), samples=ctx.samples or [{"kind": "none"}],
            traces_validated_against_impl=ctx.corr_cases, oracle_cases=ctx.oracle_cases,
            input_distribution=dict(sorted(ctx.dist.items())),
            correspondence_disagreements=len(ctx.disagreements),
            known_findings_seen=sorted(listed), notes=ctx.notes + ([checker_note] if checker_note else []),
            lean_build_s=round(build_s, 1), **ctx.extra),
        assumptions=list(getattr(mod, "ASSUMPTIONS", [])),
        wall_s=round(ctx.elapsed(), 2), violations=len(unlisted) + (1 if rc and not unlisted else 0))
    dump(ev, VERIF / "evidence" / f"{pid}.json")
    print(f"{pid}: tier={ctx.tier} seed={ctx.seed} theorems={n_thm}+{n_dep} evaluations={ctx.evaluations} "
          f"distinct={len(ctx.distinct)} corr={ctx.corr_cases} oracle={ctx.oracle_cases} "
          f"disagreements={len(ctx.disagreements)} failures={len(ctx.failures)} known={len(listed)} "
          f"wall={ctx.elapsed():.1f}s rc={rc}")
    return rc
