"""Independent numerics for C20 (trainable GBS, chemistry helpers): own loop hafnian-free GBS probabilities
(perfect-matching recursion), own moments of the pure GBS state of a real symmetric matrix, own graph-state
construction with loss, closed-form / phase-space references for the Doktorov transformation and the time
evolution.  Nothing here calls the strawberryfields functions under test."""
import itertools
import math
from fractions import Fraction

import numpy as np

C_LIGHT = 299792458.0          # m / s (exact SI)
H_PLANCK = 6.62607015e-34      # J s (exact SI)
K_BOLTZ = 1.380649e-23         # J / K (exact SI)
M_U = 1.66053906660e-27        # kg (CODATA 2018, the value scipy.constants carries)


def fr(x):
    f = Fraction(float(x))
    return [f.numerator, f.denominator]


def unfr(v):
    return float(Fraction(v[0], v[1]))


def frvec(v):
    return [fr(x) for x in v]


def frmat(a):
    return [[fr(x) for x in row] for row in np.asarray(a)]


def unmat(m):
    return np.array([[unfr(x) for x in row] for row in m], dtype=float)


def close(a, b, tol, scale=None):
    a, b = np.asarray(a, dtype=complex), np.asarray(b, dtype=complex)
    if a.shape != b.shape:
        return False
    if a.size == 0:
        return True
    if not (np.all(np.isfinite(a)) and np.all(np.isfinite(b))):
        return False
    s = max(1.0, float(np.max(np.abs(b)))) if scale is None else scale
    return float(np.max(np.abs(a - b))) <= tol * s


# ---------------------------------------------------------------- GBS of a real symmetric matrix, pure state

def haf(M):
    """hafnian by recursion over perfect matchings (even size <= 10)"""
    n = len(M)
    if n == 0:
        return 1.0
    if n % 2:
        return 0.0
    tot = 0.0
    rest = list(range(1, n))
    for j in rest:
        if M[0][j] == 0:
            continue
        keep = [k for k in rest if k != j]
        sub = [[M[a][b] for b in keep] for a in keep]
        tot += M[0][j] * haf(sub)
    return tot


def gbs_prob(A, pattern):
    """P(n) = Haf(A_n)^2 / (prod n_k!) * sqrt(det(1 - A^2)) for real symmetric A with singular values < 1"""
    A = np.asarray(A, dtype=float)
    idx = [k for k, c in enumerate(pattern) for _ in range(int(c))]
    if len(idx) % 2:
        return 0.0
    sub = [[A[a, b] for b in idx] for a in idx]
    norm = math.sqrt(max(np.linalg.det(np.eye(len(A)) - A @ A), 0.0))
    return haf(sub) ** 2 / math.prod(math.factorial(int(c)) for c in pattern) * norm


def gbs_moments(A):
    """N = <a^dag a> = A^2 (1 - A^2)^-1,  M = <a a> = A (1 - A^2)^-1   (real symmetric A)"""
    A = np.asarray(A, dtype=float)
    Y = np.linalg.inv(np.eye(len(A)) - A @ A)
    return A @ A @ Y, A @ Y


def mean_photons(A):
    return np.diag(gbs_moments(A)[0]).copy()


def mean_clicks(A):
    N, M = gbs_moments(A)
    n, m = np.diag(N), np.diag(M)
    return 1.0 - 1.0 / np.sqrt((1.0 + n) ** 2 - m ** 2)


def cov_xxpp(A, loss=0.0, hbar=2.0):
    """covariance (xxpp) of the pure GBS state of real symmetric A, then uniform loss"""
    N, M = gbs_moments(A)
    n = len(A)
    xx = np.eye(n) + 2 * N + 2 * M
    pp = np.eye(n) + 2 * N - 2 * M
    V = np.block([[xx, np.zeros((n, n))], [np.zeros((n, n)), pp]])
    T = 1.0 - loss
    V = T * V + (1 - T) * np.eye(2 * n)
    return V * hbar / 2


def scale_to_mean(A, n_mean):
    """x > 0 with total mean photon number of x*A equal to n_mean (bisection)"""
    A = np.asarray(A, dtype=float)
    smax = np.linalg.svd(A, compute_uv=False).max()
    if smax == 0 or n_mean <= 0:
        return 0.0
    lo, hi = 0.0, (1.0 - 1e-13) / smax
    for _ in range(200):
        mid = (lo + hi) / 2
        if mean_photons(mid * A).sum() < n_mean:
            lo = mid
        else:
            hi = mid
    return (lo + hi) / 2


def patterns_upto(m, tot):
    for s in itertools.product(range(tot + 1), repeat=m):
        if sum(s) <= tot:
            yield s


def patterns_exact(m, tot, cap=None):
    cap = tot if cap is None else cap
    for s in itertools.product(range(min(tot, cap) + 1), repeat=m):
        if sum(s) == tot:
            yield s


# ---------------------------------------------------------------- chemistry references

def theta_ref(w, t):
    """rotation angles of exp(-i H t / hbar), H = sum hbar omega_i n_i, omega_i = 2 pi c w_i (w in cm^-1, t in fs)"""
    return -2.0 * math.pi * C_LIGHT * (np.asarray(w, dtype=float) * 100.0) * (t * 1e-15)


def boltzmann_factor(w, T):
    """exp(-h c w / (k T)) for w in cm^-1"""
    return np.exp(-H_PLANCK * C_LIGHT * (np.asarray(w, dtype=float) * 100.0) / (K_BOLTZ * T))


def duschinsky_J(w, wp, Ud):
    return np.diag(np.sqrt(wp)) @ np.asarray(Ud, dtype=float) @ np.diag(1.0 / np.sqrt(w))


def doktorov_state(J, delta, hbar=2.0):
    """the initial vibrational ground state written in the dimensionless coordinates of the final state,
    Q' = J Q + delta:  <Q'> = delta, Cov(Q') = J J^T / 2, Cov(P') = (J J^T)^-1 / 2; x = sqrt(hbar) Q."""
    n = len(J)
    G = J @ J.T
    V = np.block([[G, np.zeros((n, n))], [np.zeros((n, n)), np.linalg.inv(G)]]) * hbar / 2
    mu = np.concatenate([math.sqrt(hbar) * np.asarray(delta, dtype=float), np.zeros(n)])
    return mu, V


def fcf00_textbook(om, omp, d):
    """|<0'|0>|^2 of two displaced one-dimensional harmonic oscillators (hbar = 1, mass-weighted q' = q + d)"""
    return 2 * math.sqrt(om * omp) / (om + omp) * math.exp(-om * omp * d * d / (om + omp))


def vacuum_overlap(mu, V, hbar=2.0):
    """<0| rho |0> of a Gaussian state (mu, V)"""
    n = len(mu) // 2
    V2, mu2 = V * 2 / hbar, mu * math.sqrt(2 / hbar)
    S = V2 + np.eye(2 * n)
    return 2 ** n / math.sqrt(np.linalg.det(S)) * math.exp(-0.5 * mu2 @ np.linalg.solve(S, mu2))


def duschinsky_ref(Li, Lf, ri, rf, wf, m):
    """U = Lf^T Li, delta_k = sqrt(2 pi c w_k / hbar) * [Lf^T sqrt(m) (ri - rf)]_k with SI conversions
    (coordinates in Angstrom, masses in unified atomic mass units, w in cm^-1)"""
    U = Lf.T @ Li
    d = Lf.T @ (np.sqrt(m) * (ri - rf))                       # sqrt(amu) * Angstrom
    hbar_si = H_PLANCK / (2 * math.pi)
    linv = np.sqrt(2 * math.pi * C_LIGHT * (wf * 100.0) / hbar_si)       # 1 / (sqrt(kg) m)
    return U, d * linv * math.sqrt(M_U) * 1e-10


def rand_orthogonal(nprng, n):
    q, r = np.linalg.qr(nprng.normal(size=(n, n)))
    return q * np.sign(np.diag(r))
