"""Program specs: JSON-serialisable descriptions of SF programs, a builder that turns a spec into a
real `sf.Program`, and generators.  A spec is
    {"n": <modes>, "ops": [{"cls": str, "regs": [int], "pars": [par], "dagger": bool,
                            "select": ..., "kw": {...}}]}
where a `par` is a number, {"m": mode, "k": scale} (k * q[mode].par) or {"f": name, "k": scale}.
The spec is the ground truth for wires/dependencies (independent of `Command.get_dependencies`)."""
import numpy as np

# class name -> (number of modes, number of numeric parameters, category)
ONE_GATES = {"Rgate": 1, "Sgate": 2, "Dgate": 2, "Xgate": 1, "Zgate": 1, "Pgate": 1, "Vgate": 1, "Kgate": 1,
             "Fouriergate": 0}
TWO_GATES = {"BSgate": 2, "S2gate": 2, "CXgate": 1, "CZgate": 1, "CKgate": 1, "MZgate": 2}
CHANNELS = {"LossChannel": 1, "ThermalLossChannel": 2}
PREPS = {"Vacuum": 0, "Coherent": 2, "Squeezed": 2, "DisplacedSqueezed": 4, "Thermal": 1, "Fock": 1}
MEAS1 = {"MeasureHomodyne": 1, "MeasureHeterodyne": 0}
MEASN = {"MeasureFock": 0, "MeasureThreshold": 0}
GAUSSIAN_GATES1 = ["Rgate", "Sgate", "Dgate", "Xgate", "Zgate", "Pgate", "Fouriergate"]
GAUSSIAN_GATES2 = ["BSgate", "S2gate", "CXgate", "CZgate", "MZgate"]


def category(cls):
    if cls in ONE_GATES or cls in TWO_GATES:
        return "gate"
    if cls in CHANNELS:
        return "channel"
    if cls in PREPS:
        return "prep"
    if cls in MEAS1 or cls in MEASN:
        return "meas"
    return "other"


def op_deps(op):
    """measurement dependencies of a spec op, from the spec itself"""
    return sorted({p["m"] for p in op.get("pars", []) if isinstance(p, dict) and "m" in p})


def op_wires(op):
    return list(op["regs"]) + [d for d in op_deps(op)]


def to_cmds(spec, marked=None):
    """spec -> list of model Cmd dicts (id = position)"""
    out = []
    for i, op in enumerate(spec["ops"]):
        out.append(dict(id=i, cls=op["cls"], regs=list(op["regs"]), deps=op_deps(op),
                        marked=bool(marked(op)) if marked else False))
    return out


def _par(p, q, free):
    import strawberryfields as sf  # noqa: F401
    if isinstance(p, dict):
        k = p.get("k", 1)
        if "m" in p:
            v = q[p["m"]].par
        else:
            v = free[p["f"]]
        return v if k == 1 else k * v
    return p


def build(spec, name="p", op_cache=None):
    """returns (prog, cmds) where cmds[i] is the Command created for spec op i.
    `op_cache` (a dict) makes equal operations share ONE Operation instance, within a program and across all
    programs built with the same cache (a common way to write circuit families: `bs = BSgate(..)` created once)."""
    import strawberryfields as sf
    from strawberryfields import ops
    prog = sf.Program(spec["n"], name=name)
    free = {}
    for op in spec["ops"]:
        for p in op.get("pars", []):
            if isinstance(p, dict) and "f" in p and p["f"] not in free:
                free[p["f"]] = prog.params(p["f"])
    with prog.context as q:
        q = list(q)
        for op in spec["ops"]:
            if op["cls"] == "Del":          # mode deletion: `Del | q[i]`
                regs = [q[i] for i in op["regs"]]
                ops.Del | (regs if len(regs) > 1 else regs[0])
                continue
            if op["cls"] == "New":          # mode creation: regs are the indices the new modes receive
                new = ops.New(len(op["regs"]))
                q += list(new)
                continue
            cls = getattr(ops, op["cls"])
            pars = [_par(p, q, free) for p in op.get("pars", [])]
            # array-valued parameters: {"re": nested list, "im": nested list (optional)} — placed before `pars`
            arrs = []
            for a in op.get("apars", []):
                arr = np.array(a["re"], dtype=float)
                if a.get("im") is not None:
                    arr = arr + 1j * np.array(a["im"], dtype=float)
                arrs.append(arr)
            pars = arrs + pars
            kw = dict(op.get("kw", {}))
            if op.get("select") is not None:
                kw["select"] = op["select"]
            key = None
            if op_cache is not None and not any(isinstance(p, dict) for p in op.get("pars", [])) and not op.get("apars"):
                key = repr((op["cls"], op.get("pars"), sorted(kw.items(), key=str), bool(op.get("dagger"))))
            if key is not None and key in op_cache:
                o = op_cache[key]
            else:
                o = cls(*pars, **kw)
                if op.get("dagger"):
                    o = o.H
                if key is not None:
                    op_cache[key] = o
            regs = [q[i] for i in op["regs"]]
            o | (regs if len(regs) > 1 else regs[0])
    return prog, list(prog.circuit)


# ---------------------------------------------------------------- generators

def dyadic(rng, lo=-8, hi=8, den=8, nonzero=False):
    """a dyadic rational (exact in float64)"""
    while True:
        v = rng.randint(lo, hi) / den
        if v != 0 or not nonzero:
            return v


def rand_pars(rng, cls, n, measured_modes=(), p_meas=0.0, exact=True):
    pars = []
    for j in range(n):
        if cls in ("LossChannel",) or (cls == "ThermalLossChannel" and j == 0):
            v = rng.choice([0.25, 0.5, 0.75, 1.0, 0.125])
        elif cls == "ThermalLossChannel":
            v = rng.choice([0.5, 1.0, 0.25])
        elif cls == "Thermal":
            v = rng.choice([0.0, 0.5, 1.0])
        elif cls == "Fock":
            v = rng.randint(0, 2)
        elif cls in ("Coherent", "DisplacedSqueezed", "Squeezed") and j in (0, 2):
            v = abs(dyadic(rng, -4, 4))
        else:
            v = dyadic(rng, -6, 6)
        if measured_modes and j == 0 and rng.random() < p_meas and cls not in PREPS and cls not in CHANNELS \
                and cls != "Fouriergate":
            v = {"m": rng.choice(list(measured_modes)), "k": rng.choice([1, 1, 2, 0.5, -1])}
        pars.append(v)
    return pars


def rand_circuit(rng, n, length, p_meas=0.3, allow=("gate1", "gate2", "channel", "prep", "meas"),
                 fock_meas=True, classes=None):
    """random circuit spec over n modes.  Measured-parameter dependencies may refer to any mode that
    has been measured earlier in the list (so the program is runnable)."""
    ops = []
    measured = []
    for _ in range(length):
        kinds = [k for k in allow if not (k == "gate2" and n < 2)]
        kind = rng.choice(kinds)
        if kind == "gate1":
            cls = rng.choice(classes["gate1"] if classes else list(ONE_GATES))
            regs = [rng.randrange(n)]
            npar = ONE_GATES[cls]
        elif kind == "gate2":
            cls = rng.choice(classes["gate2"] if classes else list(TWO_GATES))
            regs = rng.sample(range(n), 2)
            npar = TWO_GATES[cls]
        elif kind == "channel":
            cls = rng.choice(list(CHANNELS))
            regs = [rng.randrange(n)]
            npar = CHANNELS[cls]
        elif kind == "prep":
            cls = rng.choice(classes["prep"] if classes else list(PREPS))
            regs = [rng.randrange(n)]
            npar = PREPS[cls]
        else:
            if fock_meas and rng.random() < 0.5:
                cls = rng.choice(["MeasureFock", "MeasureFock", "MeasureThreshold"])
                k = rng.randint(1, min(n, 3))
                regs = rng.sample(range(n), k)
                npar = 0
            else:
                cls = rng.choice(list(MEAS1))
                regs = [rng.randrange(n)]
                npar = MEAS1[cls]
        avail = [m for m in measured if m not in regs]
        op = dict(cls=cls, regs=regs, pars=rand_pars(rng, cls, npar, avail, p_meas))
        if category(cls) == "gate" and rng.random() < 0.25:
            op["dagger"] = True
        if category(cls) == "meas":
            for r in regs:
                if r not in measured:
                    measured.append(r)
        ops.append(op)
    return dict(n=n, ops=ops)


def with_del_new(rng, spec, p_del=0.5, p_new=0.5, mix_new=0.5):
    """insert `Del` of a mode after its last use and / or `New` modes used afterwards into a circuit spec:
    the register then has holes and late modes, so subsystem index != position in the register.  A new mode is squeezed and
    (with probability `mix_new`) mixed with a surviving old mode on a beamsplitter, so that what the old modes carried when
    the register grew shows up in the final state."""
    ops_ = [dict(o) for o in spec["ops"]]
    n = spec["n"]
    t, ds = -1, []
    if rng.random() < p_del and n >= 2:
        # one Del command naming one mode, or several modes in arbitrary (also ascending) order
        ds = rng.sample(range(n), 2 if (n >= 3 and rng.random() < 0.4) else 1)
        last = -1
        for i, o in enumerate(ops_):
            if set(ds) & set(op_wires(o)):
                last = i
        t = rng.randint(last + 1, len(ops_))
        ops_.insert(t, dict(cls="Del", regs=ds, pars=[]))
    if rng.random() < p_new:
        t2 = rng.randint(t + 1, len(ops_))
        k = rng.randint(1, 2)
        new = list(range(n, n + k))
        ops_.insert(t2, dict(cls="New", regs=new, pars=[]))
        measured_later = set()
        for o in ops_[t2 + 1:]:
            if category(o["cls"]) == "meas":
                measured_later |= set(o["regs"])
        old = [m for m in range(n) if m not in ds and m not in measured_later]
        for m in new:
            if rng.random() < 0.7:
                ops_.insert(rng.randint(t2 + 1, len(ops_)), dict(cls="Sgate", regs=[m], pars=[0.25, 0.0]))
            if old and rng.random() < mix_new:
                ops_.append(dict(cls="BSgate", regs=rng.sample([m, rng.choice(old)], 2), pars=[0.5, 0.25]))
            if rng.random() < 0.6:
                ops_.append(dict(cls="MeasureFock", regs=[m], pars=[]))
    return dict(n=n, ops=ops_)
