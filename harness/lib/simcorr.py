"""Correspondence of the Lean models K3 (`SFV.Model.GaussNM`) and K4 (`SFV.Model.FockTensor`) with the real
`GaussianModes` / Fock `Circuit` code.  K4 is driven with small Gaussian-integer tensors so that NumPy is exact and
results are compared exactly; K3 is driven with rational points on the circle / hyperbola so that the model is
exact in `Rat` and float64 is compared at 1e-9 * scale."""
import itertools
import math
from fractions import Fraction

import numpy as np


# ---------------------------------------------------------------- K4: Fock tensors

def gi(z):
    return [int(round(z.real)), int(round(z.imag))]


def flat(t):
    return [gi(z) for z in np.asarray(t).ravel()]


def rand_int_tensor(nprng, shape, lo=-3, hi=3, density=1.0):
    re = nprng.integers(lo, hi + 1, size=shape)
    im = nprng.integers(lo, hi + 1, size=shape)
    t = re + 1j * im
    if density < 1.0:
        t = t * (nprng.random(size=shape) < density)
    return t.astype(np.complex128)


def selection_mat(nprng, D, rule):
    """integer 4-index matrix obeying a selection rule ('passive': i+j = k+l, 's2': i - j = k - l in SF index order
    mat[i,k,j,l] resp. mat[i,j,k,l])"""
    m = rand_int_tensor(nprng, (D, D, D, D), -2, 2)
    for a, b, c, d in itertools.product(range(D), repeat=4):
        if rule == "passive" and a + c != b + d:     # mat[i,k,j,l]: out1=a,in1=b,out2=c,in2=d
            m[a, b, c, d] = 0
        if rule == "s2" and a + d != b + c:          # mat[i,j,k,l] nonzero iff i + l = j + k
            m[a, b, c, d] = 0
    return m


def fock_cases(ctx, n_cases):
    """yield (request, thunk computing the real result) pairs"""
    from strawberryfields.backends.fockbackend.circuit import Circuit
    from strawberryfields.backends.fockbackend import ops as fops
    rng = ctx.rng
    nprng = ctx.nprng(7)
    out = []

    def circuit(n, D, pure, state):
        c = Circuit(n, D, pure=pure)
        c._state = np.array(state, dtype=np.complex128)
        c._pure = pure
        return c

    kinds = ["twoModePure", "twoModeMixed", "blasPure1", "blasPure2", "blasMixed1", "blasMixed2", "mix",
             "partialTrace", "projectResetPure", "projectResetMixed", "axisLists", "prepareAll", "prepareSome",
             "dealloc", "alloc", "channel1"]
    # all ordered target pairs are cycled through, sizes 2..4 (thorough: 5)
    pair_cycle = {n: itertools.cycle(list(itertools.permutations(range(n), 2))) for n in range(2, 7)}
    for it in range(n_cases):
        kind = kinds[it % len(kinds)]
        D = rng.choice([2, 2, 3])
        pure = kind in ("twoModePure", "blasPure1", "blasPure2", "mix", "projectResetPure")
        if kind == "prepareAll":
            pure = rng.random() < 0.5
        if kind == "prepareSome" or kind == "channel1":
            pure = False
        if kind in ("dealloc", "alloc"):
            pure = rng.random() < 0.5
        nmax = (4 if pure else 3) + (1 if ctx.tier == "thorough" and D == 2 else 0)
        n = rng.randint(2 if "2" in kind or "two" in kind else 1, nmax)
        rank = n if pure else 2 * n
        st = rand_int_tensor(nprng, (D,) * rank, density=rng.choice([1.0, 0.6]))
        req = dict(op="fock.apply", D=D, n=n, state=flat(st))
        if kind in ("twoModePure", "twoModeMixed"):
            m1, m2 = next(pair_cycle[n])
            gate = rng.choice(["BSgate", "MZgate", "S2gate"])
            on_rule = rng.random() < 0.5
            rule = "s2" if gate == "S2gate" else "passive"
            mat = selection_mat(nprng, D, rule) if on_rule else rand_int_tensor(nprng, (D,) * 4, -2, 2)
            req.update(kind=kind, modes=[m1, m2], mat=flat(mat), kernel=rule)

            def real(n=n, D=D, pure=pure, st=st, mat=mat, m1=m1, m2=m2, gate=gate):
                return flat(circuit(n, D, pure, st).apply_twomode_gate(mat, [m1, m2], gate=gate))
            case = dict(kind=kind, n=n, D=D, modes=[m1, m2], gate=gate, on_rule=on_rule)
            nontrivial = n >= 3 or (m1, m2) != (0, 1)
            if on_rule:   # additionally the specification: the embedded operator itself
                spec_req = dict(req, kind="spec2Pure" if pure else "spec2Mixed", kernel="full")
                out.append((spec_req, real, dict(case, against="embedded-operator"), nontrivial))
        elif kind in ("blasPure1", "blasMixed1"):
            m1 = rng.randrange(n)
            mat = rand_int_tensor(nprng, (D, D), -2, 2)
            if rng.random() < 0.3:
                mat = np.diag(np.diag(mat))          # the diagonal fast path
            req.update(kind="blasPure" if pure else "blasMixed", modes=[m1], mat=flat(mat))

            def real(n=n, D=D, pure=pure, st=st, mat=mat, m1=m1):
                return flat(circuit(n, D, pure, st).apply_gate_BLAS(mat, [m1]))
            case = dict(kind=kind, n=n, D=D, modes=[m1])
            nontrivial = n >= 2
        elif kind in ("blasPure2", "blasMixed2"):
            m1, m2 = next(pair_cycle[n])
            mat = rand_int_tensor(nprng, (D,) * 4, -2, 2)
            if rng.random() < 0.3:
                mat = np.diag(np.diag(mat.transpose(0, 2, 1, 3).reshape(D * D, D * D))).reshape((D,) * 4).transpose(0, 2, 1, 3)
            req.update(kind="blasPure" if pure else "blasMixed", modes=[m1, m2], mat=flat(mat))

            def real(n=n, D=D, pure=pure, st=st, mat=mat, m1=m1, m2=m2):
                return flat(circuit(n, D, pure, st).apply_gate_BLAS(mat, [m1, m2]))
            case = dict(kind=kind, n=n, D=D, modes=[m1, m2])
            nontrivial = n >= 3 or (m1, m2) != (0, 1)
        elif kind == "mix":
            req.update(kind="mix", modes=[], mat=[])

            def real(n=n, st=st):
                return flat(fops.mix(st, n))
            case = dict(kind=kind, n=n, D=D)
            nontrivial = n >= 2
        elif kind == "partialTrace":
            k = rng.randint(0, n)
            ms = rng.sample(range(n), k)
            req.update(kind="partialTrace", modes=ms, mat=[])

            def real(n=n, st=st, ms=ms):
                return flat(fops.partial_trace(st, n, ms))
            case = dict(kind=kind, n=n, D=D, modes=ms)
            nontrivial = 0 < k < n
        elif kind in ("projectResetPure", "projectResetMixed"):
            k = rng.randint(1, n)
            ms = rng.sample(range(n), k)
            xs = [rng.randrange(D) for _ in ms]
            req.update(kind=kind, modes=ms, xs=xs, mat=[])

            def real(n=n, D=D, pure=pure, st=st, ms=ms, xs=xs):
                return flat(fops.project_reset(ms, xs, st, pure, n, D))
            case = dict(kind=kind, n=n, D=D, modes=ms, xs=xs)
            nontrivial = n >= 2
        elif kind == "dealloc":        # Circuit.dealloc(modes): (mix,) partial trace; several modes in any order
            if pure:
                n = min(n, 3)
                st = rand_int_tensor(nprng, (D,) * n, density=rng.choice([1.0, 0.6]))
            k = rng.randint(1, n)
            ms = rng.sample(range(n), k)
            req = dict(op="fock.apply", kind="dealloc", D=D, n=n, modes=ms, state=flat(st), mat=[], pure=pure)

            def real(n=n, D=D, pure=pure, st=st, ms=ms):
                c = circuit(n, D, pure, st)
                c.dealloc(list(ms))
                return flat(c._state)
            case = dict(kind=kind, n=n, D=D, modes=ms, pure=pure)
            nontrivial = n >= 3 and k >= 1
        elif kind == "alloc":          # Circuit.alloc(k): vacuum modes appended
            n = min(n, 3 if pure else 2)
            st = rand_int_tensor(nprng, (D,) * (n if pure else 2 * n))
            k = rng.randint(1, 2)
            req = dict(op="fock.apply", kind="alloc", D=D, n=n, modes=list(range(k)), state=flat(st), mat=[], pure=pure)

            def real(n=n, D=D, pure=pure, st=st, k=k):
                c = circuit(n, D, pure, st)
                c.alloc(k)
                return flat(c._state)
            case = dict(kind=kind, n=n, D=D, k=k, pure=pure)
            nontrivial = True
        elif kind == "channel1":       # Circuit._apply_channel(kraus_ops, [m]) on a mixed state
            m1 = rng.randrange(n)
            nk = rng.randint(0, 3)
            ks = [rand_int_tensor(nprng, (D, D), -2, 2) for _ in range(nk)]
            req = dict(op="fock.apply", kind="channel1", D=D, n=n, modes=[m1], state=flat(st),
                       mat=[z for kk in ks for z in flat(kk)])

            def real(n=n, D=D, st=st, ks=ks, m1=m1):
                c = circuit(n, D, False, st)
                c._apply_channel([np.array(kk) for kk in ks], [m1])
                return flat(c._state)
            case = dict(kind=kind, n=n, D=D, modes=[m1], kraus=nk)
            nontrivial = n >= 2 and nk >= 2
        elif kind == "prepareAll":     # Circuit.prepare_multimode on the whole register, modes in any order
            ms = rng.sample(range(n), n)
            req.update(kind="prepareAll", modes=ms, mat=[], pure=pure)

            def real(n=n, D=D, pure=pure, st=st, ms=ms):
                c = circuit(n, D, pure, np.zeros((D,) * (n if pure else 2 * n)))
                c.prepare_multimode(np.array(st), list(ms))
                return flat(c._state)
            case = dict(kind=kind, n=n, D=D, modes=ms, pure=pure)
            nontrivial = ms != list(range(n))
        elif kind == "prepareSome":    # … on a proper subset: partial trace, tensor product, argsort transposition
            n = max(n, 2)
            rank = 2 * n
            st = rand_int_tensor(nprng, (D,) * rank, density=rng.choice([1.0, 0.6]))
            k = rng.randint(1, n - 1)
            ms = rng.sample(range(n), k)
            sig = rand_int_tensor(nprng, (D,) * (2 * k), -2, 2)
            req = dict(op="fock.apply", kind="prepareSome", D=D, n=n, modes=ms, state=flat(st), mat=flat(sig))

            def real(n=n, D=D, st=st, ms=ms, sig=sig):
                c = circuit(n, D, False, st)
                c.prepare_multimode(np.array(sig), list(ms))
                return flat(c._state)
            case = dict(kind=kind, n=n, D=D, modes=ms)
            nontrivial = ms != list(range(n - k, n))
        else:  # axisLists: the model's transposition lists must be permutations for every mode choice
            k = rng.randint(1, min(2, n))
            ms = rng.sample(range(n), k)
            req = dict(op="fock.apply", kind="axisLists", D=D, n=n, modes=ms, state=[], mat=[])

            def real(n=n, ms=ms):
                tl = [i for i in range(n) if i not in ms] + ms
                tlm = [i for i in range(n * 2) if i // 2 not in ms] + [2 * i for i in ms] + [2 * i + 1 for i in ms]
                return dict(pure=tl, mixed=tlm, purePerm=True, mixedPerm=True)
            case = dict(kind=kind, n=n, modes=ms)
            nontrivial = n >= 2
        out.append((req, real, case, nontrivial))
    return out


def run_fock_corr(ctx, n_cases):
    if not ctx.proof_ok:
        return
    cases = fock_cases(ctx, n_cases)
    answers = ctx.lean([c[0] for c in cases])
    for (req, real, case, nontrivial), model in zip(cases, answers):
        impl = real()
        ctx.corr_cases += 1
        ctx.count("fock-corr:" + case["kind"] + (":spec" if case.get("against") else ""), case, nontrivial,
                  sample=case)
        if model != impl:
            ctx.disagree("FockTensor.%s vs fockbackend" % case["kind"], case,
                         str(model)[:300], str(impl)[:300])


# ---------------------------------------------------------------- K3: GaussianModes

def fr(x):
    f = Fraction(x)
    return [f.numerator, f.denominator]


def circle_point(rng):
    """rational point on the unit circle (c, s) incl. the axis points"""
    t = rng.choice([Fraction(0), Fraction(1), Fraction(-1), Fraction(1, 2), Fraction(-1, 3), Fraction(2), Fraction(3, 4),
                    Fraction(-5, 2), None])
    if t is None:
        return Fraction(-1), Fraction(0)                       # angle pi
    return (1 - t * t) / (1 + t * t), 2 * t / (1 + t * t)


def hyper_point(rng):
    u = rng.choice([Fraction(1), Fraction(3, 2), Fraction(2, 3), Fraction(5, 4), Fraction(4, 5), Fraction(2)])
    return (u + 1 / u) / 2, (u - 1 / u) / 2, math.log(u)       # ch, sh, r


def rand_nm_state(rng, n):
    """rational (N, M, mean) with N Hermitian (real diagonal) and M symmetric"""
    q = lambda: Fraction(rng.randint(-6, 6), rng.choice([1, 2, 4]))
    N = [[None] * n for _ in range(n)]
    M = [[None] * n for _ in range(n)]
    for i in range(n):
        for j in range(i, n):
            if i == j:
                N[i][i] = (abs(q()), Fraction(0))
                M[i][i] = (q(), q())
            else:
                a, b = q(), q()
                N[i][j], N[j][i] = (a, b), (a, -b)
                M[i][j] = M[j][i] = (q(), q())
    mean = [(q(), q()) for _ in range(n)]
    return N, M, mean


def gauss_cases(ctx, n_cases):
    from strawberryfields.backends.gaussianbackend.gaussiancircuit import GaussianModes
    rng = ctx.rng
    out = []
    for it in range(n_cases):
        n = rng.randint(1, 5 if ctx.tier == "quick" else 7)
        N, M, mean = rand_nm_state(rng, n)
        from strawberryfields.backends.gaussianbackend.backend import GaussianBackend
        be = GaussianBackend()
        be.begin_circuit(n)
        g = be.circuit
        spec_ok = True
        g.nmat = np.array([[complex(float(a), float(b)) for a, b in row] for row in N], dtype=complex).reshape(n, n)
        g.mmat = np.array([[complex(float(a), float(b)) for a, b in row] for row in M], dtype=complex).reshape(n, n)
        g.mean = np.array([complex(float(a), float(b)) for a, b in mean], dtype=complex)
        ops, names = [], []
        n0 = n
        dead = set()
        for _ in range(rng.randint(1, 6)):
            kinds = ["squeeze", "phase", "displace", "loss", "thermalLoss", "initThermal", "fromCov", "applyU", "bkprep"] + \
                (["bs", "bs"] if n - len(dead) >= 2 else []) + (["addMode"] if n <= 6 else []) + \
                (["delMode"] if n - len(dead) >= 2 else [])
            kind = rng.choice(kinds)
            alive = [m for m in range(n) if m not in dead]
            k = rng.choice(alive)
            names.append(kind)
            if kind == "addMode":       # register grows (`New`): old modes keep everything, new ones are vacua
                m_new = rng.randint(1, 2)
                ops.append(dict(op="addMode", m=m_new, k=k))
                be.add_mode(m_new)
                n += m_new
            elif kind == "delMode":     # register shrinks (`Del`): the mode is traced out and marked inactive, indices stay
                ops.append(dict(op="loss", q=fr(Fraction(0)), k=k))
                be.del_mode([k])
                dead.add(k)
            elif kind == "squeeze":
                c, s = circle_point(rng)
                ch, sh, r = hyper_point(rng)
                ops.append(dict(op="squeeze", c=fr(c), s=fr(s), ch=fr(ch), sh=fr(sh), k=k))
                g.squeeze(r, math.atan2(s, c), k)
            elif kind == "phase":
                c, s = circle_point(rng)
                ops.append(dict(op="phase", c=fr(c), s=fr(s), k=k))
                g.phase_shift(math.atan2(s, c), k)
            elif kind == "bs":
                l = rng.choice([m for m in alive if m != k])
                c, s = circle_point(rng)
                ct, sn = circle_point(rng)
                if rng.random() < 0.5:      # through the back-end API (sign convention of backend.py)
                    ops.append(dict(op="bkbs", c=fr(c), s=fr(s), ct=fr(ct), sn=fr(sn), k=k, l=l))
                    be.beamsplitter(math.atan2(sn, ct), math.atan2(s, c), k, l)
                else:
                    ops.append(dict(op="bs", c=fr(c), s=fr(s), ct=fr(ct), sn=fr(sn), k=k, l=l))
                    g.beamsplitter(math.atan2(sn, ct), math.atan2(s, c), k, l)
            elif kind == "displace":
                c, s = circle_point(rng)
                rr = Fraction(rng.randint(0, 6), 4)
                ops.append(dict(op="displace", re=fr(rr * c), im=fr(rr * s), k=k))
                g.displace(float(rr), math.atan2(s, c), k)
            elif kind == "loss":
                q = rng.choice([Fraction(0), Fraction(1, 2), Fraction(3, 4), Fraction(1)])
                ops.append(dict(op="loss", q=fr(q), k=k))
                g.loss(float(q * q), k)
            elif kind == "thermalLoss":
                q = rng.choice([Fraction(0), Fraction(1, 2), Fraction(3, 4), Fraction(1)])
                nbar = rng.choice([Fraction(0), Fraction(1, 2), Fraction(2)])
                ops.append(dict(op="thermalLoss", q=fr(q), add=fr((1 - q * q) * nbar), k=k))
                g.thermal_loss(float(q * q), float(nbar), k)
            elif kind == "bkprep":       # back-end preparations: reset + gate(s)
                c, s = circle_point(rng)
                ch, sh, r = hyper_point(rng)
                c2, s2 = circle_point(rng)
                rr = Fraction(rng.randint(0, 6), 4)
                which = rng.choice(["bkcoh", "bksq", "bkdsq"])
                if which == "bkcoh":
                    ops.append(dict(op="bkcoh", re=fr(rr * c2), im=fr(rr * s2), k=k))
                    be.prepare_coherent_state(float(rr), math.atan2(s2, c2), k)
                elif which == "bksq":
                    ops.append(dict(op="bksq", c=fr(c), s=fr(s), ch=fr(ch), sh=fr(sh), k=k))
                    be.prepare_squeezed_state(r, math.atan2(s, c), k)
                else:
                    ops.append(dict(op="bkdsq", re=fr(rr * c2), im=fr(rr * s2), c=fr(c), s=fr(s), ch=fr(ch), sh=fr(sh), k=k))
                    be.prepare_displaced_squeezed_state(float(rr), math.atan2(s2, c2), r, math.atan2(s, c), k)
                spec_ok = False
            elif kind == "fromCov":      # GaussianBackend.prepare_gaussian_state(r, V, modes): mode list in any order
                kk = rng.randint(1, min(3, len(alive)))
                modes = rng.sample(alive, kk)
                qq = lambda: Fraction(rng.randint(-6, 6), rng.choice([1, 2, 4]))
                S1 = [[qq() for _ in range(kk)] for _ in range(kk)]
                S2 = [[qq() for _ in range(kk)] for _ in range(kk)]
                A = [[S1[i][j] + S1[j][i] for j in range(kk)] for i in range(kk)]
                C = [[S2[i][j] + S2[j][i] for j in range(kk)] for i in range(kk)]
                B = [[qq() for _ in range(kk)] for _ in range(kk)]
                rx = [qq() for _ in range(kk)]
                rp = [qq() for _ in range(kk)]
                ops.append(dict(op="fromCov", modes=modes, A=[[fr(x) for x in r] for r in A], B=[[fr(x) for x in r] for r in B],
                                C=[[fr(x) for x in r] for r in C], rx=[fr(x) for x in rx], rp=[fr(x) for x in rp], k=modes[0]))
                f = lambda M: np.array([[float(x) for x in r] for r in M])
                V = np.block([[f(A), f(B)], [f(B).T, f(C)]])
                be.prepare_gaussian_state(np.array([float(x) for x in rx + rp]), V, modes)
                spec_ok = False
            elif kind == "applyU":       # GaussianBackend.passive(T, modes): T_expand[ix_(modes, modes)] = T, then apply_u
                kk = rng.randint(1, min(3, len(alive)))
                modes = rng.sample(alive, kk)
                qq = lambda: Fraction(rng.randint(-4, 4), rng.choice([1, 2]))
                T = [[(qq(), qq()) for _ in range(kk)] for _ in range(kk)]
                ops.append(dict(op="applyU", modes=modes, T=[[[fr(a), fr(b)] for a, b in r] for r in T], k=modes[0]))
                be.passive(np.array([[complex(float(a), float(b)) for a, b in r] for r in T]), modes)
                spec_ok = False
            else:
                pop = rng.choice([Fraction(0), Fraction(1, 4), Fraction(3)])
                ops.append(dict(op="initThermal", pop=fr(pop), k=k))
                g.init_thermal(float(pop), k)
        req = {"op": "gauss.run", "n": n0, "spec": spec_ok,
               "N": [[[fr(a), fr(b)] for a, b in row] for row in N],
               "M": [[[fr(a), fr(b)] for a, b in row] for row in M],
               "mean": [[fr(a), fr(b)] for a, b in mean], "ops": ops}
        case = dict(n=n, n0=n0, ops=[dict(o, **{}) for o in ops])
        out.append((req, be.circuit, case, names))
    return out


def _cx(v):
    return complex(v[0][0] / v[0][1], v[1][0] / v[1][1])


def run_gauss_corr(ctx, n_cases):
    if not ctx.proof_ok:
        return
    cases = gauss_cases(ctx, n_cases)
    answers = ctx.lean([c[0] for c in cases])
    for (req, g, case, names), model in zip(cases, answers):
        ctx.corr_cases += 1
        nontrivial = case["n"] >= 2 and any(o["k"] != 0 for o in case["ops"])
        ctx.count("gauss-corr:" + "+".join(sorted(set(names))), case, nontrivial, sample=case)
        if "__error__" in model:
            ctx.disagree("GaussNM driver error", case, model, None)
            continue
        n = case["n"]
        mN = np.array([[_cx(z) for z in row] for row in model["N"]]).reshape(n, n)
        mM = np.array([[_cx(z) for z in row] for row in model["M"]]).reshape(n, n)
        mmean = np.array([_cx(z) for z in model["mean"]])
        scale = max(1.0, float(np.max(np.abs(mN))), float(np.max(np.abs(mM))), float(np.max(np.abs(mmean), initial=0)))
        d = max(np.max(np.abs(mN - g.nmat)), np.max(np.abs(mM - g.mmat)), np.max(np.abs(mmean - g.mean)))
        if d > 1e-9 * scale:
            ctx.disagree("GaussNM ops vs GaussianModes", case, dict(N=str(mN), M=str(mM), mean=str(mmean)),
                         dict(N=str(g.nmat), M=str(g.mmat), mean=str(g.mean), dist=float(d)))
            continue
        # the model's quadrature picture vs scovmatxp/smeanxp of the real object
        rat = lambda v: v[0] / v[1]
        V = g.scovmatxp()
        mu = g.smeanxp()
        xx = np.array([[rat(z) for z in row] for row in model["xx"]]).reshape(n, n)
        xp = np.array([[rat(z) for z in row] for row in model["xp"]]).reshape(n, n)
        pp = np.array([[rat(z) for z in row] for row in model["pp"]]).reshape(n, n)
        Vm = np.block([[xx, xp], [xp.T, pp]])
        mum = np.array([rat(z) for z in model["mx"]] + [rat(z) for z in model["mp"]])
        d2 = max(np.max(np.abs(V - Vm)), np.max(np.abs(mu - mum)))
        if d2 > 1e-9 * max(1.0, float(np.max(np.abs(Vm)))):
            ctx.disagree("GaussNM toXP vs scovmatxp/smeanxp", case, str(Vm), str(V))
        if "specAgrees" in model and model.get("specAgrees") is not True:
            # the proved refinement evaluated on this instance (a cross-check of the theorem's reading)
            ctx.disagree("GaussNM refinement instance (model internal)", case, model.get("specAgrees"), True)


# ---------------------------------------------------------------- K3 part 3: bosonic index algebra

def run_bos_corr(ctx, n_cases):
    """`BosonicModes.expandXY` + `apply_channel` (update_means / update_covs with the from_xp permutation) on rational
    data vs `SFV.Model.Bosonic`; thewalrus `symplectic.expand` is validated entrywise against the model's `expand`."""
    if not ctx.proof_ok:
        return
    from strawberryfields.backends.bosonicbackend.bosoniccircuit import BosonicModes, to_xp, from_xp
    rng = ctx.rng
    reqs, reals, cases = [], [], []
    q = lambda: Fraction(rng.randint(-6, 6), rng.choice([1, 2, 4]))
    for it in range(n_cases):
        n = rng.randint(1, 5)
        k = rng.randint(1, min(2, n))
        modes = rng.sample(range(n), k)
        X = [[q() for _ in range(2 * k)] for _ in range(2 * k)]
        Ysym = [[q() for _ in range(2 * k)] for _ in range(2 * k)]
        Y = [[Ysym[i][j] + Ysym[j][i] for j in range(2 * k)] for i in range(2 * k)]
        A = [[q() for _ in range(2 * n)] for _ in range(2 * n)]
        V = [[A[i][j] + A[j][i] for j in range(2 * n)] for i in range(2 * n)]
        mu = [q() for _ in range(2 * n)]
        bm = BosonicModes(n, 1)
        bm.means = np.array([[float(x) for x in mu]])
        bm.covs = np.array([[[float(x) for x in row] for row in V]])
        bm.weights = np.array([1.0])
        Xf = np.array([[float(x) for x in row] for row in X])
        Yf = np.array([[float(x) for x in row] for row in Y])
        X2, Y2 = bm.expandXY(modes, Xf, Yf)
        bm.apply_channel(X2, Y2)
        reqs.append(dict(op="bos.apply", n=n, modes=modes, X=[[fr(x) for x in r] for r in X], Y=[[fr(x) for x in r] for r in Y],
                         V=[[fr(x) for x in r] for r in V], mu=[fr(x) for x in mu]))
        reals.append(dict(X2=X2, Y2=Y2, mu=bm.means[0], V=bm.covs[0], fromXp=list(from_xp(n)), toXp=list(to_xp(n))))
        cases.append(dict(n=n, modes=modes))
    rat = lambda v: v[0] / v[1]
    for req, real, case, model in zip(reqs, reals, cases, ctx.lean(reqs)):
        ctx.corr_cases += 1
        ctx.count("bos-corr:k=%d" % len(case["modes"]), dict(case, X=req["X"], mu=req["mu"]), case["n"] >= 2 and case["modes"] != [0],
                  sample=case)
        if "__error__" in model:
            ctx.disagree("Bosonic driver error", case, model, None)
            continue
        if model["fromXp"] != [int(x) for x in real["fromXp"]] or model["toXp"] != [int(x) for x in real["toXp"]]:
            ctx.disagree("Bosonic.fromXp/toXp vs from_xp/to_xp", case, (model["fromXp"], model["toXp"]),
                         (list(map(int, real["fromXp"])), list(map(int, real["toXp"]))))
            continue
        for key in ("X2", "Y2", "V"):
            m = np.array([[rat(z) for z in row] for row in model[key]])
            if np.max(np.abs(m - real[key]), initial=0) > 1e-9 * max(1.0, float(np.max(np.abs(m), initial=0))):
                ctx.disagree(f"Bosonic.{key} vs bosoniccircuit ({'thewalrus expand / expandXY' if key != 'V' else 'update_covs'})",
                             case, str(m), str(real[key]))
                break
        else:
            m = np.array([rat(z) for z in model["mu"]])
            if np.max(np.abs(m - real["mu"]), initial=0) > 1e-9 * max(1.0, float(np.max(np.abs(m), initial=0))):
                ctx.disagree("Bosonic.updateMeans vs update_means", case, str(m), str(real["mu"]))


# ---------------------------------------------------------------- K4: Kraus operators of the Fock loss channel

def run_loss_corr(ctx):
    """`fockbackend.ops.lossChannel(T, D)` vs `SFV.Model.FockLoss`: the number of Kraus operators, their band structure
    `E(k)[v, a] != 0 only for v + k = a`, real non-negative amplitudes whose squares are `C(a,k) (1-T)^k T^(a-k)`"""
    if not ctx.proof_ok:
        return
    from strawberryfields.backends.fockbackend import ops as fops
    rng = ctx.rng
    reqs, reals, cases = [], [], []
    Ts = [Fraction(0), Fraction(1), Fraction(1, 2), Fraction(1, 4), Fraction(9, 10), Fraction(1, 3), Fraction(1, 100)]
    for D in range(1, 8 if ctx.tier == "quick" else 13):
        for T in (Ts if D <= 5 else rng.sample(Ts, 3)):
            reqs.append(dict(op="fock.lossSq", D=D, T=fr(T)))
            reals.append(fops.lossChannel(float(T), D))
            cases.append(dict(D=D, T=str(T)))
    rat = lambda v: v[0] / v[1]
    for req, real, case, model in zip(reqs, reals, cases, ctx.lean(reqs)):
        ctx.corr_cases += 1
        ctx.count("loss-kraus", case, case["D"] >= 2 and case["T"] not in ("0", "1"), sample=case)
        if "__error__" in model:
            ctx.disagree("FockLoss driver error", case, model, None)
            continue
        D = case["D"]
        if len(real) != model["count"]:
            ctx.disagree("FockLoss.lossKrausList length vs len(lossChannel(T, D))", case, model["count"], len(real))
            continue
        for k, E in enumerate(real):
            E = np.asarray(E)
            want = np.zeros((D, D))
            for a in range(D):
                if a - k >= 0:
                    want[a - k, a] = math.sqrt(rat(model["sq"][k][a]))
            if E.shape != (D, D) or np.max(np.abs(E - want), initial=0) > 1e-12:
                ctx.disagree("FockLoss.lossKraus vs lossChannel(T, D)[k]", dict(case, k=k), str(want), str(E))
                break


# ---------------------------------------------------------------- K3: bosonic cat-state preparation (complex representation)

def run_cat_corr(ctx, n_cases):
    """`BosonicBackend.prepare_cat(a, theta, p, 'complex', ...)` vs `SFV.Model.BosonicState.catComplex`: the irrational inputs
    (sqrt(2 hbar), Re/Im alpha, c = exp(-2|alpha|^2 - i pi p)) are computed here and handed to the model as exact rationals"""
    if not ctx.proof_ok:
        return
    import strawberryfields as sf
    from strawberryfields.backends.bosonicbackend.backend import BosonicBackend
    rng = ctx.rng
    reqs, reals, cases = [], [], []
    ex = lambda x: fr(Fraction(float(x)))
    old_hbar = sf.hbar
    for it in range(n_cases):
        hbar = rng.choice([2.0, 2.0, 1.0, 0.5, 1.7])
        a = round(rng.uniform(0.2, 2.0), 3)
        theta = rng.choice([0.0, round(rng.uniform(-3.1, 3.1), 3)])
        p = rng.choice([0, 1, 0.5, 0.25, 1.5, round(rng.uniform(0, 2), 3)])
        sf.hbar = hbar
        be = BosonicBackend()
        be.begin_circuit(1)
        be.circuit.hbar = hbar          # prepare_cat reads the convention there (2 in every run of the back end; other values
                                        # exercise the formula's dependence on it)
        w, mu, cov = be.prepare_cat(a, theta, p, "complex", 0.01, 2)
        alpha = a * np.exp(1j * theta)
        c = np.exp(-2 * abs(alpha) ** 2 - 1j * np.pi * p)
        reqs.append(dict(op="bos.cat", hb2=ex(hbar / 2), s=ex(np.sqrt(2 * hbar)), ar=ex(alpha.real), ai=ex(alpha.imag),
                         cre=ex(c.real), cim=ex(c.imag)))
        reals.append((np.asarray(w), np.asarray(mu), np.asarray(cov)))
        cases.append(dict(a=a, theta=theta, p=p, hbar=hbar))
    sf.hbar = old_hbar
    for req, (w, mu, cov), case, model in zip(reqs, reals, cases, ctx.lean(reqs)):
        ctx.corr_cases += 1
        ctx.count("cat-complex", case, case["p"] not in (0, 1), sample=case)
        if "__error__" in model:
            ctx.disagree("BosonicState driver error", case, model, None)
            continue
        mw = np.array([_cx(z) for z in model["w"]])
        mmu = np.array([[_cx(z) for z in row] for row in model["mu"]])
        mcov = np.array([[[_cx(z) for z in r] for r in blk] for blk in model["cov"]])
        ok = w.shape == mw.shape and mu.shape == mmu.shape and cov.shape == mcov.shape and \
            np.max(np.abs(w - mw)) < 1e-12 and np.max(np.abs(mu - mmu)) < 1e-12 * max(1.0, np.max(np.abs(mmu))) and \
            np.max(np.abs(cov - mcov)) < 1e-12
        if not ok:
            ctx.disagree("BosonicState.catComplex vs prepare_cat", case, dict(w=str(mw), mu=str(mmu)), dict(w=str(w), mu=str(mu)))
