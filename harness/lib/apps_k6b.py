"""Second layer of K6 oracles (C19 follow-up): things the first layer only covered structurally.

* clique.search: the real result must equal the explicit iteration of the REAL grow / swap with the caller's
  node_select under the same script of random choices, and must be reachable by a run in which EVERY round obeys
  the documented selection rule;
* history independence: every graph-taking helper is a function of (graph CONTENT, arguments, random choices) --
  repeated calls, calls after the same graph object was edited in place, after node weights changed, interleaved
  calls on two graphs, all compared with a freshly built graph of the same content; densities re-computed exactly;
* inputs are left untouched (graph, lists, weight arrays);
* similarity: interleaved generators, the probabilities handed to the RNG by event_to_sample, the sampling feature
  vectors by brute force.

Checks register themselves in apps_k6.CHECKS (replay / corpus entry points)."""
import copy
from fractions import Fraction

import numpy as np

from lib import apps_k6 as K

# ------------------------------------------------------------------------------------------ clique.search


def swap_results(gd, adj, G, sel):
    """all sets one rule-following swap can return from the clique G"""
    G = frozenset(G)
    c1 = K.bf_c1(gd, adj, G)
    if not c1:
        return {G}
    w = K.weights_of(gd, sel)
    if sel == "degree":
        c1 = K.best(c1, lambda p: len(adj[p[1]]))
    elif w is not None:
        c1 = K.best(c1, lambda p: w[p[1]])
    return {(G - {c}) | {i} for c, i in c1}


def search_reachable(gd, adj, S, sel, iterations):
    """all results of runs of <= `iterations` rounds in which every grow and every swap obeys the rule `sel`"""
    finals, frontier, memo = set(), {frozenset(S)}, {}
    for it in range(iterations):
        last = it == iterations - 1
        nxt = set()
        for C in frontier:
            if C not in memo:
                memo[C] = K.grow_reachable(gd, adj, C, sel)
            for G in memo[C]:
                for Sw in swap_results(gd, adj, G, sel):
                    (finals if (Sw == G or last) else nxt).add(Sw)
        frontier = nxt
        if not frontier:
            break
    return finals


def compose_search(clique_mod, g, S, iterations, sel_py, picks, use_default):
    """the documented algorithm spelled out with the REAL grow and swap, random choices continuing"""
    kw = {} if use_default else dict(node_select=sel_py)
    rounds = 0
    with K.scripted(picks):
        C = list(S)
        while True:
            G = clique_mod.grow(C, g, **kw)
            Sw = clique_mod.swap(G, g, **kw)
            rounds += 1
            if set(G) == set(Sw) or rounds >= iterations:
                return [int(x) for x in Sw], rounds
            C = Sw


def chk_clique_search(ctx, case):
    from strawberryfields.apps import clique
    gd, S, sel, picks, it = case["g"], case["S"], case["sel"], case.get("picks", []), case["iterations"]
    use_default = bool(case.get("default_sel")) and sel == "uniform"
    g, adj = K.mk_graph(gd), K.adjsets(gd)
    ctx.oracle_cases += 1
    rp = dict(chk="clique_search", case=case)
    what = f"clique.search({S}, {gd}, {it}, {sel})"
    kw = {} if use_default else dict(node_select=K.py_sel(sel))
    with K.scripted(picks):
        st, r = K.call_pure(ctx, rp, "clique.search", g, clique.search, list(S), g, it, **kw)
    valid = set(S) <= set(gd["nodes"]) and K.bf_is_clique(adj, set(S)) and not K.bad_weights(gd, sel)
    if it < 1 or not valid:
        if st != "ValueError":
            ctx.fail("clique-search-accepts-invalid-input", f"{what} (iterations < 1 / not a clique / wrong number of weights) gives {st}: {r}", rp)
        return st, r
    if st != "ok":
        ctx.fail("clique-search-raises", f"{what} raises {st}: {r}", rp)
        return st, r
    r = [int(x) for x in r]
    R = set(r)
    if not (R <= set(gd["nodes"]) and K.bf_is_clique(adj, R)) or len(R) < len(set(S)) or r != sorted(R):
        ctx.fail("clique-search-not-clique", f"{what} = {r} is not a sorted clique of the graph at least as large as the input", rp)
        return st, r
    try:
        comp, rounds = compose_search(clique, K.mk_graph(gd), S, it, K.py_sel(sel), picks, use_default)
    except Exception as e:   # grow / swap themselves are judged elsewhere
        comp, rounds = None, 0
        ctx.tally("clique_search:composition-raised")
    ctx.tally("clique_search:rounds>=2" if rounds >= 2 else "clique_search:rounds=1")
    if comp is not None and comp != r:
        ctx.fail("clique-search-not-grow-swap-iteration",
                 f"{what} with random choices {picks[:12]}… = {r}, but iterating grow and swap with the same node_select and "
                 f"the same choices gives {comp} ({rounds} rounds): a later round does not use the given selection rule / "
                 f"stopping rule", rp)
        return st, r
    reach = search_reachable(gd, adj, S, sel, it)
    if frozenset(R) not in reach:
        ctx.fail("clique-search-selection-rule",
                 f"{what} = {r} cannot be produced by {it} round(s) of growth and swap that always take a candidate of greatest "
                 f"{'degree' if sel == 'degree' else 'weight'}", rp)
    elif sel != "uniform" and frozenset(R) not in search_reachable(gd, adj, S, "uniform", it):
        raise AssertionError("oracle self-check: rule-following runs must be uniform runs")
    if sel != "uniform" and len(reach) < len(search_reachable(gd, adj, S, "uniform", it)):
        ctx.tally("clique_search:rule-restricts-outcomes")
    return st, r


# ------------------------------------------------------------------------------------------ history independence


def _plain(x):
    if isinstance(x, dict):
        return sorted([_plain(k), _plain(v)] for k, v in x.items())
    if isinstance(x, (list, tuple)):
        return [_plain(v) for v in x]
    if isinstance(x, (np.integer,)):
        return int(x)
    if isinstance(x, (float, np.floating)):
        return repr(float(x))
    if isinstance(x, (bool, np.bool_)):
        return bool(x)
    return x


def run_fn(fn, g, a, picks):
    """one call of a graph-taking helper; result in a plain comparable form"""
    from strawberryfields.apps import clique, sample, subgraph
    sel = K.py_sel(a.get("sel", "uniform"))
    with K.scripted(picks):
        if fn == "is_clique":
            st, r = K._call(lambda: bool(clique.is_clique(g.subgraph(a["S"]))))
        elif fn == "c_0":
            st, r = K._call(clique.c_0, list(a["S"]), g)
            r = sorted(r) if st == "ok" else r
        elif fn == "c_1":
            st, r = K._call(clique.c_1, list(a["S"]), g)
            r = sorted(map(tuple, r)) if st == "ok" else r
        elif fn == "grow":
            st, r = K._call(clique.grow, list(a["S"]), g, node_select=sel)
        elif fn == "swap":
            st, r = K._call(clique.swap, list(a["S"]), g, node_select=sel)
        elif fn == "shrink":
            st, r = K._call(clique.shrink, list(a["S"]), g, node_select=sel)
        elif fn == "clique_search":
            st, r = K._call(clique.search, list(a["S"]), g, a["iterations"], node_select=sel)
        elif fn == "resize":
            st, r = K._call(subgraph.resize, list(a["S"]), g, a["min"], a["max"], node_select=sel)
        elif fn == "search":
            st, r = K._call(subgraph.search, [list(s) for s in a["subs"]], g, a["min"], a["max"],
                            max_count=a["maxCount"], node_select=sel)
        elif fn == "to_subgraphs":
            st, r = K._call(sample.to_subgraphs, [list(s) for s in a["samples"]], g)
            r = [sorted(x) for x in r] if st == "ok" else r
        else:
            raise KeyError(fn)
    return st, _plain(r) if st == "ok" else r


def edit_in_place(g, gd_from, gd_to):
    """turn the graph object (content gd_from) into content gd_to by removing / adding edges in place"""
    a = {frozenset(e) for e in gd_from["edges"]}
    b = {frozenset(e) for e in gd_to["edges"]}
    for e in sorted(a - b, key=sorted):
        g.remove_edge(*sorted(e))
    for e in sorted(b - a, key=sorted):
        g.add_edge(*sorted(e))


def search_densities_exact(ctx, rp, what, gd, st, plain):
    """every (density, nodes) pair of a subgraph.search result against the exact density in graph content gd"""
    if st != "ok":
        return
    adj = K.adjsets(gd)
    for size, lst in plain:
        for d, nodes in lst:
            ex = K.exact_density(adj, nodes)
            if abs(float(d) - float(ex)) > 1e-12:
                ctx.fail("search-density-wrong", f"{what}: {nodes} listed with density {d}, exact density in the graph as it is "
                         f"now {ex}", rp)
                return


def chk_history(ctx, case):
    """case: fn, g (content A), gB (same nodes, other edges), args, args2 (optional: other weights), picks"""
    fn, gA, gB, a, picks = case["fn"], case["g"], case["gB"], case["args"], case.get("picks", [])
    a2 = case.get("args2")
    ctx.oracle_cases += 1
    rp = dict(chk="history", case=case)
    show = {k: v for k, v in a.items()}
    G = K.mk_graph(gA)
    r1 = run_fn(fn, G, a, picks)
    r1b = run_fn(fn, G, a, picks)
    if r1 != r1b:
        ctx.fail(f"history:repeat-call-differs:{fn}", f"{fn}({show}) on graph {gA} with the same random choices returns {r1[1]} and then, "
                 f"called again on the unchanged graph, {r1b[1]}", rp)
        return
    edit_in_place(G, gA, gB)
    r2 = run_fn(fn, G, a, picks)
    fresh = run_fn(fn, K.mk_graph(gB), a, picks)
    if fn == "search":
        search_densities_exact(ctx, rp, f"search({show}) after the graph object was edited in place to {gB}", gB, *r2)
    if r2 != fresh:
        ctx.fail(f"history:stale-after-graph-edit:{fn}",
                 f"{fn}({show}): graph object first used with edges {gA['edges']}, then edited in place to {gB['edges']}: returns "
                 f"{r2[1]}, but a freshly built graph with the same content gives {fresh[1]}", rp)
        return
    if a2 is not None:
        r3 = run_fn(fn, G, a2, picks)
        fresh3 = run_fn(fn, K.mk_graph(gB), a2, picks)
        if r3 != fresh3:
            ctx.fail(f"history:stale-after-weight-change:{fn}",
                     f"{fn} on the same graph object first with {a.get('sel')}, then with {a2.get('sel')}: returns {r3[1]}, a fresh "
                     f"graph gives {fresh3[1]}", rp)
            return
    # interleaved calls on two graph objects
    Ga, Gb = K.mk_graph(gA), K.mk_graph(gB)
    x1 = run_fn(fn, Ga, a, picks)
    y = run_fn(fn, Gb, a, picks)
    x2 = run_fn(fn, Ga, a, picks)
    if x1 != r1 or x2 != r1 or y != fresh:
        ctx.fail(f"history:interleaved-graphs:{fn}", f"{fn}({show}) called on graph A {gA['edges']}, graph B {gB['edges']}, graph A again "
                 f"gives {x1[1]}, {y[1]}, {x2[1]}; separately A gives {r1[1]} and B gives {fresh[1]}", rp)
        return
    # edit back: the original answer must come back
    edit_in_place(G, gB, gA)
    r4 = run_fn(fn, G, a, picks)
    if r4 != r1:
        ctx.fail(f"history:stale-after-restore:{fn}", f"{fn}({show}): after editing the graph object to {gB['edges']} and back to "
                 f"{gA['edges']} returns {r4[1]}, originally {r1[1]}", rp)
        return
    if fn == "search":
        search_densities_exact(ctx, rp, f"search({show}) after the graph object was edited and restored", gA, *r4)


# ------------------------------------------------------------------------------------------ similarity extras


def chk_orbits_interleaved(ctx, case):
    from strawberryfields.apps import similarity
    n1, n2 = case["n1"], case["n2"]
    ctx.oracle_cases += 1
    rp = dict(chk="orbits_interleaved", case=case)
    a, b = similarity.orbits(n1), similarity.orbits(n2)
    la, lb = [], []
    live = [(a, la), (b, lb)]
    while live:
        for it, acc in list(live):
            try:
                acc.append(list(next(it)))
            except StopIteration:
                live.remove((it, acc))
    sa, sb = [list(o) for o in similarity.orbits(n1)], [list(o) for o in similarity.orbits(n2)]
    if la != sa or lb != sb:
        ctx.fail("orbits-generators-interfere", f"consuming orbits({n1}) and orbits({n2}) alternately yields {la[:4]}… / {lb[:4]}…, "
                 f"separately {sa[:4]}… / {sb[:4]}…", rp)
    if [list(o) for o in similarity.orbits(n1)] != sa:
        ctx.fail("orbits-repeat-call-differs", f"orbits({n1}) yields different sequences on repeated calls", rp)


def chk_event_to_sample(ctx, case):
    """the probabilities handed to the RNG are the exact orbit weights; the sample lies in the chosen orbit"""
    from strawberryfields.apps import similarity
    n, m, modes, pick = case["n"], case["m"], case["modes"], case.get("pick", 0)
    ctx.oracle_cases += 1
    rp = dict(chk="event_to_sample", case=case)
    seen = {}

    def choice(a, *args, **kw):
        p = kw.get("p", args[2] if len(args) > 2 else None)
        seen["n"], seen["p"] = int(a) if isinstance(a, (int, np.integer)) else len(a), None if p is None else [float(x) for x in p]
        pos = [i for i in range(seen["n"]) if p is None or p[i] > 0]
        seen["idx"] = pos[pick % len(pos)] if pos else 0
        return seen["idx"]

    old = np.random.choice
    np.random.choice = choice
    try:
        st, r = K._call(similarity.event_to_sample, n, m, modes)
    finally:
        np.random.choice = old
    what = f"event_to_sample({n}, {m}, {modes})"
    if m * modes < n:
        if st != "ValueError":
            ctx.fail("event_to_sample-accepts-impossible-event", f"{what} gives {st}: {r}", rp)
        return
    if st != "ok":
        ctx.fail("event_to_sample-raises", f"{what} raises {st}: {r}", rp)
        return
    r = [int(x) for x in r]
    if len(r) != modes or sum(r) != n or max(r) > m or min(r) < 0:
        ctx.fail("event_to_sample-outside-event", f"{what} = {r} is not a sample of {modes} modes with {n} photons and at most {m} per mode", rp)
        return
    cards = {o: K.exact_orbit_card(list(o), modes) for o in K.partitions(n) if (max(o) if o else 0) <= m}
    total = sum(cards.values())
    if seen.get("p") is None:
        ctx.fail("event_to_sample-unweighted", f"{what} draws the orbit without the cardinality weights", rp)
        return
    want = sorted(float(Fraction(c, total)) for c in cards.values() if c > 0)
    got = sorted(x for x in seen["p"] if x > 0)
    if len(want) != len(got) or any(abs(x - y) > 1e-12 for x, y in zip(want, got)):
        ctx.fail("event_to_sample-wrong-weights", f"{what} draws the orbit with probabilities {got[:6]}…, the exact orbit weights are {want[:6]}…", rp)
        return
    orb = tuple(sorted((x for x in r if x), reverse=True))
    if abs(seen["p"][seen["idx"]] - float(Fraction(cards.get(orb, 0), total))) > 1e-12:
        ctx.fail("event_to_sample-orbit-weight-mismatch", f"{what}: the orbit {orb} of the returned sample was drawn with probability "
                 f"{seen['p'][seen['idx']]}, exact weight {Fraction(cards.get(orb, 0), total)}", rp)


def chk_feature_sampling(ctx, case):
    from strawberryfields.apps import similarity
    samples, orbs, events, m = case["samples"], case["orbits"], case["events"], case.get("m")
    ctx.oracle_cases += 1
    rp = dict(chk="feature_sampling", case=case)
    N = len(samples)
    got = similarity.feature_vector_orbits_sampling([list(s) for s in samples], [list(o) for o in orbs])
    want = [Fraction(sum(1 for s in samples if sorted((x for x in s if x), reverse=True) == list(o)), N) for o in orbs]
    if len(got) != len(want) or any(abs(float(w) - g) > 1e-12 for w, g in zip(want, got)):
        ctx.fail("feature_vector_orbits_sampling-wrong", f"feature_vector_orbits_sampling({samples}, {orbs}) = {got}, exact fractions {want}", rp)
    mm = 2 if m is None else m
    args = () if m is None else (m,)
    got = similarity.feature_vector_events_sampling([list(s) for s in samples], list(events), *args)
    want = [Fraction(sum(1 for s in samples if sum(s) == k and max(s) <= mm), N) for k in events]
    if len(got) != len(want) or any(abs(float(w) - g) > 1e-12 for w, g in zip(want, got)):
        ctx.fail("feature_vector_events_sampling-wrong", f"feature_vector_events_sampling({samples}, {events}, {m}) = {got}, exact fractions {want}", rp)


def chk_similarity_sequence(ctx, case):
    """the counting functions are functions of their arguments: a sequence of calls that repeats arguments in
    another context (same orbit / other mode count, same photon number / other bound, ...) is exact every time"""
    from strawberryfields.apps import similarity
    ctx.oracle_cases += 1
    rp = dict(chk="similarity_sequence", case=case)
    for k, (orbit, modes) in enumerate(case.get("orbit_calls", [])):
        arg = list(orbit)
        got = similarity.orbit_cardinality(arg, modes)
        want = K.exact_orbit_card(list(orbit), modes)
        if arg != list(orbit):
            ctx.fail("mutates-input-argument:orbit_cardinality", f"orbit_cardinality changed its orbit argument {orbit} into {arg}", rp)
        if not K._is_exact_int(got, want):
            ctx.fail("orbit_cardinality-depends-on-history", f"call {k} of the sequence {case['orbit_calls']}: orbit_cardinality({orbit}, {modes}) "
                     f"= {got!r}, true {want}", rp)
            break
    for k, (n, m, modes) in enumerate(case.get("event_calls", [])):
        got = similarity.event_cardinality(n, m, modes)
        want = K.exact_event_card(n, m, modes)
        if not K._is_exact_int(got, want):
            ctx.fail("event_cardinality-depends-on-history", f"call {k} of the sequence {case['event_calls']}: event_cardinality({n}, {m}, {modes}) "
                     f"= {got!r}, true {want}", rp)
            break
    for k, (s, m) in enumerate(case.get("sample_calls", [])):
        arg = list(s)
        o, e = similarity.sample_to_orbit(arg), similarity.sample_to_event(arg, m)
        if arg != list(s) or list(o) != sorted((x for x in s if x), reverse=True) or e != (sum(s) if max(s) <= m else None):
            ctx.fail("sample-conversion-depends-on-history", f"call {k} of the sequence {case['sample_calls']}: sample_to_orbit / sample_to_event"
                     f"({s}, {m}) = {o} / {e} (argument afterwards {arg})", rp)
            break
    for orbit, modes in case.get("o2s", []):
        arg = list(orbit)
        st, r = K._call(similarity.orbit_to_sample, arg, modes)
        if modes < len(orbit):
            if st != "ValueError":
                ctx.fail("orbit_to_sample-accepts-too-few-modes", f"orbit_to_sample({orbit}, {modes}) gives {st}: {r}", rp)
        elif st != "ok" or sorted(int(x) for x in r) != sorted(list(orbit) + [0] * (modes - len(orbit))) or arg != list(orbit):
            ctx.fail("orbit_to_sample-leaves-orbit", f"orbit_to_sample({orbit}, {modes}) gives {st}: {r} (argument afterwards {arg})", rp)


def chk_big_counts(ctx, case):
    """integer comparisons at a large scale (relative differences of 1e-6): postselect bounds, event bound"""
    from strawberryfields.apps import sample, similarity
    samples, lo, hi, m = case["samples"], case["min"], case["max"], case["m"]
    ctx.oracle_cases += 1
    rp = dict(chk="big_counts", case=case)
    ps = sample.postselect([list(s) for s in samples], lo, hi)
    if [list(s) for s in ps] != [list(s) for s in samples if lo <= sum(s) <= hi]:
        ctx.fail("postselect-wrong", f"postselect({samples}, {lo}, {hi}) = {ps}", rp)
    out = []
    for s in samples:
        e = similarity.sample_to_event(list(s), m)
        o = similarity.sample_to_orbit(list(s))
        out.append([e, [int(x) for x in o]])
        if e != (sum(s) if max(s) <= m else None):
            ctx.fail("sample_to_event-wrong", f"sample_to_event({s}, {m}) = {e}, expected {sum(s) if max(s) <= m else None}", rp)
        if list(o) != sorted((x for x in s if x), reverse=True):
            ctx.fail("sample_to_orbit-wrong", f"sample_to_orbit({s}) = {o}", rp)
    return [[int(x) for x in s] for s in ps], out


def chk_is_clique_big(ctx, case):
    """the edge-count test at a scale where one missing edge is a relative difference below 1e-5"""
    import networkx as nx
    from strawberryfields.apps import clique
    n, missing = case["n"], [tuple(e) for e in case["missing"]]
    ctx.oracle_cases += 1
    rp = dict(chk="is_clique_big", case=case)
    g = nx.complete_graph(n)
    g.remove_edges_from(missing)
    got = bool(clique.is_clique(g))
    if got != (not missing):
        ctx.fail("is_clique-wrong", f"is_clique(K{n} minus edges {missing}) = {got}", rp)
    st, r = K._call(clique.c_0, list(range(n)), g)
    if missing and st != "ValueError":
        ctx.fail("c_0-accepts-non-clique", f"c_0(all nodes, K{n} minus edges {missing}) gives {st}", rp)


K.CHECKS.update(big_counts=chk_big_counts, is_clique_big=chk_is_clique_big, similarity_sequence=chk_similarity_sequence, clique_search=chk_clique_search, history=chk_history, orbits_interleaved=chk_orbits_interleaved,
                event_to_sample=chk_event_to_sample, feature_sampling=chk_feature_sampling)
