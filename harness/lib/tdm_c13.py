"""Helpers of the C13 check: TDM program specs -> real TDMProgram / model requests, canonicalisers,
generators, the hand-written explicit fresh-mode loop and the scripted homodyne back end."""
import contextlib

import numpy as np

MEAS = ("MeasureHomodyne",)


# ------------------------------------------------------------------ specs
# spec = dict(N=[..], shift="default"|int, T=int, params=[[..], ..],
#             ops=[dict(cls=, regs=[slots], pars=[number | "p<i>"], d=bool, s=None|number)])

def is_meas(o):
    return o["cls"].startswith("Measure")


def build(sf, spec, params=None, share=False):
    """the real TDMProgram of a spec.  `params`: list objects to hand to `context` (so that several
    programs can share their parameter arrays); `share`: equal operations of the loop body are ONE
    shared Operation instance applied several times (as in `bs = BSgate(p[0]); bs | ...; bs | ...`)."""
    from strawberryfields import ops
    prog = sf.TDMProgram(N=list(spec["N"]))
    args_lists = params if params is not None else [list(a) for a in spec["params"]]
    cache = {}
    with prog.context(*args_lists, shift=spec["shift"]) as (p, q):
        for o in spec["ops"]:
            key = (o["cls"], tuple(map(str, o["pars"])), bool(o.get("d")), o.get("s"), o.get("dc"))
            op = cache.get(key) if share else None
            if op is None:
                args = [p[int(a[1:])] if isinstance(a, str) else a for a in o["pars"]]
                kw = {"select": o["s"]} if o.get("s") is not None else {}
                if o.get("dc") is not None:
                    kw["dark_counts"] = o["dc"]
                op = getattr(ops, o["cls"])(*args, **kw)
                if o.get("d"):
                    op = op.H
                cache[key] = op
            op | tuple(q[j] for j in o["regs"])
    return prog


def inputs_of(prog):
    """the objects the user handed to the program (must never be changed by any call)"""
    return dict(params=[[canon_par(v) for v in a] for a in prog.tdm_params], N=[int(n) for n in prog.N],
                shift=prog.shift)


def canon_par(v):
    name = getattr(v, "name", None)
    if name is not None:
        return str(name)
    f = float(v)
    return int(f) if f == int(f) else f


def canon_cmd(cmd):
    sel = getattr(cmd.op, "select", None)
    return dict(cls=type(cmd.op).__name__, regs=[int(r.ind) for r in cmd.reg],
                pars=[canon_par(v) for v in cmd.op.p], d=bool(getattr(cmd.op, "dagger", False)),
                s=None if sel is None else canon_par(sel))


def canon_circ(circ):
    return None if circ is None else [canon_cmd(c) for c in circ]


def snapshot(p):
    """the state attributes the property anchors name"""
    return dict(circuit=canon_circ(p.circuit), rolled=canon_circ(p.rolled_circuit),
                unrolled=canon_circ(p.unrolled_circuit), space=canon_circ(p.space_unrolled_circuit),
                shots=p._unrolled_shots, added=int(p._num_added_subsystems), init=int(p.init_num_subsystems),
                refs=[[int(k), bool(r.active)] for k, r in p.reg_refs.items()], locked=bool(p.locked))


def model_cfg(spec):
    return dict(N=list(spec["N"]), shift=spec["shift"], T=spec["T"], params=[list(a) for a in spec["params"]],
                rolled=[dict(cls=o["cls"], regs=list(o["regs"]), pars=list(o["pars"]), meas=is_meas(o),
                             d=bool(o.get("d", False)), s=o.get("s")) for o in spec["ops"]])


def spec_circ(spec):
    return [dict(cls=o["cls"], regs=list(o["regs"]), pars=list(o["pars"]), d=bool(o.get("d", False)), s=o.get("s"))
            for o in spec["ops"]]


# ------------------------------------------------------------------ generators
N_CHOICES = [[1], [2], [3], [4], [1, 2], [2, 3], [2, 2], [3, 1], [1, 1, 2], [2, 1, 2]]
# two-digit sizes: >= 10 concurrent modes, >= 10 bands (indices, loop-variable names and keys with two digits)
N_BIG = [[10], [12], [6, 5], [10, 2], [1] * 10, [1] * 11, [2, 1] * 4 + [1, 1]]


def band_starts(N):
    out, s = [], 0
    for n in N:
        out.append(s)
        s += n
    return out


def gen_spec(rng, ints, N=None, T=None, shift=None, measure=True, single_band=False, max_ops=6, mz=False, off_head=0.0,
             many=0.3, big=0.0):
    """random rolled program; `ints`: integer-valued arguments (exactly comparable with the model).
    `many`: probability of 11-14 parameter arrays (loop variables p10, p11, ... next to p1: names that are prefixes
    of one another), every array is used by some command and all entries of all arrays are pairwise different;
    `big`: probability of a two-digit number of concurrent modes / bands / time bins."""
    if N is None:
        if rng.random() < big:
            N = rng.choice([n for n in N_BIG if len(n) == 1] if single_band else N_BIG)
        else:
            N = rng.choice([n for n in N_CHOICES if len(n) == 1] if single_band else N_CHOICES)
    N = list(N)
    C = sum(N)
    if T is None:
        T = rng.choice([10, 11, 12]) if rng.random() < big else rng.choice([1, 2, 2, 3, 3, 4, 5])
    if shift is None:
        shift = "default" if rng.random() < 0.6 else rng.choice([1, 1, 0, 2, -1, C, C + 1, 3])
    npar = rng.randint(11, 14) if rng.random() < many else rng.choice([2, 3, 4, 4, 10])

    def angle():
        return rng.randint(0, 6) if ints else round(rng.uniform(-3.0, 3.0), 6)

    def squeeze():
        return rng.choice([0, 1, 1]) if ints else round(rng.uniform(0.2, 0.9) * rng.choice([1, -1]), 6)

    # all entries pairwise different, so that a wrong array (row) or time bin (column) is always visible
    if ints:
        vals = rng.sample(range(1, npar * T + 8), npar * T)
        params = [[vals[i * T + t] for t in range(T)] for i in range(npar)]
    else:
        params = [[angle() for _ in range(T)] for i in range(npar)]
    # every array gets used: the arrays are handed out round-robin (random start), later ones first half of the time
    order = list(range(npar))
    rng.shuffle(order)
    handed = [0]

    def pv():
        handed[0] += 1
        return "p%d" % order[(handed[0] - 1) % npar]
    starts = band_starts(N)
    ops = []
    # a squeezed pulse enters at the tail of every band
    for b, n in enumerate(N):
        tail = starts[b] + n - 1
        if rng.random() < 0.85:
            ops.append(dict(cls="Sgate", regs=[tail], pars=[squeeze(), angle() if rng.random() < 0.5 else 0]))
    for _ in range(rng.randint(1, max_ops)):
        k = rng.random()
        if k < 0.45 and C >= 2:
            a, b = rng.sample(range(C), 2)
            ops.append(dict(cls="BSgate", regs=[a, b], pars=[pv(), pv() if rng.random() < 0.4 else angle()],
                            d=rng.random() < 0.25))
        elif k < 0.75:
            ops.append(dict(cls="Rgate", regs=[rng.randrange(C)], pars=[pv()], d=rng.random() < 0.25))
        elif k < 0.9:
            ops.append(dict(cls="Sgate", regs=[rng.randrange(C)], pars=[squeeze(), pv()], d=rng.random() < 0.25))
        elif k < 0.95 or ints or C < 2 or not mz:
            ops.append(dict(cls="Dgate", regs=[rng.randrange(C)], pars=[squeeze() if not ints else rng.randint(0, 2), pv()]))
        else:  # a gate whose inverse is NOT "negate the first argument"
            a, b = rng.sample(range(C), 2)
            ops.append(dict(cls="MZgate", regs=[a, b], pars=[pv(), angle()], d=rng.random() < 0.6))
    # arrays not used so far drive an extra rotation each
    need = npar - handed[0] - (len(N) if measure else 0)
    for _ in range(max(need, 0)):
        ops.append(dict(cls="Rgate", regs=[rng.randrange(C)], pars=[pv()], d=rng.random() < 0.25))
    if measure:
        # measure the leading mode of each band, after the last command touching that slot
        bands = list(range(len(N)))
        rng.shuffle(bands)
        for b in bands:
            head = starts[b]
            if rng.random() < off_head:
                head = starts[b] + rng.randrange(N[b])  # another slot of the band is the measured one
            last = max([i for i, o in enumerate(ops) if head in o["regs"]], default=-1)
            pos = rng.randint(last + 1, len(ops))
            ops.insert(pos, dict(cls="MeasureHomodyne", regs=[head], pars=[pv()]))
    for o in ops:
        o.setdefault("d", False)
        o.setdefault("s", None)
    return dict(N=N, shift=shift, T=T, params=params, ops=ops)


# ------------------------------------------------------------------ the loop written out by hand
def py_rot(l, n):
    """rotation by n in Python slice semantics, written independently of shift_by"""
    L = len(l)
    if n >= 0:
        k = min(n, L)
    else:
        k = max(L + n, 0)
    return [l[(i + k) % L] for i in range(L)] if L and k < L else list(l)


def eff_rot(shift, C):
    """effective left rotation of `shift_by(q, shift)` on a register of C entries"""
    k = min(shift, C) if shift >= 0 else max(C + shift, 0)
    return k % C if C else 0


def explicit_loop(spec, shots, with_meas=True, force_queue=False):
    """The loop written out with a fresh mode for every new pulse.
    Returns (n_modes, cmds, meas_info) where cmds = [(cls, pars, modes, dagger)], all numeric, and
    meas_info[k] = (global bin, band) of the k-th measurement.
    default shift / rotation by one step with every band head measured: band b is a queue, the pulse in
    slot (b, o) at global bin g is pulse (b, g + o), pulse (b, k) lives in mode base_b + k.
    Other integer shifts: slot contents are permuted as the shift says and a measured slot receives a
    fresh mode."""
    N, T, ops = spec["N"], spec["T"], spec["ops"]
    C, starts = sum(N), band_starts(N)
    G = shots * T
    band_of = [b for b, n in enumerate(N) for _ in range(n)]
    off_of = [o for n in N for o in range(n)]
    cmds, info = [], []
    heads_measured = {o["regs"][0] for o in ops if is_meas(o)}
    is_int = isinstance(spec["shift"], int) and not isinstance(spec["shift"], bool)
    meas_slots = [o["regs"][0] for o in ops if is_meas(o)]
    heads_only = sorted(meas_slots) == sorted(set(starts) & set(meas_slots)) and set(starts) <= heads_measured
    queue = force_queue or (spec["shift"] == "default" and heads_only) or (
        is_int and eff_rot(spec["shift"], C) == 1 % C and heads_only)
    if queue:
        base = [sum(G + n - 1 for n in N[:b]) for b in range(len(N))]
        n_modes = sum(G + n - 1 for n in N)
        pid = lambda j, g: base[band_of[j]] + g + off_of[j]
        for g in range(G):
            for o in ops:
                if is_meas(o) and not with_meas:
                    continue
                pars = [spec["params"][int(a[1:])][g % T] if isinstance(a, str) else a for a in o["pars"]]
                cmds.append((o["cls"], pars, [pid(j, g) for j in o["regs"]], bool(o.get("d"))))
                if is_meas(o):
                    info.append((g, band_of[o["regs"][0]]))
        return n_modes, cmds, info
    # general integer shift: follow the contents of the slots
    content = list(range(C))
    nxt = C
    for g in range(G):
        for o in ops:
            pars = [spec["params"][int(a[1:])][g % T] if isinstance(a, str) else a for a in o["pars"]]
            modes = [content[j] for j in o["regs"]]
            if is_meas(o):
                info.append((g, band_of[o["regs"][0]]))
                if with_meas:
                    cmds.append((o["cls"], pars, modes, False))
                content[o["regs"][0]] = nxt  # the measured pulse is gone: a fresh mode takes its place
                nxt += 1
            else:
                cmds.append((o["cls"], pars, modes, bool(o.get("d"))))
        if is_int:
            content = py_rot(content, spec["shift"])
        elif spec["shift"] == "default":  # every band moves one step towards its head, the head goes to the tail
            content = [content[starts[band_of[j]] + (off_of[j] + 1) % N[band_of[j]]] for j in range(C)]
    return nxt, cmds, info


def explicit_program(sf, n_modes, cmds):
    from strawberryfields import ops
    prog = sf.Program(n_modes)
    with prog.context as q:
        for cls, pars, modes, dag in cmds:
            op = getattr(ops, cls)(*pars)
            if dag:
                op = op.H
            op | tuple(q[m] for m in modes)
    return prog


def true_measured_modes(spec, shots):
    """subsystem measured by the k-th measurement of the shift-unrolled circuit, computed by hand:
    list of (global bin, band, subsystem)"""
    N, T = spec["N"], spec["T"]
    C, starts = sum(N), band_starts(N)
    band_of = [b for b, n in enumerate(N) for _ in range(n)]
    out = []
    for g in range(shots * T):
        for o in spec["ops"]:
            if is_meas(o):
                j = o["regs"][0]
                b = band_of[j]
                if spec["shift"] == "default":
                    m = starts[b] + (j - starts[b] + g) % N[b]
                elif isinstance(spec["shift"], int):
                    m = (j + g * eff_rot(spec["shift"], C)) % C
                else:
                    m = j
                out.append((g, b, m))
    return out


def assumed_measured_modes(spec, shots):
    """what reshape_samples assumes (band-wise rotation by one)"""
    N, T = spec["N"], spec["T"]
    starts = band_starts(N)
    band_of = [b for b, n in enumerate(N) for _ in range(n)]
    out = []
    for g in range(shots * T):
        for o in spec["ops"]:
            if is_meas(o):
                j = o["regs"][0]
                b = band_of[j]
                out.append((g, b, starts[b] + (j - starts[b] + g) % N[b]))
    return out


# ------------------------------------------------------------------ scripted homodyne
@contextlib.contextmanager
def scripted_homodyne(xs, log):
    """Every homodyne measurement of the Gaussian back end is post-selected on the next scripted value;
    the predicted distribution (mean, variance of the measured quadrature just before the measurement)
    is logged.  The measurement returns exactly the scripted value."""
    from strawberryfields.backends.gaussianbackend.backend import GaussianBackend
    orig = GaussianBackend.measure_homodyne
    pos = [0]

    def patched(self, phi, mode, shots=1, select=None, **kwargs):
        x = xs[pos[0] % len(xs)]
        pos[0] += 1
        st = self.state([mode])
        m, v = st.quad_expectation(0, float(phi))
        log.append((float(phi), int(mode), float(m), float(v)))
        orig(self, phi, mode, shots=1, select=x)
        return np.array([[x]])

    GaussianBackend.measure_homodyne = patched
    try:
        yield
    finally:
        GaussianBackend.measure_homodyne = orig


@contextlib.contextmanager
def capture_engine(sf, rec):
    """records the circuit handed to LocalEngine._run_program and the size the back end is started with"""
    from strawberryfields.engine import LocalEngine
    o_run, o_init = LocalEngine._run_program, LocalEngine._init_backend

    def run_program(self, prog, **kwargs):
        rec["executed"] = canon_circ(prog.circuit)
        return o_run(self, prog, **kwargs)

    def init_backend(self, n):
        rec["backendModes"] = int(n)
        return o_init(self, n)

    LocalEngine._run_program, LocalEngine._init_backend = run_program, init_backend
    try:
        yield
    finally:
        LocalEngine._run_program, LocalEngine._init_backend = o_run, o_init
