"""K8 helpers (property C14): program specs with rich parameter kinds, a builder to real `sf.Program` /
`sf.TDMProgram` objects, canonical JSON forms of programs / Blackbird programs / XIR programs (the
encodings of `lean/SFV/Driver/IoIR.lean`), and the generators.

A spec is {"name", "n", "target", "shots", "cutoff", "tdm": None | {"N": [..], "params": [[..]]},
"ops": [{"cls", "regs", "pars": [par], "dagger", "select", "dark", "kw": {..}}]}; a `par` is
  number | {"c": [re, im]} | {"arr": nested list, "dtype": "int"|"float"|"complex"} | {"s": str} |
  {"list": [..]} | {"m": mode, "k": k, "fn": None|"sin"} | {"free": name, "k": k, "add": a} |
  {"loop": i, "k": k}
"""
import json
import re
from fractions import Fraction

import numpy as np


class Unrep(Exception):
    """value outside what the Lean model represents"""


# ------------------------------------------------------------------------------------------ builder

def _cplx(x):
    return complex(x[0], x[1])


def _arr(p):
    a = p["arr"]
    if p["dtype"] == "complex":
        def conv(x):
            return [conv(y) for y in x] if isinstance(x[0], list) else complex(x[0], x[1])
        return np.array(conv(a), dtype=complex)
    return np.array(a, dtype=int if p["dtype"] == "int" else float)


def make_par(p, q, free, loop):
    import strawberryfields.parameters as sfpar
    if not isinstance(p, dict):
        return p
    if "c" in p:
        return _cplx(p["c"])
    if "arr" in p:
        return _arr(p)
    if "s" in p:
        return p["s"]
    if "list" in p:
        return list(p["list"])
    k = p.get("k", 1)
    if "m" in p:
        v = q[p["m"]].par
        if p.get("fn") == "sin":
            v = sfpar.par_funcs.sin(v)
        v = v if k == 1 else k * v
        if "m2" in p:
            v = v + p.get("k2", 1) * q[p["m2"]].par
        return v
    if "free" in p:
        v = free[p["free"]]
        v = v if k == 1 else k * v
        return v + p["add"] if p.get("add") else v
    if "loop" in p:
        v = loop[p["loop"]]
        return v if k == 1 else k * v
    raise ValueError(p)


def build(spec, op_cache=None):
    """`op_cache` (a dict) makes equal operations ONE shared Operation instance, within the program and across
    all programs built with the same cache (`bs = BSgate(..)` created once and applied many times).
    Ops "Del" / "New" delete / create modes (regs of "New" = the indices the new modes receive)."""
    import strawberryfields as sf
    from strawberryfields import ops
    tdm = spec.get("tdm")
    if op_cache is None and spec.get("share"):
        op_cache = {}
    if tdm:
        prog = sf.TDMProgram(N=list(tdm["N"]), name=spec.get("name"))
        ctx = prog.context(*[list(r) for r in tdm["params"]])
    else:
        prog = sf.Program(spec["n"], name=spec.get("name"))
        ctx = prog.context
    free = {}
    for op in spec["ops"]:
        for p in op.get("pars", []):
            if isinstance(p, dict) and "free" in p and p["free"] not in free:
                free[p["free"]] = prog.params(p["free"])
    with ctx as c:
        loop, q = c if tdm else ([], c)
        q = list(q)
        for op in spec["ops"]:
            if op["cls"] == "Del":
                regs = [q[i] for i in op["regs"]]
                ops.Del | (regs if len(regs) > 1 else regs[0])
                continue
            if op["cls"] == "New":
                q += list(ops.New(len(op["regs"])))
                continue
            cls = getattr(ops, op["cls"])
            key = None
            if op_cache is not None and all(par_kind(x) in ("numeric", "array", "array1d") for x in op.get("pars", [])):
                key = json.dumps([op["cls"], op.get("pars"), op.get("kw"), op.get("select"), op.get("dark"),
                                  bool(op.get("dagger"))], sort_keys=True, default=str)
            if key is not None and key in op_cache:
                o = op_cache[key]
            else:
                pars = [make_par(p, q, free, loop) for p in op.get("pars", [])]
                kw = {k: (make_par(v, q, free, loop)) for k, v in op.get("kw", {}).items()}
                if op.get("select") is not None:
                    kw["select"] = make_par(op["select"], q, free, loop)
                if op.get("dark") is not None:
                    kw["dark_counts"] = make_par(op["dark"], q, free, loop)
                o = cls(*pars, **kw)
                if op.get("dagger"):
                    o = o.H
                if key is not None:
                    op_cache[key] = o
            regs = [q[i] for i in op["regs"]]
            o | (regs if len(regs) > 1 else regs[0])
    if spec.get("target") is not None:
        prog._target = spec["target"]
    if spec.get("shots") is not None:
        prog.run_options["shots"] = spec["shots"]
    if spec.get("cutoff") is not None:
        prog.backend_options["cutoff_dim"] = spec["cutoff"]
    for k, v in (spec.get("run_extra") or {}).items():
        prog.run_options[k] = v
    for k, v in (spec.get("backend_extra") or {}).items():
        prog.backend_options[k] = v
    hist = spec.get("history")
    if hist:
        # state kept between calls: parameters hold values after binding / after a run
        if hist.get("bind"):
            prog.bind_params({free[k]: v for k, v in hist["bind"].items() if k in free})
        if hist.get("run"):
            tgt, prog._target = prog._target, None
            ro, bo = dict(prog.run_options), dict(prog.backend_options)
            prog.run_options.clear(); prog.backend_options.clear()
            np.random.seed(sum(map(ord, spec.get("name", ""))) % 9973)     # the same outcomes on every rebuild
            sf.Engine("gaussian").run(prog, args={k: v for k, v in hist.get("args", {}).items() if k in free})
            prog._target = tgt
            prog.run_options.update(ro); prog.backend_options.update(bo)
    return prog


# ------------------------------------------------------------------------------------------ canonical JSON

def rat(x):
    f = Fraction(float(x))
    return [f.numerator, f.denominator]


def sc(x):
    if isinstance(x, (bool, np.bool_)):
        raise Unrep("bool")
    if isinstance(x, (int, np.integer)):
        return {"i": int(x)}
    if isinstance(x, (float, np.floating)):
        if not np.isfinite(x):
            raise Unrep("non-finite")
        return {"f": rat(x)}
    if isinstance(x, (complex, np.complexfloating)):
        return {"c": [rat(x.real), rat(x.imag)]}
    raise Unrep(type(x).__name__)


def is_ptype(s):
    return isinstance(s, str) and re.fullmatch(r"p\d+", s) is not None


def _is_measured(s):
    import strawberryfields.parameters as sfpar
    return isinstance(s, sfpar.MeasuredParameter) or re.fullmatch(r"q\d+", getattr(s, "name", "")) is not None


def face(a, loop_vars):
    atom = bool(getattr(a, "is_symbol", False))
    if atom:
        plain = a.name
    else:
        import sympy
        f = a
        for s in a.free_symbols:
            f = f.subs(s, sympy.Symbol(s.name))
        plain = str(f)
    loop = None
    for i, p in enumerate(loop_vars):
        if str(p) == str(a):
            loop = i
    return dict(text=str(a), plain=plain, atom=atom, loop=loop)


def current_value(a):
    """the number the expression evaluates to right now (constant, or all atoms bound / measured), else None"""
    import strawberryfields.parameters as sfpar
    try:
        v = sfpar.par_evaluate(a)
        v = np.asarray(v)
        return sc(v.item()) if v.ndim == 0 else None
    except Exception:  # noqa: BLE001   (ParameterError, or a plain Symbol that cannot be evaluated)
        return None


def sym_json(a, loop_vars):
    """an expression of a *program*: its measured atoms are MeasuredParameter objects; the subsystem is read from
    the RegRef they point to (never from the name)"""
    import strawberryfields.parameters as sfpar
    syms = list(a.free_symbols)
    meas = sorted({s.regref.ind for s in syms if isinstance(s, sfpar.MeasuredParameter)})
    frees = sorted({s.name for s in syms if not isinstance(s, sfpar.MeasuredParameter)})
    return dict(pos=face(a, loop_vars), neg=face(-a, loop_vars), meas=meas, frees=frees, val=current_value(a))


def isym_json(a, loop_vars=()):
    """an expression as an IR holds it: printed forms and the NAMES of its symbols.  Order of the names: those of
    the form q<digits> by number, then the others alphabetically (the order in which the model's writer lists them)"""
    names = {s.name for s in a.free_symbols}
    qs = sorted((n for n in names if re.fullmatch(r"q[0-9]+", n)), key=lambda n: (int(n[1:]), n))
    return dict(pos=face(a, loop_vars), neg=face(-a, loop_vars), names=qs + sorted(names - set(qs)), val=current_value(a))


def strip_val(j):
    """the same canonical form without the values currently held by symbolic parameters"""
    if isinstance(j, dict):
        return {k: strip_val(v) for k, v in j.items() if not (k == "val" and "pos" in j)}
    if isinstance(j, list):
        return [strip_val(v) for v in j]
    return j


def parse_expression(s, k_loop=0):
    """what the readers must make of an expression string (independent of parameters.par_from_str):
    canonical Sym of the expression over FreeParameter / measured atoms; None if SymPy cannot parse it"""
    import sympy
    from sympy.parsing.sympy_parser import parse_expr
    import strawberryfields.parameters as sfpar
    t = s.replace("{", "").replace("}", "")
    names = set()
    for m in re.finditer(r"[A-Za-z_]\w*", t):
        if m.start() > 0 and (t[m.start() - 1].isalnum() or t[m.start() - 1] in "._"):
            continue            # inside a number such as 1e-05
        rest = t[m.end():].lstrip()
        if not rest.startswith("("):
            names.add(m.group(0))
    try:
        e = parse_expr(t, local_dict={n: sympy.Symbol(n) for n in names})
        # printed forms in SF notation (free parameters in braces); the symbols stay names
        e = e.subs({x: sfpar.FreeParameter(x.name) for x in e.free_symbols if not re.fullmatch(r"q[0-9]+", x.name)})
        return isym_json(e, [sfpar.FreeParameter(f"p{i}") for i in range(k_loop)])
    except Exception:  # noqa: BLE001
        return None


def _strings(j, out):
    if isinstance(j, dict):
        if set(j) == {"str"}:
            out.add(j["str"])
        for v in j.values():
            _strings(v, out)
    elif isinstance(j, list):
        for v in j:
            _strings(v, out)


def parse_table(irj, braces_only, k_loop=0):
    """the table P handed to the model readers: [string, Sym] for the strings of the IR"""
    ss = set()
    _strings(irj.get("ops", irj.get("stmts")), ss)
    out = []
    for x in sorted(ss):
        if braces_only and "{" not in x:
            continue
        e = parse_expression(x, k_loop)
        if e is not None:
            out.append([x, e])
    return out


def _shape_flat(x):
    a = np.array(x)
    if a.dtype == object:
        raise Unrep("ragged")
    return list(a.shape), [sc(v) for v in a.flatten().tolist()]


def val_json(v, tdm=False, loop_vars=(), ir=False):
    """canonical form of an operation parameter (ir=False) or IR argument (ir=True)"""
    import sympy
    import blackbird
    if isinstance(v, blackbird.RegRefTransform):
        return {"rrt": isym_json(v.expr, loop_vars)}
    if isinstance(v, sympy.Basic):
        return {"sym": sym_json(v, loop_vars)}
    if isinstance(v, str):
        if ir and tdm and is_ptype(v):
            return {"pname": int(v[1:])}
        return {"str": v}
    if isinstance(v, np.ndarray):
        sh, d = _shape_flat(v)
        return {"arr": {"shape": sh, "data": d}}
    if isinstance(v, (list, tuple)):
        if any(isinstance(x, (list, tuple, np.ndarray)) for x in v):
            sh, d = _shape_flat(v)
            return {"arr": {"shape": sh, "data": d}}
        return {"lst": [sc(x) for x in v]}
    return {"sc": sc(v)}


def cmd_json(cmd, loop_vars=()):
    op = cmd.op
    sel = getattr(op, "select", None)
    dark = getattr(op, "dark_counts", None)
    return dict(cls=type(op).__name__, regs=[r.ind for r in cmd.reg],
                pars=[val_json(x, loop_vars=loop_vars) for x in op.p],
                dagger=bool(getattr(op, "dagger", False)),
                select=None if sel is None else val_json(sel, loop_vars=loop_vars),
                dark=None if dark is None else val_json(dark, loop_vars=loop_vars), kw=[])


def prog_json(prog):
    from strawberryfields.tdm import TDMProgram
    tdm = isinstance(prog, TDMProgram)
    loop = list(prog.loop_vars) if tdm else []
    t = None
    if tdm:
        t = dict(N=[int(x) for x in prog.N], params=[[sc(x) for x in np.array(r).tolist()] for r in prog.tdm_params])
    extra = [[k, val_json(v)] for k, v in prog.run_options.items() if k != "shots"] + \
        [[k, val_json(v)] for k, v in prog.backend_options.items() if k != "cutoff_dim"]
    return dict(name=str(prog.name), n=len(prog.reg_refs), target=prog.target,
                shots=prog.run_options.get("shots"), cutoff=prog.backend_options.get("cutoff_dim"),
                tdm=t, extra=extra, cmds=[cmd_json(c, loop) for c in prog.circuit])


def bb_json(bb):
    tdm = bb.programtype["name"] == "tdm"
    ops = []
    for o in bb.operations:
        ops.append(dict(op=o["op"], modes=[int(m) for m in o["modes"]],
                        args=[val_json(a, tdm, ir=True) for a in o.get("args", [])],
                        kwargs=[[k, val_json(v, tdm, ir=True)] for k, v in o.get("kwargs", {}).items()]))
    opts = bb.target["options"] or {}
    return dict(name=str(bb.name), modes=sorted(int(m) for m in bb.modes), target=bb.target["name"],
                shots=opts.get("shots"), cutoff=opts.get("cutoff_dim"),
                tdm=(bb.programtype["options"].get("temporal_modes") if tdm else None),
                vars=[[sc(x) for x in np.array(v).flatten().tolist()] for k, v in bb._var.items() if is_ptype(k)],
                extra=[[k, val_json(v)] for k, v in opts.items() if k not in ("shots", "cutoff_dim")],
                ops=ops)


def xir_json(x):
    opts = x.options
    tdm = opts.get("_type_") == "tdm"
    stmts = []
    for s in x.statements:
        ps = s.params
        if not ps:
            pos, kw = [], None          # canonical form of "no parameters" ({} and [] read the same)
        elif isinstance(ps, dict):
            pos, kw = None, [[k, val_json(v, tdm, ir=True)] for k, v in ps.items()]
        else:
            pos, kw = [val_json(v, tdm, ir=True) for v in ps], None
        stmts.append(dict(name=s.name, pos=pos, kw=kw, wires=[int(w) for w in s.wires], inv=bool(s.is_inverse)))
    return dict(tdmN=([int(v) for v in opts["N"]] if tdm and "N" in opts else None), name=opts.get("_name_"),
                target=opts.get("target"), cutoff=opts.get("cutoff_dim"), shots=opts.get("shots"),
                consts=[[sc(v) for v in val] for key, val in x.constants.items() if is_ptype(key)],
                stmts=stmts)


def err_json(e):
    n = type(e).__name__
    return {"err": n if n in ("ValueError", "TypeError", "IndexError", "NameError") else "Other:" + n}


# ------------------------------------------------------------------------------------------ generators

GATES1 = {"Rgate": 1, "Sgate": 2, "Dgate": 2, "Xgate": 1, "Zgate": 1, "Pgate": 1, "Vgate": 1, "Kgate": 1}
GATES2 = {"BSgate": 2, "S2gate": 2, "CXgate": 1, "CZgate": 1, "CKgate": 1, "MZgate": 2}
CHANNELS = {"LossChannel": 1, "ThermalLossChannel": 2}
PREPS = {"Vacuum": 0, "Coherent": 2, "Squeezed": 2, "DisplacedSqueezed": 4, "Thermal": 1, "Fock": 1}
NEG_INVERTS = {"Xgate", "Zgate", "Rgate", "Pgate", "Vgate", "Kgate", "CXgate", "CZgate", "CKgate", "Dgate",
               "Sgate", "BSgate", "S2gate"}
GAUSSIAN = {"Rgate", "Sgate", "Dgate", "Xgate", "Zgate", "Pgate", "BSgate", "S2gate", "CXgate", "CZgate", "MZgate",
            "LossChannel", "ThermalLossChannel", "Vacuum", "Coherent", "Squeezed", "DisplacedSqueezed", "Thermal",
            "Interferometer", "GaussianTransform", "Gaussian", "GraphEmbed", "BipartiteGraphEmbed", "Fouriergate"}
PI = float(np.pi)


def number(rng, cls, j):
    if cls == "LossChannel" or (cls == "ThermalLossChannel" and j == 0):
        return rng.choice([0.25, 0.5, 0.75, 1.0])
    if cls == "ThermalLossChannel":
        return rng.choice([0.5, 1.0, 0.25])
    if cls == "Thermal":
        return rng.choice([0.0, 0.5, 1.25])
    if cls == "Fock":
        return rng.randint(0, 2)
    if cls in ("Coherent", "DisplacedSqueezed", "Squeezed") and j in (0, 2):
        return rng.choice([0.0, 0.25, 0.5, 0.3])
    r = rng.random()
    if r < 0.15:
        return rng.choice([0, 1, -1, 2])                      # Python ints
    if r < 0.3:
        return rng.choice([PI, PI / 2, -PI / 4, 5 * PI / 12, 0.1, -0.3, 1e-3, 0.7])   # non-dyadic floats
    return rng.randint(-6, 6) / 8


def unitary(rng, k):
    """a k x k unitary with dyadic-ish entries: a permutation with phases"""
    perm = list(range(k))
    rng.shuffle(perm)
    kind = rng.choice(["int", "float", "complex"])
    rows = []
    for i in range(k):
        row = []
        for j in range(k):
            on = perm[i] == j
            if kind == "int":
                row.append(1 if on else 0)
            elif kind == "float":
                row.append((rng.choice([1.0, -1.0]) if on else 0.0))
            else:
                row.append(list(rng.choice([(1.0, 0.0), (0.0, 1.0), (0.0, -1.0), (-1.0, 0.0)])) if on else [0.0, 0.0])
        rows.append(row)
    return {"arr": rows, "dtype": kind}


def rand_spec(rng, idx, features):
    """features: set of strings enabling parameter kinds / classes beyond plain numbers:
    'dagger', 'meas', 'measured', 'free', 'array', 'array1d', 'kwargs', 'fourier', 'string', 'options',
    'options_no_target', 'unused_tail', 'complexnum', 'mz'"""
    n = rng.randint(1, 5)
    if "wide" in features:
        n = rng.randint(11, 14)          # two-digit subsystem indices
    L = rng.randint(1, 7)
    ops, measured = [], []
    if "wide" in features and "measured" in features:
        # measure high-index and low-index modes first, so that feed-forward can use q10, q11, … and mix them with q1
        for m in rng.sample([10, 11, 12, 13][:n - 10], rng.randint(1, min(2, n - 10))) + rng.sample(range(1, 4), rng.randint(0, 2)):
            ops.append(dict(cls="MeasureHomodyne", regs=[m], pars=[0.0], select=rng.choice([None, 0.25, -0.5])))
            measured.append(m)
    for _ in range(L):
        kinds = ["gate1", "gate1", "gate2", "channel", "prep"]
        if "meas" in features:
            kinds += ["meas", "meas"]
        if "array" in features:
            kinds += ["decomp"]
        if "kwargs" in features:
            kinds += ["kwdecomp"]
        if "fourier" in features:
            kinds += ["fourier"]
        if "array1d" in features:
            kinds += ["ket"]
        if "string" in features:
            kinds += ["cat"]
        kind = rng.choice([k for k in kinds if not (k in ("gate2", "decomp", "kwdecomp") and n < 2)])
        op = None
        if kind in ("gate1", "gate2", "channel", "prep"):
            table = dict(gate1=GATES1, gate2=GATES2, channel=CHANNELS, prep=PREPS)[kind]
            names = [c for c in table if c != "MZgate" or "mz" in features]
            cls = rng.choice(names)
            regs = rng.sample(range(n), 2) if kind == "gate2" else [rng.randrange(n)]
            pars = [number(rng, cls, j) for j in range(table[cls])]
            op = dict(cls=cls, regs=regs, pars=pars)
            isgate = kind in ("gate1", "gate2")
            if isgate and "dagger" in features and rng.random() < 0.35:
                op["dagger"] = True
            avail = [m for m in measured if m not in regs]
            if isgate and pars and "measured" in features and avail and rng.random() < (0.7 if "wide" in features else 0.4):
                pars[0] = {"m": rng.choice(avail), "k": rng.choice([1, 2, 0.5, -1]), "fn": rng.choice([None, None, "sin"])}
                if len(avail) >= 2 and rng.random() < 0.5:
                    # an expression of two measured modes, e.g. q1 - q10
                    m2 = rng.choice([m for m in avail if m != pars[0]["m"]])
                    pars[0] = {"m": pars[0]["m"], "k": pars[0]["k"], "fn": None, "m2": m2, "k2": rng.choice([1, -1, 2])}
            elif isgate and pars and "free" in features and rng.random() < 0.4:
                pars[rng.randrange(len(pars))] = {"free": rng.choice(["x", "alpha", "y1", "gamma", "beta", "E", "q1x", "q_factor", "quality", "pump", "p3x"]),
                                                 "k": rng.choice([1, 1, 2, -0.5]),
                                                 "add": rng.choice([0, 0, 1])}
            elif kind == "gate1" and cls in ("Sgate", "Dgate") and "complexnum" in features and rng.random() < 0.3:
                pars[0] = abs(pars[0]) if not isinstance(pars[0], dict) else pars[0]
        elif kind == "meas":
            r = rng.random()
            if r < 0.35:
                cls = rng.choice(["MeasureFock", "MeasureFock", "MeasureThreshold"])
                regs = rng.sample(range(n), rng.randint(1, min(n, 3)))
                op = dict(cls=cls, regs=regs, pars=[])
                r2 = rng.random()
                if r2 < 0.35:
                    op["select"] = {"list": [rng.randint(0, 2 if cls == "MeasureFock" else 1) for _ in regs]}
                elif r2 < 0.6 and cls == "MeasureFock":
                    op["dark"] = {"list": [rng.choice([0.125, 0.25, 0.1]) for _ in regs]}
            elif r < 0.75:
                regs = [rng.randrange(n)]
                op = dict(cls="MeasureHomodyne", regs=regs, pars=[rng.choice([0, 0.0, 0.25, PI / 2, -0.5, 0.3])])
                if rng.random() < 0.4:
                    op["select"] = rng.choice([0.0, 0.5, -0.25, 1, 0.1])
            else:
                regs = [rng.randrange(n)]
                op = dict(cls="MeasureHeterodyne", regs=regs, pars=[])
                if rng.random() < 0.4:
                    op["select"] = rng.choice([{"c": [0.5, 0.25]}, {"c": [0.0, -1.0]}, 0.5])
            for r_ in regs:
                if r_ not in measured:
                    measured.append(r_)
        elif kind == "decomp":
            k = rng.randint(2, min(n, 3))
            regs = rng.sample(range(n), k)
            if rng.random() < 0.6:
                op = dict(cls="Interferometer", regs=regs, pars=[unitary(rng, k)])
            else:
                S = np.eye(2 * k)
                a, b = rng.sample(range(k), 2) if k >= 2 else (0, 0)
                S[[a, b]] = S[[b, a]]
                S[[k + a, k + b]] = S[[k + b, k + a]]
                op = dict(cls="GaussianTransform", regs=regs, pars=[{"arr": S.tolist(), "dtype": "float"}])
        elif kind == "kwdecomp":
            k = 2
            regs = rng.sample(range(n), k)
            A = {"arr": [[0, 1], [1, 0]], "dtype": rng.choice(["int", "float"])}
            r = rng.random()
            if r < 0.4:
                op = dict(cls="GraphEmbed", regs=regs, pars=[A], kw=dict(mean_photon_per_mode=rng.choice([0.5, 0.25])))
            elif r < 0.7 and n >= 4:
                op = dict(cls="BipartiteGraphEmbed", regs=rng.sample(range(n), 4), pars=[A],
                          kw=dict(edges=True, mean_photon_per_mode=0.5))
            else:
                op = dict(cls="GraphEmbed", regs=regs, pars=[A])
        elif kind == "fourier":
            op = dict(cls="Fouriergate", regs=[rng.randrange(n)], pars=[])
        elif kind == "ket":
            if rng.random() < 0.5:
                op = dict(cls="Ket", regs=[rng.randrange(n)], pars=[{"arr": [0.0, 1.0, 0.0], "dtype": "float"}])
            elif n >= 2:
                k = 2
                op = dict(cls="Gaussian", regs=rng.sample(range(n), k),
                          pars=[{"arr": np.eye(2 * k).tolist(), "dtype": "float"},
                                {"arr": [0.5, 0.0, 0.0, 0.25], "dtype": "float"}])
            else:
                continue
        elif kind == "cat":
            op = dict(cls="Catstate", regs=[rng.randrange(n)], pars=[0.5, 0.25, 0])
        ops.append(op)
    if not ops:
        ops.append(dict(cls="Vacuum", regs=[0], pars=[]))
    if "repeat" in features:
        # the same kind of command several times, each carrying its option: inverted gates of one class,
        # post-selected homodyne measurements, MeasureFock with dark counts / post-selection
        cls = rng.choice(["Sgate", "Rgate", "Dgate", "Zgate"])
        for _ in range(rng.randint(2, 4)):
            ops.insert(rng.randint(0, len(ops)), dict(cls=cls, regs=[rng.randrange(n)],
                                                      pars=[number(rng, cls, j) for j in range(GATES1[cls])], dagger=True))
        if n >= 2:
            cls = rng.choice(["BSgate", "S2gate", "CZgate"])
            for _ in range(rng.randint(2, 3)):
                ops.insert(rng.randint(0, len(ops)), dict(cls=cls, regs=rng.sample(range(n), 2),
                                                          pars=[number(rng, cls, j) for j in range(GATES2[cls])], dagger=True))
        for _ in range(rng.randint(2, 4)):
            ops.append(dict(cls="MeasureHomodyne", regs=[rng.randrange(n)], pars=[rng.choice([0.0, 0.25, PI / 2])],
                            select=rng.choice([0.0, 0.5, -0.25])))
        for _ in range(rng.randint(2, 3)):
            regs = rng.sample(range(n), rng.randint(1, min(n, 2)))
            o = dict(cls="MeasureFock", regs=regs, pars=[])
            if rng.random() < 0.5:
                o["dark"] = {"list": [rng.choice([0.125, 0.25]) for _ in regs]}
            else:
                o["select"] = {"list": [rng.randint(0, 2) for _ in regs]}
            ops.append(o)
    if "share" in features:
        # re-apply earlier operations (the builder turns equal operations into one shared instance)
        cands = [o for o in ops if o["cls"] not in ("Del", "New") and all(par_kind(x) in ("numeric", "array") for x in o.get("pars", []))]
        for _ in range(rng.randint(2, 4)):
            if not cands:
                break
            o = dict(rng.choice(cands))
            k = len(o["regs"])
            if k > n:
                continue
            o["regs"] = rng.sample(range(n), k)
            ops.insert(rng.randint(0, len(ops)), o)
    if "delnew" in features:
        d = rng.randrange(n)
        last = max([i for i, o in enumerate(ops) if d in o["regs"]] + [-1])
        t = rng.randint(last + 1, len(ops))
        ops.insert(t, dict(cls="Del", regs=[d], pars=[]))
        if rng.random() < 0.6:
            k = rng.randint(1, 2)
            new = list(range(n, n + k))
            t2 = rng.randint(t + 1, len(ops))
            ops.insert(t2, dict(cls="New", regs=new, pars=[]))
            for m in new:
                ops.insert(rng.randint(t2 + 1, len(ops)), dict(cls="Sgate", regs=[m], pars=[0.25, 0.0], dagger=rng.random() < 0.5))
    if "delnew" not in features and ("unused_tail" not in features or rng.random() < 0.5):
        used = max(max(o["regs"]) for o in ops)
        # make the last mode used (otherwise the trailing modes cannot come back)
        if used < n - 1 and "unused_tail" not in features:
            ops.append(dict(cls="Vacuum", regs=[n - 1], pars=[]))
    spec = dict(name=f"g{idx}", n=n, target=None, shots=None, cutoff=None, tdm=None, ops=ops)
    if "share" in features:
        spec["share"] = True
    if "options" in features and rng.random() < 0.7:
        spec["target"] = rng.choice(["gaussian", "fock", "gbs", "X8_01"])
        if rng.random() < 0.7:
            spec["shots"] = rng.randint(1, 50)
        if rng.random() < 0.6:
            spec["cutoff"] = rng.randint(3, 9)
    if "extra_opts" in features and rng.random() < 0.6:
        spec["target"] = spec["target"] or "gaussian"
        spec["shots"] = spec["shots"] or 3
        if rng.random() < 0.7:
            spec["run_extra"] = {"seed": rng.randint(1, 9)}
        if rng.random() < 0.7:
            spec["backend_extra"] = {"batch_size": rng.randint(2, 4)}
    if "options_no_target" in features and spec["target"] is None and rng.random() < 0.5:
        spec["shots"] = rng.randint(1, 50)
        spec["cutoff"] = rng.choice([None, 5])
    return spec


def rand_history_spec(rng, idx):
    """a runnable Gaussian feed-forward program with free parameters, plus a history: the parameters
    were bound, or the program was run, before it is written (state kept between calls)"""
    n = rng.randint(2, 4)
    ops, measured = [], []
    names = ["x", "alpha"]
    for _ in range(rng.randint(2, 6)):
        r = rng.random()
        free_modes = [m for m in range(n) if m not in measured]
        if r < 0.3 and len(free_modes) > 1:
            m = rng.choice(free_modes)
            ops.append(dict(cls="MeasureHomodyne", regs=[m], pars=[rng.choice([0.0, 0.25, PI / 2])]))
            measured.append(m)
            continue
        if not free_modes:
            break
        cls = rng.choice(["Rgate", "Sgate", "Dgate", "Zgate", "Xgate"])
        regs = [rng.choice(free_modes)]
        pars = [rng.randint(-4, 4) / 8 for j in range(GATES1[cls])]
        r2 = rng.random()
        if measured and r2 < 0.45:
            pars[0] = {"m": rng.choice(measured), "k": rng.choice([1, 2, 0.5, -1]), "fn": rng.choice([None, None, "sin"])}
        elif r2 < 0.8:
            pars[0] = {"free": rng.choice(names), "k": rng.choice([1, 1, 2, -0.5]), "add": rng.choice([0, 0, 1])}
        op = dict(cls=cls, regs=regs, pars=pars)
        if rng.random() < 0.3:
            op["dagger"] = True
        ops.append(op)
    if not ops:
        ops.append(dict(cls="Rgate", regs=[0], pars=[{"free": "x", "k": 1, "add": 0}]))
    used = max(max(o["regs"]) for o in ops)
    if used < n - 1:
        ops.append(dict(cls="Vacuum", regs=[n - 1], pars=[]))
    vals = {"x": rng.choice([0.25, 0.5, -0.125]), "alpha": rng.choice([0.75, 0.125])}
    spec = dict(name=f"h{idx}", n=n, target=None, shots=None, cutoff=None, tdm=None, ops=ops)
    spec["history"] = rng.choice([dict(bind=vals), dict(run=True, args=vals), dict(run=True, args=vals)])
    return spec


def rand_tdm_spec(rng, idx, features):
    """features: 'dagger', 'loopexpr', 'nlist', 'options', 'select'"""
    N = [rng.randint(1, 3)]
    if "nlist" in features and rng.random() < 0.6:
        N = [rng.randint(1, 2) for _ in range(rng.randint(2, 3))]
    if "wide" in features:
        N = [rng.randint(11, 13)] if rng.random() < 0.5 else [rng.randint(5, 7), rng.randint(5, 7)]
    n = sum(N)
    k = rng.randint(1, 4)
    if "wide" in features:
        k = rng.randint(11, 13)          # loop variables p10, p11, …
    T = rng.randint(1, 4)
    if "wide" in features:
        T = rng.choice([2, 11, 12])      # two-digit bin indices
    params = []
    for _ in range(k):
        kind = rng.choice(["float", "float", "int", "pi"])
        if kind == "int":
            params.append([rng.randint(-3, 3) for _ in range(T)])
        elif kind == "pi":
            params.append([rng.choice([PI, PI / 2, 0.0, -PI / 4, 5 * PI / 12, 0.1]) for _ in range(T)])
        else:
            params.append([rng.randint(-8, 8) / 8 for _ in range(T)])
    ops = []
    unused = list(range(k))
    rng.shuffle(unused)
    L = rng.randint(max(1, (k + 1) // 2), k + 3)
    if "wide" in features:
        unused = sorted(unused)          # pop() takes the highest loop variables first
    for _ in range(L):
        kind = rng.choice(["gate1", "gate1", "gate2", "meas"] if n >= 2 else ["gate1", "gate1", "meas"])
        if kind == "gate1":
            cls = rng.choice(["Rgate", "Sgate", "Dgate", "Zgate", "Xgate"])
            regs = [rng.randrange(n)]
            pars = [number(rng, cls, j) for j in range(GATES1[cls])]
        elif kind == "gate2":
            cls = rng.choice(["BSgate", "S2gate", "CZgate"])
            regs = rng.sample(range(n), 2)
            pars = [number(rng, cls, j) for j in range(GATES2[cls])]
        else:
            cls = "MeasureHomodyne"
            regs = [rng.randrange(n)]
            pars = [rng.choice([0.0, 0.25, PI / 2])]
        op = dict(cls=cls, regs=regs, pars=pars)
        for j in range(len(pars)):
            if rng.random() < 0.6:
                i = unused.pop() if unused else rng.randrange(k)
                pars[j] = {"loop": i}
                if "loopexpr" in features and rng.random() < 0.3:      # also the phase of a measurement
                    pars[j]["k"] = rng.choice([2, -1, 0.5])
        if kind != "meas" and "dagger" in features and rng.random() < 0.3:
            op["dagger"] = True
        if kind == "meas" and "select" in features and rng.random() < 0.3:
            op["select"] = rng.choice([0.0, 0.5])
        ops.append(op)
    used = max(max(o["regs"]) for o in ops)
    if used < n - 1:
        ops.append(dict(cls="Vacuum", regs=[n - 1], pars=[]))
    spec = dict(name=f"t{idx}", n=n, target=None, shots=None, cutoff=None, tdm=dict(N=N, params=params), ops=ops)
    if "options" in features and rng.random() < 0.6:
        spec["target"] = rng.choice(["TD2", "gaussian"])
        spec["shots"] = rng.randint(1, 20)
        if rng.random() < 0.5:
            spec["cutoff"] = rng.randint(3, 9)
    return spec


def par_kind(p):
    if not isinstance(p, dict):
        return "numeric"
    if "c" in p:
        return "numeric"
    if "arr" in p:
        return "array1d" if not isinstance(p["arr"][0], list) else "array"
    if "s" in p:
        return "string"
    if "list" in p:
        return "list"
    if "m" in p:
        if p.get("fn"):
            # the XIR library parser drops the argument of a negated call: "-sin(q1)" is read as "-sin"
            return "measured-negfn" if p.get("k", 1) == -1 else "measured-fn"
        return "measured"
    if "free" in p:
        return "free"
    if "loop" in p:
        return "loopexpr" if p.get("k", 1) != 1 else "loop"
    return "other"


# ------------------------------------------------------------------------------------------ generated code

_PI = re.compile(r"^(?:(-?\d+)\*)?np\.pi(?:/(\d+))?$")


def pyarg_json(src):
    """canonical form of one printed argument (source text)"""
    import ast
    src = src.strip()
    m = _PI.match(src)
    if m:
        return {"pi": [int(m.group(1) or 1), int(m.group(2) or 1)]}
    m = re.fullmatch(r"p\[(\d+)\]", src)
    if m:
        return {"loop": int(m.group(1))}
    try:
        v = ast.literal_eval(src)
        if isinstance(v, (int, float, complex)) and not isinstance(v, bool):
            return {"lit": sc(v)}
    except Exception:  # noqa: BLE001
        pass
    return {"text": re.sub(r"p\[(\d+)\]", r"{p\1}", src)}


def code_json(code):
    """the structure of the text generate_code returns (parsed with `ast`), in the encoding of `jCode`"""
    import ast
    tree = ast.parse(code)
    seg = lambda node: ast.get_source_segment(code, node)
    out = dict(tdmN=None, n=0, ctx=[], lines=[])
    for st in tree.body:
        if isinstance(st, ast.Assign) and seg(st.targets[0]) == "prog":
            call = st.value
            if seg(call.func) == "sf.TDMProgram":
                out["tdmN"] = [int(x) for x in ast.literal_eval(seg(call.keywords[0].value))]
            else:
                out["n"] = int(ast.literal_eval(seg(call.args[0])))
        if isinstance(st, ast.With):
            cx = st.items[0].context_expr
            if isinstance(cx, ast.Call):
                out["ctx"] = [[pyarg_json(seg(e)) for e in a.elts] for a in cx.args]
            for ln in st.body:
                e = ln.value            # <op> | <modes>
                left, right = e.left, e.right
                dagger = isinstance(left, ast.Attribute) and left.attr == "H"
                call = left.value if dagger else left
                kws = {k.arg: val_json(ast.literal_eval(seg(k.value))) for k in call.keywords}
                modes = [right] if isinstance(right, ast.Subscript) else list(right.elts)
                out["lines"].append(dict(cls=seg(call.func).split(".")[-1], args=[pyarg_json(seg(a)) for a in call.args],
                                         select=kws.get("select"), dark=kws.get("dark_counts"), dagger=dagger,
                                         modes=[int(ast.literal_eval(seg(m.slice))) for m in modes]))
    return out
