"""C17 helpers: INDEPENDENT reconstruction of every decomposition of strawberryfields/decompositions.py
from the documented formulas (docstrings / papers), certificate checks, and input generators.

Nothing in this file calls SF's T/Ti/mach_zehnder/M/P helpers: the 2x2 blocks are written out again from
the formulas in the docstrings, embedded by our own `emb2`, and multiplied in the documented order."""
import cmath
import math

import numpy as np

# ----------------------------------------------------------------------------------------------
# documented 2x2 blocks


def emb2(N, m, n, blk):
    """identity of size N with the 2x2 block `blk` on rows/columns (m, n)"""
    out = np.identity(N, dtype=np.complex128)
    out[m, m], out[m, n], out[n, m], out[n, n] = blk[0][0], blk[0][1], blk[1][0], blk[1][1]
    return out


def blkT(theta, phi):
    """Clements T (Eq. 1): [[e^{i phi} cos, -sin], [e^{i phi} sin, cos]]"""
    e = cmath.exp(1j * phi)
    c, s = math.cos(theta), math.sin(theta)
    return [[e * c, -s], [e * s, c]]


def blkTinv(theta, phi):
    """inverse (= conjugate transpose) of T"""
    e = cmath.exp(-1j * phi)
    c, s = math.cos(theta), math.sin(theta)
    return [[e * c, e * s], [-s, c]]


def blkMZ(phi_i, phi_e):
    """docstring of mach_zehnder: i e^{i phi_i/2} [[sin(phi_i/2) e^{i phi_e}, cos(phi_i/2)],
    [cos(phi_i/2) e^{i phi_e}, -sin(phi_i/2)]]"""
    g = 1j * cmath.exp(1j * phi_i / 2)
    c, s = math.cos(phi_i / 2), math.sin(phi_i / 2)
    e = cmath.exp(1j * phi_e)
    return [[g * s * e, g * c], [g * c * e, -g * s]]


def blkMZinv(phi_i, phi_e):
    b = np.array(blkMZ(phi_i, phi_e)).conj().T
    return [[b[0, 0], b[0, 1]], [b[1, 0], b[1, 1]]]


def blkSMZ(sigma, delta):
    """sMZI (Eq. 1 of arXiv:2104.07561): e^{i sigma} [[sin d, cos d], [cos d, -sin d]]"""
    e = cmath.exp(1j * sigma)
    c, s = math.cos(delta), math.sin(delta)
    return [[e * s, e * c], [e * c, -e * s]]


def blkSU2(a, b, g):
    """docstring of _su2_parameters"""
    c, s = math.cos(b / 2), math.sin(b / 2)
    return [[cmath.exp(1j * (a + g) / 2) * c, -cmath.exp(1j * (a - g) / 2) * s],
            [cmath.exp(-1j * (a - g) / 2) * s, cmath.exp(-1j * (a + g) / 2) * c]]


def phase_at(N, j, phi):
    out = np.identity(N, dtype=np.complex128)
    out[j, j] = cmath.exp(1j * phi)
    return out


# ----------------------------------------------------------------------------------------------
# structure checks of the returned parameter lists


def check_tlist(tl, N, what):
    """every entry [m, n, a, b, nmax]: adjacent modes inside the matrix, finite angles, nmax = N"""
    for k, t in enumerate(tl):
        if len(t) != 5:
            return f"{what}[{k}] has {len(t)} fields"
        m, n, a, b, nm = t
        if int(m) != m or int(n) != n or not (0 <= m < N and 0 <= n < N) or n != m + 1:
            return f"{what}[{k}] acts on modes ({m},{n}) of a {N}-mode matrix"
        if nm != N:
            return f"{what}[{k}] carries size {nm}, matrix size is {N}"
        if not (np.isfinite(a) and np.isfinite(b)):
            return f"{what}[{k}] has non-finite angles ({a},{b})"
    return None


def check_diag(d, N, what="diagonal"):
    d = np.asarray(d)
    if d.shape != (N,):
        return f"{what} has shape {d.shape}"
    if not np.all(np.isfinite(d)):
        return f"{what} not finite"
    dev = float(np.max(np.abs(np.abs(d) - 1), initial=0))
    if dev > 1e-8:
        return f"{what} is not a phase vector (| |d|-1 | = {dev:.3g})"
    return None


# ----------------------------------------------------------------------------------------------
# reconstructions (matrix the returned factors denote, by the docstrings)


def rec_rectangular(res, N, blk=blkT, blkinv=blkTinv):
    """(tilist, diags, tlist): localV = T_k..T_1 V Ti_1..Ti_l = D  =>  V = T_1^-1..T_k^-1 D T(ti_l)..T(ti_1)"""
    tilist, diags, tlist = res
    q = np.identity(N, dtype=np.complex128)
    for m, n, a, b, _ in tilist:
        q = emb2(N, int(m), int(n), blk(a, b)) @ q
    q = np.diag(np.asarray(diags)) @ q
    for m, n, a, b, _ in reversed(tlist):
        q = emb2(N, int(m), int(n), blkinv(a, b)) @ q
    return q


def rec_phase_end(res, N, blk=blkT):
    """(tlist, diags, None): V = D T(tlist[-1]) ... T(tlist[0])"""
    tlist, diags, none = res
    q = np.identity(N, dtype=np.complex128)
    for m, n, a, b, _ in tlist:
        q = emb2(N, int(m), int(n), blk(a, b)) @ q
    return np.diag(np.asarray(diags)) @ q


def rec_triangular(res, N):
    """(tlist, diags, None): V = Tinv(tlist[-1]) ... Tinv(tlist[0]) D"""
    tlist, diags, none = res
    q = np.diag(np.asarray(diags)).astype(np.complex128)
    for m, n, a, b, _ in tlist:
        q = emb2(N, int(m), int(n), blkTinv(a, b)) @ q
    return q


def rec_triangular_compact(ph):
    m = ph["m"]
    U = np.identity(m, dtype=np.complex128)
    for j in range(m - 1):
        U = phase_at(m, j + 1, ph["phi_ins"][j]) @ U
        for k in range(j + 1):
            n = j - k
            U = emb2(m, n, n + 1, blkSMZ(ph["sigmas"][n, k], ph["deltas"][n, k])) @ U
    for j in range(m):
        U = phase_at(m, j, ph["zetas"][j]) @ U
    return U


def rec_rectangular_compact(ph):
    m = ph["m"]
    U = np.identity(m, dtype=np.complex128)
    for j in range(0, m - 1, 2):
        U = phase_at(m, j, ph["phi_ins"][j]) @ U
    for layer in range(m):
        if (layer + m + 1) % 2 == 0:
            U = phase_at(m, m - 1, ph["phi_edges"][m - 1, layer]) @ U
        for mode in range(layer % 2, m - 1, 2):
            U = emb2(m, mode, mode + 1, blkSMZ(ph["sigmas"][mode, layer], ph["deltas"][mode, layer])) @ U
    for j, phi in ph["phi_outs"].items():
        U = phase_at(m, j, phi) @ U
    return U


def compact_keys_ok(ph, kind):
    """the parameter dictionaries have exactly the documented keys / index sets"""
    m = ph.get("m")
    if kind == "triangular_compact":
        want_ins = set(range(m - 1))
        want_sd = {(j - k, k) for j in range(m - 1) for k in range(j + 1)}
        if set(ph) != {"m", "phi_ins", "deltas", "sigmas", "zetas"}:
            return f"keys {sorted(ph)}"
        if set(ph["zetas"]) != set(range(m)):
            return f"zetas on {sorted(ph['zetas'])}"
    else:
        want_ins = set(range(0, m - 1, 2))
        want_sd = {(mode, layer) for layer in range(m) for mode in range(layer % 2, m - 1, 2)}
        if set(ph) != {"m", "phi_ins", "deltas", "sigmas", "phi_edges", "phi_outs"}:
            return f"keys {sorted(ph)}"
        if not set(ph["phi_outs"]) <= set(range(m)):
            return f"phi_outs on {sorted(ph['phi_outs'])}"
    if set(ph["phi_ins"]) != want_ins:
        return f"phi_ins on {sorted(ph['phi_ins'])}, expected {sorted(want_ins)}"
    if set(ph["deltas"]) != want_sd or set(ph["sigmas"]) != want_sd:
        return f"sMZI positions {sorted(ph['deltas'])}, expected {sorted(want_sd)}"
    vals = [v for k in ph if k != "m" for v in ph[k].values()]
    if not np.all(np.isfinite(vals)):
        return "non-finite phase"
    return None


def sun_schedule(n):
    """documented order of the SU(2) factors: staircases (n-2,n-1)…(0,1), then (n-2,n-1)…(1,2), …"""
    return [(md1 - 1, md1) for md2 in range(2, n + 1) for md1 in range(n - 1, md2 - 2, -1)]


def rec_sun(res, n):
    """U = e^{i phase/n} * prod_k SU2_{modes_k}(a,b,g) (left to right)"""
    params, phase = res
    U = np.identity(n, dtype=np.complex128)
    for modes, (a, b, g) in params:
        U = U @ emb2(n, int(modes[0]), int(modes[1]), blkSU2(a, b, g))
    if phase is not None:
        U = cmath.exp(1j * phase / n) * U
    return U


def sympmat(n):
    O = np.zeros((2 * n, 2 * n))
    O[:n, n:] = np.identity(n)
    O[n:, :n] = -np.identity(n)
    return O


# ----------------------------------------------------------------------------------------------
# input generators (all randomness from the numpy Generator handed in)


def haar(rs, n):
    z = (rs.standard_normal((n, n)) + 1j * rs.standard_normal((n, n))) / math.sqrt(2)
    q, r = np.linalg.qr(z)
    d = np.diag(r)
    return q * (d / np.abs(d))


def rand_orth(rs, n):
    q, r = np.linalg.qr(rs.standard_normal((n, n)))
    return q * np.sign(np.diag(r))


def perm_matrix(rs, n, phases=False, real=False):
    p = rs.permutation(n)
    P = np.zeros((n, n), dtype=float if real else np.complex128)
    for i, j in enumerate(p):
        P[i, j] = 1
    if phases:
        P = P * np.exp(1j * rs.uniform(0, 2 * np.pi, n))[None, :]
    return P


def block_unitary(rs, sizes):
    n = sum(sizes)
    U = np.zeros((n, n), dtype=np.complex128)
    k = 0
    for s in sizes:
        U[k:k + s, k:k + s] = haar(rs, s)
        k += s
    return U


def split_sizes(rs, n):
    out = []
    while n > 0:
        s = int(rs.integers(1, n + 1))
        out.append(s)
        n -= s
    return out


def rational_circle(rs, dmax=12):
    """exactly representable-ish points on the circle: (1-t^2)/(1+t^2), 2t/(1+t^2)"""
    p, q = int(rs.integers(-dmax, dmax + 1)), int(rs.integers(1, dmax + 1))
    t = p / q
    return (1 - t * t) / (1 + t * t), 2 * t / (1 + t * t)


def givens_product(rs, n, k):
    """product of k real/complex Givens rotations on random adjacent pairs: many exact zeros for small k"""
    U = np.identity(n, dtype=np.complex128)
    for _ in range(k):
        i = int(rs.integers(0, n - 1))
        c, s = rational_circle(rs)
        ph = rs.choice([1, 1j, -1, cmath.exp(1j * rs.uniform(0, 6.28))])
        U = U @ emb2(n, i, i + 1, [[ph * c, -s], [ph * s, c]])
    return U


def unitary_case(rs, n, kind):
    """structured unitary of size n"""
    if kind == "haar":
        return haar(rs, n)
    if kind == "identity":
        return np.identity(n)
    if kind == "identity_c":
        return np.identity(n, dtype=np.complex128)
    if kind == "antiidentity":
        return np.identity(n)[::-1].copy()
    if kind == "perm":
        return perm_matrix(rs, n)
    if kind == "perm_real":
        return perm_matrix(rs, n, real=True)
    if kind == "perm_phase":
        return perm_matrix(rs, n, phases=True)
    if kind == "diag_phase":
        return np.diag(np.exp(1j * rs.uniform(0, 2 * np.pi, n)))
    if kind == "diag_pm":
        return np.diag(rs.choice([1.0, -1.0], n)).astype(np.complex128)
    if kind == "block":
        return block_unitary(rs, split_sizes(rs, n))
    if kind == "block_perm":
        U = block_unitary(rs, split_sizes(rs, n))
        return perm_matrix(rs, n) @ U @ perm_matrix(rs, n)
    if kind == "givens":
        return givens_product(rs, n, int(rs.integers(1, 2 * n + 1)))
    if kind == "orthogonal":
        return rand_orth(rs, n)
    if kind == "orthogonal_c":
        return rand_orth(rs, n).astype(np.complex128)
    if kind == "dft":
        w = np.exp(2j * np.pi / n)
        return np.array([[w ** (i * j) for j in range(n)] for i in range(n)]) / math.sqrt(n)
    if kind == "hadamard_like":
        # real symmetric unitary with a degenerate +-1 spectrum
        v = rs.standard_normal(n)
        v /= np.linalg.norm(v)
        return (np.identity(n) - 2 * np.outer(v, v)).astype(np.complex128)
    if kind == "near_identity":
        # unitary whose first column is within 1e-5..1e-9 of a basis vector (tolerance boundary)
        eps = 10.0 ** (-rs.uniform(3, 9))
        H = rs.standard_normal((n, n)) + 1j * rs.standard_normal((n, n))
        H = (H + H.conj().T) / 2
        w, v = np.linalg.eigh(H)
        return v @ np.diag(np.exp(1j * eps * w)) @ v.conj().T
    if kind == "near_perm":
        eps = 10.0 ** (-rs.uniform(3, 9))
        H = rs.standard_normal((n, n)) + 1j * rs.standard_normal((n, n))
        H = (H + H.conj().T) / 2
        w, v = np.linalg.eigh(H)
        return perm_matrix(rs, n, phases=True) @ (v @ np.diag(np.exp(1j * eps * w)) @ v.conj().T)
    if kind == "within_tol":
        # accepted by the unitarity test although not exactly unitary
        return haar(rs, n) * (1 + 1e-13)
    raise KeyError(kind)


UNITARY_KINDS = ["haar", "identity", "identity_c", "antiidentity", "perm", "perm_real", "perm_phase", "diag_phase",
                 "diag_pm", "block", "block_perm", "givens", "orthogonal", "orthogonal_c", "dft", "hadamard_like",
                 "near_identity", "near_perm", "within_tol"]


def interferometer_symplectic(U):
    X, Y = U.real, U.imag
    return np.block([[X, -Y], [Y, X]])


def symplectic_case(rs, n, kind):
    """symplectic matrix on n modes, xxpp ordering, built as O1 diag(e^-r, e^r) O2"""
    if kind == "passive":
        return interferometer_symplectic(haar(rs, n))
    if kind == "identity":
        return np.identity(2 * n)
    # squeezing values from a grid: two values are either equal (a genuinely degenerate singular value) or differ by
    # >= 0.1, so that the singular subspaces are well conditioned also in the "near_passive" class (r * 1e-4)
    r = rs.choice(np.arange(2, 13) / 10.0, n)
    if kind == "degenerate":
        r[:] = r[0]
    elif kind == "pairs" and n >= 2:
        r[1] = r[0]
    elif kind == "partial" and n >= 2:          # some modes unsqueezed: unit singular values of multiplicity 2k
        k = int(rs.integers(1, n))
        r[k:] = 0.0
    elif kind == "one_unsqueezed":
        r[-1] = 0.0
    elif kind == "signs":
        r = r * rs.choice([1.0, -1.0], n)
    elif kind == "near_passive":               # boundary of the passive test |S^T S - 1| < tol
        r = r * 10.0 ** (-rs.uniform(2, 5))
    elif kind == "close_distinct":             # squeezing values that differ by 1e-2..1e-4: distinct, not degenerate
        r = r[0] + np.arange(n) * 10.0 ** (-rs.uniform(2, 4))
    elif kind == "close_pairs" and n >= 2:     # equal and close-but-distinct values side by side
        d = 10.0 ** (-rs.uniform(2, 4))
        r = np.array([r[0] + (k // 2) * d for k in range(n)])
    elif kind == "close_to_unit" and n >= 2:   # weakly squeezed modes next to unsqueezed ones
        r = np.array([0.0 if k % 2 else (k // 2 + 1) * 10.0 ** (-rs.uniform(2, 4)) for k in range(n)])
    O1 = interferometer_symplectic(haar(rs, n)) if kind != "diag" else np.identity(2 * n)
    O2 = interferometer_symplectic(haar(rs, n)) if kind not in ("diag", "left_only") else np.identity(2 * n)
    if kind == "perm_passive":
        O1 = interferometer_symplectic(perm_matrix(rs, n))
        O2 = interferometer_symplectic(perm_matrix(rs, n, phases=False))
    Z = np.diag(np.concatenate([np.exp(-r), np.exp(r)]))
    return O1 @ Z @ O2


SYMPLECTIC_KINDS = ["generic", "passive", "identity", "degenerate", "pairs", "partial", "one_unsqueezed", "signs",
                    "near_passive", "diag", "left_only", "perm_passive", "close_distinct", "close_pairs", "close_to_unit"]


def cov_case(rs, n, kind):
    """positive definite real symmetric 2n x 2n matrix (xxpp)"""
    if kind == "vacuum":
        return np.identity(2 * n)
    if kind == "scaled_vacuum":
        return np.identity(2 * n) * rs.uniform(0.3, 3.0)
    nu = rs.uniform(1.0, 4.0, n)
    if kind == "degenerate":
        nu[:] = nu[0]
    elif kind == "pairs" and n >= 2:
        nu[1] = nu[0]
    elif kind == "pure":
        nu[:] = 1.0
    elif kind == "mixed_pure" and n >= 2:
        nu[0] = 1.0
        nu[-1] = 1.0
    if kind == "thermal_diag":
        return np.diag(np.concatenate([nu, nu]))
    if kind == "random_pd":
        A = rs.standard_normal((2 * n, 2 * n))
        return A @ A.T + 0.5 * np.identity(2 * n)
    S = symplectic_case(rs, n, "generic" if kind != "passive_only" else "passive")
    V = S @ np.diag(np.concatenate([nu, nu])) @ S.T
    return (V + V.T) / 2


COV_KINDS = ["generic", "vacuum", "scaled_vacuum", "degenerate", "pairs", "pure", "mixed_pure", "thermal_diag",
             "random_pd", "passive_only"]


def symmetric_case(rs, n, kind):
    """complex/real symmetric matrices for takagi"""
    if kind == "complex":
        A = rs.standard_normal((n, n)) + 1j * rs.standard_normal((n, n))
        return A + A.T
    if kind == "real":
        A = rs.standard_normal((n, n))
        return A + A.T
    if kind == "real_as_complex":
        A = rs.standard_normal((n, n))
        return (A + A.T).astype(np.complex128)
    if kind == "zero":
        return np.zeros((n, n))
    if kind == "identity":
        return np.identity(n)
    if kind == "imag":
        A = rs.standard_normal((n, n))
        return 1j * (A + A.T)
    if kind == "adjacency":
        A = np.triu((rs.random((n, n)) < 0.5).astype(float), 1)
        return A + A.T
    if kind == "adjacency_c":
        A = np.triu((rs.random((n, n)) < 0.5).astype(float), 1)
        return (A + A.T).astype(np.complex128) * (1 + 0j)
    if kind == "complete":
        return np.ones((n, n)) - np.identity(n)
    if kind == "unitary_sym":                  # all singular values equal
        U = haar(rs, n)
        return U @ U.T
    if kind == "degenerate_c":                 # U diag(repeated) U^T
        U = haar(rs, n)
        s = np.sort(rs.choice([0.5, 1.0, 2.0], n))[::-1]
        return U @ np.diag(s) @ U.T
    if kind == "degenerate_r":
        O = rand_orth(rs, n)
        s = rs.choice([-2.0, -1.0, 1.0, 2.0], n)
        return O @ np.diag(s) @ O.T
    if kind == "rank_deficient":
        U = haar(rs, n)
        s = np.sort(rs.uniform(0.5, 2, n))[::-1]
        s[n // 2:] = 0
        return U @ np.diag(s) @ U.T
    if kind == "rank_deficient_r":
        O = rand_orth(rs, n)
        s = rs.uniform(0.5, 2, n) * rs.choice([-1.0, 1.0], n)
        s[n // 2:] = 0
        return O @ np.diag(s) @ O.T
    if kind == "diag_c":
        return np.diag(rs.uniform(0.2, 2, n) * np.exp(1j * rs.uniform(0, 6.28, n)))
    if kind == "near_degenerate":              # singular values split at the rounding boundary
        U = haar(rs, n)
        s = np.ones(n) + 10.0 ** (-rs.uniform(11, 15)) * np.arange(n)
        return U @ np.diag(s[::-1]) @ U.T
    if kind == "block_c":
        A = np.zeros((n, n), dtype=np.complex128)
        k = 0
        for s in split_sizes(rs, n):
            B = rs.standard_normal((s, s)) + 1j * rs.standard_normal((s, s))
            A[k:k + s, k:k + s] = B + B.T
            k += s
        return A
    if kind == "tiny_imag":                    # real_if_close boundary
        A = rs.standard_normal((n, n))
        B = rs.standard_normal((n, n))
        return (A + A.T) + 1j * 1e-14 * (B + B.T)
    if kind == "phase_real":                   # e^{i phi} * real symmetric with +-lambda pairs: degenerate singular values
        O = rand_orth(rs, n)
        s = rs.choice([-2.0, -1.0, 1.0, 2.0], n)
        return cmath.exp(1j * rs.uniform(0.1, 3.0)) * (O @ np.diag(s) @ O.T)
    if kind == "neg_degenerate":
        U = haar(rs, n)
        s = np.sort(rs.choice([0.5, 1.0, 2.0], n))[::-1]
        return -(U @ np.diag(s) @ U.T)
    if kind == "scaled_small":                 # boundary of the np.allclose(N, 0) shortcut
        A = rs.standard_normal((n, n)) + 1j * rs.standard_normal((n, n))
        return (A + A.T) * 10.0 ** (-rs.uniform(2, 7))
    if kind == "scaled_small_r":
        A = rs.standard_normal((n, n))
        return (A + A.T) * 10.0 ** (-rs.uniform(2, 7))
    if kind == "gap_sweep":                    # two singular values closer than the SVD can separate, any gap 1e-5..1e-15
        U = haar(rs, n)
        s = np.sort(rs.uniform(0.5, 2, n))[::-1]
        if n >= 2:
            s[1] = s[0] * (1 - 10.0 ** (-rs.uniform(5, 15)))
        return U @ np.diag(s) @ U.T
    if kind == "scaled_big":
        A = rs.standard_normal((n, n)) + 1j * rs.standard_normal((n, n))
        return (A + A.T) * 1e3
    raise KeyError(kind)


SYMMETRIC_KINDS = ["complex", "real", "real_as_complex", "zero", "identity", "imag", "adjacency", "adjacency_c",
                   "complete", "unitary_sym", "degenerate_c", "degenerate_r", "rank_deficient", "rank_deficient_r",
                   "diag_c", "near_degenerate", "block_c", "tiny_imag", "scaled_small", "scaled_big", "phase_real",
                   "neg_degenerate", "scaled_small_r", "gap_sweep"]


def to_json_matrix(A):
    A = np.asarray(A)
    if np.iscomplexobj(A):
        return dict(dtype="complex", re=A.real.tolist(), im=A.imag.tolist())
    return dict(dtype="float", re=A.astype(float).tolist())


def from_json_matrix(d):
    re = np.array(d["re"], dtype=float)
    if d.get("dtype") == "complex":
        return re + 1j * np.array(d["im"], dtype=float)
    return re
