"""Helpers of the C06 check (measurements): exact-rational transport to the Lean driver, a scripted /
recording replacement of the `numpy.random` entry points the simulators use, independent reference
calculations of conditional states and Born probabilities (own formulas in NumPy, no SF code), and generators."""
import contextlib
import copy
import itertools
import math
from fractions import Fraction

import numpy as np

from lib import sim

# ---------------------------------------------------------------- exact transport


def rat(x):
    f = Fraction(x) if not isinstance(x, Fraction) else x
    return [f.numerator, f.denominator]


def cx(z):
    z = complex(z)
    return [rat(z.real), rat(z.imag)]


def rmat(m):
    return [[rat(float(x)) for x in row] for row in np.asarray(m, dtype=float)]


def rvec(v):
    return [rat(float(x)) for x in np.asarray(v, dtype=float)]


def cmat(m):
    return [[cx(x) for x in row] for row in np.asarray(m)]


def unrat(j):
    return j[0] / j[1]


def unrmat(j):
    return np.array([[unrat(x) for x in row] for row in j], dtype=float).reshape(len(j), -1)


def unrvec(j):
    return np.array([unrat(x) for x in j], dtype=float)


def uncx(j):
    return complex(unrat(j[0]), unrat(j[1]))


def uncmat(j):
    return np.array([[uncx(x) for x in row] for row in j], dtype=complex).reshape(len(j), -1)


def uncvec(j):
    return np.array([uncx(x) for x in j], dtype=complex)


def frac_inv(rows):
    """exact inverse of a square matrix of Fractions (Gauss-Jordan)"""
    n = len(rows)
    a = [[Fraction(x) for x in r] + [Fraction(int(i == j)) for j in range(n)] for i, r in enumerate(rows)]
    for c in range(n):
        p = next(r for r in range(c, n) if a[r][c] != 0)
        a[c], a[p] = a[p], a[c]
        pv = a[c][c]
        a[c] = [x / pv for x in a[c]]
        for r in range(n):
            if r != c and a[r][c] != 0:
                f = a[r][c]
                a[r] = [x - f * y for x, y in zip(a[r], a[c])]
    return [r[n:] for r in a]


def close(impl, model, tol=1e-9):
    impl, model = np.asarray(impl), np.asarray(model)
    if impl.shape != model.shape:
        return False
    scale = max(1.0, float(np.max(np.abs(model), initial=0.0)))
    return bool(np.max(np.abs(impl - model), initial=0.0) <= tol * scale)


# ---------------------------------------------------------------- scripted / recording RNG

class ScriptRNG:
    """Replaces numpy.random.{multivariate_normal, normal, choice, multinomial, random, poisson} while active.
    Every call is logged with its arguments; the value returned is chosen by the script:
      mvn:     None -> the mean (+ mvn_offset);  callable(mean, cov) -> vector
      normal:  None -> loc + normal_offset
      choice:  callable(a, p) -> element of a   (default: the most probable element)
      multinomial: callable(pvals) -> index     (default: the most probable bin)
      random:  constant (default 0.0, i.e. rejection sampling always accepts)"""

    def __init__(self, mvn=None, mvn_offset=None, normal_offset=0.0, choice=None, multinomial=None, random=0.0,
                 poisson=None):
        self.mvn, self.mvn_offset, self.normal_offset = mvn, mvn_offset, normal_offset
        self.choice_f, self.multinomial_f, self.random_v = choice, multinomial, random
        self.poisson_f = poisson
        self.log = []
        self._saved = {}

    def calls(self, name):
        return [c for c in self.log if c["fn"] == name]

    # -- replacements
    def _mvn(self, mean, cov, size=None, **kw):
        mean, cov = np.array(mean, dtype=float), np.array(cov, dtype=float)
        self.log.append(dict(fn="multivariate_normal", mean=mean, cov=cov, size=size))
        if callable(self.mvn):
            v = np.asarray(self.mvn(mean, cov), dtype=float)
        else:
            v = mean + (0.0 if self.mvn_offset is None else np.asarray(self.mvn_offset, dtype=float))
        if size is None:
            return v
        k = size if isinstance(size, int) else int(np.prod(size))
        return np.array([v + 0.125 * s for s in range(k)])        # distinct, known rows for shots > 1

    def _normal(self, loc=0.0, scale=1.0, size=None):
        self.log.append(dict(fn="normal", loc=loc, scale=scale, size=size))
        v = loc + self.normal_offset
        return v if size is None else np.full(size, v)

    def _choice(self, a, size=None, replace=True, p=None):
        arr = list(range(a)) if isinstance(a, (int, np.integer)) else list(a)
        pp = None if p is None else np.array(p, dtype=float)
        self.log.append(dict(fn="choice", a=arr, p=pp, size=size))
        if self.choice_f is not None:
            v = self.choice_f(arr, pp)
        else:
            v = arr[int(np.argmax(pp))] if pp is not None else arr[0]
        return v if size is None else np.array([v] * (size if isinstance(size, int) else int(np.prod(size))))

    def _multinomial(self, n, pvals, size=None):
        pv = np.array(pvals, dtype=float)
        self.log.append(dict(fn="multinomial", n=n, pvals=pv))
        i = self.multinomial_f(pv) if self.multinomial_f is not None else int(np.argmax(pv))
        h = np.zeros(len(pv), dtype=int)
        h[i] = n
        return h

    def _random(self, size=None):
        self.log.append(dict(fn="random", size=size))
        v = self.random_v(len(self.calls("random")) - 1) if callable(self.random_v) else self.random_v
        return v if size is None else np.full(size, v)

    def _poisson(self, lam=1.0, size=None):
        self.log.append(dict(fn="poisson", lam=copy.deepcopy(lam), size=size))
        if self.poisson_f is not None:
            return np.asarray(self.poisson_f(lam, size))
        return np.zeros(size, dtype=int) if size is not None else 0

    def __enter__(self):
        for name, f in (("multivariate_normal", self._mvn), ("normal", self._normal), ("choice", self._choice),
                        ("multinomial", self._multinomial), ("random", self._random), ("poisson", self._poisson)):
            self._saved[name] = getattr(np.random, name)
            setattr(np.random, name, f)
        return self

    def __exit__(self, *exc):
        for name, f in self._saved.items():
            setattr(np.random, name, f)
        return False


@contextlib.contextmanager
def hbar_set(sf, hbar):
    old = sf.hbar
    sf.hbar = hbar
    try:
        yield
    finally:
        sf.hbar = old


# ---------------------------------------------------------------- independent reference: conditioning

def ref_condition(ref, m, kind, outcome=None, phi=0.0):
    """condition RefState `ref` (xxpp, hbar = 2) on a measurement of mode m; returns a new RefState with the
    measured mode reset to vacuum.
      kind 'homodyne':   ideal projection on x_phi = outcome   (outcome in hbar = 2 units)
      kind 'heterodyne': projection on the coherent state |outcome>  (outcome = complex alpha)
      kind 'trace':      outcome ignored (mode traced out and reset)"""
    n = ref.n
    B = [m, m + n]
    A = [i for i in range(2 * n) if i not in B]
    VA, VAB, VB = ref.V[np.ix_(A, A)], ref.V[np.ix_(A, B)], ref.V[np.ix_(B, B)]
    muA, muB = ref.mu[A], ref.mu[B]
    if kind == "homodyne":
        u = np.array([math.cos(phi), math.sin(phi)])
        s = float(u @ VB @ u)
        g = VAB @ u / s
        VA2 = VA - np.outer(g, VAB @ u)
        muA2 = muA + g * (outcome - float(u @ muB))
    elif kind == "heterodyne":
        W = np.linalg.inv(VB + np.eye(2))
        VA2 = VA - VAB @ W @ VAB.T
        muA2 = muA + VAB @ W @ (2 * np.array([outcome.real, outcome.imag]) - muB)
    else:
        VA2, muA2 = VA, muA
    out = sim.RefState(n)
    out.V = np.eye(2 * n)
    out.mu = np.zeros(2 * n)
    out.V[np.ix_(A, A)] = VA2
    out.mu[A] = muA2
    if hasattr(ref, "active"):
        out.active = list(ref.active)
    return out


def fock_homodyne_pdf(rho1, phi, qmax, nbins):
    """independent Born pdf of x_phi (hbar = 2 units, vacuum variance 1) of a single-mode density matrix on the grid
    linspace(-qmax, qmax, nbins), normalised to sum 1.  psi_n(x) = (2 pi)^(-1/4) (2^n n!)^(-1/2) H_n(x / sqrt 2) e^(-x^2/4);
    x_phi = e^{i phi n} x e^{-i phi n}, i.e. rho is read in the rotated frame rho'_{nm} = e^{-i phi (n - m)} rho_{nm}."""
    from scipy.special import eval_hermite, gammaln
    D = rho1.shape[0]
    x = np.linspace(-qmax, qmax, nbins)
    psi = np.array([np.exp(-0.5 * (n * math.log(2.0) + gammaln(n + 1)) - 0.25 * math.log(2 * math.pi)) *
                    eval_hermite(n, x / math.sqrt(2.0)) * np.exp(-x * x / 4) for n in range(D)])
    ph = np.exp(-1j * phi * np.arange(D))
    rr = rho1 * np.outer(ph, ph.conj())
    pdf = np.real(np.einsum("nm,nk,mk->k", rr, psi, psi))
    return x, pdf / np.sum(pdf)


def ref_marginal(ref, modes):
    """(mu, V) of the listed modes, in the order given, xxpp ordering, hbar = 2"""
    ix = list(modes) + [m + ref.n for m in modes]
    return ref.mu[ix].copy(), ref.V[np.ix_(ix, ix)].copy()


def vacuum_prob(ref, modes):
    """probability that all listed modes are in vacuum (Gaussian state, hbar = 2)"""
    if not modes:
        return 1.0
    mu, V = ref_marginal(ref, modes)
    k = len(modes)
    Q = V + np.eye(2 * k)
    return float(2 ** k * math.exp(-0.5 * mu @ np.linalg.solve(Q, mu)) / math.sqrt(np.linalg.det(Q)))


def threshold_pattern_prob(ref, pattern):
    """probability of a click pattern {mode: 0/1} by inclusion-exclusion over joint vacuum probabilities"""
    zeros = [m for m, v in pattern.items() if v == 0]
    ones = [m for m, v in pattern.items() if v == 1]
    tot = 0.0
    for r in range(len(ones) + 1):
        for sub in itertools.combinations(ones, r):
            tot += (-1) ** r * vacuum_prob(ref, zeros + list(sub))
    return tot


# ---------------------------------------------------------------- independent reference: Fock projection

def fock_project(rho, n, sel):
    """rho with interleaved indices; project mode m on |v><v| for (m, v) in sel, reset those modes to |0>;
    returns (normalised post state, probability)"""
    idx = [slice(None)] * (2 * n)
    idx0 = [slice(None)] * (2 * n)
    for m, v in sel.items():
        idx[2 * m] = idx[2 * m + 1] = int(v)
        idx0[2 * m] = idx0[2 * m + 1] = 0
    sub = rho[tuple(idx)]
    rest = n - len(sel)
    p = sub
    for _ in range(rest):
        p = np.trace(p, axis1=0, axis2=1)
    p = float(np.real(p))
    out = np.zeros_like(rho)
    out[tuple(idx0)] = sub
    return (out / p if p > 0 else out), p


# ---------------------------------------------------------------- generators

def dy(rng, lo, hi, den):
    return rng.randint(lo, hi) / den


def rand_nm_state(rng, n):
    """random dyadic (N, M, mean): N Hermitian with positive diagonal, M symmetric, well-conditioned marginals"""
    N = np.zeros((n, n), dtype=complex)
    M = np.zeros((n, n), dtype=complex)
    for i in range(n):
        N[i, i] = rng.randint(2, 12) / 8
        M[i, i] = complex(dy(rng, -1, 1, 8), dy(rng, -1, 1, 8))
        for j in range(i + 1, n):
            N[i, j] = complex(dy(rng, -2, 2, 8), dy(rng, -2, 2, 8))
            N[j, i] = np.conj(N[i, j])
            M[i, j] = M[j, i] = complex(dy(rng, -2, 2, 8), dy(rng, -2, 2, 8))
    mean = np.array([complex(dy(rng, -4, 4, 4), dy(rng, -4, 4, 4)) for _ in range(n)])
    return N, M, mean


def rand_cov(rng, d):
    """random dyadic symmetric positive definite d x d matrix"""
    V = np.zeros((d, d))
    for i in range(d):
        V[i, i] = rng.randint(8, 20) / 8
        for j in range(i + 1, d):
            V[i, j] = V[j, i] = dy(rng, -2, 2, 16)
    return V


def phys_cov(rng, d):
    """random dyadic measurement covariance with det comfortably above (hbar/2)^d = 1 (the bosonic circuit refuses others)"""
    while True:
        V = rand_cov(rng, d)
        if np.linalg.det(V) >= 1.05:
            return V


def circle_point(rng):
    """rational point on the unit circle and its angle"""
    t = Fraction(rng.randint(-6, 6), rng.randint(1, 6))
    c, s = (1 - t * t) / (1 + t * t), 2 * t / (1 + t * t)
    return c, s, math.atan2(float(s), float(c))
