"""Helpers of the C12 check (hardware compilation): synthetic X-series / TDM device specifications built after
the repository's fixtures (tests/frontend/compilers/conftest.py, test_tdm.py), an independent layout skeleton,
source-program generators, independent range / template checks and photon-statistics comparison."""
import inspect
from fractions import Fraction

import numpy as np

TWO_PI = 6.283185307179586
ATOL = 1e-5  # Range default


# ---------------------------------------------------------------- X-series layouts
def mesh_layers(N):
    """first modes p of the MZgates (p, p+1) of the rectangular mesh on N modes, layer by layer"""
    return [p for l in range(N) for p in range(N - 1) if p % 2 == l % 2]


def x_layout_text(N, target=None):
    """Blackbird layout of an X-series chip with N mode pairs, written after the X8_01 template of the fixtures"""
    n = 2 * N
    target = target or f"X{n}_01"
    lines = [f"name template_{N}x2_X{n}", "version 1.0", f"target {target} (shots=1)", ""]
    for i in range(N):
        lines.append(f"S2gate({{squeezing_amplitude_{i}}}, 0.0) | [{i}, {i + N}]")
    lines.append("")
    mesh = mesh_layers(N)
    for off in (0, N):
        for k, p in enumerate(mesh):
            lines.append(f"MZgate({{phase_{2 * k}}}, {{phase_{2 * k + 1}}}) | [{p + off}, {p + 1 + off}]")
        lines.append("")
    for i in range(n):
        lines.append(f"Rgate({{final_phase_{i}}}) | [{i}]")
    lines.append("")
    lines.append("MeasureFock() | [" + ", ".join(str(i) for i in range(n)) + "]")
    return "\n".join(lines) + "\n"


def x_layout_skeleton(N):
    """[(name, modes, param names / fixed values)] of the layout above, written independently of Blackbird"""
    n = 2 * N
    sk = [("S2gate", [i, i + N], [f"squeezing_amplitude_{i}", 0.0]) for i in range(N)]
    mesh = mesh_layers(N)
    for off in (0, N):
        sk += [("MZgate", [p + off, p + 1 + off], [f"phase_{2 * k}", f"phase_{2 * k + 1}"]) for k, p in enumerate(mesh)]
    sk += [("Rgate", [i], [f"final_phase_{i}"]) for i in range(n)]
    sk.append(("MeasureFock", list(range(n)), []))
    return sk


def x_gate_parameters(N, sq, ph):
    """sq / ph: the range list used for every squeezing amplitude / phase (device-spec format)"""
    gp = {f"squeezing_amplitude_{i}": sq for i in range(N)}
    gp.update({f"phase_{k}": ph for k in range(N * (N - 1))})
    gp.update({f"final_phase_{i}": ph for i in range(2 * N)})
    return gp


def x_spec(N, sq, ph, compiler=(), target=None, modes=None):
    n = 2 * N
    target = target or f"X{n}_01"
    return {"target": target, "layout": x_layout_text(N, target), "modes": n if modes is None else modes,
            "compiler": list(compiler), "gate_parameters": x_gate_parameters(N, sq, ph) if sq is not None else ph}


# ---------------------------------------------------------------- ranges (independent of SF)
def in_ranges(v, entries, atol=ATOL):
    for e in entries:
        lo, hi = (e, e) if not isinstance(e, (list, tuple)) else (e[0], e[-1])
        if lo - atol <= v <= hi + atol:
            return True
    return False


def wires_view(skel):
    """per wire: the sequence of (name, modes) touching it"""
    out = {}
    for name, modes, *_ in skel:
        for m in modes:
            out.setdefault(m, []).append((name, tuple(modes)))
    return out


def circuit_skeleton(prog):
    """[(name, modes, numeric params)] of a compiled sf.Program"""
    from strawberryfields.parameters import par_evaluate
    out = []
    for c in prog.circuit:
        ps = []
        for p in c.op.p:
            try:
                ps.append(float(par_evaluate(p)))
            except Exception:  # noqa: BLE001
                ps.append(p)
        name = type(c.op).__name__
        if getattr(c.op, "dagger", False):
            # the inverse of these gates is the gate with the negated first parameter (what a device is sent)
            if name in ("S2gate", "Sgate", "Rgate", "BSgate") and ps and isinstance(ps[0], float):
                ps[0] = -ps[0]
            else:
                ps = ["inverse of " + name]
        out.append((name, [r.ind for r in c.reg], ps))
    return out


def check_against_layout(skel, layout_sk, gate_parameters, tol=1e-9):
    """independent conformance check: same commands on every wire in the same order (gate for gate, mode for
    mode), fixed layout values respected, every template parameter single-valued and inside its ranges.
    Returns (None, params) or (reason, None)."""
    if len(skel) != len(layout_sk):
        return f"{len(skel)} commands, layout has {len(layout_sk)}", None
    if wires_view(skel) != wires_view(layout_sk):
        wv, lv = wires_view(skel), wires_view(layout_sk)
        bad = sorted(w for w in set(wv) | set(lv) if wv.get(w) != lv.get(w))
        return f"wire {bad[0]}: compiled {wv.get(bad[0])} layout {lv.get(bad[0])}", None
    # match commands: k-th occurrence of (name, modes) in the circuit <-> k-th in the layout
    from collections import defaultdict
    seen_l = defaultdict(list)
    for name, modes, pars in layout_sk:
        seen_l[(name, tuple(modes))].append(pars)
    cnt = defaultdict(int)
    params = {}
    for name, modes, pars in skel:
        key = (name, tuple(modes))
        lp = seen_l[key][cnt[key]]
        cnt[key] += 1
        if len(lp) != len(pars):
            return f"{name}{modes}: {len(pars)} parameters, layout has {len(lp)}", None
        for a, v in zip(lp, pars):
            if not isinstance(v, float):
                return f"{name}{modes}: non-numeric parameter {v!r}", None
            if isinstance(a, str):
                if a in params and abs(params[a] - v) > 1e-6:
                    return f"template parameter {a} takes two values {params[a]} and {v}", None
                params.setdefault(a, v)
            elif abs(a - v) > 1e-6:
                return f"{name}{modes}: fixed layout value {a}, compiled {v}", None
    if not gate_parameters:      # device without allowed parameter values: any value is valid
        return None, params
    for a, v in params.items():
        if a not in gate_parameters:
            return f"parameter {a} unknown to the device", None
        if not in_ranges(v, gate_parameters[a]):
            return f"parameter {a} = {v} outside {gate_parameters[a]}", None
    return None, params


# ---------------------------------------------------------------- Gaussian state / photon statistics
def gaussian_cov(sf, prog_or_cmds, n):
    """covariance (xxpp, hbar=2 units of sf.hbar) of the state a command list prepares from vacuum, measurements dropped"""
    import strawberryfields.ops as ops
    cmds = prog_or_cmds.circuit if hasattr(prog_or_cmds, "circuit") else prog_or_cmds
    p = sf.Program(n)
    with p.context as q:
        for c in cmds:
            if isinstance(c.op, ops.Measurement):
                continue
            c.op.__class__(*c.op.p) | tuple(q[r.ind] for r in c.reg)
    st = sf.Engine("gaussian").run(p).state
    return st.means(), st.cov()


def NM(cov, hbar):
    """N_ij = <a_i^dag a_j>, M_ij = <a_i a_j> of a zero-mean Gaussian state with xxpp covariance"""
    n = cov.shape[0] // 2
    V = cov / (hbar / 2) / 2  # <{r,r}>/2 with [x,p]=i ... a = (x+ip)/sqrt(2 hbar) -> use unit hbar=1: V = cov/hbar
    xx, xp, px, pp = V[:n, :n], V[:n, n:], V[n:, :n], V[n:, n:]
    # a = (x + i p)/sqrt(2) in hbar=1 units where cov1 = cov/hbar, vacuum = 1/2
    Nm = 0.5 * (xx + pp + 1j * (xp - px)) - 0.5 * np.eye(n)
    Mm = 0.5 * (xx - pp + 1j * (xp + px))
    return Nm.T, Mm


def fock_probs(cov, patterns, hbar):
    from thewalrus.quantum import density_matrix_element
    n = cov.shape[0] // 2
    mu = np.zeros(2 * n)
    return np.array([float(np.real(density_matrix_element(mu, cov, list(p), list(p), hbar=hbar))) for p in patterns])


def rand_patterns(rng, n, k, max_total=4):
    pats = [tuple([0] * n)]
    for _ in range(k):
        tot = rng.randint(1, max_total)
        p = [0] * n
        for _ in range(tot):
            p[rng.randrange(n)] += 1
        pats.append(tuple(p))
    return pats


def remove_local_phases(cov):
    """canonical representative of a zero-mean Gaussian covariance under local phase rotations is not unique in
    general; used only for reporting"""
    return cov


# ---------------------------------------------------------------- unitaries
def rand_unitary(nprng, N, kind):
    if kind == "identity":
        return np.identity(N, dtype=complex)
    if kind == "perm":
        return np.identity(N, dtype=complex)[nprng.permutation(N)]
    if kind == "phases":
        return np.diag(np.exp(1j * nprng.uniform(0, 2 * np.pi, N)))
    if kind == "phased_perm":
        return np.diag(np.exp(1j * nprng.uniform(0, 2 * np.pi, N))) @ np.identity(N)[nprng.permutation(N)]
    if kind == "real":
        q, r = np.linalg.qr(nprng.normal(size=(N, N)))
        return (q * np.sign(np.diag(r))).astype(complex)
    if kind == "block":  # acts on the first two modes only
        U = np.identity(N, dtype=complex)
        z = nprng.normal(size=(2, 2)) + 1j * nprng.normal(size=(2, 2))
        q, r = np.linalg.qr(z)
        U[:2, :2] = q * (np.diag(r) / np.abs(np.diag(r)))
        return U
    z = nprng.normal(size=(N, N)) + 1j * nprng.normal(size=(N, N))
    q, r = np.linalg.qr(z)
    return q * (np.diag(r) / np.abs(np.diag(r)))


def frac(x):
    f = Fraction(float(x))
    return [f.numerator, f.denominator]
