"""C09 helpers: session specs -> real sf.Program objects and -> Lean model requests, a recording
instrumentation of a back-end instance (top-level API calls with arguments and return values), deep
snapshots of programs, canonicalisers.

A session spec is {"backend": str, "n": int, "opts": {...}, "segs": [[op, ...], ...], "args": {name: value},
"succ": [bool per segment]} where an op is a progs.py op, or {"cls": "New", "k": int} / {"cls": "Del", "regs": [...]};
mode numbers are RegRef indices (they keep counting over New)."""
import copy
from fractions import Fraction

import numpy as np

GATES1 = {"Dgate": 2, "Sgate": 2, "Rgate": 1, "Xgate": 1, "Zgate": 1, "Fouriergate": 0, "Vgate": 1, "Kgate": 1,
          "Pgate": 1}
GATES2 = {"BSgate": 2, "MZgate": 2, "sMZgate": 2, "S2gate": 2, "CKgate": 1, "CXgate": 1, "CZgate": 1}
PREPS = {"Vacuum": 0, "Coherent": 2, "Squeezed": 2, "DisplacedSqueezed": 4, "Thermal": 1, "Fock": 1, "Catstate": 1}
CHANNELS = {"LossChannel": 1, "ThermalLossChannel": 2, "PassiveChannel": 1}
MEAS = {"MeasureHomodyne": 1, "MeasureFock": 0, "MeasureHeterodyne": 0}
BACKEND_CLASSES = {
    "gaussian": dict(g1=["Dgate", "Sgate", "Rgate", "Xgate", "Zgate", "Fouriergate"], g2=["BSgate", "MZgate", "S2gate", "sMZgate"],
                     prep=["Vacuum", "Coherent", "Squeezed", "DisplacedSqueezed", "Thermal"],
                     chan=["LossChannel", "ThermalLossChannel"], meas=["MeasureHomodyne"]),
    "bosonic": dict(g1=["Dgate", "Sgate", "Rgate", "Xgate", "Zgate", "Fouriergate"], g2=["BSgate", "MZgate", "S2gate"],
                    prep=["Vacuum", "Coherent", "Squeezed", "Thermal"],
                    chan=["LossChannel"], meas=["MeasureHomodyne"]),
    "fock": dict(g1=["Dgate", "Sgate", "Rgate", "Xgate", "Zgate", "Fouriergate", "Kgate", "Vgate"],
                 g2=["BSgate", "MZgate", "S2gate", "CKgate", "sMZgate"],
                 prep=["Vacuum", "Coherent", "Squeezed", "Thermal", "Fock"],
                 chan=["LossChannel"], meas=["MeasureHomodyne", "MeasureFock"]),
}
# classes the Lean templates cover (affine parameters); the others are used in the real-code oracles only
UNMODELLED = {"Pgate", "CXgate", "CZgate"}

API = ["begin_circuit", "add_mode", "del_mode", "reset", "prepare_vacuum_state", "prepare_coherent_state",
       "prepare_squeezed_state", "prepare_displaced_squeezed_state", "prepare_thermal_state", "prepare_fock_state",
       "prepare_ket_state", "prepare_dm_state", "prepare_gaussian_state", "rotation", "displacement", "squeeze",
       "beamsplitter", "mzgate", "two_mode_squeeze", "loss", "thermal_loss", "cubic_phase", "kerr_interaction",
       "cross_kerr_interaction", "measure_homodyne", "measure_heterodyne", "measure_fock", "measure_threshold",
       "state", "passive", "gaussian_gate", "mb_squeeze_avg", "mb_squeeze_single_shot", "prepare_gkp"]
NMODES = {"rotation": 1, "displacement": 1, "squeeze": 1, "beamsplitter": 2, "mzgate": 2, "two_mode_squeeze": 2,
          "loss": 1, "thermal_loss": 1, "cubic_phase": 1, "kerr_interaction": 1, "cross_kerr_interaction": 2,
          "measure_homodyne": 1, "measure_heterodyne": 1, "prepare_vacuum_state": 1, "prepare_coherent_state": 1,
          "prepare_squeezed_state": 1, "prepare_displaced_squeezed_state": 1, "prepare_thermal_state": 1,
          "prepare_fock_state": 1}


def kind_of(cls):
    if cls in GATES1 or cls in GATES2:
        return "gate"
    if cls in MEAS:
        return "meas"
    if cls == "New":
        return "new"
    if cls == "Del":
        return "del"
    return "plain"


def rat(v):
    f = Fraction(float(v))
    return [f.numerator, f.denominator]


def num(v):
    return [rat(v), [0, 1]]


def model_par(p):
    if isinstance(p, dict):
        d = dict(k=rat(p.get("k", 1)), c=num(p.get("c", 0)))
        if "m" in p:
            d["m"] = p["m"]
        else:
            d["f"] = p["f"]
        return d
    return dict(n=num(p))


# ------------------------------------------------------------------ building real programs

_CAT_CACHE = {}


def array_par(p):
    """array-valued parameter from its JSON description: {"arr": nested list (complex entries as {"re":, "im":}),
    "dtype": "complex"|"float"|"int", "ro": read-only?}  or  {"cat": [a, phi, parity], "which": 0|1|2, ...} = the
    weights / means / covs of a cat state as BosonicBackend.prepare_cat(.., 'complex', ..) returns them"""
    if "cat" in p:
        key = tuple(p["cat"])
        if key not in _CAT_CACHE:
            from strawberryfields.backends.bosonicbackend.backend import BosonicBackend
            h = BosonicBackend()
            h.begin_circuit(1)
            _CAT_CACHE[key] = h.prepare_cat(p["cat"][0], p["cat"][1], p["cat"][2], "complex", 1e-12, 2)
        raw = np.array(_CAT_CACHE[key][p["which"]])
    else:
        def conv(x):
            if isinstance(x, dict):
                return complex(x["re"], x["im"])
            if isinstance(x, list):
                return [conv(y) for y in x]
            return x
        raw = np.array(conv(p["arr"]))
    dt = {"complex": complex, "float": float, "int": int}[p.get("dtype", "float")]
    a = np.array(raw.real if dt is not complex and np.iscomplexobj(raw) else raw, dtype=dt)
    if p.get("ro"):
        a.setflags(write=False)
    return a


def is_array_par(p):
    return isinstance(p, dict) and ("arr" in p or "cat" in p)


def _par(p, prog, free):
    if is_array_par(p):
        return array_par(p)
    if isinstance(p, list):          # matrix-valued parameter (PassiveChannel)
        return np.array(p, dtype=float)
    if isinstance(p, dict):
        v = prog.reg_refs[p["m"]].par if "m" in p else free[p["f"]]
        k = p.get("k", 1)
        v = v if k == 1 else k * v
        if p.get("c", 0):
            v = v + p["c"]
        return v
    return p


def _numeric(op):
    return not any(isinstance(p, dict) for p in op.get("pars", []))


def has_matrix(spec):
    return any(isinstance(p, list) or is_array_par(p) for sg in spec["segs"] for o in sg for p in o.get("pars", []))


def _append_ops(prog, ops_list, op_cache=None):
    """append spec ops to `prog` (inside its context).  `op_cache`: dict shared by the caller; equal
    operations with numeric parameters become ONE shared Operation instance (within and across programs),
    their daggered form is the `.H` of that shared instance (so the parameter list is aliased too)."""
    from strawberryfields import ops
    free = {}
    for op in ops_list:
        for p in op.get("pars", []):
            if isinstance(p, dict) and "f" in p and p["f"] not in free:
                free[p["f"]] = prog.params(p["f"])
    with prog.context:
        for op in ops_list:
            if op["cls"] == "New":
                ops.New(op["k"])
                continue
            if op["cls"] == "Del":
                ops.Del | [prog.reg_refs[i] for i in op["regs"]]
                continue
            cls = getattr(ops, op["cls"])
            key = None
            if op_cache is not None and _numeric(op):
                key = (op["cls"], repr(op.get("pars", [])), repr(op.get("select")))
            if key is not None and key in op_cache:
                o = op_cache[key]
            else:
                pars = [_par(p, prog, free) for p in op.get("pars", [])]
                kw = {}
                if op.get("select") is not None:
                    kw["select"] = op["select"]
                o = cls(*pars, **kw)
                if key is not None:
                    op_cache[key] = o
            if op.get("dagger"):
                hk = None if key is None else key + ("H",)
                if hk is not None and hk in op_cache:
                    o = op_cache[hk]
                else:
                    o = o.H
                    if hk is not None:
                        op_cache[hk] = o
            regs = [prog.reg_refs[i] for i in op["regs"]]
            o | (regs if len(regs) > 1 else regs[0])


def fresh_n(spec, j):
    f = spec.get("fresh")
    return spec["n"] if not f or f[j] is None else f[j]


def build_segments(sf, spec, op_cache=None):
    """one sf.Program per segment.  succ[j] = build segment j as successor `sf.Program(prev)`, otherwise as an
    independent `sf.Program(fresh_n)` (fresh_n = spec["fresh"][j] or spec["n"])."""
    out = []
    for j, seg in enumerate(spec["segs"]):
        if j > 0 and spec.get("succ", [False] * len(spec["segs"]))[j]:
            p = sf.Program(out[-1], name=f"s{j}")
        else:
            p = sf.Program(fresh_n(spec, j), name=f"s{j}")
        _append_ops(p, seg, op_cache)
        if spec.get("prog_shots") and spec["prog_shots"][j] is not None:
            p.run_options = {"shots": spec["prog_shots"][j]}
        out.append(p)
    return out


def run_order(spec):
    return list(spec.get("order") or range(len(spec["segs"])))


def build_concat(sf, spec, op_cache=None):
    p = sf.Program(spec["n"], name="cat")
    _append_ops(p, [op for j in run_order(spec) for op in spec["segs"][j]], op_cache)
    return p


def _evolve(regs, seg):
    regs = copy.deepcopy(regs)
    for op in seg:
        if op["cls"] == "New":
            regs += [[len(regs) + i, True] for i in range(op["k"])]
        elif op["cls"] == "Del":
            for r in op["regs"]:
                regs[r][1] = False
    return regs


def built_regs(spec):
    """ground truth from the spec: [(init_reg_refs, reg_refs)] of every program AS BUILT, [[ind, active], ...]"""
    out = []
    succ = spec.get("succ", [False] * len(spec["segs"]))
    for j, seg in enumerate(spec["segs"]):
        init = copy.deepcopy(out[-1][1]) if j > 0 and succ[j] else [[i, True] for i in range(fresh_n(spec, j))]
        out.append((init, _evolve(init, seg)))
    return out


def follows(spec):
    """for every consecutive pair of the run order: may the second program follow the first?  (documented rule of
    can_follow: same RegRefs, identical indices and activity states)"""
    b, order = built_regs(spec), run_order(spec)
    return [b[y][0] == b[x][1] for x, y in zip(order, order[1:])]


def coherent(spec):
    """is running the programs in order the same computation as ONE program with all commands (i.e. does every
    program start from exactly the register the concatenation has reached)?"""
    b, regs = built_regs(spec), [[i, True] for i in range(spec["n"])]
    for j in run_order(spec):
        if b[j][0] != regs:
            return False
        regs = _evolve(regs, spec["segs"][j])
    return True


def regs_evolution(n, segs):
    """[(init_regs, final_regs)] per segment as [[ind, active], ...]"""
    regs = [[i, True] for i in range(n)]
    out = []
    for seg in segs:
        init = copy.deepcopy(regs)
        for op in seg:
            if op["cls"] == "New":
                regs += [[len(regs) + i, True] for i in range(op["k"])]
            elif op["cls"] == "Del":
                for r in op["regs"]:
                    regs[r][1] = False
        out.append((init, copy.deepcopy(regs)))
    return out


def needs_succ(spec):
    """segments after a New/Del must be successors (their initial register differs from `n` fresh modes)"""
    changed = False
    out = []
    for seg in spec["segs"]:
        out.append(changed)
        changed = changed or any(op["cls"] in ("New", "Del") for op in seg)
    return out


def model_cmds(seg, nregs_before):
    out = []
    nregs = nregs_before
    for op in seg:
        cls = op["cls"]
        if cls == "New":
            out.append(dict(cls="_New_modes", kind="new", regs=list(range(nregs, nregs + op["k"]))))
            nregs += op["k"]
            continue
        if cls == "Del":
            out.append(dict(cls="_Delete", kind="del", regs=list(op["regs"])))
            continue
        c = dict(cls=cls, kind=kind_of(cls), regs=list(op["regs"]), dagger=bool(op.get("dagger", False)),
                 pars=[model_par(p) for p in op.get("pars", [])])
        if cls == "Fouriergate":
            c["pars"] = [dict(n=[[0, 1], [1, 2]])]
        if op.get("select") is not None:
            sel = op["select"] if isinstance(op["select"], (list, tuple)) else [op["select"]]
            c["sel"] = [rat(x) for x in sel]
        out.append(c)
    return out, nregs


def model_progs(spec, concat=False):
    """Lean `Prog` dicts: one per segment, or the single concatenated program"""
    if concat:
        spec = dict(spec, segs=[[op for j in run_order(spec) for op in spec["segs"][j]]], succ=[False], fresh=None, order=None)
    progs, nm = [], []
    for j, (seg, (init, fin)) in enumerate(zip(spec["segs"], built_regs(spec))):
        cmds, _ = model_cmds(seg, len(init))
        free = sorted({p["f"] for op in seg for p in op.get("pars", []) if isinstance(p, dict) and "f" in p})
        pd = dict(name=f"s{j}", initN=sum(1 for r in init if r[1]), initRegs=init, regs=fin, circuit=cmds, free=free)
        if spec.get("prog_shots") and spec["prog_shots"][j] is not None:
            pd["shots"] = spec["prog_shots"][j]
        progs.append(pd)
        nm.append(len(fin))
    return progs, nm


def compiler_tables(name):
    from strawberryfields.compilers import compiler_db
    c = compiler_db[name]
    return dict(name=name, prims=sorted(c.primitives), decomps=sorted(c.decompositions))


# ------------------------------------------------------------------ recording

class Recorder:
    """wraps the API methods of ONE back-end instance (instance attributes shadow the class methods, so
    calls made from inside the back end, e.g. bosonic run_prog -> init_circuit -> begin_circuit, are seen
    too); nested API calls are not recorded."""

    def __init__(self, backend):
        self.calls = []
        self.depth = 0
        self.raised_in_call = False
        self.backend = backend
        for name in API:
            if hasattr(backend, name):
                setattr(backend, name, self._wrap(name, getattr(backend, name)))

    def _wrap(self, name, fn):
        def wrapped(*a, **kw):
            if self.depth > 0:
                return fn(*a, **kw)
            self.depth += 1
            rec = dict(name=name, args=a, kw=dict(kw), ret=None)
            self.calls.append(rec)
            try:
                ret = fn(*a, **kw)
            except Exception:
                self.raised_in_call = True
                raise
            finally:
                self.depth -= 1
            rec["ret"] = ret
            return ret
        return wrapped

    def take(self):
        c, self.calls = self.calls, []
        return c


def _flt(x):
    return [float(v) for v in np.atleast_1d(np.real_if_close(np.asarray(x, dtype=complex))).real.ravel()]


def canon_call(rec):
    """-> dict(name, args=[[float]], modes=[int], sel=[float]|None, opts=[[k, v]])"""
    name, a, kw = rec["name"], list(rec["args"]), rec["kw"]
    out = dict(name=name, args=[], modes=[], sel=None, opts=[], shots=None)
    if name.startswith("measure_"):
        out["shots"] = kw.get("shots")
    if name == "begin_circuit":
        out["args"] = [[float(a[0])]]
        out["opts"] = sorted([k, int(v)] for k, v in kw.items() if isinstance(v, (int, np.integer)) and not isinstance(v, bool))
    elif name == "reset":
        out["opts"] = sorted([k, int(v)] for k, v in kw.items() if isinstance(v, (int, np.integer)) and not isinstance(v, bool))
    elif name == "add_mode":
        out["args"] = [[float(a[0] if a else kw.get("n", 1))]]
    elif name == "del_mode":
        out["modes"] = [int(m) for m in np.atleast_1d(a[0])]
    elif name in ("measure_fock", "measure_threshold"):
        out["modes"] = [int(m) for m in a[0]]
        if kw.get("select") is not None:
            out["sel"] = _flt(kw["select"])
    elif name == "state":
        if kw.get("modes") is not None:
            out["modes"] = [int(m) for m in kw["modes"]]
            out["opts"] = [["modes", 1]]
    elif name in NMODES:
        k = NMODES[name]
        out["args"] = [_flt(x) for x in a[:len(a) - k]]
        out["modes"] = [int(m) for m in a[len(a) - k:]]
        if kw.get("select") is not None:
            out["sel"] = _flt(kw["select"])
    else:
        out["args"] = [["?"]]
    return out


def model_call(c):
    """Lean call JSON -> same canonical dict (numbers r + p*pi evaluated)"""
    f = lambda q: q[0] / q[1]
    return dict(name=c["name"], args=[[f(n[0]) + f(n[1]) * np.pi for n in arg] for arg in c["args"]],
                modes=list(c["modes"]), sel=None if c["sel"] is None else [f(x) for x in c["sel"]],
                opts=sorted([k, int(v)] for k, v in c["opts"]), shots=c.get("shots"))


def same_call(a, b, tol=1e-9):
    if a["name"] != b["name"] or a["modes"] != b["modes"] or a["opts"] != b["opts"] or a.get("shots") != b.get("shots"):
        return False
    if (a["sel"] is None) != (b["sel"] is None):
        return False
    if a["sel"] is not None and (len(a["sel"]) != len(b["sel"]) or any(abs(x - y) > tol for x, y in zip(a["sel"], b["sel"]))):
        return False
    if len(a["args"]) != len(b["args"]):
        return False
    for x, y in zip(a["args"], b["args"]):
        if len(x) != len(y) or any(isinstance(u, str) or isinstance(v, str) or abs(u - v) > tol * max(1, abs(u)) for u, v in zip(x, y)):
            return False
    return True


def outcomes_of(calls):
    """measurement outcomes in call order: per measurement call, per measured mode, the values over the shots"""
    out = []
    for c in calls:
        if c["name"].startswith("measure_") and c["ret"] is not None:
            nm = len(c["args"][0]) if c["name"] in ("measure_fock", "measure_threshold") else 1
            a = np.asarray(c["ret"], dtype=float).reshape(-1, nm)   # rows = samples the back end returned
            out.append([[float(v) for v in col] for col in a.T])
    return out


# ------------------------------------------------------------------ snapshots

def _pval(p):
    """bit-level description of a parameter object"""
    if isinstance(p, np.ndarray):
        return ("arr", p.dtype.str, p.shape, p.tobytes())
    return (type(p).__name__, repr(p))


def snapshot(prog):
    """everything C09 says must survive run/compile: circuit (Command, op and parameter identities and
    values), dagger/select flags, registers (index, active), free parameters, names and options"""
    circ = []
    for cmd in prog.circuit:
        op = cmd.op
        circ.append((id(cmd), id(op), type(op).__name__, id(op.p), tuple((id(p), _pval(p)) if not isinstance(p, (int, float, complex)) else _pval(p) for p in op.p),
                     getattr(op, "dagger", None), repr(getattr(op, "select", None)), repr(getattr(op, "dark_counts", None)),
                     tuple(id(r) for r in cmd.reg), tuple(r.ind for r in cmd.reg),
                     tuple(sorted(r.ind for r in op.measurement_deps))))
    return dict(
        circuit_id=id(prog.circuit), circuit=circ,
        reg_refs=[(k, id(r), r.ind, r.active) for k, r in prog.reg_refs.items()],
        init_reg_refs=[(k, r.ind, r.active) for k, r in prog.init_reg_refs.items()],
        unused=sorted(prog.unused_indices), init_n=prog.init_num_subsystems,
        free=[(k, id(v)) for k, v in prog.free_params.items()],
        name=prog.name, target=prog.target, run_options=repr(prog.run_options),
        backend_options=repr(prog.backend_options), source=id(prog.source) if prog.source is not None else None)


def snap_diff(a, b):
    return [k for k in a if a[k] != b[k]]


# ------------------------------------------------------------------ states

def state_data(backend_name, state):
    if backend_name == "gaussian":
        return [np.asarray(state.means()), np.asarray(state.cov())]
    if backend_name == "bosonic":
        return [np.asarray(state.weights()), np.asarray(state.means()), np.asarray(state.covs())]
    return [np.asarray(state.dm())]


def state_dist(a, b):
    if len(a) != len(b) or any(x.shape != y.shape for x, y in zip(a, b)):
        return float("inf")
    return max((float(np.max(np.abs(x - y), initial=0)) for x, y in zip(a, b)), default=0.0)
