"""Shared numerics for the simulator properties (C01 C05 C06 C07 C15 C16):
an independent phase-space reference calculation (own symplectic matrices from the documented
Heisenberg action of every gate, no thewalrus, no SF back end), moment extraction from every kind of
state object, and random program generation.  hbar-independent: everything is compared in the
dimensionless (alpha, N, M) picture  alpha_i = <a_i>,  N_ij = <a_i^dag a_j> - conj(alpha_i) alpha_j,
M_ij = <a_i a_j> - alpha_i alpha_j."""
import math

import numpy as np

from lib import progs

# ---------------------------------------------------------------- reference phase-space calculation


def _bogoliubov_to_symp(U, W):
    """a' = U a + W a^dag  ->  real matrix on (x_1..x_k, p_1..p_k)"""
    A = (U + W).real
    B = (-(U - W)).imag
    C = (U + W).imag
    D = (U - W).real
    return np.block([[A, B], [C, D]])


def gate_symplectic(cls, pars, hbar_units=False):
    """(S, d) on the gate's own modes in xxpp ordering, hbar = 2 (x = a + a^dag); d is the displacement.
    Dimensionful parameters (Xgate, Zgate, Pgate, CXgate, CZgate) are taken in units where hbar = 2
    has already been accounted for by the caller (see `ref_apply`)."""
    c, s = math.cos, math.sin
    if cls == "Rgate":
        (t,) = pars
        return np.array([[c(t), -s(t)], [s(t), c(t)]]), np.zeros(2)
    if cls == "Fouriergate":
        return np.array([[0.0, -1.0], [1.0, 0.0]]), np.zeros(2)
    if cls == "Sgate":
        r, phi = (list(pars) + [0.0])[:2]
        ch, sh = math.cosh(r), math.sinh(r)
        return np.array([[ch - c(phi) * sh, -s(phi) * sh], [-s(phi) * sh, ch + c(phi) * sh]]), np.zeros(2)
    if cls == "Dgate":
        r, phi = (list(pars) + [0.0])[:2]
        return np.eye(2), 2 * np.array([r * c(phi), r * s(phi)])
    if cls == "Xgate":
        return np.eye(2), np.array([pars[0], 0.0])
    if cls == "Zgate":
        return np.eye(2), np.array([0.0, pars[0]])
    if cls == "Pgate":
        return np.array([[1.0, 0.0], [pars[0], 1.0]]), np.zeros(2)
    if cls == "BSgate":
        th, phi = (list(pars) + [math.pi / 4, 0.0][len(pars):])[:2]
        t, r = c(th), np.exp(1j * phi) * s(th)
        U = np.array([[t, -np.conj(r)], [r, t]])
        return _bogoliubov_to_symp(U, np.zeros((2, 2))), np.zeros(4)
    if cls == "S2gate":
        r, phi = (list(pars) + [0.0])[:2]
        U = math.cosh(r) * np.eye(2, dtype=complex)
        W = np.exp(1j * phi) * math.sinh(r) * np.array([[0, 1], [1, 0]], dtype=complex)
        return _bogoliubov_to_symp(U, W), np.zeros(4)
    if cls == "CXgate":
        sgm = pars[0]
        S = np.eye(4)
        S[1, 0] = sgm      # x2 += s x1
        S[2, 3] = -sgm     # p1 -= s p2
        return S, np.zeros(4)
    if cls == "CZgate":
        sgm = pars[0]
        S = np.eye(4)
        S[2, 1] = sgm      # p1 += s x2
        S[3, 0] = sgm      # p2 += s x1
        return S, np.zeros(4)
    if cls == "MZgate":
        phi_in, phi_ex = pars
        bs, _ = gate_symplectic("BSgate", [math.pi / 4, math.pi / 2])

        def r1(t):
            R = np.eye(4)
            R[0, 0], R[0, 2], R[2, 0], R[2, 2] = c(t), -s(t), s(t), c(t)
            return R
        return bs @ r1(phi_in) @ bs @ r1(phi_ex), np.zeros(4)
    raise KeyError(cls)


GAUSSIAN_GATE_CLASSES = ["Rgate", "Fouriergate", "Sgate", "Dgate", "Xgate", "Zgate", "Pgate", "BSgate", "S2gate",
                         "CXgate", "CZgate", "MZgate"]
# dimension of each parameter in powers of sqrt(hbar/2):  value_in_hbar2_units = value / scale**power
PAR_DIM = {"Xgate": [1], "Zgate": [1], "Pgate": [0], "CXgate": [0], "CZgate": [0]}


class RefState:
    """(mu, V) in xxpp ordering, hbar = 2 internally"""

    def __init__(self, n):
        self.n = n
        self.mu = np.zeros(2 * n)
        self.V = np.eye(2 * n)

    def idx(self, modes):
        return list(modes) + [m + self.n for m in modes]

    def apply_SYd(self, modes, S, Y=None, d=None):
        ix = self.idx(modes)
        X = np.eye(2 * self.n)
        X[np.ix_(ix, ix)] = S
        self.mu = X @ self.mu
        self.V = X @ self.V @ X.T
        if Y is not None:
            self.V[np.ix_(ix, ix)] += Y
        if d is not None:
            self.mu[ix] += d

    def reset_mode(self, m):
        """trace out mode m and replace by vacuum"""
        ix = self.idx([m])
        self.V[ix, :] = 0
        self.V[:, ix] = 0
        self.V[ix, ix] = 1
        self.mu[ix] = 0

    def alpha_N_M(self):
        n = self.n
        alpha = (self.mu[:n] + 1j * self.mu[n:]) / 2
        A, B, C = self.V[:n, :n], self.V[:n, n:], self.V[n:, n:]
        N = 0.25 * (A + C + 1j * (B - B.T) - 2 * np.eye(n))
        M = 0.25 * (A - C + 1j * (B + B.T))
        return alpha, N, M


def ref_apply(ref, op, hbar=2.0):
    """apply one spec op to the reference state; returns False if the op is not Gaussian-deterministic"""
    cls, regs, pars = op["cls"], op["regs"], [float(p) for p in op.get("pars", [])]
    sc = math.sqrt(hbar / 2)
    if cls in GAUSSIAN_GATE_CLASSES:
        p2 = list(pars)
        if cls in ("Xgate", "Zgate"):
            p2 = [pars[0] / sc]                       # a displacement of x by `x` is x/sc in hbar=2 units
        S, d = gate_symplectic(cls, p2)
        if op.get("dagger"):
            Si = np.linalg.inv(S)
            S, d = Si, -Si @ d
        ref.apply_SYd(regs, S, d=d)
        return True
    if cls == "LossChannel":
        T = pars[0]
        ref.apply_SYd(regs, math.sqrt(T) * np.eye(2), Y=(1 - T) * np.eye(2))
        return True
    if cls == "ThermalLossChannel":
        T, nbar = pars
        ref.apply_SYd(regs, math.sqrt(T) * np.eye(2), Y=(1 - T) * (2 * nbar + 1) * np.eye(2))
        return True
    if cls == "PassiveChannel":
        a = op["apars"][0]
        T = np.array(a["re"], dtype=float) + 1j * np.array(a.get("im") or np.zeros_like(np.array(a["re"])), dtype=float)
        X = np.block([[T.real, -T.imag], [T.imag, T.real]])
        ref.apply_SYd(regs, X, Y=np.eye(2 * len(regs)) - X @ X.T)
        return True
    if cls == "Gaussian":
        V = np.array(op["apars"][0]["re"], dtype=float) / (hbar / 2)
        r = np.array(op["apars"][1]["re"], dtype=float) / sc
        for m in regs:
            ref.reset_mode(m)
        ix = ref.idx(regs)
        ref.V[np.ix_(ix, ix)] = V
        ref.mu[ix] = r
        return True
    if cls in ("Vacuum", "Coherent", "Squeezed", "DisplacedSqueezed", "Thermal"):
        m = regs[0]
        ref.reset_mode(m)
        if cls == "Coherent":
            r, phi = (pars + [0.0])[:2]
            ref.apply_SYd([m], np.eye(2), d=2 * np.array([r * math.cos(phi), r * math.sin(phi)]))
        elif cls == "Squeezed":
            S, _ = gate_symplectic("Sgate", pars)
            ref.apply_SYd([m], S)
        elif cls == "DisplacedSqueezed":
            rd, pd, rs, ps = (pars + [0.0] * 4)[:4]
            S, _ = gate_symplectic("Sgate", [rs, ps])
            ref.apply_SYd([m], S)
            ref.apply_SYd([m], np.eye(2), d=2 * np.array([rd * math.cos(pd), rd * math.sin(pd)]))
        elif cls == "Thermal":
            ix = ref.idx([m])
            ref.V[ix, ix] = 2 * pars[0] + 1
        return True
    return False


def reference(spec, hbar=2.0):
    """reference state over all modes that ever exist; `ref.active` lists the modes alive at the end (ascending)"""
    n_total = spec["n"] + sum(len(o["regs"]) for o in spec["ops"] if o["cls"] == "New")
    ref = RefState(n_total)
    alive = set(range(spec["n"]))
    for op in spec["ops"]:
        if op["cls"] == "Del":
            for m in op["regs"]:
                ref.reset_mode(m)
                alive.discard(m)
            continue
        if op["cls"] == "New":
            alive |= set(op["regs"])
            continue
        if not ref_apply(ref, op, hbar):
            return None
    ref.active = sorted(alive)
    return ref


def restrict_moments(m, modes):
    a, N, M = m[:3]
    ix = np.array(modes, dtype=int)
    return a[ix], N[np.ix_(ix, ix)], M[np.ix_(ix, ix)]


# ---------------------------------------------------------------- moments of SF state objects

def moments_gaussian(state, hbar):
    """(alpha, N, M) from a BaseGaussianState / single-component bosonic state"""
    mu, V = np.asarray(state.means(), dtype=float), np.asarray(state.cov(), dtype=float)
    n = len(mu) // 2
    mu = mu / math.sqrt(hbar / 2)
    V = V / (hbar / 2)
    alpha = (mu[:n] + 1j * mu[n:]) / 2
    A, B, C = V[:n, :n], V[:n, n:], V[n:, n:]
    N = 0.25 * (A + C + 1j * (B - B.T) - 2 * np.eye(n))
    M = 0.25 * (A - C + 1j * (B + B.T))
    return alpha, N, M


def moments_bosonic(state, hbar):
    """(alpha, N, M) of a weighted sum of Gaussians (xpxp ordering in the bosonic state object)"""
    w = np.asarray(state.weights())
    mus = np.asarray(state.means())
    covs = np.asarray(state.covs())
    n = mus.shape[1] // 2
    perm = list(range(0, 2 * n, 2)) + list(range(1, 2 * n, 2))
    mu = np.einsum("k,ki->i", w, mus)
    second = np.einsum("k,kij->ij", w, covs + np.einsum("ki,kj->kij", mus, mus))
    V = second - np.outer(mu, mu)
    mu, V = mu[perm], V[np.ix_(perm, perm)]
    mu = (mu / math.sqrt(hbar / 2))
    V = V / (hbar / 2)
    alpha = (mu[:n] + 1j * mu[n:]) / 2
    A, B, C = V[:n, :n], V[:n, n:], V[n:, n:]
    N = 0.25 * (A + C + 1j * (B - B.T) - 2 * np.eye(n))
    M = 0.25 * (A - C + 1j * (B + B.T))
    return np.real_if_close(alpha, 1e6) + 0j, N, M


def dm_of(state):
    """full density matrix with interleaved indices [i0, j0, i1, j1, ...], computed here from ket if pure"""
    n = state.num_modes
    if state.is_pure:
        ket = np.asarray(state.ket())
        rho = np.multiply.outer(ket, ket.conj())            # [i0..i_{n-1}, j0..j_{n-1}]
        order = [k for m in range(n) for k in (m, m + n)]
        return np.transpose(rho, order)
    return np.asarray(state.dm())


def reduced_dm(rho, n, keep):
    """own partial trace: keep the modes in `keep` (in that order)"""
    cur = list(range(n))
    for m in sorted(set(range(n)) - set(keep), reverse=True):
        pos = cur.index(m)
        rho = np.trace(rho, axis1=2 * pos, axis2=2 * pos + 1)
        cur.pop(pos)
    # now modes `cur` ascending; reorder to `keep`
    order = [k for m in keep for k in (2 * cur.index(m), 2 * cur.index(m) + 1)]
    return np.transpose(rho, order)


def moments_fock(state):
    """(alpha, N, M, trace) from the Fock density matrix by explicit ladder-operator sums"""
    n = state.num_modes
    rho = dm_of(state)
    D = rho.shape[0]
    sq = np.sqrt(np.arange(D))
    tr = float(np.real(reduced_dm(rho, n, [])))
    alpha = np.zeros(n, dtype=complex)
    N = np.zeros((n, n), dtype=complex)
    M = np.zeros((n, n), dtype=complex)
    for i in range(n):
        r1 = reduced_dm(rho, n, [i])
        # <a> = sum_m rho[m, m-1] sqrt(m)
        alpha[i] = sum(r1[m, m - 1] * sq[m] for m in range(1, D))
        N[i, i] = sum(r1[m, m] * m for m in range(D))
        M[i, i] = sum(r1[m, m - 2] * sq[m] * sq[m - 1] for m in range(2, D))
    for i in range(n):
        for j in range(i + 1, n):
            r2 = reduced_dm(rho, n, [i, j])     # [mi, ni, mj, nj]
            # <a_i^dag a_j> = sum rho[mi, mi+1, mj, mj-1] sqrt(mi+1) sqrt(mj)
            N[i, j] = np.einsum("a,b,ab->", sq[1:], sq[1:], np.array(
                [[r2[mi, mi + 1, mj, mj - 1] for mj in range(1, D)] for mi in range(D - 1)]))
            N[j, i] = np.conj(N[i, j])
            # <a_i a_j> = sum rho[mi, mi-1, mj, mj-1] sqrt(mi) sqrt(mj)
            M[i, j] = np.einsum("a,b,ab->", sq[1:], sq[1:], np.array(
                [[r2[mi, mi - 1, mj, mj - 1] for mj in range(1, D)] for mi in range(1, D)]))
            M[j, i] = M[i, j]
    alpha, N, M = alpha / tr, N / tr, M / tr
    Nc = N - np.outer(alpha.conj(), alpha)
    Mc = M - np.outer(alpha, alpha)
    return alpha, Nc, Mc, tr


def moment_dist(a, b):
    """max abs difference between two (alpha, N, M) triples"""
    return max(float(np.max(np.abs(np.asarray(x) - np.asarray(y)), initial=0.0)) for x, y in zip(a[:3], b[:3]))


# ---------------------------------------------------------------- running programs

def run_spec(sf, spec, backend, hbar=None, op_cache=None, **backend_options):
    if hbar is not None:
        sf.hbar = hbar
    prog, _ = progs.build(spec, op_cache=op_cache)
    modes = backend_options.pop("modes", None)
    eng = sf.Engine(backend, backend_options=backend_options)
    res = eng.run(prog) if modes is None else eng.run(prog, modes=list(modes))
    return res.state, eng


# ---------------------------------------------------------------- generators

def small(rng, hi=0.35):
    """a parameter magnitude small enough for cutoff ~10 (or 0 / special values)"""
    u = rng.random()
    if u < 0.12:
        return 0.0
    return round(rng.uniform(-hi, hi), 3)


def angle(rng):
    u = rng.random()
    if u < 0.3:
        return rng.choice([0.0, math.pi, math.pi / 2, -math.pi / 2, math.pi / 4, 2 * math.pi, -math.pi])
    return round(rng.uniform(-3.2, 3.2), 3)


def rand_gaussian_op(rng, n, allow_two=True, allow_channel=True, allow_prep=True, thermal_loss=True,
                     dagger_p=0.25, classes=None):
    kinds = ["g1"] * 4 + (["g2"] * 4 if allow_two and n >= 2 else []) + (["ch"] if allow_channel else []) + \
        (["prep"] if allow_prep else [])
    kind = rng.choice(kinds)
    if kind == "g1":
        cls = rng.choice(["Rgate", "Sgate", "Dgate", "Xgate", "Zgate", "Pgate", "Fouriergate"])
        regs = [rng.randrange(n)]
    elif kind == "g2":
        cls = rng.choice(["BSgate", "BSgate", "S2gate", "CXgate", "CZgate", "MZgate"])
        regs = rng.sample(range(n), 2)
    elif kind == "ch":
        cls = rng.choice(["LossChannel", "ThermalLossChannel"] if thermal_loss else ["LossChannel"])
        regs = [rng.randrange(n)]
    else:
        cls = rng.choice(["Vacuum", "Coherent", "Squeezed", "DisplacedSqueezed", "Thermal"])
        regs = [rng.randrange(n)]
    if classes is not None and cls not in classes:
        return rand_gaussian_op(rng, n, allow_two, allow_channel, allow_prep, thermal_loss, dagger_p, classes)
    pars = {
        "Rgate": lambda: [angle(rng)], "Fouriergate": lambda: [],
        "Sgate": lambda: [small(rng), angle(rng)], "Dgate": lambda: [abs(small(rng, 0.5)), angle(rng)],
        "Xgate": lambda: [small(rng, 0.6)], "Zgate": lambda: [small(rng, 0.6)], "Pgate": lambda: [small(rng, 0.4)],
        "BSgate": lambda: [angle(rng), angle(rng)], "S2gate": lambda: [small(rng, 0.3), angle(rng)],
        "CXgate": lambda: [small(rng, 0.4)], "CZgate": lambda: [small(rng, 0.4)],
        "MZgate": lambda: [angle(rng), angle(rng)],
        "LossChannel": lambda: [rng.choice([0.0, 0.3, 0.5, 0.8, 1.0])],
        "ThermalLossChannel": lambda: [rng.choice([0.0, 0.3, 0.5, 0.8, 1.0]), rng.choice([0.0, 0.2, 0.5])],
        "Vacuum": lambda: [], "Coherent": lambda: [abs(small(rng, 0.5)), angle(rng)],
        "Squeezed": lambda: [small(rng), angle(rng)],
        "DisplacedSqueezed": lambda: [abs(small(rng, 0.4)), angle(rng), small(rng, 0.3), angle(rng)],
        "Thermal": lambda: [rng.choice([0.0, 0.1, 0.3])],
    }[cls]()
    op = dict(cls=cls, regs=regs, pars=pars)
    if kind in ("g1", "g2") and rng.random() < dagger_p:
        op["dagger"] = True
    return op


def rand_gaussian_program(rng, n=None, length=None, **kw):
    n = n or rng.randint(1, 4)
    length = length if length is not None else rng.randint(1, 8)
    return dict(n=n, ops=[rand_gaussian_op(rng, n, **kw) for _ in range(length)])


def correlated_prefix(rng, n):
    """ops preparing an entangled, displaced, mixed n-mode state (spectators are then non-trivial)"""
    ops = []
    for m in range(n):
        ops.append(dict(cls="Sgate", regs=[m], pars=[round(rng.uniform(0.1, 0.3), 3) * rng.choice([1, -1]), angle(rng)]))
        ops.append(dict(cls="Dgate", regs=[m], pars=[round(rng.uniform(0.1, 0.4), 3), angle(rng)]))
    for m in range(n - 1):
        ops.append(dict(cls="BSgate", regs=[m, m + 1], pars=[round(rng.uniform(0.3, 1.2), 3), angle(rng)]))
    if n >= 2 and rng.random() < 0.7:
        a, b = rng.sample(range(n), 2)
        ops.append(dict(cls="BSgate", regs=[a, b], pars=[round(rng.uniform(0.3, 1.2), 3), angle(rng)]))
    if rng.random() < 0.6:
        ops.append(dict(cls="LossChannel", regs=[rng.randrange(n)], pars=[rng.choice([0.5, 0.8])]))
    return ops


def rand_unitary(nprng, k):
    z = nprng.normal(size=(k, k)) + 1j * nprng.normal(size=(k, k))
    q, r = np.linalg.qr(z)
    return q * (np.diag(r) / np.abs(np.diag(r)))


def rand_passive_op(rng, nprng, n, lossy=None):
    """PassiveChannel on 1-3 modes in arbitrary order; unitary or uniformly/non-uniformly lossy"""
    k = rng.randint(1, min(3, n))
    regs = rng.sample(range(n), k)
    T = rand_unitary(nprng, k)
    lossy = rng.random() < 0.5 if lossy is None else lossy
    if lossy:
        T = np.diag(np.sqrt([rng.choice([0.3, 0.6, 1.0]) for _ in range(k)])) @ T
    T = np.round(T, 6)
    return dict(cls="PassiveChannel", regs=regs, pars=[], apars=[dict(re=T.real.tolist(), im=T.imag.tolist())])


def rand_gaussian_prep_op(rng, nprng, n, hbar=2.0):
    """Gaussian(V, r, decomp=False) on 1-3 modes in arbitrary order; V from a random program's state (physical)"""
    k = rng.randint(1, min(3, n))
    regs = rng.sample(range(n), k)
    if n >= 3 and rng.random() < 0.5:     # three targets in a cyclic order: the sorting permutation differs from its inverse
        a_, b_, c_ = sorted(rng.sample(range(n), 3))
        regs = rng.choice([[b_, c_, a_], [c_, a_, b_]])
        k = 3
    sub = rand_gaussian_program(rng, n=k, length=rng.randint(2 if k == 3 else 1, 5))
    if k == 3:      # make the three subsystems pairwise different
        sub["ops"] = [dict(cls="Dgate", regs=[i], pars=[0.2 + 0.15 * i, 0.3 * i]) for i in range(3)] + sub["ops"]
    ref = reference(sub, 2.0)
    V = np.round(ref.V * (hbar / 2), 9)
    V = (V + V.T) / 2
    r = np.round(ref.mu * math.sqrt(hbar / 2), 9)
    return dict(cls="Gaussian", regs=regs, pars=[], apars=[dict(re=V.tolist()), dict(re=r.tolist())], kw=dict(decomp=False))
