"""Helpers for the K6 (GBS application combinatorics) checks: graph cases, the scripted replacement of
numpy.random.choice, and independent brute-force statements of the C19 property on the real code.

Every `chk_*` function takes (ctx, case) with a JSON-able `case`, calls the real strawberryfields
function(s) and reports each violated promise with ctx.fail(signature, text, {"chk": name, "case": case}).
They are the property-level oracle and the replay entry points at the same time."""
import copy
import itertools
import math
from contextlib import contextmanager
from fractions import Fraction

import networkx as nx
import numpy as np

# ------------------------------------------------------------------------------------------ scripting


class Script:
    """stands in for numpy.random.choice: the k-th call, offered n alternatives, returns position
    picks[k] % n (0 when the script is exhausted) -- the same rule as `getPick` in Driver/Apps.lean"""

    def __init__(self, picks):
        self.picks, self.k, self.calls = list(picks), 0, []

    def __call__(self, a, *args, **kw):
        if isinstance(a, (int, np.integer)):
            arr, n = None, int(a)
        else:
            arr = np.asarray(a)
            n = len(arr)
        if n <= 0:
            raise ValueError("a must be non-empty")
        idx = (self.picks[self.k] % n) if self.k < len(self.picks) else 0
        self.k += 1
        self.calls.append(n)
        return idx if arr is None else arr[idx]


@contextmanager
def scripted(picks):
    s = Script(picks)
    old = np.random.choice
    np.random.choice = s
    try:
        yield s
    finally:
        np.random.choice = old


# ------------------------------------------------------------------------------------------ graphs


def mk_graph(gd):
    g = nx.Graph()
    g.add_nodes_from(gd["nodes"])
    g.add_edges_from(tuple(e) for e in gd["edges"])
    for (u, v), w in zip(gd["edges"], gd.get("ew", [])):   # edge attributes must not influence anything
        g[u][v]["weight"] = w
    return g


def rand_graph(rng, n, labels="range"):
    """G(n,p) without self-loops; labels: 'range' (0..n-1 ascending), 'shuffled' (0..n-1 inserted in random
    order), 'sparse' (random distinct labels < 40 in random order)"""
    p = rng.choice([0.15, 0.35, 0.5, 0.7, 0.9])
    if labels == "range":
        nodes = list(range(n))
    elif labels == "shuffled":
        nodes = list(range(n))
        rng.shuffle(nodes)
    else:
        nodes = rng.sample(range(40), n)
    edges = [[nodes[i], nodes[j]] for i in range(n) for j in range(i + 1, n) if rng.random() < p]
    if n >= 4 and rng.random() < 0.3:  # plant a clique so that growth has something to find
        k = rng.randint(3, min(n, 5))
        cl = rng.sample(nodes, k)
        have = {frozenset(e) for e in edges}
        for a, b in itertools.combinations(cl, 2):
            if frozenset((a, b)) not in have:
                edges.append([a, b])
    rng.shuffle(edges)
    return dict(nodes=nodes, edges=edges)


def all_graphs(n):
    """every simple graph on nodes 0..n-1"""
    prs = list(itertools.combinations(range(n), 2))
    for mask in range(1 << len(prs)):
        yield dict(nodes=list(range(n)), edges=[list(prs[i]) for i in range(len(prs)) if mask >> i & 1])


def adjsets(gd):
    adj = {v: set() for v in gd["nodes"]}
    for a, b in gd["edges"]:
        adj[a].add(b)
        adj[b].add(a)
    return adj


def bf_is_clique(adj, S):
    S = list(S)
    return all(S[j] in adj[S[i]] for i in range(len(S)) for j in range(i + 1, len(S)))


def rand_clique(rng, gd):
    """a random (not necessarily maximal) clique of the graph"""
    adj = adjsets(gd)
    order = list(gd["nodes"])
    rng.shuffle(order)
    C = []
    for v in order:
        if all(v in adj[c] for c in C) and rng.random() < 0.7:
            C.append(v)
    return C


NEAR_TIE_KINDS = ["abs9", "abs12", "rel6", "rel7", "rel12", "big7", "bigabs", "neg7", "zeromix", "f32", "bigint", "negbig"]


def near_tie_values(rng, kind, ks):
    """numbers that are exactly comparable but nearly tied at several scales; k = 0..3, so exact ties occur too"""
    f = {"abs9": lambda k: k * 1e-9, "abs12": lambda k: k * 1e-12,
         "rel6": lambda k: 1 + k * 1e-6, "rel7": lambda k: 1 + k * 1e-7, "rel12": lambda k: 1 + k * 1e-12,
         "big7": lambda k: 1e6 * (1 + k * 1e-7), "bigabs": lambda k: 1e6 + k * 1e-3,
         "neg7": lambda k: -(1 + k * 1e-7), "zeromix": lambda k: (k - 1) * 1e-9,
         "f32": lambda k: float(np.float32(1 + k * 1e-6)), "bigint": lambda k: 10 ** 6 + k,
         "negbig": lambda k: -(10 ** 6) - k}[kind]
    return [f(k) for k in ks]


def near_tie_sel(rng, n):
    """weight vector with near-ties; `w` = ranks (order-isomorphic integers: what the exact model and the exact
    oracle compare), `f` = the numbers handed to the code, `dt` = how they are packed"""
    kind = rng.choice(NEAR_TIE_KINDS)
    vals = near_tie_values(rng, kind, [rng.randint(0, 3) for _ in range(n)])
    order = sorted(set(vals))
    assert all(order[i] < order[i + 1] for i in range(len(order) - 1))
    dt = {"f32": "f32", "bigint": rng.choice(["ilist", "i64"]), "negbig": rng.choice(["ilist", "i64"])}.get(
        kind, rng.choice(["list", "f64", "mixed"]))
    return dict(w=[order.index(x) for x in vals], f=vals, dt=dt, kind=kind)


def rand_sel(rng, gd, allow_degree=True):
    r = rng.random()
    if r < 0.3:
        return "uniform"
    if r < 0.5 and allow_degree:
        return "degree"
    hi = rng.choice([1, 2, 3, 9])
    r = rng.random()
    if r > 0.6 and gd["nodes"]:    # near-ties at several scales, several dtypes
        return near_tie_sel(rng, len(gd["nodes"]))
    if r < 0.2:     # quarter-integer float weights, some negative (the model sees 4*w)
        return dict(w=[rng.randint(-3, hi) for _ in gd["nodes"]], scale=4)
    if r < 0.35:    # pairwise distinct weights: the rule leaves no tie
        w = list(range(len(gd["nodes"])))
        rng.shuffle(w)
        return dict(w=w)
    return dict(w=[rng.randint(0, hi) for _ in gd["nodes"]])


def py_sel(sel, rng=None):
    if isinstance(sel, dict) and "f" in sel and len(sel["f"]) == len(sel["w"]):
        f, dt = sel["f"], sel.get("dt", "list")
        if dt == "f64":
            return np.array(f, dtype=np.float64)
        if dt == "f32":
            return np.array(f, dtype=np.float32)
        if dt == "i64":
            return np.array(f, dtype=np.int64)
        if dt == "mixed":     # python ints where the value is integral, floats elsewhere
            return [int(x) if float(x).is_integer() else x for x in f]
        return list(f)
    if isinstance(sel, dict):
        w = sel["w"]
        if sel.get("scale"):
            w = [x / sel["scale"] for x in w]
        return np.array(w) if (sel.get("np") or (len(w) % 2 == 0)) else list(w)
    return sel


def bad_weights(gd, sel):
    return isinstance(sel, dict) and len(sel["w"]) != len(gd["nodes"])


def weights_of(gd, sel):
    if isinstance(sel, dict):
        return {n: sel["w"][i] for i, n in enumerate(gd["nodes"])}
    return None


# ------------------------------------------------------------------------------------------ similarity


def partitions(n, m=None):
    """independent generator of the partitions of n as non-increasing tuples"""
    if m is None:
        m = n
    if n == 0:
        yield ()
        return
    for k in range(min(n, m), 0, -1):
        for rest in partitions(n - k, k):
            yield (k,) + rest


def exact_orbit_card(orbit, modes):
    if len(orbit) > modes:
        return 0
    sample = list(orbit) + [0] * (modes - len(orbit))
    r = math.factorial(modes)
    for v in set(sample):
        r //= math.factorial(sample.count(v))
    return r


def exact_event_card(n, m, modes):
    """number of samples of `modes` counts, each <= m, summing to n: coefficient of x^n in (1+..+x^m)^modes"""
    poly = [1] + [0] * n
    for _ in range(modes):
        new = [0] * (n + 1)
        for i, c in enumerate(poly):
            if c:
                for k in range(0, min(m, n - i) + 1):
                    new[i + k] += c
        poly = new
    return poly[n]


def _is_exact_int(v, want):
    """the value returned by the code denotes exactly the integer `want`"""
    try:
        if isinstance(v, (float, np.floating)):
            return math.isfinite(v) and v == int(v) and int(v) == want
        return int(v) == want and v == want
    except Exception:
        return False


def chk_orbits(ctx, case):
    from strawberryfields.apps import similarity
    n = case["n"]
    got = [list(o) for o in similarity.orbits(n)]
    ctx.oracle_cases += 1
    rp = dict(chk="orbits", case=case)
    want = sorted(partitions(n))
    stripped = [tuple(x for x in o if x != 0) for o in got]
    if any(list(o) != sorted(o, reverse=True) for o in got):
        ctx.fail("orbits-not-sorted", f"orbits({n}) yields an orbit that is not in non-increasing order", rp)
    if len(set(stripped)) != len(stripped):
        ctx.fail("orbits-duplicate", f"orbits({n}) yields an orbit twice", rp)
    if sorted(set(stripped)) != want:
        miss = sorted(set(want) - set(stripped))[:2]
        extra = sorted(set(stripped) - set(want))[:2]
        ctx.fail("orbits-wrong-set", f"orbits({n}) is not the set of partitions of {n}: missing {miss}, "
                 f"spurious {extra} ({len(got)} orbits, {len(want)} partitions)", rp)
    if n >= 1 and any(0 in o for o in got):
        ctx.fail("orbits-zero-part", f"orbits({n}) yields an orbit with a zero part", rp)


def chk_orbit_card(ctx, case):
    from strawberryfields.apps import similarity
    orbit, modes = list(case["orbit"]), case["modes"]
    ctx.oracle_cases += 1
    rp = dict(chk="orbit_card", case=case)
    want = exact_orbit_card(orbit, modes)
    try:
        got = similarity.orbit_cardinality(list(orbit), modes)
    except Exception as e:  # e.g. OverflowError from float division
        ctx.fail("orbit_cardinality-raises", f"orbit_cardinality({orbit}, {modes}) raises {type(e).__name__}: {e}; "
                 f"the orbit has exactly {want} samples", rp)
        return
    if len(orbit) > modes:
        if not _is_exact_int(got, 0):
            ctx.fail("orbit_cardinality-orbit-longer-than-modes",
                     f"orbit_cardinality({orbit}, {modes}) = {got}, but no sample of {modes} modes has "
                     f"{len(orbit)} occupied modes (true count 0)", rp)
    elif not _is_exact_int(got, want):
        ctx.fail("orbit_cardinality-inexact",
                 f"orbit_cardinality({orbit}, {modes}) = {got!r}, true number of samples {want}", rp)
    if modes <= 7 and len(orbit) <= modes:
        bf = len(set(itertools.permutations(orbit + [0] * (modes - len(orbit)))))
        if bf != want:
            raise AssertionError("oracle self-check failed")


def chk_event_card(ctx, case):
    from strawberryfields.apps import similarity
    n, m, modes = case["n"], case["m"], case["modes"]
    ctx.oracle_cases += 1
    rp = dict(chk="event_card", case=case)
    want = exact_event_card(n, m, modes)
    try:
        got = similarity.event_cardinality(n, m, modes)
    except Exception as e:
        ctx.fail("event_cardinality-raises", f"event_cardinality({n}, {m}, {modes}) raises {type(e).__name__}: {e}; "
                 f"true count {want}", rp)
        return
    if not _is_exact_int(got, want):
        ctx.fail("event_cardinality-inexact",
                 f"event_cardinality({n}, {m}, {modes}) = {got!r}, true number of samples {want}", rp)
    # sum over orbits
    s = 0
    for o in similarity.orbits(n):
        if max(o) <= m:
            s += exact_orbit_card([x for x in o if x], modes)
    if s != want:
        ctx.fail("event-not-sum-of-orbits", f"the orbits of {n} photons with parts <= {m} hold {s} samples of "
                 f"{modes} modes, the event holds {want}", rp)


def chk_sample_conv(ctx, case):
    """sample -> orbit / event conversions agree with each other and with the enumeration"""
    from strawberryfields.apps import similarity
    s, m = list(case["s"]), case["m"]
    ctx.oracle_cases += 1
    rp = dict(chk="sample_conv", case=case)
    o = similarity.sample_to_orbit(list(s))
    if list(o) != sorted([x for x in s if x], reverse=True):
        ctx.fail("sample_to_orbit-wrong", f"sample_to_orbit({s}) = {o}", rp)
        return
    ev = similarity.sample_to_event(list(s), m)
    want_ev = sum(s) if max(s) <= m else None
    if ev != want_ev:
        ctx.fail("sample_to_event-wrong", f"sample_to_event({s}, {m}) = {ev}, expected {want_ev}", rp)
    n = sum(s)
    if 1 <= n <= 14:
        orbs = [list(x) for x in similarity.orbits(n)]
        if list(o) not in orbs:
            ctx.fail("orbit-of-sample-not-enumerated", f"sample_to_orbit({s}) = {o} is not among orbits({n})", rp)
    card = similarity.orbit_cardinality(list(o), len(s))
    if not (isinstance(card, (int, float, np.integer, np.floating)) and card >= 1):
        ctx.fail("orbit-of-sample-empty", f"sample {s} lies in orbit {o}, but orbit_cardinality({o}, {len(s)}) = {card}",
                 rp)
    if ev is not None and n <= 10 and len(s) <= 8:
        if similarity.event_cardinality(n, m, len(s)) < card:
            ctx.fail("event-smaller-than-orbit", f"event_cardinality({n},{m},{len(s)}) < orbit_cardinality({o},{len(s)})", rp)
    # orbit_to_sample lands in the orbit whatever the shuffle does
    if len(o) <= len(s):
        back = similarity.orbit_to_sample(list(o), len(s))
        if len(back) != len(s) or similarity.sample_to_orbit(list(back)) != list(o):
            ctx.fail("orbit_to_sample-leaves-orbit", f"orbit_to_sample({o}, {len(s)}) = {back}", rp)


# ------------------------------------------------------------------------------------------ clique


def bf_c0(gd, adj, C):
    Cs = set(C)
    return sorted(v for v in gd["nodes"] if v not in Cs and Cs <= adj[v])


def bf_c1(gd, adj, C):
    Cs = set(C)
    out = []
    for v in gd["nodes"]:
        if v in Cs:
            continue
        non = [c for c in Cs if c not in adj[v]]
        if len(non) == 1:
            out.append((non[0], v))
    return sorted(out)


def best(cands, key, largest=True):
    cands = list(cands)
    if not cands:
        return []
    b = max(key(c) for c in cands) if largest else min(key(c) for c in cands)
    return [c for c in cands if key(c) == b]


def grow_reachable(gd, adj, C, sel):
    """all results a rule-following run of grow can return"""
    w = weights_of(gd, sel)
    seen, frontier, finals = set(), [frozenset(C)], set()
    while frontier:
        cur = frontier.pop()
        if cur in seen:
            continue
        seen.add(cur)
        c0 = bf_c0(gd, adj, cur)
        if not c0:
            finals.add(cur)
            continue
        if sel == "uniform":
            cands = c0
        elif sel == "degree":
            cands = best(c0, lambda v: len(adj[v]))
        else:
            cands = best(c0, lambda v: w[v])
        for v in cands:
            frontier.append(cur | {v})
    return finals


def shrink_step_cands(adj, cur, w, ):
    cands = best(cur, lambda v: len(adj[v] & cur), largest=False)
    if w is not None:
        cands = best(cands, lambda v: w[v], largest=False)
    return cands


def grow_step_cands(gd, adj, cur, w):
    comp = [v for v in gd["nodes"] if v not in cur]
    cands = best(comp, lambda v: len(adj[v] & cur))
    if w is not None:
        cands = best(cands, lambda v: w[v])
    return cands


def shrink_reachable(gd, adj, S, sel, stop):
    """all sets a rule-following run that removes minimum-degree nodes can stop at; stop(cur) -> bool"""
    w = weights_of(gd, sel)
    seen, frontier, finals = set(), [frozenset(S)], set()
    while frontier:
        cur = frontier.pop()
        if cur in seen:
            continue
        seen.add(cur)
        if stop(cur):
            finals.add(cur)
            continue
        for v in shrink_step_cands(adj, cur, w):
            frontier.append(cur - {v})
    return finals


def grow_set_reachable(gd, adj, S, sel, size):
    """all sets of `size` nodes reachable from S by rule-following additions (resize growth phase)"""
    w = weights_of(gd, sel)
    level = {frozenset(S)}
    while level and len(next(iter(level))) < size:
        nxt = set()
        for cur in level:
            for v in grow_step_cands(gd, adj, cur, w):
                nxt.add(cur | {v})
        level = nxt
    return level


def _call(f, *a, **k):
    try:
        return ("ok", f(*a, **k))
    except ValueError as e:
        return ("ValueError", str(e))
    except Exception as e:  # any other exception class is itself reportable
        return (type(e).__name__, str(e))


# ------------------------------------------------------------------------------------------ purity of inputs


def snapshot_graph(g):
    return (list(g.nodes), {n: (dict(d), {m: dict(e) for m, e in g.adj[n].items()}) for n, d in g.nodes(data=True)})


def call_pure(ctx, rp, name, g, f, *args, **kw):
    """_call + the promise that the graph object and every list / array argument are left as they were"""
    before_g = snapshot_graph(g) if g is not None else None
    def cp(x):
        if isinstance(x, np.ndarray):
            return x.copy()
        if isinstance(x, list):
            return [cp(v) for v in x]
        if isinstance(x, tuple):
            return tuple(cp(v) for v in x)
        if isinstance(x, dict):
            return {k: cp(v) for k, v in x.items()}
        return x      # graphs (compared by snapshot), scalars, strings

    before = cp((args, kw))
    st, r = _call(f, *args, **kw)
    if g is not None and snapshot_graph(g) != before_g:
        ctx.fail("mutates-input-graph:" + name, f"{name} changed the graph object it was given (nodes/edges/attributes differ after the call)", rp)

    def same(a, b):
        if isinstance(a, np.ndarray) or isinstance(b, np.ndarray):
            return isinstance(a, np.ndarray) and isinstance(b, np.ndarray) and a.shape == b.shape and bool(np.all(a == b))
        if isinstance(a, (list, tuple)):
            return type(a) is type(b) and len(a) == len(b) and all(same(x, y) for x, y in zip(a, b))
        if isinstance(a, dict):
            return isinstance(b, dict) and a.keys() == b.keys() and all(same(a[k], b[k]) for k in a)
        if hasattr(a, "nodes") and hasattr(a, "edges"):
            return True    # graphs are compared by snapshot above
        return a == b

    if not same(before, (args, kw)):
        ctx.fail("mutates-input-argument:" + name, f"{name} changed one of its list/array arguments in place: before {before[0][:1]}…", rp)
    return st, r



def chk_is_clique(ctx, case):
    from strawberryfields.apps import clique
    gd, S = case["g"], case["S"]
    g, adj = mk_graph(gd), adjsets(gd)
    ctx.oracle_cases += 1
    rp = dict(chk="is_clique", case=case)
    got = clique.is_clique(g.subgraph(S))
    want = bf_is_clique(adj, set(S))
    if bool(got) != want:
        ctx.fail("is_clique-wrong", f"is_clique of nodes {sorted(set(S))} in graph {gd} = {got}, pairwise check {want}", rp)
    for name, bf in (("c_0", bf_c0), ("c_1", bf_c1)):
        st, r = call_pure(ctx, rp, name, g, getattr(clique, name), list(S), g)
        if want:
            if st != "ok":
                ctx.fail(f"{name}-raises-on-clique", f"{name}({S}, {gd}) raises {st}: {r}", rp)
            elif sorted(map(tuple, r) if name == "c_1" else r) != bf(gd, adj, S):
                ctx.fail(f"{name}-wrong", f"{name}({S}, {gd}) = {sorted(r)}, brute force {bf(gd, adj, S)}", rp)
        elif st != "ValueError":
            ctx.fail(f"{name}-accepts-non-clique", f"{name}({S}, {gd}) on a non-clique gives {st}: {r}", rp)


def chk_grow(ctx, case):
    from strawberryfields.apps import clique
    gd, S, sel, picks = case["g"], case["S"], case["sel"], case.get("picks", [])
    g, adj = mk_graph(gd), adjsets(gd)
    ctx.oracle_cases += 1
    rp = dict(chk="grow", case=case)
    with scripted(picks):
        st, r = call_pure(ctx, rp, "grow", g, clique.grow, list(S), g, node_select=py_sel(sel))
    valid = set(S) <= set(gd["nodes"]) and bf_is_clique(adj, set(S)) and not bad_weights(gd, sel)
    if not valid:
        if st != "ValueError":
            ctx.fail("grow-accepts-invalid-input", f"grow({S}, {gd}, {sel}) on a non-clique / foreign nodes / wrong number of weights gives {st}: {r}", rp)
        return st, r
    if st != "ok":
        ctx.fail("grow-raises", f"grow({S}, {gd}, {sel}) raises {st}: {r}", rp)
        return st, r
    R = set(r)
    if not (R <= set(gd["nodes"]) and bf_is_clique(adj, R)):
        ctx.fail("grow-not-clique", f"grow({S}, {gd}, {sel}) = {r} is not a clique of the graph", rp)
    elif not set(S) <= R:
        ctx.fail("grow-loses-nodes", f"grow({S}, {gd}, {sel}) = {r} does not contain the input clique", rp)
    elif bf_c0(gd, adj, R):
        ctx.fail("grow-not-maximal", f"grow({S}, {gd}, {sel}) = {r} can still be grown by {bf_c0(gd, adj, R)}", rp)
    elif list(r) != sorted(R):
        ctx.fail("grow-unsorted", f"grow({S}, {gd}, {sel}) = {r} is not a sorted duplicate-free list", rp)
    elif frozenset(R) not in grow_reachable(gd, adj, S, sel):
        ctx.fail("grow-selection-rule", f"grow({S}, {gd}, {sel}) = {r} cannot be produced by always adding a C0 node of "
                 f"greatest {'degree' if sel == 'degree' else 'weight'}", rp)
    return st, r


def chk_swap(ctx, case):
    from strawberryfields.apps import clique
    gd, S, sel, picks = case["g"], case["S"], case["sel"], case.get("picks", [])
    g, adj = mk_graph(gd), adjsets(gd)
    ctx.oracle_cases += 1
    rp = dict(chk="swap", case=case)
    with scripted(picks):
        st, r = call_pure(ctx, rp, "swap", g, clique.swap, list(S), g, node_select=py_sel(sel))
    valid = set(S) <= set(gd["nodes"]) and bf_is_clique(adj, set(S)) and not bad_weights(gd, sel)
    if not valid:
        if st != "ValueError":
            ctx.fail("swap-accepts-invalid-input", f"swap({S}, {gd}, {sel}) on a non-clique / foreign nodes / wrong number of weights gives {st}: {r}", rp)
        return st, r
    if st != "ok":
        ctx.fail("swap-raises", f"swap({S}, {gd}, {sel}) raises {st}: {r}", rp)
        return st, r
    R, C = set(r), set(S)
    c1 = bf_c1(gd, adj, S)
    w = weights_of(gd, sel)
    if sel == "degree":
        c1r = best(c1, lambda p: len(adj[p[1]]))
    elif w is not None:
        c1r = best(c1, lambda p: w[p[1]])
    else:
        c1r = c1
    if not (R <= set(gd["nodes"]) and bf_is_clique(adj, R)):
        ctx.fail("swap-not-clique", f"swap({S}, {gd}, {sel}) = {r} is not a clique of the graph", rp)
    elif len(R) != len(C) or list(r) != sorted(R):
        ctx.fail("swap-size", f"swap({S}, {gd}, {sel}) = {r} is not a sorted clique of the input size {len(C)}", rp)
    elif not c1:
        if R != C:
            ctx.fail("swap-without-candidate", f"swap({S}, {gd}, {sel}) = {r} although C1 is empty", rp)
    elif not any(R == (C - {c}) | {i} for c, i in c1):
        ctx.fail("swap-not-a-c1-swap", f"swap({S}, {gd}, {sel}) = {r} is not the exchange of one C1 pair {c1}", rp)
    elif not any(R == (C - {c}) | {i} for c, i in c1r):
        ctx.fail("swap-selection-rule", f"swap({S}, {gd}, {sel}) = {r}: the incoming node is not of greatest "
                 f"{'degree' if sel == 'degree' else 'weight'} among C1 {c1}", rp)
    return st, r


def chk_shrink(ctx, case):
    from strawberryfields.apps import clique
    gd, S, sel, picks = case["g"], case["S"], case["sel"], case.get("picks", [])
    g, adj = mk_graph(gd), adjsets(gd)
    ctx.oracle_cases += 1
    rp = dict(chk="shrink", case=case)
    with scripted(picks):
        st, r = call_pure(ctx, rp, "shrink", g, clique.shrink, list(S), g, node_select=py_sel(sel))
    if not set(S) <= set(gd["nodes"]) or bad_weights(gd, sel):
        if st != "ValueError":
            ctx.fail("shrink-accepts-invalid-input", f"shrink({S}, {gd}, {sel}) with foreign nodes / wrong number of weights gives {st}: {r}", rp)
        return st, r
    if st != "ok":
        ctx.fail("shrink-raises", f"shrink({S}, {gd}, {sel}) raises {st}: {r}", rp)
        return st, r
    R = set(r)
    if not (R <= set(S) and bf_is_clique(adj, R)):
        ctx.fail("shrink-not-clique", f"shrink({S}, {gd}, {sel}) = {r} is not a clique inside the input subgraph", rp)
    elif list(r) != sorted(R):
        ctx.fail("shrink-unsorted", f"shrink({S}, {gd}, {sel}) = {r} is not a sorted duplicate-free list", rp)
    elif frozenset(R) not in shrink_reachable(gd, adj, S, sel, lambda cur: bf_is_clique(adj, cur)):
        ctx.fail("shrink-selection-rule" + ("-weights" if isinstance(sel, dict) else ""),
                 f"shrink({S}, {gd}, {sel}) = {r} cannot be produced by always removing a node of lowest degree in the "
                 f"subgraph" + (" and lowest weight among those" if isinstance(sel, dict) else ""), rp)
    return st, r


def chk_clique_search(ctx, case):
    from strawberryfields.apps import clique
    gd, S, sel, picks, it = case["g"], case["S"], case["sel"], case.get("picks", []), case["iterations"]
    g, adj = mk_graph(gd), adjsets(gd)
    ctx.oracle_cases += 1
    rp = dict(chk="clique_search", case=case)
    with scripted(picks):
        st, r = _call(clique.search, list(S), g, it, node_select=py_sel(sel))
    if st != "ok":
        ctx.fail("clique-search-raises", f"clique.search({S}, {gd}, {it}, {sel}) raises {st}: {r}", rp)
        return
    R = set(r)
    if not (R <= set(gd["nodes"]) and bf_is_clique(adj, R)) or len(R) < len(set(S)):
        ctx.fail("clique-search-not-clique", f"clique.search({S}, {gd}, {it}, {sel}) = {r} is not a clique of the graph at "
                 f"least as large as the input", rp)


# ------------------------------------------------------------------------------------------ subgraph


def exact_density(adj, T):
    T = set(T)
    n = len(T)
    m = sum(len(adj[v] & T) for v in T) // 2
    return Fraction(0) if n <= 1 or m == 0 else Fraction(2 * m, n * (n - 1))


def resize_expect_error(gd, S, lo, hi, sel):
    return (not set(S) <= set(gd["nodes"]) or lo < 1 or hi >= len(gd["nodes"]) or hi < lo
            or (isinstance(sel, dict) and len(sel["w"]) != len(gd["nodes"])) or sel == "degree")


def judge_resize(ctx, rp, what, gd, adj, S, lo, hi, sel, r):
    """r: dict size -> nodes returned by the real resize"""
    S = frozenset(S)
    start = len(S)
    w = weights_of(gd, sel)
    if sorted(r) != list(range(lo, hi + 1)):
        ctx.fail("resize-sizes", f"{what} has sizes {sorted(r)}, requested {lo}..{hi}", rp)
        return
    for k, T in r.items():
        if len(T) != k or len(set(T)) != k or not set(T) <= set(gd["nodes"]) or list(T) != sorted(T):
            ctx.fail("resize-entry-not-a-subset-of-its-size", f"{what}: entry {k} -> {T} is not a sorted set of {k} graph nodes", rp)
            return
    if lo <= start <= hi and set(r[start]) != S:
        ctx.fail("resize-start", f"{what}: entry of the starting size {start} is {r[start]}, not the input", rp)
        return
    wt = "-weights" if w is not None else ""
    # growth chain
    if hi > start:
        first = max(start + 1, lo)
        if frozenset(r[first]) not in grow_set_reachable(gd, adj, S, sel, first):
            ctx.fail("resize-grow-rule" + wt, f"{what}: the {first}-node entry {r[first]} cannot be reached from the input by adding, "
                     f"each time, an outside node of greatest degree relative to the subgraph"
                     + (" (ties: greatest weight)" if wt else ""), rp)
            return
        for k in range(first, hi):
            cur, nxt = frozenset(r[k]), frozenset(r[k + 1])
            ok = cur < nxt and next(iter(nxt - cur)) in grow_step_cands(gd, adj, cur, w)
            if not ok:
                ctx.fail("resize-grow-rule" + wt, f"{what}: step {k} -> {k + 1} ({r[k]} -> {r[k + 1]}) does not add an outside node of "
                         f"greatest degree relative to the subgraph" + (" (ties: greatest weight)" if wt else ""), rp)
                return
    if lo < start:
        first = min(start - 1, hi)
        reach = shrink_reachable(gd, adj, S, sel, lambda cur: len(cur) <= first)
        if frozenset(r[first]) not in reach:
            ctx.fail("resize-shrink-rule" + wt, f"{what}: the {first}-node entry {r[first]} cannot be reached from the input by removing, "
                     f"each time, a node of lowest degree in the subgraph" + (" (ties: lowest weight)" if wt else ""), rp)
            return
        for k in range(first, lo, -1):
            cur, nxt = frozenset(r[k]), frozenset(r[k - 1])
            ok = nxt < cur and next(iter(cur - nxt)) in shrink_step_cands(adj, cur, w)
            if not ok:
                ctx.fail("resize-shrink-rule" + wt, f"{what}: step {k} -> {k - 1} ({r[k]} -> {r[k - 1]}) does not remove a node of lowest "
                         f"degree in the subgraph" + (" (ties: lowest weight)" if wt else ""), rp)
                return


def chk_resize(ctx, case):
    from strawberryfields.apps import subgraph
    gd, S, lo, hi, sel, picks = case["g"], case["S"], case["min"], case["max"], case["sel"], case.get("picks", [])
    g, adj = mk_graph(gd), adjsets(gd)
    ctx.oracle_cases += 1
    rp = dict(chk="resize", case=case)
    with scripted(picks):
        st, r = call_pure(ctx, rp, "resize", g, subgraph.resize, list(S), g, lo, hi, node_select=py_sel(sel))
    what = f"resize({S}, {gd}, {lo}, {hi}, {sel})"
    if resize_expect_error(gd, S, lo, hi, sel):
        if st != "ValueError":
            ctx.fail("resize-accepts-invalid-input", f"{what} gives {st}: {r}", rp)
        return st, r
    if st != "ok":
        ctx.fail("resize-raises", f"{what} raises {st}: {r}", rp)
        return st, r
    r = {int(k): [int(x) for x in v] for k, v in r.items()}
    judge_resize(ctx, rp, what, gd, adj, S, lo, hi, sel, r)
    return st, r


def judge_toplist(ctx, rp, what, lst, max_count, seen, exact=False):
    """lst: [(density, nodes)], seen: {frozenset(nodes): density (Fraction, or the exact float when `exact`)} of
    everything offered"""
    dens = [d for d, _ in lst]
    if any(dens[i] < dens[i + 1] for i in range(len(dens) - 1)):
        ctx.fail("toplist-not-sorted", f"{what}: densities {dens} are not in non-increasing order", rp)
        return
    keys = [frozenset(s) for _, s in lst]
    if len(set(keys)) != len(keys):
        ctx.fail("toplist-duplicate", f"{what}: a subgraph is listed twice: {lst}", rp)
        return
    if len(lst) > max_count:
        ctx.fail("toplist-too-long", f"{what}: {len(lst)} entries, max_count {max_count}", rp)
        return
    for d, s in lst:
        fs = frozenset(s)
        if fs not in seen or (seen[fs] != d if exact else abs(float(seen[fs]) - d) > 1e-12) or list(s) != sorted(set(s)):
            ctx.fail("toplist-foreign-entry", f"{what}: entry ({d}, {s}) is not one of the offered subgraphs with its density", rp)
            return
    missing = [fs for fs in seen if fs not in set(keys)]
    if missing:
        if len(lst) < max_count:
            ctx.fail("toplist-drops-with-room", f"{what}: {len(lst)} of {max_count} places used but {sorted(missing[0])} was dropped", rp)
            return
        worst = min(seen[k] for k in keys)
        bad = [fs for fs in missing if seen[fs] > worst]
        if bad:
            ctx.fail("toplist-drops-denser", f"{what}: dropped {sorted(bad[0])} (density {seen[bad[0]]}) but kept density {worst}", rp)


def chk_update_list(ctx, case):
    """sequence of _update_subgraphs_list calls on an initially empty list; densities are k/16"""
    from strawberryfields.apps import subgraph
    max_count, items, coins = case["max"], case["items"], case.get("coins", [])
    ctx.oracle_cases += 1
    rp = dict(chk="update_list", case=case)
    vals = case.get("values")           # optional: density of rank k is values[k] (strictly increasing, nearly tied)
    dens = (lambda k: vals[k]) if vals else (lambda k: k / 16)
    lst, seen, trace = [], {}, []
    with scripted(coins):
        for k, s in items:
            subgraph._update_subgraphs_list(lst, (dens(k), list(s)), max_count)
            seen.setdefault(frozenset(s), dens(k))
            trace.append([[d, list(x)] for d, x in lst])
    what = f"_update_subgraphs_list x{len(items)} (max_count {max_count}, items {[[dens(k), s] for k, s in items]})"
    judge_toplist(ctx, rp, what, lst, max_count, seen, exact=True)
    return trace


def chk_search(ctx, case):
    from strawberryfields.apps import subgraph
    gd, subs, lo, hi, mc, sel, picks = (case["g"], case["subs"], case["min"], case["max"], case["maxCount"],
                                        case["sel"], case.get("picks", []))
    mckw = dict(max_count=mc)
    if case.get("default_max_count"):     # documented default: 10
        mc, mckw = 10, {}
    g, adj = mk_graph(gd), adjsets(gd)
    ctx.oracle_cases += 1
    rp = dict(chk="search", case=case)
    offered = []
    real_resize = subgraph.resize

    def rec_resize(*a, **k):
        r = real_resize(*a, **k)
        offered.append({int(kk): [int(x) for x in v] for kk, v in r.items()})
        return r

    subgraph.resize = rec_resize
    try:
        with scripted(picks):
            st, r = call_pure(ctx, rp, "subgraph.search", g, subgraph.search, [list(s) for s in subs], g, lo, hi, node_select=py_sel(sel), **mckw)
    finally:
        subgraph.resize = real_resize
    what = f"search({subs}, {gd}, {lo}, {hi}, max_count={mc}, {sel})"
    if any(resize_expect_error(gd, s, lo, hi, sel) for s in subs):
        if st != "ValueError":
            ctx.fail("search-accepts-invalid-input", f"{what} gives {st}", rp)
        return st, r
    if st != "ok":
        ctx.fail("search-raises", f"{what} raises {st}: {r}", rp)
        return st, r
    if not subs:
        if r != {}:
            ctx.fail("search-nonempty", f"{what} = {r}", rp)
        return st, r
    r = {int(k): [(float(d), [int(x) for x in s]) for d, s in v] for k, v in r.items()}
    if sorted(r) != list(range(lo, hi + 1)):
        ctx.fail("search-sizes", f"{what} has sizes {sorted(r)}, requested {lo}..{hi}", rp)
        return st, r
    for size in r:
        seen = {}
        for o in offered:
            if size in o:
                seen[frozenset(o[size])] = exact_density(adj, o[size])
        for d, s in r[size]:
            if len(s) != size or len(set(s)) != size or not set(s) <= set(gd["nodes"]):
                ctx.fail("search-entry-not-a-subset-of-its-size", f"{what}: {s} listed under size {size}", rp)
                return st, r
            if abs(float(exact_density(adj, s)) - d) > 1e-12:
                ctx.fail("search-density-wrong", f"{what}: {s} listed with density {d}, exact {exact_density(adj, s)}", rp)
                return st, r
        judge_toplist(ctx, rp, f"{what} size {size}", r[size], mc, seen)
    # each resize result must itself obey resize's promises
    for s, o in zip(subs, offered):
        judge_resize(ctx, rp, f"resize inside {what} for {s}", gd, adj, s, lo, hi, sel, o)
    return st, r


# ------------------------------------------------------------------------------------------ sample


def chk_sample_post(ctx, case):
    from strawberryfields.apps import sample
    gd, samples, lo, hi = case["g"], case["samples"], case["min"], case["max"]
    g = mk_graph(gd)
    ctx.oracle_cases += 1
    rp = dict(chk="sample_post", case=case)
    ps = sample.postselect([list(s) for s in samples], lo, hi)
    if [list(s) for s in ps] != [list(s) for s in samples if lo <= sum(s) <= hi]:
        ctx.fail("postselect-wrong", f"postselect({samples}, {lo}, {hi}) = {ps}", rp)
    for s in samples:
        m = sample.modes_from_counts(list(s))
        if list(m) != [i for i, c in enumerate(s) for _ in range(c)]:
            ctx.fail("modes_from_counts-wrong", f"modes_from_counts({s}) = {m}", rp)
            break
    sg = sample.to_subgraphs([list(s) for s in samples], g)
    want = [sorted(gd["nodes"][i] for i, c in enumerate(s) if c > 0) for s in samples]
    if len(sg) != len(samples) or any(sorted(a) != b or len(a) != len(b) for a, b in zip(sg, want)):
        ctx.fail("to_subgraphs-wrong", f"to_subgraphs({samples}, nodes {gd['nodes']}) = {sg}, clicked nodes {want}", rp)
    return ps, sg


CHECKS = dict(orbits=chk_orbits, orbit_card=chk_orbit_card, event_card=chk_event_card, sample_conv=chk_sample_conv,
              is_clique=chk_is_clique, grow=chk_grow, swap=chk_swap, shrink=chk_shrink, clique_search=chk_clique_search,
              resize=chk_resize, update_list=chk_update_list, search=chk_search, sample_post=chk_sample_post)
