"""K2 / C08 helpers: history specs for register + mode bookkeeping, an independent Python reference of the
abstract specification (`Spec`), a generator, and the executor that drives the real sf.Program / Engine /
back end with a history and records every observable in the same shape as the Lean driver (`reg.hist`).

History = {"backend": "fock" | "fock-mixed" | "gaussian" | "bosonic", "n0": int, "events": [ev, ...]}
  ev = {"e": "new", "n": k} | {"e": "del", "ms": [ref]} | {"e": "use", "ms": [ref], "k": int, "deps": [ref]}
     | {"e": "meas", "ms": [ref]} | {"e": "end", "probe": [...], "modes": [[pos]], } | {"e": "reset", "n": k}
     | {"e": "fresh", "n": k} | {"e": "poke"}
  ref = {"i": int} (integer index) | {"o": k} (the program's own RegRef of index k) | {"f": [ind, active]}
        (a RegRef object foreign to the program)
Data: every mode carries an integer number of displacement units (UNIT in the x quadrature); a one-mode
`use` adds k units (Xgate), the two-mode `use` is BSgate(pi/2, 0): (a, b) -> (-b, a); a measurement
(MeasureHomodyne with select, MeasureFock) leaves the measured modes in vacuum."""
import copy
import math

import numpy as np

UNIT = 0.25
CUTOFF = 5
MAXU = 4          # |data| bound for the Fock back end (truncation)


# ------------------------------------------------------------------------------------------------
# abstract specification (independent of the Lean model): rows[i] = None (deleted) | int (data)
# ------------------------------------------------------------------------------------------------
def ref_idx(ref):
    if "i" in ref:
        return ref["i"] if ref["i"] >= 0 else None
    if "o" in ref:
        return ref["o"]
    return None


class Spec:
    def __init__(self, n):
        self.rows = [0] * n

    def live(self):
        return [i for i, d in enumerate(self.rows) if d is not None]

    def ok_sel(self, refs):
        idx = [ref_idx(r) for r in refs]
        if not idx or any(i is None for i in idx):
            return None
        if any(i >= len(self.rows) or self.rows[i] is None for i in idx) or len(set(idx)) != len(idx):
            return None
        return idx

    def accepts(self, ev):
        """-> (accepted?, expected exception family when rejected)"""
        e = ev["e"]
        if e == "new":
            return (ev["n"] >= 1), "ValueError"
        if e == "del" or e == "meas":
            if not ev["ms"]:
                return False, "ValueError"
            return self.ok_sel(ev["ms"]) is not None, "RegRefError"
        if e == "use" and ev.get("all"):
            # All(op) | reg: the whole selection is tested first; an empty selection is accepted and does nothing
            if not ev["ms"]:
                return True, None
            return self.ok_sel(ev["ms"]) is not None, "RegRefError"
        if e == "use":
            if len(ev["ms"]) not in (1, 2):
                return False, "ValueError"
            if self.ok_sel(ev["ms"]) is None:
                return False, "RegRefError"
            if ev.get("deps") and self.ok_sel(ev["deps"]) is None:
                return False, "RegRefError"
            return True, None
        return True, None

    def apply(self, ev):
        e = ev["e"]
        if e == "new":
            first = len(self.rows)
            self.rows += [0] * ev["n"]
            return list(range(first, first + ev["n"]))
        idx = self.ok_sel(ev["ms"]) or []
        if e == "use" and ev.get("all"):
            for i in idx:
                self.rows[i] += ev["k"]
            return None
        if e == "del":
            for i in idx:
                self.rows[i] = None
        elif e == "meas":
            for i in idx:
                self.rows[i] = 0
        elif e == "use":
            if len(idx) == 1:
                self.rows[idx[0]] += ev["k"]
            else:
                a, b = idx
                self.rows[a], self.rows[b] = -self.rows[b], self.rows[a]
        return None

    def state(self):
        return [[i, d] for i, d in enumerate(self.rows) if d is not None]


# ------------------------------------------------------------------------------------------------
# generator
# ------------------------------------------------------------------------------------------------
def _ref(rng, i, kinds=("o", "o", "i")):
    k = rng.choice(kinds)
    return {"i": i} if k == "i" else {"o": i}


def _bad_refs(rng, spec, want):
    """a selection that must be rejected: dead / unknown / negative / duplicate / foreign / stale"""
    live = spec.live()
    dead = [i for i, d in enumerate(spec.rows) if d is None]
    n = len(spec.rows)
    kind = rng.choice(["dead", "dead", "unknown", "negative", "dup", "foreign", "foreign-inactive", "stale",
                       "unknown-own", "mixed"])
    good = [_ref(rng, i) for i in rng.sample(live, min(len(live), max(0, want - 1)))]
    if kind == "dead" and dead:
        bad = [{"i": rng.choice(dead)}]
    elif kind == "stale" and dead:
        bad = [{"o": rng.choice(dead)}]
    elif kind == "unknown":
        bad = [{"i": n + rng.randint(0, 2)}]
    elif kind == "unknown-own":
        bad = [{"o": n + rng.randint(0, 1)}]
    elif kind == "negative":
        bad = [{"i": -rng.randint(1, n)}]
    elif kind == "dup" and live:
        i = rng.choice(live)
        bad = [_ref(rng, i), _ref(rng, i)]
        good = good[:max(0, want - 2)]
    elif kind == "foreign" and live:
        bad = [{"f": [rng.choice(live), True]}]
    elif kind == "foreign-inactive" and dead:
        bad = [{"f": [rng.choice(dead), False]}]
    elif kind == "mixed" and dead and live:
        bad = [{"o": rng.choice(live)}, {"i": rng.choice(dead)}]
        good = []
    else:
        bad = [{"i": n}]
    refs = good + bad
    rng.shuffle(refs)
    return kind, refs


def gen_history(rng, backend, big=False, multi=True, portable=False):
    """`portable`: a history every back end can run (at most 4 live modes, |data| <= MAXU, one-mode measurements)"""
    fock = backend.startswith("fock") or portable
    cap = 4 if fock else (7 if big else 6)
    n0 = rng.choice([1, 1, 2, 2, 3, 3, 4] if not fock else [1, 1, 2, 2, 3, 3])
    spec = Spec(n0)
    evs = []
    nseg = rng.choice([1, 2, 2, 3, 3, 4, 5] if multi else [1])
    ran_once = False
    measured = set()       # indices measured in the current segment (usable as parameter dependencies)
    for seg in range(nseg):
        seg_changed = False    # an accepted New / Del in this segment (then the program cannot follow itself)
        seg_acc = []           # accepted events of this segment
        steps = rng.randint(0, 10 if big else 8)
        if seg == 0 and rng.random() < 0.35:
            steps = max(steps, 1)
        for st in range(steps):
            live = spec.live()
            dead = [i for i, d in enumerate(spec.rows) if d is None]
            x = rng.random()
            first_new = (seg == 0 and st == 0 and rng.random() < 0.5)
            if not live and not first_new and 0.16 <= x < 0.70:
                x = rng.choice([0.0, 0.8])        # nothing to act on: create modes or try a rejected selection
            if first_new or x < 0.16:
                room = cap - len(live)
                if room <= 0:
                    continue
                n = min(room, rng.choice([1, 1, 2, 2, 3]))
                if rng.random() < 0.04:
                    n = 0
                ev = {"e": "new", "n": n}
            elif x < 0.30:
                # now and then every mode is deleted
                kmax = len(live) if rng.random() < 0.25 else len(live) - 1
                if kmax <= 0:
                    continue
                k = min(kmax, rng.choice([1, 1, 1, 2, 2, 3]))
                ev = {"e": "del", "ms": [_ref(rng, i) for i in rng.sample(live, k)]}
            elif x < 0.60 and backend == "bosonic" and rng.random() < 0.22:
                # ancilla-assisted gate (measurement-based squeezing by 0: the identity on the data, but the single-shot
                # map adds, measures and removes an internal ancilla mode)
                anc = rng.choice(["shot", "shot", "avg"])
                if rng.random() < 0.2:
                    kind, refs = _bad_refs(rng, spec, 1)
                    refs = refs[:1]          # MSgate acts on one subsystem (the selection may happen to be valid then)
                    ev = {"e": "use", "ms": refs, "k": 0, "deps": [], "anc": anc, "bad": kind}
                else:
                    ev = {"e": "use", "ms": [_ref(rng, rng.choice(live))], "k": 0, "deps": [], "anc": anc}
            elif x < 0.60 and rng.random() < 0.12:
                # All(Xgate) on several modes (now and then on none, or on a rejected selection)
                z = rng.random()
                if z < 0.12:
                    ev = {"e": "use", "all": True, "ms": [], "k": 1, "deps": []}
                elif z < 0.3:
                    kind, refs = _bad_refs(rng, spec, rng.choice([2, 3]))
                    ev = {"e": "use", "all": True, "ms": refs, "k": 1, "deps": [], "bad": kind}
                else:
                    sel = rng.sample(live, rng.randint(1, min(3, len(live))))
                    k = rng.choice([-1, 1, 2])
                    if fock and any(abs(spec.rows[i] + k) > MAXU for i in sel):
                        k = 0
                    ev = {"e": "use", "all": True, "ms": [_ref(rng, i) for i in sel], "k": k, "deps": []}
            elif x < 0.60:
                if len(live) >= 2 and rng.random() < 0.35:
                    a, b = rng.sample(live, 2)
                    ev = {"e": "use", "ms": [_ref(rng, a), _ref(rng, b)], "k": 0, "deps": []}
                else:
                    i = rng.choice(live)
                    k = rng.choice([-2, -1, 1, 2, 3])
                    if fock and abs(spec.rows[i] + k) > MAXU:
                        k = -k if abs(spec.rows[i] - k) <= MAXU else 0
                    deps = []
                    okdeps = [m for m in measured if spec.rows[m] is not None]
                    if okdeps and rng.random() < 0.4:
                        deps = [{"o": m} for m in rng.sample(okdeps, min(len(okdeps), rng.choice([1, 1, 2])))]
                    ev = {"e": "use", "ms": [_ref(rng, i)], "k": k, "deps": deps}
            elif x < 0.70:
                k = 1 if (not fock or portable or rng.random() < 0.6) else min(len(live), 2)
                ev = {"e": "meas", "ms": [_ref(rng, i) for i in rng.sample(live, k)]}
            elif x < 0.93:
                what = rng.choice(["use", "use", "del", "del", "meas", "use-dep"])
                if what == "use-dep" and not live:
                    what = "del"
                if what == "use-dep":
                    # a dependency on a mode that was measured in this segment and deleted afterwards, or on a
                    # foreign RegRef
                    md = [m for m in measured if spec.rows[m] is None]
                    dd = [{"o": rng.choice(md)}] if md and rng.random() < 0.8 else [{"f": [rng.choice(live + [len(spec.rows) + 3]), True]}]
                    ev = {"e": "use", "ms": [{"o": rng.choice(live)}], "k": 1, "deps": dd, "bad": "dep"}
                else:
                    kind, refs = _bad_refs(rng, spec, rng.choice([1, 1, 2, 2, 3]) if what != "use" else rng.choice([1, 2]))
                    ev = {"e": what, "ms": refs, "bad": kind}
                    if what == "use":
                        ev.update(k=1, deps=[])
            else:
                what = rng.choice(["empty-del", "empty-use", "empty-meas", "arity"])
                if what == "arity" and len(live) >= 3:
                    ev = {"e": "use", "ms": [_ref(rng, i) for i in rng.sample(live, 3)], "k": 1, "deps": [], "bad": "arity"}
                else:
                    ev = {"e": {"empty-del": "del", "empty-use": "use", "empty-meas": "meas"}.get(what, "del"), "ms": [], "bad": "empty"}
                    if ev["e"] == "use":
                        ev.update(k=1, deps=[])
            ok, _ = spec.accepts(ev)
            if ok:
                spec.apply(ev)
                seg_acc.append(ev)
                if ev["e"] in ("new", "del"):
                    seg_changed = True
                if ev["e"] == "meas":
                    # only a post-selected homodyne leaves a known value (0.25) in the RegRef; a later MeasureFock
                    # of the same mode overwrites it with a photon number
                    if len(ev["ms"]) == 1:
                        measured |= {ref_idx(r) for r in ev["ms"]}
                    else:
                        measured -= {ref_idx(r) for r in ev["ms"]}
            evs.append(ev)
        # ---- end of segment
        created = len(spec.rows)
        live = spec.live()
        probe = [{"t": "gate", "ms": [m]} for m in range(created + 2)]
        if len(live) >= 1:
            for _ in range(2):
                a = rng.randrange(created + 1)
                b = rng.choice(live)
                if a != b:
                    pr = [a, b]
                    rng.shuffle(pr)
                    probe.append({"t": "gate", "ms": pr})
        for _ in range(2):
            k = min(created + 1, rng.choice([1, 1, 2]))
            probe.append({"t": "del", "ms": rng.sample(range(created + 1), k)})
        if len(live) >= 2:
            probe.append({"t": "del", "ms": rng.sample(live, rng.choice([1, 2]))})
        if backend == "bosonic":
            probe += [{"t": "ms", "ms": [m]} for m in range(created + 2)]
        # state(modes=[...]): SUBSYSTEM INDICES on every back end — live ones in any order, cyclic orders of >= 3,
        # and requests naming a deleted or a never created index (must be refused)
        modes = []
        dead = [i for i, d in enumerate(spec.rows) if d is None]
        if live:
            modes.append(rng.sample(live, rng.randint(1, len(live))))
            if len(live) >= 3:
                cyc = sorted(rng.sample(live, rng.randint(3, len(live))))
                r_ = rng.randrange(1, len(cyc))
                cyc = cyc[r_:] + cyc[:r_]
                modes.append(cyc if rng.random() < 0.6 else cyc[::-1])
            elif len(live) == 2:
                modes.append(sorted(live, reverse=True))
        z = rng.random()
        if z < 0.45 and dead:
            bad = [rng.choice(dead)] + rng.sample(live, min(len(live), rng.choice([0, 1, 2])))
            rng.shuffle(bad)
            modes.append(bad)
        elif z < 0.7:
            bad = [created + rng.randint(0, 2)] + rng.sample(live, min(len(live), rng.choice([0, 1])))
            rng.shuffle(bad)
            modes.append(bad)
        evs.append({"e": "end", "probe": probe, "modes": modes})
        ran_once = True
        measured = set()
        if rng.random() < 0.3:
            evs.append({"e": "poke"})
        if seg == nseg - 1:
            break
        y = rng.random()
        if 0.70 < y <= 0.80:
            # the program object that was just run, once more (a repeated fragment): it can follow itself only if it
            # neither created nor deleted a mode
            ok_rerun = True
            if not seg_changed:
                # the segment's effect is applied once more
                trial = copy.deepcopy(spec)
                for x_ in seg_acc:
                    trial.apply(x_)
                if fock and any(d is not None and abs(d) > MAXU for d in trial.rows):
                    ok_rerun = False        # would leave the range the Fock cutoff represents faithfully
                else:
                    spec = trial
            if ok_rerun:
                evs.append({"e": "rerun", "follows": not seg_changed})
        elif 0.80 < y <= 0.92:
            # Program(P) for an INDEPENDENTLY built P (never run) with the same active indices as the register now
            created = len(spec.rows)
            live = spec.live()
            deadl = [i for i in range(created) if spec.rows[i] is None]
            kind = rng.choice(["match", "extra", "extra", "short"])
            if kind == "short":
                n = (max(live) + 1) if live else 1
                if n >= created:
                    kind = "extra"
                else:
                    dels = [i for i in range(n) if i not in live]
            if kind == "extra":
                x = rng.choice([1, 1, 2])
                n, dels = created + x, deadl + list(range(created, created + x))
            if kind == "match":
                n, dels = created, deadl
            rng.shuffle(dels)
            evs.append({"e": "alien", "n": n, "dels": dels, "kind": kind})
            if kind != "match":
                # the successor creates a mode (the retired / shifted index would show) — the engine has to refuse it
                rows = [None if i in dels else (spec.rows[i] if i < created and spec.rows[i] is not None else 0) for i in range(n)]
                spec = Spec(0)
                spec.rows = rows
                for _ in range(rng.randint(1, 3)):
                    lv = spec.live()
                    if rng.random() < 0.6 or not lv:
                        ev = {"e": "new", "n": rng.choice([1, 1, 2])}
                    else:
                        ev = {"e": "use", "ms": [{"o": rng.choice(lv)}], "k": 0, "deps": []}
                    spec.apply(ev)
                    evs.append(ev)
                if not any(e_["e"] == "new" for e_ in evs[-3:]):
                    evs.append({"e": "new", "n": 1})
                evs.append({"e": "end", "probe": [], "modes": [], "mismatch": True})
                break
        elif y > 0.92:
            # eng.reset() while the user goes on with Program(prev): runs on a new simulator if the register has no
            # holes, is refused otherwise
            evs.append({"e": "resetkeep"})
            if None in spec.rows:
                evs.append({"e": "end", "probe": [], "modes": [], "mismatch": True})
                break
            spec = Spec(len(spec.rows))
        elif y < 0.12:
            n = rng.choice([1, 2, 3])
            evs.append({"e": "reset", "n": n, "probe": [{"t": "gate", "ms": [m]} for m in range(4)], "modes": []})
            spec = Spec(n)
        elif y < 0.22:
            # a fresh Program(n) instead of Program(prev): may follow only if no index was ever deleted
            created = len(spec.rows)
            if None not in spec.rows and rng.random() < 0.7:
                evs.append({"e": "fresh", "n": created})
            else:
                n = rng.choice([created, created + 1, max(1, len(live))])
                follows = (None not in spec.rows and n == created)
                evs.append({"e": "fresh", "n": n})
                if not follows:
                    evs.append({"e": "end", "probe": [], "modes": [], "mismatch": True})
                    break
    return {"backend": backend, "n0": n0, "events": evs}


# ------------------------------------------------------------------------------------------------
# executor on the real code
# ------------------------------------------------------------------------------------------------
def _mk_ref(prog, ref):
    from strawberryfields.program_utils import RegRef
    if "i" in ref:
        return ref["i"]
    if "o" in ref:
        k = ref["o"]
        if k in prog.reg_refs:
            return prog.reg_refs[k]
        return RegRef(k)
    r = RegRef(ref["f"][0])
    r.active = bool(ref["f"][1])
    return r


def prog_obs(prog):
    return dict(reg=[int(r.ind) for r in prog.register],
                refs=[[int(r.ind), bool(r.active)] for _, r in prog.reg_refs.items()],
                keys=[int(k) for k in prog.reg_refs.keys()],
                unused=sorted(int(i) for i in prog.unused_indices), locked=bool(prog.locked),
                initNum=int(prog.init_num_subsystems), ncmd=len(prog.circuit))


def _labels(state):
    names = state.mode_names
    out = []
    for j in range(len(names)):
        s = names[j]
        out.append(int(s[2:-1]) if s.startswith("q[") else s)
    return out


def state_obs(state, fock):
    """[[label, data]] — data rounded to an integer number of units when it is one (within tolerance)"""
    labels = _labels(state)
    out = []
    n = state.num_modes
    if n != len(labels):
        return {"err": f"num_modes {n} != {len(labels)} labels"}
    tol = 0.06 if fock else 1e-6
    for j in range(n):
        x = float(np.real(state.quad_expectation(j, 0.0)[0])) / UNIT
        p = float(np.real(state.quad_expectation(j, math.pi / 2)[0])) / UNIT
        u = round(x)
        if abs(x - u) <= tol and abs(p) <= tol:
            out.append([labels[j], int(u)])
        else:
            out.append([labels[j], [round(x, 4), round(p, 4)]])
    return out


def backend_obs(eng, fock):
    b = eng.backend
    gm = [int(x) for x in b.get_modes()]
    if fock:
        internal = [None if x is None else int(x) for x in b._modemap._map]
        nstore = int(b.circuit._num_modes)
    else:
        internal = [None if x is None else int(x) for x in b.circuit.active]
        nstore = int(b.circuit.nlen)
    return dict(gm=gm, internal=internal, nstore=nstore)


def _probe(eng, pr):
    b = eng.backend
    ms = pr["ms"]
    try:
        if pr["t"] == "gate":
            if len(ms) == 1:
                b.rotation(0.0, ms[0])
            else:
                b.beamsplitter(0.0, 0.0, ms[0], ms[1])
            return {"r": "ok", "gm": [int(x) for x in b.get_modes()]}
        c = copy.deepcopy(b)
        if pr["t"] == "ms":
            c.mb_squeeze_single_shot(ms[0], 0.0, 0.0, 1.2, 0.99)
            return {"r": "ok", "gm": [int(x) for x in c.get_modes()]}
        c.del_mode(list(ms))
        return {"r": "ok", "gm": [int(x) for x in c.get_modes()]}
    except Exception as ex:  # noqa: BLE001
        return {"r": type(ex).__name__}


def run_real(sf, hist):
    """-> list of observations, one per event (same keys as the Lean driver's answer)"""
    from strawberryfields import ops
    be = hist["backend"]
    fock = be.startswith("fock")
    opts = {"cutoff_dim": CUTOFF, "pure": be != "fock-mixed"} if fock else {}
    eng = sf.Engine("fock" if fock else be, backend_options=opts)
    prog = sf.Program(hist["n0"])
    out = []
    last_run = None
    pars = {}
    op_cache = {}          # equal operations are ONE shared instance, within and across the programs of a history

    def shared(key, ctor):
        if key not in op_cache:
            op_cache[key] = ctor()
        return op_cache[key]

    watched = []           # (program, snapshot of reg_refs) of every program that was run: must never change again
    init_snap = [[int(r.ind), bool(r.active)] for r in prog.init_reg_refs.values()]
    first = None           # (index of the first successful end, its program)

    def alias_check():
        bad = []
        for j, (pw, snap) in enumerate(watched):
            now = [[int(r.ind), bool(r.active)] for r in pw.reg_refs.values()]
            if now != snap:
                bad.append(f"program {j} (already run): reg_refs {snap} -> {now}")
        now = [[int(r.ind), bool(r.active)] for r in prog.init_reg_refs.values()]
        if now != init_snap:
            bad.append(f"init_reg_refs of the program under construction: {init_snap} -> {now}")
        return bad
    for ev in hist["events"]:
        e = ev["e"]
        if e in ("new", "del", "use", "meas"):
            r, extra = "ok", {}
            try:
                with prog.context:
                    if e == "new":
                        refs = ops.New(ev["n"])
                        extra["new"] = [int(x.ind) for x in refs]
                    else:
                        reg = tuple(_mk_ref(prog, x) for x in ev["ms"])
                        if e == "del":
                            ops.Del | reg
                        elif e == "meas":
                            if len(reg) == 1:
                                rr = shared("MH", lambda: ops.MeasureHomodyne(0.0, select=UNIT)) | reg
                                pars[(id(prog), rr[0].ind)] = rr[0].par
                            else:
                                shared("MF", ops.MeasureFock) | reg
                        else:
                            par = UNIT * ev["k"]
                            for d in ev.get("deps", []):
                                dp = pars.get((id(prog), d.get("o")))
                                par = par * (4 * (dp if dp is not None else _mk_ref(prog, d).par))
                            plain = not ev.get("deps")
                            if ev.get("anc"):
                                avg_ = ev["anc"] == "avg"
                                shared(("MS", avg_), lambda: ops.MSgate(0.0, 0.0, r_anc=1.2, eta_anc=0.99, avg=avg_)) | reg
                            elif ev.get("all"):
                                ops.All(shared(("X", ev["k"]), lambda: ops.Xgate(par))) | reg
                            elif len(reg) == 1:
                                (shared(("X", ev["k"]), lambda: ops.Xgate(par)) if plain else ops.Xgate(par)) | reg
                            elif plain:
                                shared("BS", lambda: ops.BSgate(math.pi / 2, 0.0)) | reg
                            else:
                                ops.BSgate(par / UNIT * math.pi / 2, 0.0) | reg
            except Exception as ex:  # noqa: BLE001
                r = type(ex).__name__
            out.append(dict(r=r, alias=alias_check(), **prog_obs(prog), **extra))
        elif e == "end":
            ran_reg = [int(x.ind) for x in prog.register]
            try:
                res = eng.run(prog)
            except Exception as ex:  # noqa: BLE001
                o = dict(r=type(ex).__name__, msg=str(ex)[:200], **prog_obs(prog))
                try:     # a refused program must leave the simulator as it was
                    o["gm_after"] = [int(x) for x in eng.backend.get_modes()]
                    o["state_after"] = state_obs(eng.backend.state(), fock)
                except Exception as ex2:  # noqa: BLE001
                    o["gm_after"] = {"err": type(ex2).__name__}
                out.append(o)
                break
            o = dict(r="ok", ranReg=ran_reg)
            o.update(backend_obs(eng, fock))
            try:
                o["state"] = state_obs(res.state, fock)
            except Exception as ex:  # noqa: BLE001
                o["state"] = {"err": type(ex).__name__, "msg": str(ex)[:200]}
            o["probe"] = [_probe(eng, pr) for pr in ev.get("probe", [])]
            sm = []
            for ms in ev.get("modes", []):
                try:
                    sm.append(state_obs(eng.backend.state(modes=list(ms)), fock))
                except Exception as ex:  # noqa: BLE001
                    sm.append({"err": type(ex).__name__, "msg": str(ex)[:200]})
            o["smodes"] = sm
            # observing must not change anything: the same questions again
            try:
                o["again"] = dict(gm=[int(x) for x in eng.backend.get_modes()], state=state_obs(eng.backend.state(), fock))
            except Exception as ex:  # noqa: BLE001
                o["again"] = {"err": type(ex).__name__, "msg": str(ex)[:200]}
            # measurement results are filed under the index of the measured mode
            try:
                sd = res.samples_dict or {}
                o["samples"] = {int(k): [float(np.real(np.ravel(v[-1])[0])), len(v)] for k, v in sd.items()}
                o["samples_shape"] = list(np.shape(res.samples))
                o["skeys"] = sorted(int(k) for k in sd)
                if getattr(res, "ancillae_samples", None) is not None:
                    o["anc_keys"] = sorted(int(k) for k in res.ancillae_samples)
            except Exception as ex:  # noqa: BLE001
                o["samples"] = {"err": type(ex).__name__, "msg": str(ex)[:200]}
            last_run = prog
            watched.append((prog, [[int(r.ind), bool(r.active)] for r in prog.reg_refs.values()]))
            if first is None:
                first = (len(out), prog)
            prog = sf.Program(prog)
            init_snap = [[int(r.ind), bool(r.active)] for r in prog.init_reg_refs.values()]
            o.update(prog_obs(prog))
            o["alias"] = alias_check()
            out.append(o)
        elif e == "reset":
            eng.reset()
            o = dict(r="ok")
            o.update(backend_obs(eng, fock))
            try:
                o["state"] = state_obs(eng.backend.state(), fock)
            except Exception as ex:  # noqa: BLE001
                o["state"] = {"err": type(ex).__name__, "msg": str(ex)[:200]}
            o["probe"] = [_probe(eng, pr) for pr in ev.get("probe", [])]
            o["smodes"] = []
            prog = sf.Program(ev["n"])
            init_snap = [[int(r.ind), bool(r.active)] for r in prog.init_reg_refs.values()]
            o.update(prog_obs(prog))
            out.append(o)
        elif e == "alien":
            try:
                P = sf.Program(ev["n"])
                if ev["dels"]:
                    with P.context:
                        ops.Del | tuple(int(i) for i in ev["dels"])
                prog = sf.Program(P)
                init_snap = [[int(r.ind), bool(r.active)] for r in prog.init_reg_refs.values()]
                out.append(dict(r="ok", **prog_obs(prog)))
            except Exception as ex:  # noqa: BLE001
                out.append(dict(r=type(ex).__name__, **prog_obs(prog)))
        elif e == "rerun":
            try:
                res = eng.run(last_run)
                o = dict(r="ok", **prog_obs(prog))
                o.update(backend_obs(eng, fock))
                try:
                    o["state"] = state_obs(res.state, fock)
                except Exception as ex:  # noqa: BLE001
                    o["state"] = {"err": type(ex).__name__, "msg": str(ex)[:200]}
            except Exception as ex:  # noqa: BLE001
                o = dict(r=type(ex).__name__, msg=str(ex)[:200])
                try:
                    o["gm_after"] = [int(x) for x in eng.backend.get_modes()]
                    o["state_after"] = state_obs(eng.backend.state(), fock)
                except Exception as ex2:  # noqa: BLE001
                    o["gm_after"] = {"err": type(ex2).__name__}
            out.append(o)
        elif e == "resetkeep":
            eng.reset()
            o = dict(r="ok", **prog_obs(prog))
            o.update(backend_obs(eng, fock))
            try:
                o["state"] = state_obs(eng.backend.state(), fock)
            except Exception as ex:  # noqa: BLE001
                o["state"] = {"err": type(ex).__name__, "msg": str(ex)[:200]}
            out.append(o)
        elif e == "fresh":
            try:
                prog = sf.Program(ev["n"])
                init_snap = [[int(r.ind), bool(r.active)] for r in prog.init_reg_refs.values()]
                out.append(dict(r="ok", **prog_obs(prog)))
            except Exception as ex:  # noqa: BLE001
                out.append(dict(r=type(ex).__name__, **prog_obs(prog)))
        elif e == "poke":
            o = {}
            for key, f in (("use", lambda: ops.Xgate(0.0) | 0), ("new", lambda: ops.New(1))):
                try:
                    with last_run.context:
                        f()
                    o[key] = "ok"
                except Exception as ex:  # noqa: BLE001
                    o[key] = type(ex).__name__
            o["reg_after"] = [int(x.ind) for x in last_run.register]
            out.append(o)
    # the first program of the history once more, on a new engine: same modes, same state
    if first is not None and first[0] < len(out):
        try:
            eng2 = sf.Engine("fock" if fock else be, backend_options=opts)
            res2 = eng2.run(first[1])
            out[first[0]]["rerun"] = dict(gm=[int(x) for x in eng2.backend.get_modes()], state=state_obs(res2.state, fock))
        except Exception as ex:  # noqa: BLE001
            out[first[0]]["rerun"] = {"err": type(ex).__name__, "msg": str(ex)[:200]}
    return out
