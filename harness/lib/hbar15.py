"""C15 helpers: program specs whose dimensionful parameters are written in hbar = 2 units, their rescaling to
another hbar by the documented units, a builder, a runner that sets `sf.hbar`, and the *observation plan*:
a JSON list of state-method calls whose answers are normalised to dimensionless numbers with the
documented power of s = sqrt(hbar / 2).  Two runs of the same spec at two hbar values must then give the
same list of answers.

Units (documented in the ops.py docstrings): Xgate x ~ s, Zgate p ~ s, Vgate gamma ~ 1/s
(V = exp(i gamma x^3 / (3 hbar))), Gaussian(V, r): V ~ s^2, r ~ s, MeasureHomodyne select / result ~ s,
MSgate ancilla sample ~ s (a homodyne outcome); Pgate / CXgate / CZgate parameters, alpha of Coherent /
Dgate / DisplacedSqueezed / Catstate, GKP epsilon, heterodyne outcomes are dimensionless.
State objects: means ~ s, cov ~ s^2, Wigner function ~ 1/s^2 on a grid ~ s, marginal ~ 1/s."""
import copy
import math

import numpy as np

from lib import sim

# the property quantifies over every hbar > 0: conventions of order one and small / large ones (absolute tolerances applied to
# hbar-scaled quantities show up only there)
HBARS = [1.0, 0.5, 0.7, 3.0, 4.5, 0.98, 0.05, 0.1, 0.25, 4.0, 10.0]
EXTREME = [0.05, 0.1, 0.25, 4.0, 10.0]
MAX_WEIGHTS_FOCK = 12
# thewalrus-backed Fock-basis numbers carry absolute noise of a few 1e-9 (entries that are exactly 0 at one hbar come out as
# 3e-9 at another); real scaling mistakes are at the 1e-2 level
METHOD_TOL = {"squeezing": 1e-6, "reduced_dm": 1e-8, "dm": 1e-8, "ket": 1e-8, "all_fock_probs": 1e-8, "fock_prob": 1e-8,
              "fidelity_coherent": 1e-8, "fidelity_vacuum": 1e-8}
NAN_WILD = {"squeezing"}
# power of s carried by numeric parameter j of a class
PAR_DIM = {"Xgate": [1], "Zgate": [1], "Vgate": [-1]}


def s_of(h):
    return math.sqrt(h / 2)


def par_dim(cls, j):
    d = PAR_DIM.get(cls, [])
    return d[j] if j < len(d) else 0


def rescale_spec(spec, h):
    """the same experiment written in units where hbar = h (spec is in hbar = 2 units)"""
    s = s_of(h)
    out = copy.deepcopy(spec)
    last_meas = {}
    for op in out["ops"]:
        cls = op["cls"]
        if cls in ("MeasureHomodyne", "MeasureHeterodyne"):
            last_meas[op["regs"][0]] = 1 if cls == "MeasureHomodyne" else 0
        if cls == "Gaussian":
            V, r = op["pars"]
            op["pars"] = [(np.asarray(V, dtype=float) * s * s).tolist(), (np.asarray(r, dtype=float) * s).tolist()]
            continue
        new = []
        for j, p in enumerate(op.get("pars", [])):
            d = par_dim(cls, j)
            if isinstance(p, dict) and "m" in p:
                # a measured homodyne value carries one power of s itself, a heterodyne outcome none
                q = dict(p)
                q["k"] = p.get("k", 1) * s ** (d - last_meas.get(p["m"], 1))
                new.append(q)
            elif d and isinstance(p, (int, float)):
                new.append(p * s ** d)
            else:
                new.append(p)
        op["pars"] = new
        if cls == "MeasureHomodyne" and op.get("select") is not None:
            op["select"] = op["select"] * s
    return out


def build(sf, spec, name="p", op_cache=None):
    """spec -> sf.Program.  `op_cache` (dict) makes equal operations ONE shared Operation instance, within the program
    and across all programs built with the same cache (`x = Xgate(0.3)` created once and applied many times).
    Ops "Del" / "New" delete / create modes (register with holes: subsystem index != position)."""
    from strawberryfields import ops
    prog = sf.Program(spec["n"], name=name)
    with prog.context as q:
        q = list(q)
        for op in spec["ops"]:
            cls = op["cls"]
            if cls == "Del":
                regs = [q[i] for i in op["regs"]]
                ops.Del | (regs if len(regs) > 1 else regs[0])
                continue
            if cls == "New":
                q += list(ops.New(len(op["regs"])))
                continue
            kw = dict(op.get("kw", {}))
            pars = []
            for p in op.get("pars", []):
                if isinstance(p, dict) and "m" in p:
                    k = p.get("k", 1)
                    v = q[p["m"]].par
                    pars.append(v if k == 1 else k * v)
                else:
                    pars.append(p)
            key = None
            if op_cache is not None and not any(isinstance(p, dict) for p in op.get("pars", [])):
                key = repr((cls, op.get("pars"), sorted(kw.items(), key=str), bool(op.get("dagger")), op.get("select")))
            if key is not None and key in op_cache:
                o = op_cache[key]
            else:
                if cls == "Gaussian":
                    o = ops.Gaussian(np.array(pars[0], dtype=float), np.array(pars[1], dtype=float), **kw)
                elif cls == "Bosonic":
                    o = ops.Bosonic(np.array(pars[0], dtype=complex), np.array(pars[1], dtype=complex),
                                    np.array(pars[2], dtype=complex))
                elif cls == "MeasureHeterodyne":
                    sel = op.get("select")
                    o = ops.MeasureHeterodyne(select=None if sel is None else complex(sel[0], sel[1]))
                elif cls in ("MeasureHomodyne",):
                    o = ops.MeasureHomodyne(pars[0], select=op.get("select"))
                else:
                    o = getattr(ops, cls)(*pars, **kw)
                if op.get("dagger"):
                    o = o.H
                if key is not None:
                    op_cache[key] = o
            regs = [q[i] for i in op["regs"]]
            o | (regs if len(regs) > 1 else regs[0])
    return prog


def final_modes(spec):
    """number of modes of the returned state (after Del / New)"""
    n = spec["n"]
    for op in spec["ops"]:
        if op["cls"] == "Del":
            n -= len(op["regs"])
        elif op["cls"] == "New":
            n += len(op["regs"])
    return n


def with_holes(rng, spec):
    """insert `Del` of a mode after its last use, and possibly a `New` mode that is then squeezed / displaced by an
    hbar-reading gate / measured: subsystem index != position in the register and in the state object"""
    n = spec["n"]
    if n < 2:
        return spec
    ops_ = [dict(o) for o in spec["ops"]]
    d = rng.randrange(n)
    last = -1
    for i, o in enumerate(ops_):
        wires = list(o["regs"]) + [p["m"] for p in o.get("pars", []) if isinstance(p, dict) and "m" in p]
        if d in wires:
            last = i
    t = rng.randint(last + 1, len(ops_))
    ops_.insert(t, dict(cls="Del", regs=[d], pars=[]))
    if rng.random() < 0.6:
        t2 = rng.randint(t + 1, len(ops_))
        ops_.insert(t2, dict(cls="New", regs=[n], pars=[]))
        extra = [dict(cls="Sgate", regs=[n], pars=[0.25, 0.4]),
                 dict(cls=rng.choice(["Xgate", "Zgate"]), regs=[n], pars=[round(rng.uniform(-0.6, 0.6), 2)])]
        others = [m for m in range(n) if m != d]
        if others and rng.random() < 0.6:
            extra.append(dict(cls="BSgate", regs=[n, rng.choice(others)], pars=[0.7, 0.3]))
        if others and rng.random() < 0.4:
            extra.append(dict(cls="MeasureHomodyne", regs=[rng.choice(others)], pars=[0.0],
                              select=round(rng.uniform(-0.5, 0.5), 2)))
        for e in extra:
            t2 = rng.randint(t2 + 1, len(ops_))
            ops_.insert(t2, e)
    out = dict(spec)
    out["ops"] = ops_
    return out


def run(sf, spec2, backend, h, seed=0, op_cache=None):
    """run the hbar = 2 spec, rescaled to hbar = h, on `backend` with sf.hbar = h.  Returns (result, state)."""
    sf.hbar = h
    try:
        spec = rescale_spec(spec2, h) if h != 2 else spec2
        prog = build(sf, spec, op_cache=op_cache)
        opts = {}
        name = backend
        if backend.startswith("fock"):
            name = "fock"
            opts = dict(cutoff_dim=spec2.get("cutoff", 6), pure=(backend != "fock-mixed"))
        eng = sf.Engine(name, backend_options=opts)
        np.random.seed(seed)
        res = eng.run(prog)
        return res, res.state
    except Exception:
        sf.hbar = 2
        raise


# ---------------------------------------------------------------- observation plans

def _c(z):
    z = complex(z)
    return [z.real, z.imag]


def _arr(a):
    """every answer as a float array with a trailing (re, im) axis (np.real_if_close makes the dtype data dependent)"""
    a = np.asarray(a)
    if a.dtype == object:
        a = a.astype(complex)
    return np.stack([a.real, a.imag if np.iscomplexobj(a) else np.zeros(a.shape)], axis=-1).astype(float)


def observe(sf, st, call, h):
    """evaluate one call of the plan on a state object created at hbar = h; the answer is normalised to the
    value the same call must give at hbar = 2 (numpy array / float / bool / str for an exception class)"""
    s = s_of(h)
    m = call["m"]
    try:
        if m == "means":
            return _arr(st.means()) / s
        if m == "cov":
            return _arr(st.cov()) / s ** 2
        if m == "covs":
            return _arr(st.covs()) / s ** 2
        if m == "weights":
            return _arr(st.weights())
        if m == "reduced_gaussian":
            mu, V = st.reduced_gaussian(list(call["modes"]))
            return np.concatenate([_arr(mu).ravel() / s, _arr(V).ravel() / s ** 2])
        if m == "reduced_bosonic":
            w, mu, V = st.reduced_bosonic(list(call["modes"]))
            return np.concatenate([_arr(w).ravel(), _arr(mu).ravel() / s, _arr(V).ravel() / s ** 2])
        if m == "displacement":
            return _arr(st.displacement(call.get("modes")))
        if m == "squeezing":
            # (r, phi) = (arccosh(tr/2)/2, -arcsin(...)): arccosh is ill-conditioned at r = 0 and arcsin at |phi| = pi/2,
            # and phi is 0/0 for r = 0.  Compare r and sin(phi) (for r > 1e-4) - with METHOD_TOL["squeezing"]
            sq = np.array(st.squeezing(call.get("modes")), dtype=float)
            # a vacuum mode has tr/2 = 1 - 1e-16 at some hbar values: arccosh gives nan there, i.e. r = 0 up to rounding;
            # a mode squeezed along phi = +-pi/2 has |arcsin argument| = 1 + 1e-16 at some hbar values: nan again, the
            # comparison treats a nan phase as a wildcard (`answers_differ(..., nan_wild=True)`)
            r = np.nan_to_num(sq[:, 0], nan=0.0)
            return _arr(np.stack([r, np.where(r > 1e-4, np.sin(sq[:, 1]), 0.0)], axis=-1))
        if m == "is_coherent":
            return bool(st.is_coherent(call["mode"]))
        if m == "is_squeezed":
            return bool(st.is_squeezed(call["mode"]))
        if m == "is_pure":
            return bool(st.is_pure)
        if m == "mean_photon":
            return _arr(np.array(st.mean_photon(call["mode"])))
        if m == "number_expectation":
            return _arr(np.array(st.number_expectation(list(call["modes"]))))
        if m == "parity_expectation":
            return _arr(np.array(st.parity_expectation(list(call["modes"]))))
        if m == "fidelity_vacuum":
            return _arr(np.array(st.fidelity_vacuum()))
        if m == "fidelity_coherent":
            return _arr(np.array(st.fidelity_coherent([complex(a, b) for a, b in call["alpha"]])))
        if m in ("fock_prob", "reduced_dm", "dm") and getattr(st, "num_weights", 1) > MAX_WEIGHTS_FOCK:
            return "skipped"       # thewalrus per-component Fock routines: seconds per call
        if m == "fock_prob":
            return _arr(np.array(st.fock_prob(list(call["n"]), cutoff=call.get("cutoff", 8))))
        if m == "all_fock_probs":
            return _arr(st.all_fock_probs(cutoff=call.get("cutoff", 4)))
        if m == "reduced_dm":
            return _arr(st.reduced_dm(list(call["modes"]), cutoff=call.get("cutoff", 4)))
        if m == "dm":
            return _arr(st.dm(cutoff=call.get("cutoff", 4)))
        if m == "ket":
            k = st.ket(cutoff=call.get("cutoff", 4))
            return "None" if k is None else _arr(k)
        if m == "trace":
            return _arr(np.array(st.trace()))
        if m == "purity":
            return _arr(np.array(st.purity()))
        if m == "quad_expectation":
            mean, var = st.quad_expectation(call["mode"], call.get("phi", 0.0))
            return _arr(np.array([mean / s, var / s ** 2]))
        if m == "poly_quad_expectation":
            A = None if call.get("A") is None else np.array(call["A"], dtype=float) / s ** 2
            d = None if call.get("d") is None else np.array(call["d"], dtype=float) / s
            mean, var = st.poly_quad_expectation(A, d, call.get("k", 0.0), phi=call.get("phi", 0.0))
            return _arr(np.array([mean, var]))
        if m == "wigner":
            xv, pv = np.array(call["x"]) * s, np.array(call["p"]) * s
            return _arr(st.wigner(call["mode"], xv, pv)) * s ** 2
        if m == "marginal":
            xv = np.array(call["x"]) * s
            return _arr(st.marginal(call["mode"], xv, call.get("phi", 0.0))) * s
        if m == "x_quad_values":
            xv, pv = np.array(call["x"]) * s, np.array(call["p"]) * s
            return _arr(st.x_quad_values(call["mode"], xv, pv)) * s
        if m == "p_quad_values":
            xv, pv = np.array(call["x"]) * s, np.array(call["p"]) * s
            return _arr(st.p_quad_values(call["mode"], xv, pv)) * s
        if m == "hbar":
            return _arr(np.array(st.hbar / h))
    except NotImplementedError:
        return "NotImplementedError"
    except ValueError as e:
        return "ValueError"
    except Exception as e:  # noqa: BLE001  an exception of the code under test is an answer, not a harness crash
        return "raised:" + type(e).__name__
    raise KeyError(m)


def answers_differ(a, b, tol=1e-9, nan_wild=False):
    """None if equal (to tol * scale) else a short description"""
    if nan_wild and not isinstance(a, (str, bool)) and not isinstance(b, (str, bool)):
        a, b = np.array(a, dtype=float), np.array(b, dtype=float)
        if a.shape == b.shape:
            wild = np.isnan(a) | np.isnan(b)
            a[wild] = 0.0
            b[wild] = 0.0
    if isinstance(a, str) or isinstance(b, str):
        return None if (isinstance(a, str) and isinstance(b, str) and a == b) else f"{a!r} vs {b!r}"
    if isinstance(a, bool) or isinstance(b, bool):
        return None if a == b else f"{a} vs {b}"
    a, b = np.asarray(a, dtype=float), np.asarray(b, dtype=float)
    if a.shape != b.shape:
        return f"shape {a.shape} vs {b.shape}"
    if a.size == 0:
        return None
    if not (np.all(np.isfinite(a)) and np.all(np.isfinite(b))):
        if np.array_equal(np.isnan(a), np.isnan(b)) and np.allclose(np.nan_to_num(a), np.nan_to_num(b), atol=tol, rtol=tol):
            return None
        return "non-finite values differ"
    scale = max(1.0, float(np.max(np.abs(b))))
    d = float(np.max(np.abs(a - b)))
    if d > tol * scale:
        i = int(np.argmax(np.abs(a - b)))
        return f"max diff {d:.3g} (got {a.ravel()[i]:.10g}, hbar=2 gives {b.ravel()[i]:.10g})"
    return None


def grid(rng, k=4):
    return [round(rng.uniform(-2.0, 2.0), 2) for _ in range(k)]


def rand_plan(rng, backend, n, length, fock_cutoff=6):
    """a random sequence of observer calls (repetitions wanted: an observer must not change later answers)"""
    modes = list(range(n))

    def sub():
        k = rng.randint(1, n)
        return sorted(rng.sample(modes, k))

    def one():
        mode = rng.randrange(n)
        phi = rng.choice([0.0, math.pi / 2, round(rng.uniform(-3, 3), 3)])
        alpha = [[round(rng.uniform(-0.6, 0.6), 2), round(rng.uniform(-0.6, 0.6), 2)] for _ in modes]
        if backend == "gaussian":
            pool = ["means", "cov", "reduced_gaussian", "displacement", "squeezing", "is_coherent", "is_squeezed",
                    "is_coherent", "is_squeezed", "squeezing", "is_pure",
                    "mean_photon", "number_expectation", "parity_expectation", "fidelity_vacuum", "fidelity_coherent",
                    "fock_prob", "all_fock_probs", "reduced_dm", "quad_expectation", "poly_quad_expectation", "wigner",
                    "x_quad_values", "hbar", "ket"]
        elif backend == "bosonic":
            pool = ["means", "covs", "weights", "reduced_bosonic", "displacement", "mean_photon", "parity_expectation",
                    "fidelity_vacuum", "fidelity_coherent", "fock_prob", "reduced_dm", "quad_expectation", "wigner",
                    "marginal", "purity", "hbar"]
        else:
            pool = ["mean_photon", "number_expectation", "parity_expectation", "fidelity_vacuum", "fidelity_coherent",
                    "fock_prob", "all_fock_probs", "reduced_dm", "quad_expectation", "quad_expectation",
                    "poly_quad_expectation", "wigner", "wigner", "trace", "x_quad_values", "p_quad_values", "hbar"]
        m = rng.choice(pool)
        if n >= 4 and m in ("ket", "dm"):
            m = "is_pure"                    # 4^n amplitudes and a numba compilation per mode count: keep the decision only
        c = dict(m=m)
        if m in ("is_coherent", "is_squeezed", "mean_photon", "quad_expectation", "wigner", "marginal", "x_quad_values",
                 "p_quad_values"):
            c["mode"] = mode
        if m in ("quad_expectation", "marginal"):
            c["phi"] = phi
        if m in ("wigner", "x_quad_values", "p_quad_values"):
            c["x"], c["p"] = grid(rng, 4), grid(rng, 3)
        if m == "marginal":
            c["x"] = grid(rng, 5)
        if m in ("reduced_gaussian", "reduced_bosonic", "number_expectation", "parity_expectation", "reduced_dm"):
            c["modes"] = sub()
            if m == "number_expectation" and n >= 4:
                c["modes"] = c["modes"][:2]
            if m == "reduced_dm":
                c["modes"] = c["modes"][:2]
                c["cutoff"] = 4
        if m in ("displacement", "squeezing") and rng.random() < 0.5:
            c["modes"] = sub()
        if m == "fidelity_coherent":
            c["alpha"] = alpha
        if m == "fock_prob":
            c["n"] = [rng.choice([0, 0, 1, 2]) for _ in modes]
            c["cutoff"] = sum(c["n"]) + 2
        if m == "all_fock_probs":
            c["cutoff"] = 4
            if n >= 3:                       # numba compiles per mode count (20 s for 4 modes): use fock_prob instead
                c = dict(m="fock_prob", n=[rng.choice([0, 0, 1, 2]) for _ in modes])
                c["cutoff"] = sum(c["n"]) + 2
        if m == "poly_quad_expectation":
            N2 = 2 * n
            A = np.zeros((N2, N2))
            act = rng.sample(modes, min(n, rng.choice([1, 1, 2])))
            idx = [a for a in act] + [a + n for a in act]
            for i in idx:
                for j in idx:
                    if i <= j and rng.random() < 0.6:
                        A[i, j] = A[j, i] = rng.randint(-4, 4) / 4
            d = np.zeros(N2)
            for i in idx:
                if rng.random() < 0.6:
                    d[i] = rng.randint(-4, 4) / 4
            u = rng.random()
            c["A"] = A.tolist() if u < 0.8 else None
            c["d"] = d.tolist() if rng.random() < 0.7 else None
            c["k"] = rng.choice([0.0, 0.5, -1.25])
            c["phi"] = rng.choice([0.0, 0.0, round(rng.uniform(-3, 3), 3)])
        return c
    return [one() for _ in range(length)]


# ---------------------------------------------------------------- generators of programs (hbar = 2 units)

def rand_cov(rng, k):
    """a physical k-mode covariance matrix (hbar = 2, xxpp) and a mean vector, from random symplectics on thermal"""
    V = np.diag([1 + 2 * rng.choice([0.0, 0.0, 0.2, 0.5]) for _ in range(k)] * 2).astype(float)
    u = rng.random()
    if u < 0.15:
        pass                                              # thermal / vacuum: diagonal branch of _decompose
    elif u < 0.3:
        for m in range(k):                                 # diagonal pure-or-mixed x-squeezed
            r = round(rng.uniform(0.1, 0.4), 2)
            V[m, m] *= math.exp(-2 * r)
            V[m + k, m + k] *= math.exp(2 * r)
    else:
        X = np.eye(2 * k)
        for _ in range(rng.randint(1, 3)):
            for m in range(k):
                S, _ = sim.gate_symplectic("Sgate", [round(rng.uniform(-0.35, 0.35), 2), sim.angle(rng)])
                E = np.eye(2 * k)
                ix = [m, m + k]
                E[np.ix_(ix, ix)] = S
                X = E @ X
            if k >= 2 and u > 0.5:
                a, b = rng.sample(range(k), 2)
                S, _ = sim.gate_symplectic("BSgate", [round(rng.uniform(0.2, 1.3), 2), sim.angle(rng)])
                E = np.eye(2 * k)
                ix = [a, b, a + k, b + k]
                E[np.ix_(ix, ix)] = S
                X = E @ X
        V = X @ V @ X.T
    V = (V + V.T) / 2
    r = [rng.choice([0.0, round(rng.uniform(-0.6, 0.6), 2)]) for _ in range(2 * k)]
    return V.tolist(), r


def special_op(rng, n, backend, measured):
    """one of the hbar-touching operations (plus feed-forward from a homodyne outcome)"""
    fock = backend.startswith("fock")
    kinds = ["gaussian", "gaussian", "homodyne", "homodyne", "xz", "xz", "p"]
    if fock:
        kinds += ["vgate", "vgate", "vgate"]
    if backend == "bosonic":
        kinds += ["msgate", "msgate"]
    if not fock:
        kinds += ["heterodyne"]
    if measured:
        kinds += ["feed", "feed"]
    if backend == "bosonic" and n == 1:
        # the bosonic back end cannot post-select / measure the only mode of a register (IndexError in
        # reassemble_multi at every hbar): not an hbar matter, keep such programs out
        kinds = [k for k in kinds if k not in ("homodyne", "heterodyne")]
    kind = rng.choice(kinds)
    m = rng.randrange(n)
    if kind == "gaussian":
        k = 1 if (n == 1 or fock or rng.random() < 0.5) else 2
        regs = rng.sample(range(n), k)
        V, r = rand_cov(rng, k)
        op = dict(cls="Gaussian", regs=regs, pars=[V, r])
        if not fock and rng.random() < 0.4:
            op["kw"] = dict(decomp=False)
        return op
    if kind == "homodyne":
        phi = rng.choice([0.0, math.pi / 2, round(rng.uniform(-3, 3), 3)])
        sel = rng.choice([None, 0.0, round(rng.uniform(-0.8, 0.8), 2), round(rng.uniform(-0.8, 0.8), 2)])
        return dict(cls="MeasureHomodyne", regs=[m], pars=[phi], select=sel)
    if kind == "heterodyne":
        return dict(cls="MeasureHeterodyne", regs=[m], pars=[],
                    select=[round(rng.uniform(-0.5, 0.5), 2), round(rng.uniform(-0.5, 0.5), 2)])
    if kind == "xz":
        op = dict(cls=rng.choice(["Xgate", "Zgate"]), regs=[m], pars=[round(rng.uniform(-0.7, 0.7), 2)])
        if rng.random() < 0.3:
            op["dagger"] = True
        return op
    if kind == "p":
        if n >= 2 and rng.random() < 0.6:
            return dict(cls=rng.choice(["CXgate", "CZgate"]), regs=rng.sample(range(n), 2),
                        pars=[round(rng.uniform(-0.4, 0.4), 2)])
        return dict(cls="Pgate", regs=[m], pars=[round(rng.uniform(-0.4, 0.4), 2)])
    if kind == "vgate":
        op = dict(cls="Vgate", regs=[m], pars=[round(rng.uniform(-0.25, 0.25), 3)])
        if rng.random() < 0.3:
            op["dagger"] = True
        return op
    if kind == "msgate":
        return dict(cls="MSgate", regs=[m], pars=[round(rng.uniform(-0.5, 0.5), 2), sim.angle(rng),
                                                  rng.choice([1.0, 1.5]), rng.choice([1.0, 0.9]),
                                                  rng.random() < 0.4])
    # feed-forward of a measured homodyne value
    src = rng.choice(measured)
    others = [i for i in range(n) if i != src]
    tgt = rng.choice(others) if others else src
    cls = rng.choice(["Xgate", "Zgate", "Rgate", "Dgate"] + (["Vgate"] if fock else []))
    k = rng.choice([1, -0.5, 0.7])
    pars = [dict(m=src, k=k)]
    if cls == "Dgate":
        pars.append(sim.angle(rng))
    return dict(cls=cls, regs=[tgt], pars=pars)


def rand_program(rng, backend, n=None):
    fock = backend.startswith("fock")
    if n is None:
        n = rng.choice([1, 1, 2, 2, 3]) if fock else rng.choice([1, 1, 2, 2, 3] if backend == "bosonic" else [1, 1, 2, 2, 3, 3, 4])
    ops = []
    nong = 0
    if backend == "bosonic":
        for m in range(n):
            c = rng.choice(["Catstate", "GKP", "Fock", "none", "none", "none"]) if nong < 2 else "none"
            if c == "GKP" and nong:
                c = "Fock"                    # GKP has ~40 components: keep the tensor product small
            nong += c != "none"
            if c == "Catstate":
                ops.append(dict(cls="Catstate", regs=[m], pars=[round(rng.uniform(0.5, 1.4), 2), sim.angle(rng), rng.choice([0, 1])],
                                kw=dict(representation=rng.choice(["complex", "complex", "real"]))))
            elif c == "GKP":
                ops.append(dict(cls="GKP", regs=[m], pars=[[rng.choice([0.0, math.pi]), 0.0], rng.choice([0.35, 0.5])],
                                kw=dict(ampl_cutoff=1e-3)))
            elif c == "Fock":
                ops.append(dict(cls="Fock", regs=[m], pars=[rng.choice([1, 2])]))
    elif fock and rng.random() < 0.3:
        ops.append(dict(cls="Fock", regs=[rng.randrange(n)], pars=[rng.choice([1, 2])]))
    if n >= 2 and rng.random() < 0.5:
        ops += sim.correlated_prefix(rng, n)
    measured = []
    L = rng.randint(2, 7)
    for _ in range(L):
        if rng.random() < 0.55:
            op = special_op(rng, n, backend, measured)
        else:
            op = sim.rand_gaussian_op(rng, n, thermal_loss=not fock, allow_prep=True)
            if fock and rng.random() < 0.15:
                op = dict(cls="Kgate", regs=[rng.randrange(n)], pars=[round(rng.uniform(-0.4, 0.4), 2)])
        if op["cls"] == "MeasureHomodyne" and op["regs"][0] not in measured:
            measured.append(op["regs"][0])
        if op["cls"] == "MeasureHeterodyne" and op["regs"][0] in measured:
            measured.remove(op["regs"][0])       # q[m].par is now the (complex) heterodyne outcome: not fed forward
        if backend == "bosonic" and op["cls"] in ("Catstate", "GKP", "Fock"):
            continue
        if backend == "bosonic" and nong:
            # sampling a homodyne outcome from a multi-component state is rejection sampling (minutes): post-select
            if op["cls"] == "MeasureHomodyne" and op.get("select") is None:
                op["select"] = round(rng.uniform(-0.8, 0.8), 2)
            if op["cls"] == "MSgate":
                op["pars"][4] = True
        ops.append(op)
    for op in ops:
        # keep parameters away from 0 unless they are 0: thresholds such as `is_pure` (|det V - (hbar/2)^2N| < 1e-10)
        # are absolute and would be crossed at one hbar only by states that are mixed at the 1e-6 level
        if op["cls"] != "Gaussian":
            op["pars"] = [(math.copysign(0.02, p) if isinstance(p, float) and 0 < abs(p) < 0.02 else p) for p in op.get("pars", [])]
    spec = dict(n=n, ops=ops)
    if fock:
        spec["cutoff"] = 7 if n <= 2 else 5
    return spec


def rand_symplectic(rng, k, passes=2):
    X = np.eye(2 * k)
    for _ in range(passes):
        for m in range(k):
            S, _ = sim.gate_symplectic("Sgate", [round(rng.uniform(-0.35, 0.35), 2), sim.angle(rng)])
            E = np.eye(2 * k)
            ix = [m, m + k]
            E[np.ix_(ix, ix)] = S
            X = E @ X
        if k >= 2:
            for _ in range(k - 1):
                a, b = rng.sample(range(k), 2)
                S, _ = sim.gate_symplectic("BSgate", [round(rng.uniform(0.2, 1.3), 2), sim.angle(rng)])
                E = np.eye(2 * k)
                ix = [a, b, a + k, b + k]
                E[np.ix_(ix, ix)] = S
                X = E @ X
    return X


def threshold_program(rng, backend):
    """programs whose states sit near the ABSOLUTE tolerances of the code, in hbar = 2 units, a factor >= 10 away from each:
    `Gaussian.__init__` purity (|det V - 1| < 1e-6), `BaseGaussianState` purity (1e-10), `is_squeezed` (1e-6),
    `is_coherent` (1e-10); 1-6 modes.  Weakly mixed: det V - 1 in [1e-5, 1e-3]; pure: exactly; nearly identity:
    squeezing 5e-6 (squeezed) or 5e-8 (not squeezed, not coherent)."""
    n = rng.choice([1, 2, 3, 3, 4, 5, 6, 6])
    k = n if rng.random() < 0.6 else rng.randint(1, n)
    modes = rng.sample(range(n), k)
    kind = rng.choice(["weakly-mixed", "weakly-mixed", "weakly-mixed", "pure", "thermal-diag", "nearly-identity", "direct"])
    ops = []
    if kind == "direct":
        # the same states prepared gate by gate (state-object thresholds only)
        for m in range(n):
            u = rng.random()
            if u < 0.4:
                ops.append(dict(cls="Thermal", regs=[m], pars=[rng.choice([2.5e-6, 2.5e-5, 2.5e-4])]))
            elif u < 0.7:
                ops.append(dict(cls="Sgate", regs=[m], pars=[rng.choice([5e-6, 5e-8, 0.3]), rng.choice([0.0, 0.7])]))
        for m in range(n - 1):
            if rng.random() < 0.7:
                ops.append(dict(cls="BSgate", regs=[m, m + 1], pars=[round(rng.uniform(0.3, 1.2), 2), sim.angle(rng)]))
    else:
        if kind == "weakly-mixed":
            nbar = [rng.choice([0.0, 2.5e-6, 2.5e-5, 2.5e-4]) for _ in range(k)]
            if not any(nbar):
                nbar[rng.randrange(k)] = rng.choice([2.5e-6, 2.5e-5])
            X = rand_symplectic(rng, k)
        elif kind == "pure":
            nbar = [0.0] * k
            X = rand_symplectic(rng, k)
        elif kind == "thermal-diag":
            nbar = [rng.choice([2.5e-6, 1e-4, 0.3]) for _ in range(k)]
            X = np.eye(2 * k)
        else:
            nbar = [0.0] * k
            X = np.eye(2 * k)
            for m in range(k):
                r = rng.choice([5e-6, 5e-8, 0.0])
                X[m, m], X[m + k, m + k] = math.exp(-r), math.exp(r)
        V = X @ np.diag([1 + 2 * x for x in nbar] * 2) @ X.T
        V = (V + V.T) / 2
        r = [rng.choice([0.0, 0.0, round(rng.uniform(-0.6, 0.6), 2)]) for _ in range(2 * k)]
        ops.append(dict(cls="Gaussian", regs=modes, pars=[V.tolist(), r]))
    for _ in range(rng.randint(0, 3)):
        op = sim.rand_gaussian_op(rng, n, allow_prep=False, allow_channel=False)
        ops.append(op)
    if rng.random() < 0.4:
        ops.append(dict(cls=rng.choice(["Xgate", "Zgate"]), regs=[rng.randrange(n)], pars=[round(rng.uniform(-0.6, 0.6), 2)]))
    return dict(n=n, ops=ops), kind


def is_nontrivial(spec):
    """at least one operation whose front-end code reads hbar"""
    return any(o["cls"] in ("Xgate", "Zgate", "Vgate", "Gaussian", "MeasureHomodyne", "MSgate") for o in spec["ops"])
