"""C15 correspondence: real `ops.py` operations applied to a *recording* back end, and real
`BaseGaussianState` objects, against the Lean model `SFV.Hbar` (driver ops `hbar.compile`, `hbar.result`,
`hbar.state`, `hbar.utils`).  Numbers travel to the model as exact rationals of the floats used."""
import math
from fractions import Fraction

import numpy as np

HBARS = [2.0, 1.0, 0.5, 0.7, 3.0, 4.5, 0.98, 0.1, 10.0]


def fr(x):
    f = Fraction(x)
    return [f.numerator, f.denominator]


def unfr(j):
    return j[0] / j[1]


def circle(rng):
    t = rng.choice([Fraction(0), Fraction(1), Fraction(-1), Fraction(1, 2), Fraction(-1, 3), Fraction(2), Fraction(3, 4),
                    Fraction(-5, 2), None])
    if t is None:
        return -1.0, 0.0
    return float((1 - t * t) / (1 + t * t)), float(2 * t / (1 + t * t))


class Recorder:
    """stands in for a back end: records the API calls it receives, returns scripted measurement values"""

    def __init__(self, q_script=0.625):
        self.calls = []
        self.q = q_script

    def displacement(self, r, phi, mode):
        self.calls.append(dict(call="displacement", r=float(r), c=math.cos(phi), sn=math.sin(phi), k=mode))

    def cubic_phase(self, gamma, mode):
        self.calls.append(dict(call="cubic_phase", gamma=float(gamma), k=mode))

    def prepare_gaussian_state(self, r, V, modes):
        self.calls.append(dict(call="prepare_gaussian_state", r=[float(x) for x in np.ravel(r)],
                               V=[[float(x) for x in row] for row in np.asarray(V)], modes=[int(m) for m in modes]))

    def measure_homodyne(self, phi, mode, shots=1, select=None, **kwargs):
        self.calls.append(dict(call="measure_homodyne", c=math.cos(phi), sn=math.sin(phi),
                               select=None if select is None else float(select), k=mode))
        return np.array([[self.q if select is None else select]])

    def mb_squeeze_single_shot(self, mode, r, phi, r_anc, eta_anc):
        self.calls.append(dict(call="free", g="mb_squeeze_single_shot"))
        return self.q

    def mb_squeeze_avg(self, mode, r, phi, r_anc, eta_anc):
        self.calls.append(dict(call="free", g="mb_squeeze_avg"))

    def rotation(self, phi, mode):
        self.calls.append(dict(call="free", g="rotation"))

    def __getattr__(self, name):
        if name.startswith("_"):
            raise AttributeError(name)

        def rec(*a, **k):
            self.calls.append(dict(call="free", g=name))
        return rec


def apply_real(op, regs, backend):
    """what the engine does with a command: apply it, or decompose it when the class has no `_apply`"""
    try:
        return op.apply(regs, backend)
    except NotImplementedError:
        out = None
        for cmd in op.decompose(regs):
            out = apply_real(cmd.op, cmd.reg, backend)
        return out


def rand_spd(rng, k):
    A = np.array([[rng.randint(-3, 3) / 4 for _ in range(2 * k)] for _ in range(2 * k)])
    V = A @ A.T + np.eye(2 * k)
    return (V + V.T) / 2


def rand_fop(rng, n):
    """(model op dict, builder(ops, h) -> real Operation, regs)"""
    kind = rng.choice(["xgate", "zgate", "vgate", "dgate", "gaussian", "homodyne", "free", "xgate", "zgate", "vgate"])
    k = rng.randrange(n)
    dg = rng.random() < 0.35
    x = rng.choice([0.0, 0.0, rng.randint(-12, 12) / 8, round(rng.uniform(-1.5, 1.5), 3)])
    if kind in ("xgate", "zgate", "vgate"):
        cls = dict(xgate="Xgate", zgate="Zgate", vgate="Vgate")[kind]
        m = dict(cls=kind, x=fr(x), dagger=dg, k=k)
        return m, (lambda ops: (getattr(ops, cls)(x).H if dg else getattr(ops, cls)(x))), [k]
    if kind == "dgate":
        c, sn = circle(rng)
        phi = math.atan2(sn, c)
        c, sn = math.cos(phi), math.sin(phi)
        m = dict(cls="dgate", r=fr(x), c=fr(c), sn=fr(sn), dagger=dg, k=k)
        return m, (lambda ops: (ops.Dgate(x, phi).H if dg else ops.Dgate(x, phi))), [k]
    if kind == "gaussian":
        kk = rng.randint(1, min(n, 2))
        modes = rng.sample(range(n), kk)
        V = rand_spd(rng, kk)
        r = np.array([rng.randint(-8, 8) / 4 for _ in range(2 * kk)])
        m = dict(cls="gaussian", V=[[fr(v) for v in row] for row in V], r=[fr(v) for v in r], modes=modes)
        return m, (lambda ops: ops.Gaussian(V.copy(), r.copy(), decomp=False)), modes
    if kind == "homodyne":
        c, sn = circle(rng)
        phi = math.atan2(sn, c)
        c, sn = math.cos(phi), math.sin(phi)
        sel = rng.choice([None, 0.0, rng.randint(-12, 12) / 8, round(rng.uniform(-1.5, 1.5), 3)])
        m = dict(cls="homodyne", c=fr(c), sn=fr(sn), select=None if sel is None else fr(sel), k=k)
        return m, (lambda ops: ops.MeasureHomodyne(phi, select=sel)), [k]
    m = dict(cls="free", g="rotation")
    return m, (lambda ops: ops.Rgate(0.3)), [k]


def close(a, b, tol=1e-12):
    return abs(a - b) <= tol * max(1.0, abs(a), abs(b))


def calls_equal(model, real, tol=1e-12):
    if len(model) != len(real):
        return False
    for m, r in zip(model, real):
        if m["call"] != r["call"]:
            return False
        if m["call"] == "free":
            if m["g"] != r["g"]:
                return False
            continue
        if m["call"] == "displacement":
            # compare the complex amplitude r e^{i phi} (how (r, phi) are split is the back end's business)
            if m["k"] != r["k"] or not close(unfr(m["r"]) * unfr(m["c"]), r["r"] * r["c"], tol) \
                    or not close(unfr(m["r"]) * unfr(m["sn"]), r["r"] * r["sn"], tol):
                return False
        elif m["call"] == "cubic_phase":
            if m["k"] != r["k"] or not close(unfr(m["gamma"]), r["gamma"], tol):
                return False
        elif m["call"] == "prepare_gaussian_state":
            if m["modes"] != r["modes"] or len(m["r"]) != len(r["r"]):
                return False
            if not all(close(unfr(a), b, tol) for a, b in zip(m["r"], r["r"])):
                return False
            if not all(close(unfr(a), b, tol) for ra, rb in zip(m["V"], r["V"]) for a, b in zip(ra, rb)):
                return False
        elif m["call"] == "measure_homodyne":
            if m["k"] != r["k"] or not close(unfr(m["c"]), r["c"], tol) or not close(unfr(m["sn"]), r["sn"], tol):
                return False
            if (m["select"] is None) != (r["select"] is None):
                return False
            if m["select"] is not None and not close(unfr(m["select"]), r["select"], tol):
                return False
    return True


def frontend_cases(ctx, sf, count):
    """returns list of (request, real_calls, case)"""
    from strawberryfields import ops
    rng = ctx.rng
    out = []
    for it in range(count):
        h = HBARS[it % len(HBARS)]
        hb_ = h if rng.random() < 0.7 else rng.choice([x for x in HBARS if x != h])   # hbar while the objects are built
        s = math.sqrt(h / 2)
        n = rng.randint(1, 4)
        try:
            prog = sf.Program(n)
            rec = Recorder()
            mops, built = [], []
            sf.hbar = hb_
            for _ in range(rng.randint(1, 6)):
                m, build, regs = rand_fop(rng, n)
                built.append((build(ops), regs))
                mops.append(m)
            sf.hbar = h
            for op, regs in built:
                apply_real(op, [prog.register[i] for i in regs], rec)
        finally:
            sf.hbar = 2
        case = dict(hbar=h, hbar_build=hb_, n=n, ops=mops)
        if hb_ == h:
            out.append((dict(op="hbar.compile", s=fr(s), ops=mops), rec.calls, case))
        else:
            out.append((dict(op="hbar.compileAt", s=fr(s), sBuild=fr(math.sqrt(hb_ / 2)), ops=mops), rec.calls, case))
    return out


def decomp_cases(ctx, sf, count):
    """displacement tail of the real `Gaussian(V, r).decompose(...)` applied to the recorder vs `hbar.decomp`"""
    from strawberryfields import ops
    rng = ctx.rng
    out = []
    for it in range(count):
        h = HBARS[it % len(HBARS)]
        s = math.sqrt(h / 2)
        n = rng.randint(1, 3)
        kk = rng.randint(1, min(n, 2))
        modes = rng.sample(range(n), kk)
        u = rng.random()
        if u < 0.3:
            V = np.eye(2 * kk) * (h / 2)                       # vacuum: pure diagonal branch
        elif u < 0.5:
            V = np.diag([1.0 + 2 * rng.choice([0.0, 0.5]) for _ in range(kk)] * 2) * (h / 2)     # thermal branch
        else:
            V = rand_spd(rng, kk) * (h / 2)
        r = np.array([rng.choice([0.0, rng.randint(-8, 8) / 4]) for _ in range(2 * kk)])
        sf.hbar = h
        try:
            prog = sf.Program(n)
            rec = Recorder()
            op = ops.Gaussian(V, r.copy())
            for cmd in op.decompose([prog.register[i] for i in modes]):
                apply_real(cmd.op, cmd.reg, rec)
        finally:
            sf.hbar = 2
        real = [c for c in rec.calls if c["call"] == "displacement"]
        case = dict(hbar=h, modes=modes, r=[float(x) for x in r])
        out.append((dict(op="hbar.decomp", s=fr(s), r=[fr(float(x)) for x in r], modes=modes), real, case))
    return out


# ---------------------------------------------------------------- bosonic and Fock state objects

def bstate_cases(ctx, sf, count):
    from strawberryfields.backends.states import BaseBosonicState
    rng = ctx.rng
    out = []
    q = lambda d=4: Fraction(rng.randint(-6, 6), d)
    for it in range(count):
        h = HBARS[it % len(HBARS)]
        s = math.sqrt(h / 2)
        n = rng.choice([1, 2, 2, 3])
        k = rng.randint(1, 4)
        w = [q(4) for _ in range(k)]
        mus = [[rng.choice([Fraction(0), q()]) for _ in range(2 * n)] for _ in range(k)]
        covs = []
        for _ in range(k):
            A = [[q(2) for _ in range(2 * n)] for _ in range(2 * n)]
            covs.append([[sum(A[i][l] * A[j][l] for l in range(2 * n)) + (1 if i == j else 0) for j in range(2 * n)]
                         for i in range(2 * n)])
        f = lambda x: float(x)
        calls, real = [], []
        sf.hbar = h
        try:
            st = BaseBosonicState((np.array([[f(x) for x in r] for r in mus]), np.array([[[f(x) for x in r] for r in c] for c in covs]),
                                   np.array([f(x) for x in w])), n, k)
            for _ in range(rng.randint(3, 8)):
                m = rng.choice(["meanPhoton", "displacement", "quad", "redIdx"])
                mode = rng.randrange(n)
                if m == "meanPhoton":
                    calls.append(dict(m=m, mode=mode))
                    real.append([complex(x).real for x in st.mean_photon(mode)])
                elif m == "displacement":
                    calls.append(dict(m=m, mode=mode))
                    z = complex(st.displacement([mode])[0])
                    real.append([z.real, z.imag])
                elif m == "quad":
                    c, sn = circle(rng)
                    phi = math.atan2(sn, c)
                    c, sn = math.cos(phi), math.sin(phi)
                    calls.append(dict(m=m, mode=mode, c=fr(c), sn=fr(sn)))
                    a, b = st.quad_expectation(mode, phi)
                    real.append([complex(a).real / s, complex(b).real / s ** 2])
                else:
                    modes = sorted(rng.sample(range(n), rng.randint(1, n)))
                    calls.append(dict(m=m, mode=0, modes=modes))
                    _, mu_red, cov_red = st.reduced_bosonic(list(modes))
                    full = np.asarray(st.means())
                    # the positions of the reduced data inside the full data
                    idx = []
                    for col in range(np.asarray(mu_red).shape[1]):
                        hits = [j for j in range(full.shape[1]) if np.array_equal(full[:, j], np.asarray(mu_red)[:, col])
                                and np.array_equal(np.asarray(st.covs())[:, j, j], np.asarray(cov_red)[:, col, col])]
                        idx.append(hits)
                    real.append(("idx", idx))
        finally:
            sf.hbar = 2
        req = dict(op="hbar.bstate", s=fr(s), n=n, w=[fr(f(x)) for x in w], mu2=[[fr(f(x)) for x in r] for r in mus],
                   cov2=[[[fr(f(x)) for x in r] for r in c] for c in covs], calls=calls)
        case = dict(hbar=h, n=n, k=k, w=[f(x) for x in w], calls=calls)
        out.append((req, real, case))
    return out


def banswers_equal(model, real, tol=1e-9):
    if len(model) != len(real):
        return "length"
    for i, (m, r) in enumerate(zip(model, real)):
        if isinstance(r, tuple) and r[0] == "idx":
            # model: list of indices; real: for each reduced column the candidate positions in the full data
            if len(m) != len(r[1]) or not all(a in hits for a, hits in zip(m, r[1])):
                return f"call {i}: reduced_bosonic indices model {m} real candidates {r[1]}"
            continue
        mv = [unfr(x) for x in m]
        for a, b in zip(mv, r):
            if abs(a - b) > tol * max(1.0, abs(a)):
                return f"call {i}: model {a} real {b}"
    return None


def fockquad_cases(ctx, sf, count):
    from strawberryfields.backends.states import BaseFockState
    from lib import sim
    rng = ctx.rng
    out = []
    for it in range(count):
        h = HBARS[it % len(HBARS)]
        s = math.sqrt(h / 2)
        D = rng.choice([2, 3, 3, 4])
        n = rng.choice([1, 1, 2])
        shape = [D] * (2 * n)
        re = np.array([rng.randint(-4, 4) / 8 for _ in range(D ** (2 * n))]).reshape(shape)
        im = np.array([rng.randint(-4, 4) / 8 for _ in range(D ** (2 * n))]).reshape(shape)
        rho = re + 1j * im
        mode = rng.randrange(n)
        c, sn = circle(rng)
        phi = math.atan2(sn, c)
        c, sn = math.cos(phi), math.sin(phi)
        sf.hbar = h
        try:
            st = BaseFockState(rho.copy(), n, False, D)
            mean, var = st.quad_expectation(mode, phi)
        finally:
            sf.hbar = 2
        red = sim.reduced_dm(rho, n, [mode])
        req = dict(op="hbar.fockquad", s=fr(s), D=D, c=fr(c), sn=fr(sn), sq=[fr(math.sqrt(i)) for i in range(D + 5)],
                   re=[[fr(float(x)) for x in row] for row in red.real], im=[[fr(float(x)) for x in row] for row in red.imag])
        case = dict(hbar=h, D=D, n=n, mode=mode, phi=phi)
        out.append((req, [float(mean), float(var)], case))
    return out


def result_cases(ctx, sf, count):
    """returned values of MeasureHomodyne (no select) and of single-shot MSgate with a scripted back-end value"""
    from strawberryfields import ops
    rng = ctx.rng
    out = []
    for it in range(count):
        h = HBARS[it % len(HBARS)]
        s = math.sqrt(h / 2)
        q = rng.choice([0.0, rng.randint(-12, 12) / 8, round(rng.uniform(-2, 2), 3)])
        sf.hbar = h
        try:
            prog = sf.Program(1)
            rec = Recorder(q)
            hom = float(np.ravel(ops.MeasureHomodyne(0.4).apply([prog.register[0]], rec))[0])
            ms = float(np.ravel(ops.MSgate(0.3, 0.2, 1.0, 1.0, avg=False).apply([prog.register[0]], rec))[0])
            avg = ops.MSgate(0.3, 0.2, 1.0, 1.0, avg=True).apply([prog.register[0]], rec)
        finally:
            sf.hbar = 2
        out.append((dict(op="hbar.result", s=fr(s), q=fr(q)), dict(homodyne=hom, msgate=ms, avg=avg), dict(hbar=h, q=q)))
    return out


# ---------------------------------------------------------------- state objects

def rat_symplectic_cov(rng, n, nbars=(Fraction(0), Fraction(0), Fraction(1, 4), Fraction(1, 2))):
    """rational physical covariance (hbar = 2, xxpp): S D S^T with rational symplectic S"""
    D = [Fraction(1) + 2 * rng.choice(list(nbars)) for _ in range(n)]
    V = [[Fraction(0)] * (2 * n) for _ in range(2 * n)]
    for i in range(n):
        V[i][i] = V[i + n][i + n] = D[i]

    def conj(X):
        nonlocal V
        N2 = 2 * n
        XV = [[sum(X[i][k] * V[k][j] for k in range(N2)) for j in range(N2)] for i in range(N2)]
        V = [[sum(XV[i][k] * X[j][k] for k in range(N2)) for j in range(N2)] for i in range(N2)]

    def eye():
        return [[Fraction(int(i == j)) for j in range(2 * n)] for i in range(2 * n)]

    def cpt():
        t = rng.choice([Fraction(0), Fraction(1), Fraction(1, 2), Fraction(-1, 3), Fraction(2), Fraction(3, 4)])
        return (1 - t * t) / (1 + t * t), 2 * t / (1 + t * t)
    for _ in range(rng.randint(0, 3)):
        for m in range(n):
            u = rng.choice([Fraction(1), Fraction(3, 2), Fraction(2, 3), Fraction(5, 4), Fraction(2)])
            X = eye()
            X[m][m], X[m + n][m + n] = 1 / u, u
            conj(X)
            c, s = cpt()
            X = eye()
            X[m][m], X[m][m + n], X[m + n][m], X[m + n][m + n] = c, -s, s, c
            conj(X)
        if n >= 2:
            a, b = rng.sample(range(n), 2)
            c, s = cpt()
            X = eye()
            for off in (0, n):
                X[a + off][a + off], X[a + off][b + off], X[b + off][a + off], X[b + off][b + off] = c, -s, s, c
            conj(X)
    return V


def state_cases(ctx, sf, count):
    from strawberryfields.backends.states import BaseGaussianState
    rng = ctx.rng
    out = []
    for it in range(count):
        h = HBARS[it % len(HBARS)]
        s = math.sqrt(h / 2)
        n = rng.choice([1, 1, 1, 2, 2, 3])
        V = rat_symplectic_cov(rng, n)
        mu = [rng.choice([Fraction(0), Fraction(rng.randint(-8, 8), 4)]) for _ in range(2 * n)]
        calls, real = [], []
        sf.hbar = h
        try:
            st = BaseGaussianState((np.array([float(x) for x in mu]), np.array([[float(x) for x in row] for row in V])), n)
            for _ in range(rng.randint(3, 10)):
                m = rng.choice(["means", "cov", "reduced", "displacement", "isCoherent", "isSqueezed", "squeezing",
                                "meanPhoton", "quad", "isCoherent", "isSqueezed", "squeezing"])
                mode = rng.randrange(n)
                tol = rng.choice([1.003e-3, 1.0007e-6, 0.25003])
                if m == "means":
                    calls.append(dict(m=m)); real.append(list(np.asarray(st.means()) / s))
                elif m == "cov":
                    calls.append(dict(m=m)); real.append(list(np.ravel(st.cov()) / s ** 2))
                elif m == "reduced":
                    modes = sorted(rng.sample(range(n), rng.randint(1, n)))
                    calls.append(dict(m=m, modes=modes))
                    a, b = st.reduced_gaussian(list(modes))
                    real.append(list(np.asarray(a) / s) + list(np.ravel(b) / s ** 2))
                elif m == "displacement":
                    calls.append(dict(m=m, mode=mode))
                    z = complex(st.displacement([mode])[0])
                    real.append([z.real, z.imag])
                elif m == "isCoherent":
                    calls.append(dict(m=m, mode=mode, tol=fr(tol))); real.append(bool(st.is_coherent(mode, tol)))
                elif m == "isSqueezed":
                    calls.append(dict(m=m, mode=mode, tol=fr(tol))); real.append(bool(st.is_squeezed(mode, tol)))
                elif m == "squeezing":
                    calls.append(dict(m=m, mode=mode))
                    r, phi = st.squeezing([mode])[0]
                    real.append(("squeezing", float(r), float(phi)))
                elif m == "meanPhoton":
                    calls.append(dict(m=m, mode=mode)); real.append([float(x) for x in st.mean_photon(mode)])
                else:
                    c, sn = circle(rng)
                    phi = math.atan2(sn, c)
                    c, sn = math.cos(phi), math.sin(phi)
                    calls.append(dict(m=m, mode=mode, c=fr(c), sn=fr(sn)))
                    a, b = st.quad_expectation(mode, phi)
                    real.append([float(a) / s, float(b) / s ** 2])
        finally:
            sf.hbar = 2
        req = dict(op="hbar.state", s=fr(s), n=n, mu2=[fr(float(x)) for x in mu],
                   cov2=[[fr(float(x)) for x in row] for row in V], calls=calls)
        case = dict(hbar=h, n=n, mu2=[float(x) for x in mu], cov2=[[float(x) for x in row] for row in V], calls=calls)
        out.append((req, real, case))
    return out


def answers_equal(model, real, tol=1e-9):
    """model: list of answers from hbar.state; real: list of the real answers"""
    if len(model) != len(real):
        return "length"
    for i, (m, r) in enumerate(zip(model, real)):
        if isinstance(r, bool):
            if m is not r:
                return f"call {i}: model {m} real {r}"
            continue
        if isinstance(r, tuple) and r[0] == "squeezing":
            tr, c01 = unfr(m[0]), unfr(m[1])
            rr = math.acosh(max(tr / 2, 1.0)) / 2
            if c01 == 0:
                phi = 0.0
            else:
                arg = 2 * c01 / math.sqrt((tr - 2) * (tr + 2)) if (tr - 2) * (tr + 2) > 0 else float("nan")
                phi = -math.asin(max(-1.0, min(1.0, arg))) if arg == arg else float("nan")
            # arccosh near 1 and arcsin near +-1 are ill-conditioned: compare with a matching tolerance
            if abs(rr - r[1]) > 1e-6 or (phi == phi and r[2] == r[2] and abs(phi - r[2]) > 1e-5):
                return f"call {i}: squeezing model ({rr}, {phi}) real ({r[1]}, {r[2]})"
            continue
        mv = [unfr(x) for x in m]
        if len(mv) != len(r):
            return f"call {i}: lengths {len(mv)} vs {len(r)}"
        for a, b in zip(mv, r):
            if abs(a - b) > tol * max(1.0, abs(a)):
                return f"call {i}: model {a} real {b}"
    return None


def pure_cases(ctx, sf, count):
    """the two purity decisions of the code (`Gaussian(V).pure`, tol 1e-6; `BaseGaussianState.is_pure`, tol 1e-10) on states a
    factor >= 10 away from the tolerance in hbar = 2 units, at small and large hbar, vs `hbar.pure`"""
    from strawberryfields import ops
    from strawberryfields.backends.states import BaseGaussianState
    rng = ctx.rng
    out = []
    hbars = [2.0, 0.05, 0.1, 0.25, 0.5, 4.0, 10.0]
    for it in range(count):
        h = hbars[it % len(hbars)]
        s = math.sqrt(h / 2)
        n = rng.choice([1, 1, 2, 2, 3])
        site = "gaussian-op" if it % 2 else "state"
        tiny = Fraction(1, 400000) if site == "gaussian-op" else Fraction(1, 4 * 10 ** 8)    # det - 1 ~ 1e-5 resp. 1e-8
        nb = rng.choice([(Fraction(0),), (Fraction(0), tiny, 10 * tiny), (tiny,), (Fraction(1, 4), Fraction(0))])
        V0 = rat_symplectic_cov(rng, n, nb)
        V0f = np.array([[float(x) for x in row] for row in V0])
        sf.hbar = h
        try:
            if site == "gaussian-op":
                Vh = V0f * (h / 2)
                real = bool(ops.Gaussian(Vh.copy()).pure)
                seen, tol = Vh, 1e-6
            else:
                st = BaseGaussianState((np.zeros(2 * n), V0f.copy()), n)
                real = bool(st.is_pure)
                seen, tol = np.asarray(st.cov()), float(st.EQ_TOLERANCE)
        finally:
            sf.hbar = 2
        req = dict(op="hbar.pure", s=fr(s), tol=fr(tol), V=[[fr(float(x)) for x in row] for row in seen])
        case = dict(hbar=h, n=n, site=site, nbars=[float(x) for x in nb], V0=V0f.tolist())
        out.append((req, real, case))
    return out
