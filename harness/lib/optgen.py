"""Helpers of the C03 check: program specs with matrix-valued / free / measured parameters, a builder,
canonicalisers between real `Command`/`Operation` objects and the model's `Cmd` JSON, generators that make
the optimiser work (runs of same-family operations on a wire, exact and near cancellations, interleavings).

A spec is {"n": modes, "ops": [op]}, an op is
    {"cls": str, "regs": [int], "pars": [par], "dagger": bool, "select": number|None}
and a par is a number, {"m": mode, "k": scale} (k * q[mode].par), {"f": name, "k": scale} (k * free parameter)
or {"mat": [[...]]} (a square matrix; entries numbers or [re, im])."""
from fractions import Fraction

import numpy as np

GATES1 = {"Rgate": 1, "Sgate": 2, "Dgate": 2, "Xgate": 1, "Zgate": 1, "Pgate": 1, "Vgate": 1, "Kgate": 1,
          "Fouriergate": 0}
GATES2 = {"BSgate": 2, "S2gate": 2, "CXgate": 1, "CZgate": 1, "CKgate": 1, "MZgate": 2, "sMZgate": 2}
CHANNELS = {"LossChannel": 1, "ThermalLossChannel": 2}
PREPS = {"Vacuum": 0, "Coherent": 2, "Squeezed": 2, "DisplacedSqueezed": 4, "Thermal": 1, "Fock": 1}
MATRIX = ("Interferometer", "GaussianTransform", "PassiveChannel", "GraphEmbed", "Gaussian")
NON_GAUSSIAN = {"Vgate", "Kgate", "CKgate", "Fock"}
FREE_BASE = 1000  # free parameter j is sent to the model as symbol FREE_BASE + j


def rat(v):
    f = Fraction(float(v))
    return [f.numerator, f.denominator]


def op_deps(op):
    return sorted({p["m"] for p in op.get("pars", []) if isinstance(p, dict) and "m" in p})


def free_names(spec):
    names = []
    for op in spec["ops"]:
        for p in op.get("pars", []):
            if isinstance(p, dict) and "f" in p and p["f"] not in names:
                names.append(p["f"])
    return names


def mat_of(p):
    rows = p["mat"]
    cplx = any(isinstance(x, (list, tuple)) for r in rows for x in r)
    if cplx:
        return np.array([[complex(*x) if isinstance(x, (list, tuple)) else complex(x) for x in r] for r in rows])
    return np.array(rows, dtype=float)


def make_op(op, q=None, free=None, op_cache=None):
    """the real Operation object of a spec op (q / free needed only for measured / free parameters).
    `op_cache` (a dict): operations with equal class, numeric parameters and dagger flag are ONE shared
    instance, within a program and across all programs built with the same cache."""
    from strawberryfields import ops
    key = None
    if op_cache is not None and not any(isinstance(p, dict) and "mat" not in p for p in op.get("pars", [])):
        key = repr((op["cls"], op.get("pars"), op.get("select"), bool(op.get("dagger")), sorted(op.get("kw", {}).items())))
        if key in op_cache:
            return op_cache[key]
    cls = getattr(ops, op["cls"])
    pars = []
    for p in op.get("pars", []):
        if isinstance(p, dict) and "mat" in p:
            pars.append(mat_of(p))
        elif isinstance(p, dict):
            k = p.get("k", 1)
            v = q[p["m"]].par if "m" in p else free[p["f"]]
            pars.append(v if k == 1 else k * v)
        else:
            pars.append(p)
    kw = dict(op.get("kw", {}))
    if op.get("select") is not None:
        kw["select"] = op["select"]
    o = cls(*pars, **kw)
    if op.get("dagger"):
        o = o.H
    if key is not None:
        op_cache[key] = o
    return o


def build(spec, name="p", op_cache=None):
    """spec ops "Del" (regs = modes to delete) and "New" (regs = indices the new modes receive) give registers
    with holes: subsystem index != position in `prog.register`"""
    import strawberryfields as sf
    from strawberryfields import ops
    prog = sf.Program(spec["n"], name=name)
    free = {nm: prog.params(nm) for nm in free_names(spec)}
    with prog.context as q:
        q = list(q)
        for op in spec["ops"]:
            if op["cls"] == "Del":
                regs = [q[i] for i in op["regs"]]
                ops.Del | (regs if len(regs) > 1 else regs[0])
                continue
            if op["cls"] == "New":
                q += list(ops.New(len(op["regs"])))
                continue
            o = make_op(op, q, free, op_cache)
            regs = [q[i] for i in op["regs"]]
            o | (regs if len(regs) > 1 else regs[0])
    return prog, list(prog.circuit)


def with_holes(rng, spec):
    """delete one or two modes somewhere after their last use (the later commands then act on a register whose
    positions differ from the subsystem indices), possibly create new modes afterwards and use them"""
    ops_ = [dict(o) for o in spec["ops"]]
    n = spec["n"]
    if n < 2:
        return spec
    ds = rng.sample(range(n), 2 if (n >= 3 and rng.random() < 0.4) else 1)
    last = -1
    for i, o in enumerate(ops_):
        if set(ds) & set(list(o["regs"]) + op_deps(o)):
            last = i
    t = rng.randint(last + 1, len(ops_))
    ops_.insert(t, dict(cls="Del", regs=ds, pars=[]))
    if rng.random() < 0.6:
        t2 = rng.randint(t + 1, len(ops_))
        new = list(range(n, n + rng.randint(1, 2)))
        ops_.insert(t2, dict(cls="New", regs=new, pars=[]))
        for m in new:
            pos = rng.randint(t2 + 1, len(ops_))
            r = rng.choice([0.25, -0.25, 0.125])
            ops_.insert(pos, dict(cls="Sgate", regs=[m], pars=[r, 0.0]))
            if rng.random() < 0.7:
                ops_.insert(pos + 1, dict(cls="Sgate", regs=[m], pars=[rng.choice([r, -r, 0.125]), 0.0]))
    return dict(n=n, ops=ops_)


# ------------------------------------------------------------------ spec -> model

def par_to_model(p, names):
    """list of model parameters for one spec parameter (a matrix is flattened row-major); None when the
    parameter is outside the model's fragment (complex matrix)"""
    if isinstance(p, dict) and "mat" in p:
        out = []
        for r in p["mat"]:
            for x in r:
                if isinstance(x, (list, tuple)):
                    if x[1] != 0:
                        return None
                    x = x[0]
                out.append(dict(n=rat(x)))
        return out
    if isinstance(p, dict) and "m" in p:
        return [dict(m=p["m"], k=rat(p.get("k", 1)))]
    if isinstance(p, dict):
        return [dict(m=FREE_BASE + names.index(p["f"]), k=rat(p.get("k", 1)))]
    return [dict(n=rat(p))]


def op_to_cmd(op, ident, names):
    pars = []
    cls = {"Del": "_Delete", "New": "_New_modes"}.get(op["cls"], op["cls"])
    src = op.get("pars", [])
    if cls == "Gaussian":      # Gaussian(V, r): only what the merge rule looks at matters (nothing)
        src = src[:1]
    if cls in CHANNELS and src and isinstance(src[0], dict):
        return None             # symbolic channel parameter: products of symbols are outside the fragment
    for p in src:
        m = par_to_model(p, names)
        if m is None:
            return None
        pars.extend(m)
    return dict(id=ident, cls=cls, regs=list(op["regs"]), deps=op_deps(op), pars=pars,
                dagger=bool(op.get("dagger", False)))


def spec_to_cmds(spec):
    names = free_names(spec)
    out = [op_to_cmd(op, i, names) for i, op in enumerate(spec["ops"])]
    return None if any(c is None for c in out) else out


# ------------------------------------------------------------------ real objects -> model

def value_to_model(v, names):
    """canonical model parameters of a real parameter value; raises ValueError outside the fragment"""
    import sympy
    from strawberryfields.parameters import FreeParameter, MeasuredParameter
    if isinstance(v, np.ndarray):
        out = []
        for x in v.reshape(-1):
            if isinstance(x, (complex, np.complexfloating)):
                if x.imag != 0:
                    raise ValueError("complex entry")
                x = x.real
            out.append(dict(n=rat(x)))
        return out
    if isinstance(v, (int, float, np.integer, np.floating)):
        return [dict(n=rat(v))]
    if isinstance(v, (complex, np.complexfloating)):
        if v.imag != 0:
            raise ValueError("complex value")
        return [dict(n=rat(v.real))]
    if isinstance(v, sympy.Expr):
        if v.is_number:
            return [dict(n=rat(float(v)))]
        k, rest = v.as_coeff_Mul()
        if isinstance(rest, MeasuredParameter):
            return [dict(m=rest.regref.ind, k=rat(float(k)))]
        if isinstance(rest, FreeParameter):
            return [dict(m=FREE_BASE + names.index(rest.name), k=rat(float(k)))]
        raise ValueError(f"expression {v} outside the model's fragment")
    if isinstance(v, (bool, np.bool_)):
        return [dict(n=rat(int(v)))]
    raise ValueError(f"parameter of type {type(v).__name__}")


def real_op_to_cmd(op, regs, ident, names):
    pars = []
    src = list(op.p)
    if type(op).__name__ == "Gaussian":
        src = src[:1]
    if type(op).__name__ == "Fouriergate":     # fixed angle pi/2: the spec (and the model) carry no parameter
        src = []
    for v in src:
        pars.extend(value_to_model(v, names))
    deps = sorted(r.ind for r in op.measurement_deps)
    return dict(id=ident, cls=type(op).__name__, regs=list(regs), deps=deps, pars=pars,
                dagger=bool(getattr(op, "dagger", False)))


def strip_id(c):
    return {k: v for k, v in c.items() if k != "id"}


def par_close(p, q, rel=1e-12):
    """model parameter (exact) vs implementation parameter (float64 arithmetic)"""
    if set(p) != set(q):
        return False
    if "m" in p and p["m"] != q["m"]:
        return False
    key = "n" if "n" in p else "k"
    a, b = Fraction(*p[key]), Fraction(*q[key])
    return abs(a - b) <= rel * max(1, abs(a))


def cmd_close(m, r):
    """new commands: same structure, parameters equal up to float64 rounding of sums / products"""
    sm, sr = strip_id(m), strip_id(r)
    pm, pr = sm.pop("pars"), sr.pop("pars")
    return sm == sr and len(pm) == len(pr) and all(par_close(x, y) for x, y in zip(pm, pr))


# ------------------------------------------------------------------ generators

DY = [k / 8 for k in range(-6, 7) if k != 0]


def dy(rng, small=False):
    v = rng.choice(DY)
    return v / 4 if small else v


PI = float(np.pi)
ANGLE_CLASSES = ("Rgate", "BSgate", "MZgate", "sMZgate", "Kgate", "CKgate")
SPECIAL_ANGLES = [PI, -PI, PI / 2, -PI / 2, 2 * PI]


def first_par(rng, cls, small, special=True):
    """first parameter; in a good share of the cases an EXACT special value: 0 for every gate family (the
    Gate contract "p[0] = 0 is the identity" is false for MZgate / sMZgate), pi, -pi, pi/2, 2pi for angles"""
    if special and cls not in ("LossChannel", "ThermalLossChannel"):
        u = rng.random()
        if u < 0.10:
            return 0.0
        if u < 0.17 and cls in ANGLE_CLASSES:
            return rng.choice(SPECIAL_ANGLES)
    if cls in ("LossChannel", "ThermalLossChannel"):
        return rng.choice([1.0, 1.0, 0.5, 0.25, 0.75, 0.875])
    if cls == "Vgate":
        return rng.choice([-1, 1, 2, -2, 3]) / 64
    if cls in ("Kgate", "CKgate"):
        return dy(rng)
    if cls == "Pgate":
        return dy(rng, True)
    if cls in ("Sgate", "S2gate"):
        return dy(rng, True) if small else dy(rng) / 2
    if cls in ("Dgate", "Xgate", "Zgate", "CXgate", "CZgate"):
        return dy(rng, True) if small else dy(rng)
    return dy(rng)


def tail_pars(rng, cls, small):
    if cls in ("BSgate", "MZgate", "sMZgate"):
        return [rng.choice([0.0, 0.0, 0.5, -0.25, 1.0, PI, PI / 2, 2 * PI])]
    if cls in ("Sgate", "Dgate", "S2gate"):
        return [rng.choice([0.0, 0.0, 0.5, -0.25, 1.0])]
    if cls == "ThermalLossChannel":
        return [rng.choice([0.5, 0.5, 1.0, 0.25])]
    return []


def prep_pars(rng, cls, small):
    s = 0.25 if small else 1.0
    if cls == "Coherent":
        return [abs(dy(rng)) * s, rng.choice([0.0, 0.5, -1.0])]
    if cls == "Squeezed":
        return [abs(dy(rng)) * s / 2, rng.choice([0.0, 0.5])]
    if cls == "DisplacedSqueezed":
        return [abs(dy(rng)) * s, rng.choice([0.0, 0.5]), abs(dy(rng)) * s / 2, rng.choice([0.0, 0.25])]
    if cls == "Thermal":
        return [rng.choice([0.0, 0.25, 0.5])]
    if cls == "Fock":
        return [rng.randint(0, 2)]
    return []


REAL_MATS = {
    "Interferometer": [[[1]], [[-1]]],
    "PassiveChannel": [[[1]], [[0.5]], [[-1]], [[0.25]], [[2]]],
    "GaussianTransform": [[[2, 0], [0, 0.5]], [[0.5, 0], [0, 2]], [[1, 1], [0, 1]], [[1, -1], [0, 1]],
                          [[0, 1], [-1, 0]], [[0, -1], [1, 0]], [[1, 0], [0.5, 1]], [[1, 0], [0, 1]]],
    "GraphEmbed": [[[0.25]], [[0.5]], [[0.125]]],
    "Gaussian": [[[1, 0], [0, 1]], [[2, 0], [0, 2]], [[2, 0], [0, 0.5]], [[1.5, 0.5], [0.5, 1.5]]],
}
CPLX_MATS = {"Interferometer": [[[[0, 1]]], [[[0, -1]]], [[[0.6, 0.8]]], [[[0.6, -0.8]]]]}


EXEC_MATS = {"Interferometer": CPLX_MATS["Interferometer"] + [[[1]]],
             "PassiveChannel": [[[1]], [[0.5]], [[-1]], [[0.25]]]}


def matrix_op(rng, cls, w, allow_complex):
    """allow_complex = the spec will be executed: complex unitaries allowed; Interferometer([[-1]]) is
    avoided there because its *decomposition* drops the phase (outside this property), and so is the
    unphysical PassiveChannel([[2]])"""
    if allow_complex and cls in EXEC_MATS:
        m = rng.choice(EXEC_MATS[cls])
    else:
        m = rng.choice(REAL_MATS[cls])
    return dict(cls=cls, regs=[w], pars=[dict(mat=m)])


def gen_spec(rng, n, length, flavour="gaussian", p_sym=0.0, p_measured=0.0, matrices=False, near=True,
             allow_complex=False):
    """random circuit in which neighbouring operations on a wire often belong to the same family.
    flavour: 'gaussian' (runs on the gaussian backend), 'fock' (small parameters, non-Gaussian gates allowed),
    'any' (correspondence only).  With probability p_sym a gate family has ALL its first parameters
    symbolic multiples of one free parameter (so sums stay inside the model's fragment)."""
    small = flavour == "fock"
    g1 = [c for c in GATES1 if flavour != "gaussian" or c not in NON_GAUSSIAN]
    g2 = [c for c in GATES2 if flavour != "gaussian" or c not in NON_GAUSSIAN]
    if flavour == "fock":
        g2 = [c for c in g2 if c not in ("MZgate", "sMZgate")]
    preps = [c for c in PREPS if flavour != "gaussian" or c not in NON_GAUSSIAN]
    sym_classes = {c for c in list(g1) + list(g2) if c != "Fouriergate" and rng.random() < p_sym}
    ops, measured = [], []
    last = {}          # wire -> last op placed on it (template for a follow-up)
    for _ in range(length):
        r = rng.random()
        follow = [w for w in last if w not in measured or True]
        if follow and r < 0.55:
            w = rng.choice(follow)
            prev = last[w]
            op = dict(cls=prev["cls"], regs=list(prev["regs"]), pars=[dict(p) if isinstance(p, dict) else p
                                                                      for p in prev.get("pars", [])])
            cls = op["cls"]
            if cls in GATES1 or cls in GATES2:
                if cls != "Fouriergate":
                    p0 = prev["pars"][0]
                    u = rng.random()
                    if isinstance(p0, dict):
                        if "f" in p0:
                            op["pars"][0] = dict(f=p0["f"], k=(-p0["k"] if u < 0.4 else rng.choice([1, -1, 2, 0.5, -0.5])))
                    else:
                        flip = prev.get("dagger", False)
                        if u < 0.12:
                            pass                      # exact duplicate (one shared instance under op_cache)
                        elif u < 0.4:
                            op["pars"][0] = -p0
                        elif near and u < 0.47:
                            op["pars"][0] = -p0 + 2.0 ** -22
                        else:
                            op["pars"][0] = first_par(rng, cls, small)
                        _ = flip
                    if len(op["pars"]) > 1 and rng.random() < 0.2:
                        op["pars"][1:] = tail_pars(rng, cls, small)
                    # plain gate next to a measured-parameter gate of the same family, in both orders
                    avail = [m for m in measured if m not in op["regs"]]
                    is_meas = isinstance(op["pars"][0], dict) and "m" in op["pars"][0]
                    if is_meas and rng.random() < 0.35:
                        op["pars"][0] = (dict(f="x", k=rng.choice([1, -1, 2, 0.5])) if cls in sym_classes
                                         else first_par(rng, cls, small))
                    elif not is_meas and avail and p_measured > 0 and rng.random() < 0.2 and cls not in sym_classes:
                        op["pars"][0] = dict(m=rng.choice(avail), k=rng.choice([1, 2, 0.5, -1]))
                if rng.random() < 0.3:
                    op["dagger"] = not prev.get("dagger", False)
                elif prev.get("dagger"):
                    op["dagger"] = True
                if (cls in GATES2) and rng.random() < 0.25:
                    op["regs"] = op["regs"][::-1]
            elif cls in CHANNELS:
                u = rng.random()
                op["pars"][0] = first_par(rng, cls, small) if u < 0.8 else (1 - 2.0 ** -21 if near else 1.0)
                if cls == "ThermalLossChannel" and rng.random() < 0.25:
                    op["pars"][1] = rng.choice([0.5, 1.0, 0.25])
            elif cls in PREPS:
                c2 = rng.choice(preps)
                op = dict(cls=c2, regs=[w], pars=prep_pars(rng, c2, small))
            elif cls in MATRIX:
                op = matrix_op(rng, cls if rng.random() < 0.8 else rng.choice(MATRIX), w, allow_complex)
            elif cls.startswith("Measure"):
                op = None
            if op is not None and any(isinstance(p, dict) and "m" in p and p["m"] in op["regs"] for p in op.get("pars", [])):
                op = None
            if op is not None:
                ops.append(op)
                for x in op["regs"]:
                    last[x] = op
                continue
        kinds = ["g1", "g1", "g2", "chan", "prep"] + (["mat"] if matrices else []) + (["meas"] if p_measured > 0 else [])
        kind = rng.choice([k for k in kinds if not (k == "g2" and n < 2)])
        if kind == "g1":
            cls = rng.choice(g1)
            regs = [rng.randrange(n)]
            pars = ([first_par(rng, cls, small)] + tail_pars(rng, cls, small)) if GATES1[cls] else []
        elif kind == "g2":
            cls = rng.choice(g2)
            regs = rng.sample(range(n), 2)
            pars = [first_par(rng, cls, small)] + tail_pars(rng, cls, small)
        elif kind == "chan":
            cls = rng.choice(["LossChannel"] if flavour == "fock" else list(CHANNELS))
            regs = [rng.randrange(n)]
            pars = [first_par(rng, cls, small)] + tail_pars(rng, cls, small)
        elif kind == "prep":
            cls = rng.choice(preps)
            regs = [rng.randrange(n)]
            pars = prep_pars(rng, cls, small)
        elif kind == "mat":
            op = matrix_op(rng, rng.choice(MATRIX), rng.randrange(n), allow_complex)
            ops.append(op)
            last[op["regs"][0]] = op
            continue
        else:
            m = rng.randrange(n)
            op = dict(cls="MeasureHomodyne", regs=[m], pars=[rng.choice([0.0, 0.5])], select=rng.choice([0.25, -0.5, 0.125]))
            ops.append(op)
            if m not in measured:
                measured.append(m)
            last[m] = op
            continue
        op = dict(cls=cls, regs=regs, pars=pars)
        if pars and cls in sym_classes:
            op["pars"][0] = dict(f="x", k=rng.choice([1, -1, 2, 0.5]))
        avail = [m for m in measured if m not in regs]
        if pars and avail and (cls in GATES1 or cls in GATES2) and rng.random() < p_measured:
            op["pars"][0] = dict(m=rng.choice(avail), k=rng.choice([1, 1, 2, 0.5, -1]))
        if (cls in GATES1 or cls in GATES2) and rng.random() < 0.2:
            op["dagger"] = True
        ops.append(op)
        for x in regs:
            last[x] = op
    return dict(n=n, ops=ops)


def with_leading_preps(rng, spec, gaussian=True):
    """make some wires START with a vacuum preparation, or with a preparation pair that merges into one
    (Fock(1); Vac / Coherent; Vac / Vac; Squeezed): "the mode starts in the vacuum anyway" is only true on a fresh engine"""
    lead = []
    for m in range(spec["n"]):
        u = rng.random()
        if u < 0.35:
            lead.append(dict(cls="Vacuum", regs=[m], pars=[]))
        elif u < 0.5:
            first = rng.choice(["Coherent", "Squeezed", "Thermal"] if gaussian else ["Fock", "Coherent"])
            lead.append(dict(cls=first, regs=[m], pars=prep_pars(rng, first, not gaussian)))
            lead.append(dict(cls="Vacuum", regs=[m], pars=[]))
        elif u < 0.58:
            lead.append(dict(cls="Vacuum", regs=[m], pars=[]))
            lead.append(dict(cls="Squeezed", regs=[m], pars=prep_pars(rng, "Squeezed", not gaussian)))
    # interleave the wires at random, keeping the order of the pair on each wire
    groups = {}
    for o in lead:
        groups.setdefault(o["regs"][0], []).append(o)
    fixed = []
    while groups:
        m = rng.choice(list(groups))
        fixed.append(groups[m].pop(0))
        if not groups[m]:
            del groups[m]
    return dict(n=spec["n"], ops=fixed + [dict(o) for o in spec["ops"]])


def pre_segment(rng, n, gaussian=True):
    """a program segment that leaves the register in an entangled, displaced, non-vacuum state"""
    s = 1.0 if gaussian else 0.5
    ops = []
    for m in range(n):
        ops.append(dict(cls="Squeezed", regs=[m], pars=[rng.choice([0.25, 0.375, 0.5]) * s, rng.choice([0.0, 0.5])]))
        ops.append(dict(cls="Dgate", regs=[m], pars=[rng.choice([0.25, 0.5, 0.75]) * s, rng.choice([0.0, 0.25, 1.0])]))
    for m in range(n - 1):
        ops.append(dict(cls="BSgate", regs=[m, m + 1], pars=[rng.choice([0.5, 0.75, 0.375]), rng.choice([0.0, 0.25])]))
    if n == 1 and not gaussian:
        ops.append(dict(cls="Fock", regs=[0], pars=[1]))
        ops.append(dict(cls="Dgate", regs=[0], pars=[0.25, 0.5]))
    return dict(n=n, ops=ops)
