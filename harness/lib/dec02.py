"""Helpers of the C02 check (decompositions): atoms of real command parameters, canonical forms of command lists,
an own builder for programs whose operations carry matrices, documented 2x2 unitaries of the passive gates
(from the docstrings of ops.py, not from SF code) for reconstructing the unitary of an emitted circuit, and the
extension of the independent phase-space reference (`lib.sim`) to sMZgate / Interferometer / GaussianTransform."""
import cmath
import json
import math
from fractions import Fraction

import numpy as np

from lib import sim
from lib.decomp17 import from_json_matrix, to_json_matrix

TWO_PI = 2 * math.pi


def fr(x):
    """exact rational of a float, as [num, den]"""
    f = Fraction(float(x))
    return [f.numerator, f.denominator]


def unfr(p):
    return p[0] / p[1]


def pval(p):
    """numeric value of an operation parameter"""
    from strawberryfields.parameters import par_evaluate
    v = par_evaluate(p)
    return float(np.real(v))


# ------------------------------------------------------------------ atoms

def atoms_of_cmd(cmd):
    """(cls, atoms) of a real Command in the convention of the Lean model"""
    op = cmd.op
    cls = type(op).__name__
    p = [pval(x) for x in op.p] if cls not in MATRIX_CLASSES else []
    c, s, ch, sh = math.cos, math.sin, math.cosh, math.sinh
    if cls == "Dgate":
        return cls, [p[0], c(p[1]), s(p[1])]
    if cls in ("Rgate",):
        return cls, [c(p[0]), s(p[0])]
    if cls in ("Sgate", "Squeezed", "S2gate"):
        return cls, [ch(p[0]), sh(p[0]), c(p[1]), s(p[1])]
    if cls == "BSgate":
        return cls, [c(p[0]), s(p[0]), c(p[1]), s(p[1])]
    if cls in ("MZgate", "sMZgate"):
        return cls, [c(p[0]), s(p[0]), c(p[1]), s(p[1])]
    if cls in ("Xgate", "Zgate", "Kgate"):
        return cls, [p[0]]
    if cls == "Pgate":
        return cls, pgate_atoms(p[0])
    if cls in ("CXgate", "CZgate"):
        return cls, cx_atoms(p[0])
    if cls in ("Fouriergate", "Vacuum"):
        return cls, []
    if cls == "DisplacedSqueezed":
        return cls, [p[0], c(p[1]), s(p[1]), ch(p[2]), sh(p[2]), c(p[3]), s(p[3])]
    return cls, p


def pgate_atoms(sv):
    t = sv / 2
    chv = math.sqrt(1 + t * t)
    return [t, chv, 1 / chv, float(np.sign(t))]


def cx_atoms(sv):
    shv = -sv / 2
    chv = math.sqrt(1 + shv * shv)
    th = 0.5 * math.atan2(-1.0 / chv, -shv / chv)
    return [chv, shv, math.cos(th), math.sin(th)]


def input_atoms(cls, pars):
    """atoms the model takes for an operation with numeric parameters `pars` (computed here, independently of SF)"""
    c, s, ch, sh = math.cos, math.sin, math.cosh, math.sinh
    p = list(pars)
    if cls == "Dgate":
        return [p[0], c(p[1]), s(p[1])]
    if cls == "Rgate":
        return [c(p[0]), s(p[0])]
    if cls in ("Sgate", "S2gate", "Squeezed"):
        return [ch(p[0]), sh(p[0]), c(p[1]), s(p[1])]
    if cls in ("BSgate", "MZgate", "sMZgate"):
        return [c(p[0]), s(p[0]), c(p[1]), s(p[1])]
    if cls in ("Xgate", "Zgate", "Kgate"):
        return [p[0]]
    if cls == "Pgate":
        return pgate_atoms(p[0])
    if cls in ("CXgate", "CZgate"):
        return cx_atoms(p[0])
    if cls in ("Fouriergate", "Vacuum"):
        return []
    if cls == "DisplacedSqueezed":
        return [p[0], c(p[1]), s(p[1]), ch(p[2]), sh(p[2]), c(p[3]), s(p[3])]
    raise KeyError(cls)


def consts(hbar):
    return [fr(math.sqrt(0.5)), fr(math.sqrt(2 * hbar)), fr(1 / math.sqrt(2 * hbar))]


def canon_real(cmds):
    """canonical form of a list of real Commands: [(cls, regs, dagger, atoms)]"""
    out = []
    for cmd in cmds:
        cls, at = atoms_of_cmd(cmd)
        out.append((cls, [r.ind for r in cmd.reg], bool(getattr(cmd.op, "dagger", False)), at))
    return out


def canon_model(js):
    return [(c["cls"], list(c["regs"]), bool(c["dagger"]), [unfr(a) for a in c["atoms"]]) for c in js]


def same_cmds(a, b, tol=1e-9):
    """compare two canonical lists; returns None or a description of the first difference"""
    if len(a) != len(b):
        return f"length {len(a)} vs {len(b)}"
    for i, (x, y) in enumerate(zip(a, b)):
        if x[0] != y[0] or x[1] != y[1] or x[2] != y[2]:
            return f"#{i}: {x[:3]} vs {y[:3]}"
        if len(x[3]) != len(y[3]):
            return f"#{i}: atom count"
        for u, v in zip(x[3], y[3]):
            if abs(u - v) > tol * max(1.0, abs(u)):
                return f"#{i} {x[0]}: atom {u} vs {v}"
    return None


# ------------------------------------------------------------------ programs with matrix parameters

MATRIX_CLASSES = ("Interferometer", "GraphEmbed", "BipartiteGraphEmbed", "GaussianTransform", "Gaussian")


def enc(x):
    if isinstance(x, np.ndarray):
        return dict(mat=to_json_matrix(x))
    return x


def dec(x):
    if isinstance(x, dict) and "mat" in x:
        return from_json_matrix(x["mat"])
    return x


def build_prog(spec, op_cache=None):
    """spec: {n, ops:[{cls, regs, pars, kw, dagger}]} with matrices encoded by `enc`; `{"cls": "Del", "regs": [..]}`
    deletes modes (later ops address the remaining modes by their original index: a register with holes).
    `op_cache` (dict) makes equal operations ONE shared Operation instance within and across programs."""
    import strawberryfields as sf
    from strawberryfields import ops
    prog = sf.Program(spec["n"])
    with prog.context as q:
        for op in spec["ops"]:
            regs = [q[i] for i in op["regs"]]
            if op["cls"] == "Del":
                ops.Del | (regs if len(regs) > 1 else regs[0])
                continue
            key = None
            if op_cache is not None:
                key = json.dumps([op["cls"], op.get("pars", []), op.get("kw", {}), bool(op.get("dagger"))], sort_keys=True, default=str)
            if key is not None and key in op_cache:
                o = op_cache[key]
            else:
                cls = getattr(ops, op["cls"])
                o = cls(*[dec(p) for p in op.get("pars", [])], **{k: dec(v) for k, v in op.get("kw", {}).items()})
                if op.get("dagger"):
                    o = o.H
                if key is not None:
                    op_cache[key] = o
            o | (regs if len(regs) > 1 else regs[0])
    return prog


def run_spec(sf, spec, backend, hbar=2.0, cutoff=8, pure=True, op_cache=None):
    sf.hbar = hbar
    prog = build_prog(spec, op_cache)
    if backend == "fock":
        eng = sf.Engine("fock", backend_options=dict(cutoff_dim=cutoff, pure=pure))
    else:
        eng = sf.Engine(backend)
    return eng.run(prog).state


def expand_spec_real(sf, spec, index):
    """program in which op #index is replaced by what its real `decompose` returns (appended as real commands)"""
    prog0 = build_prog(spec)
    cmds = list(prog0.circuit)
    target = cmds[index]
    kids = target.op.decompose(target.reg)
    prog = sf.Program(spec["n"])
    with prog.context as q:
        for i, c in enumerate(cmds):
            seq = kids if i == index else [c]
            for k in seq:
                regs = [q[r.ind] for r in k.reg]
                k.op | (regs if len(regs) > 1 else regs[0])
    return prog, kids


# ------------------------------------------------------------------ documented unitaries of the passive gates

def u_of(cls, pars, dagger=False):
    """documented unitary (a -> U a) on the gate's own modes"""
    if cls == "Rgate":
        U = np.array([[cmath.exp(1j * pars[0])]])
    elif cls == "Fouriergate":
        U = np.array([[1j]])
    elif cls == "BSgate":
        th, ph = (list(pars) + [math.pi / 4, 0.0][len(pars):])[:2]
        t, r = math.cos(th), cmath.exp(1j * ph) * math.sin(th)
        U = np.array([[t, -np.conj(r)], [r, t]])
    elif cls == "MZgate":
        e, ex = cmath.exp(1j * pars[0]), cmath.exp(1j * pars[1])
        U = 0.5 * np.array([[(e - 1) * ex, 1j * (1 + e)], [1j * (1 + e) * ex, 1 - e]])
    elif cls == "sMZgate":
        sg, dl = (pars[0] + pars[1]) / 2, (pars[0] - pars[1]) / 2
        U = cmath.exp(1j * sg) * np.array([[math.sin(dl), math.cos(dl)], [math.cos(dl), -math.sin(dl)]])
    else:
        raise KeyError(cls)
    return U.conj().T if dagger else U


def circuit_unitary(cmds, n, index_of=None):
    """unitary of a list of real passive Commands on n modes (index_of: RegRef.ind -> position)"""
    W = np.identity(n, dtype=complex)
    for cmd in cmds:
        cls = type(cmd.op).__name__
        idx = [r.ind if index_of is None else index_of[r.ind] for r in cmd.reg]
        if cls == "Interferometer":
            U = np.asarray(cmd.op.p[0], dtype=complex)
        else:
            U = u_of(cls, [pval(x) for x in cmd.op.p], bool(getattr(cmd.op, "dagger", False)))
        E = np.identity(n, dtype=complex)
        E[np.ix_(idx, idx)] = U
        W = E @ W
    return W


def passive_symplectic(U):
    X, Y = np.real(U), np.imag(U)
    return np.block([[X, -Y], [Y, X]])


# ------------------------------------------------------------------ reference extended to the C02 operations

def ref_apply(ref, op, hbar=2.0):
    cls = op["cls"]
    pars = [dec(p) for p in op.get("pars", [])]
    if cls == "sMZgate":
        S = passive_symplectic(u_of("sMZgate", pars, op.get("dagger", False)))
        ref.apply_SYd(op["regs"], S)
        return True
    if cls == "Interferometer":
        ref.apply_SYd(op["regs"], passive_symplectic(np.asarray(pars[0], dtype=complex)))
        return True
    if cls == "GaussianTransform":
        ref.apply_SYd(op["regs"], np.asarray(pars[0], dtype=float))
        return True
    return sim.ref_apply(ref, op, hbar)


def reference(spec, hbar=2.0):
    ref = sim.RefState(spec["n"])
    for op in spec["ops"]:
        if op["cls"] == "Del":
            continue
        if not ref_apply(ref, op, hbar):
            return None
    return ref


def deleted_modes(spec):
    return sorted({m for op in spec["ops"] if op["cls"] == "Del" for m in op["regs"]})


def drop_modes(mom, dead):
    """remove the rows / columns of deleted modes from (alpha, N, M)"""
    if not dead:
        return mom
    a, N, M = mom[:3]
    keep = [i for i in range(len(a)) if i not in dead]
    return (np.asarray(a)[keep], np.asarray(N)[np.ix_(keep, keep)], np.asarray(M)[np.ix_(keep, keep)]) + tuple(mom[3:])


def state_moments(sf, st, backend, hbar):
    if backend == "gaussian":
        return sim.moments_gaussian(st, hbar) + (1.0,)
    if backend == "bosonic":
        return sim.moments_bosonic(st, hbar) + (1.0,)
    return sim.moments_fock(st)
