#!/bin/bash
# runs every claimed check (quick unless TIER is set) and prints one summary line each
cd "$(dirname "$0")/.."
TIER=${TIER:-quick}
for p in $(python3 -c "import json;print(' '.join(c['property_id'] for c in json.load(open('MANIFEST.json'))['checks']))"); do
  out=$(./check $p --tier $TIER 2>&1)
  rc=$?
  echo "$p rc=$rc $(echo "$out" | grep -c '^KNOWN-FINDING') known | $(echo "$out" | grep '^VIOLATION' | head -1) | $(echo "$out" | tail -1 | sed 's/.*evaluations=/evaluations=/')"
done
