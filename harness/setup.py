"""setup_cmd: regenerate translator output and build the Lean library (offline)."""
import sys
from pathlib import Path

sys.path.insert(0, str(Path(__file__).resolve().parent))
from lib import core  # noqa: E402

ok, log, s = core.lean_build()
print(log[-3000:])
print(f"lake build ok={ok} in {s:.0f}s")
sys.exit(0 if ok else 1)
