"""Translator (A) for the decomposition templates of C10 (K5): regenerates lean/SFV/Gen/Templates.lean from
strawberryfields/ops.py (static: `ast`, nothing is imported or executed).

For every class of ops.py whose own `_decompose` is straight-line code — assignments of expressions in
`self.p[i]`, numbers, `np.pi`, `sf.hbar`, `np.sqrt`, `pf.<function>`, the arithmetic operators, operation
constructors and `.H` — followed by `return [Command(<op>, <reg | reg[i]>), …]`, it emits the template as
a list of `TCmd` over holes: `#<i>` for `self.p[i]`, `#pi` for `np.pi`, `#hbar` for `sf.hbar`.
`a - b` is `add a (neg b)`, `a / b` is `mul a (pow b (-1))`, `-a` is `neg a`.
Classes whose `_decompose` does anything else (loops, NumPy linear algebra, keyword options) are listed
in the comment at the end of the generated file and have no template."""
import ast
import os
from fractions import Fraction
from pathlib import Path

VERIF = Path(__file__).resolve().parents[2]
REPO = Path(os.environ.get("SF_REPO", "/repo"))


class Skip(Exception):
    pass


def write_if_changed(path, text):
    path.parent.mkdir(parents=True, exist_ok=True)
    if not path.exists() or path.read_text() != text:
        path.write_text(text)


def lean_num(v):
    f = Fraction(v)
    s = f"{f.numerator}" if f.denominator == 1 else f"{f.numerator}/{f.denominator}"
    return f"(.num ({s}))"


def lean_str(s):
    return '"' + s.replace("\\", "\\\\").replace('"', '\\"') + '"'


class Tr:
    def __init__(self, class_names, ns):
        self.env = {}
        self.class_names = class_names
        self.ns = ns

    # ---- values: ("e", lean_text) expression | ("op", cls, [lean_text], dagger)
    def expr(self, n):
        v = self.val(n)
        if v[0] != "e":
            raise Skip("operation used as a number")
        return v[1]

    def val(self, n):
        if isinstance(n, ast.Constant) and isinstance(n.value, (int, float)) and not isinstance(n.value, bool):
            return ("e", lean_num(n.value))
        if isinstance(n, ast.Name):
            if n.id in self.env:
                return self.env[n.id]
            raise Skip(f"unknown name {n.id}")
        if isinstance(n, ast.Subscript):
            # self.p[i]
            if (isinstance(n.value, ast.Attribute) and n.value.attr == "p" and isinstance(n.value.value, ast.Name)
                    and n.value.value.id == "self" and isinstance(n.slice, ast.Constant) and isinstance(n.slice.value, int)
                    and n.slice.value >= 0):
                return ("e", f'(.free "#{n.slice.value}")')
            raise Skip("subscript")
        if isinstance(n, ast.Attribute):
            if isinstance(n.value, ast.Name) and (n.value.id, n.attr) == ("np", "pi"):
                return ("e", '(.free "#pi")')
            if isinstance(n.value, ast.Name) and (n.value.id, n.attr) == ("sf", "hbar"):
                return ("e", '(.free "#hbar")')
            if n.attr == "H":
                v = self.val(n.value)
                if v[0] == "op":
                    return ("op", v[1], v[2], not v[3])
            raise Skip(f"attribute {n.attr}")
        if isinstance(n, ast.UnaryOp) and isinstance(n.op, ast.USub):
            if isinstance(n.operand, ast.Constant) and isinstance(n.operand.value, (int, float)):
                return ("e", lean_num(-n.operand.value))
            return ("e", f"(.neg {self.expr(n.operand)})")
        if isinstance(n, ast.BinOp):
            a, b = self.expr(n.left), self.expr(n.right)
            if isinstance(n.op, ast.Add):
                return ("e", f"(.add {a} {b})")
            if isinstance(n.op, ast.Sub):
                return ("e", f"(.add {a} (.neg {b}))")
            if isinstance(n.op, ast.Mult):
                return ("e", f"(.mul {a} {b})")
            if isinstance(n.op, ast.Div):
                return ("e", f"(.mul {a} (.pow {b} (.num (-1))))")
            if isinstance(n.op, ast.Pow):
                return ("e", f"(.pow {a} {b})")
            raise Skip("operator")
        if isinstance(n, ast.Call) and not n.keywords:
            f = n.func
            if isinstance(f, ast.Attribute) and isinstance(f.value, ast.Name) and f.value.id == "pf":
                args = [self.expr(a) for a in n.args]
                if len(args) == 1:
                    return ("e", f"(.fn1 {lean_str(f.attr)} {args[0]})")
                if len(args) == 2:
                    return ("e", f"(.fn2 {lean_str(f.attr)} {args[0]} {args[1]})")
                raise Skip("function arity")
            if isinstance(f, ast.Attribute) and isinstance(f.value, ast.Name) and (f.value.id, f.attr) == ("np", "sqrt") \
                    and len(n.args) == 1:
                return ("e", f'(.fn1 "sqrt" {self.expr(n.args[0])})')
            if isinstance(f, ast.Name) and f.id in self.class_names:
                return ("op", f.id, [self.expr(a) for a in n.args], False)
        raise Skip(type(n).__name__)

    def regs(self, n):
        if isinstance(n, ast.Name) and n.id == "reg":
            if self.ns is None:
                raise Skip("whole register of an operation of variable size")
            return list(range(self.ns))
        if (isinstance(n, ast.Subscript) and isinstance(n.value, ast.Name) and n.value.id == "reg"
                and isinstance(n.slice, ast.Constant) and isinstance(n.slice.value, int) and n.slice.value >= 0):
            return [n.slice.value]
        raise Skip("register expression")

    def function(self, fn):
        body = [s for s in fn.body if not (isinstance(s, ast.Expr) and isinstance(s.value, ast.Constant))]
        if not body or not isinstance(body[-1], ast.Return):
            raise Skip("no final return")
        for st in body[:-1]:
            if isinstance(st, ast.Assign) and len(st.targets) == 1 and isinstance(st.targets[0], ast.Name):
                self.env[st.targets[0].id] = self.val(st.value)
            else:
                raise Skip("statement " + type(st).__name__)
        ret = body[-1].value
        if not isinstance(ret, ast.List):
            raise Skip("return value is not a list literal")
        out = []
        for c in ret.elts:
            if not (isinstance(c, ast.Call) and isinstance(c.func, ast.Name) and c.func.id == "Command"
                    and len(c.args) == 2 and not c.keywords):
                raise Skip("list element is not Command(op, reg)")
            op = self.val(c.args[0])
            if op[0] != "op":
                raise Skip("Command of a non-operation")
            regs = self.regs(c.args[1])
            out.append(f"⟨{lean_str(op[1])}, [{', '.join(op[2])}], [{', '.join(map(str, regs))}], "
                       f"{'true' if op[3] else 'false'}⟩")
        return out


def class_ns(classes, name):
    """`ns` found first along the (single-inheritance-first) base chain; default 1 (Operation.ns)"""
    seen = set()
    todo = [name]
    while todo:
        c = todo.pop(0)
        if c in seen or c not in classes:
            continue
        seen.add(c)
        node = classes[c]
        for st in node.body:
            if isinstance(st, ast.Assign) and any(isinstance(t, ast.Name) and t.id == "ns" for t in st.targets):
                return st.value.value if isinstance(st.value, ast.Constant) else None
        todo += [b.id for b in node.bases if isinstance(b, ast.Name)]
    return 1


def main():
    tree = ast.parse((REPO / "strawberryfields" / "ops.py").read_text())
    classes = {n.name: n for n in tree.body if isinstance(n, ast.ClassDef)}
    done, skipped = [], []
    for name, node in classes.items():
        fn = next((s for s in node.body if isinstance(s, ast.FunctionDef) and s.name == "_decompose"), None)
        if fn is None or name == "Operation":
            continue
        try:
            cmds = Tr(set(classes), class_ns(classes, name)).function(fn)
            done.append((name, cmds))
        except Skip as e:
            skipped.append(f"{name}: {e}")
    lines = ["import SFV.Model.Param",
             "/-! generated by harness/gen/gen_templates.py from strawberryfields/ops.py — do not edit -/",
             "namespace SFV.Param", "",
             "/-- `_decompose` of the operations whose decomposition is straight-line code over their parameters -/",
             "def templateTable : List (String × List TCmd) := ["]
    rows = []
    for name, cmds in done:
        rows.append(f"  ({lean_str(name)}, [\n" + ",\n".join("      " + c for c in cmds) + "])")
    lines.append(",\n".join(rows) + "]")
    lines.append("")
    lines.append("def template (cls : String) : Option (List TCmd) := lookupT templateTable cls")
    lines.append("")
    lines.append("def templateNames : List String := [" + ", ".join(lean_str(n) for n, _ in done) + "]")
    lines.append("")
    lines.append("/- no template (not straight-line): " + "; ".join(skipped) + " -/")
    lines.append("end SFV.Param")
    write_if_changed(VERIF / "lean" / "SFV" / "Gen" / "Templates.lean", "\n".join(lines) + "\n")


if __name__ == "__main__":
    main()
