#!/bin/bash
# harness/seedin.sh <Cxx> <tag> <i> : copy a seeded change from the mutant agent's scratch dir and evaluate it
X=$1; tag=$2; i=$3
cd "$(dirname "$0")/.."
dst=seeded/$X-$tag$i
mkdir -p $dst
cp /tmp/m_${X}_${tag}/out/$i/* $dst/ || exit 1
python3 -c "
import json;m=json.load(open('$dst/meta.json')); print('$dst', '|', m.get('title','')[:160])"
python3 harness/seedtest.py $dst "${@:4}" 2>&1 | tail -2 | cut -c1-400
